package rules

import (
	"fmt"
	"go/token"
	"go/types"
	"sort"
	"strings"

	"golang.org/x/tools/go/ssa"

	"verif/checker/eng"
)

func init() {
	register(&Property{
		ID:    "C15",
		Level: "other",
		Explanation: "Decided (structural necessary conditions of structurally lossless Markdown): (R15.1) in each of the seven table writers every cell text that reaches the output passed an escape of '|' and of newline (strings.ReplaceAll chains or a helper that handles both; helpers are checked too); (R15.2) the count of every strings.Repeat(\"#\", n) in the option-taking writers is proven >= 1 and <= 6 at the call, and is clamped by MaxHeadingLevel after the offset was added; (R15.3) DOCX/ODT tables are padded to a column count taken over all rows, not only the first. " +
			"Not decided: that a GFM parser reads back the same grid for merged cells, list nesting and numbering, loss of body text.",
		Rules: []func(*eng.Ctx){deleteInRangeRule("R15.DR", "model", "htmldoc", "pptx", "rag"), truncateAfterHandOutRule("R15.TR", "htmldoc", "docx", "odt", "pptx", "xlsx", "rag", "model"), rulePipeTablesReadBack, ruleCellEscapersEvaluated, ruleChunkBodyWrittenUnconditionally, ruleTableCellOnOneLine, ruleTextlessItemKeepsNestedLists, ruleHeaderRowNotRepeated, ruleContentStylesWin, ruleFirstRowIsLoopStart, loopVarRule("R15.LV", "model", "docx", "odt", "htmldoc", "pptx", "xlsx", "epubdoc"), ruleCellEscape, ruleHeadingClamp, ruleColumnCount, roleRule("R15.R", "model", "docx", "odt", "htmldoc", "pptx"), ruleHeadingBeforeList, ruleRowCellsComplete, ruleListKindPerLevel, ruleIndentFromOwnLevel, ruleSlideTablesNotSkipped, ruleGridFromCells, ruleOneHeaderRow, ruleBytesNotRunes, ruleListLevelsZeroToEight, ruleLevelByILvl},
	})
}

var tableWriters = []string{
	"model.(*Table).ToMarkdown", "docx.(*ParsedTable).ToMarkdown", "odt.(*ParsedTable).ToMarkdown",
	"xlsx.ParsedTable.ToMarkdown", "htmldoc.(*ParsedTable).ToMarkdown", "pptx.(*Table).ToMarkdown",
}

const (
	escPipe = 1
	escNL   = 2
)

// escaperSummary: which of '|' and '\n' a module function func(string) string handles.
func escaperSummary(p *eng.Prog, fn *ssa.Function, cache map[*ssa.Function]int) int {
	if v, ok := cache[fn]; ok {
		return v
	}
	cache[fn] = 0
	if fn == nil || fn.Blocks == nil || fn.Signature.Params().Len() != 1 || fn.Signature.Results().Len() != 1 {
		return 0
	}
	if b, ok := fn.Signature.Results().At(0).Type().Underlying().(*types.Basic); !ok || b.Kind() != types.String {
		return 0
	}
	got := 0
	eng.Instrs(fn, false, func(in ssa.Instruction) {
		for _, op := range in.Operands(nil) {
			if op == nil || *op == nil {
				continue
			}
			// the replacements may be listed in a read-only package-level table the function walks
			if g, ok := (*op).(*ssa.Global); ok && g.Pkg == fn.Pkg {
				// a strings.Replacer made once at package level: the old strings are the even arguments
				if callee, consts, ok := eng.GlobalInitCall(g); ok && callee == "strings.NewReplacer" {
					for i := 0; i+1 < len(consts); i += 2 {
						if consts[i] == "|" && strings.Contains(consts[i+1], "\\") {
							got |= escPipe
						}
						if consts[i] == "\n" {
							got |= escNL
						}
					}
				}
				if strs, ok := eng.GlobalLiteralStrings(g); ok {
					for _, s := range strs {
						if s == "|" {
							got |= escPipe
						}
						if s == "\n" {
							got |= escNL
						}
					}
				}
			}
			if s, ok := eng.ConstString(*op); ok {
				if s == "|" {
					got |= escPipe
				}
				if s == "\n" {
					got |= escNL
				}
			}
			if k, ok := eng.ConstInt(*op); ok {
				if k == '|' {
					got |= escPipe
				}
				if k == '\n' {
					got |= escNL
				}
			}
		}
	})
	// order matters: escaping backslashes AFTER pipes doubles the backslash that was inserted in
	// front of each pipe, which un-escapes the pipe again
	eng.Instrs(fn, false, func(in ssa.Instruction) {
		call, ok := in.(*ssa.Call)
		if !ok || eng.CalleeName(call) != "strings.ReplaceAll" || len(call.Call.Args) != 3 {
			return
		}
		if old, ok := eng.ConstString(call.Call.Args[1]); !ok || old != "\\" {
			return
		}
		for v := range eng.Slice(call.Call.Args[0], func(*ssa.Call) bool { return true }) {
			if prev, ok := v.(*ssa.Call); ok && prev != call && eng.CalleeName(prev) == "strings.ReplaceAll" {
				if o, ok := eng.ConstString(prev.Call.Args[1]); ok && o == "|" {
					got &^= escPipe
				}
			}
		}
	})
	cache[fn] = got
	return got
}

func ruleCellEscape(c *eng.Ctx) {
	const R = "R15.1-CELL-ESCAPE"
	c.Rule(R, "every cell text written by a table Markdown writer passed replacement of '|' and of newline before it reaches the builder/concatenation", 6, 0)
	cache := map[*ssa.Function]int{}
	for _, name := range tableWriters {
		fn := c.P.Func(name)
		if fn == nil {
			c.Undec(R, name, token.NoPos, "anchor not found")
			continue
		}
		// sources: loads of a field named Text of a cell element, or string elements of a [][]string / []string row
		state := map[ssa.Value]int{}
		var work []ssa.Value
		// row/cell writing may be extracted into helpers of the package: the sources of the
		// whole cluster are tracked (the escape helpers themselves receive raw text by design)
		var cluster []*ssa.Function
		for _, h := range eng.Cluster(fn, 2) {
			if h == fn || escaperSummary(c.P, h, cache) == 0 {
				cluster = append(cluster, h)
			}
		}
		srcScan := func(in ssa.Instruction) {
			v, ok := in.(ssa.Value)
			if !ok {
				return
			}
			if b, ok := v.Type().Underlying().(*types.Basic); !ok || b.Kind() != types.String {
				return
			}
			isSrc := false
			if fr, ok := eng.LoadOfField(v); ok && fr.Field == "Text" {
				isSrc = true
			}
			if u, ok := v.(*ssa.UnOp); ok && u.Op == token.MUL {
				if ia, ok := u.X.(*ssa.IndexAddr); ok {
					if st, ok := ia.X.Type().Underlying().(*types.Slice); ok {
						if b, ok := st.Elem().Underlying().(*types.Basic); ok && b.Kind() == types.String {
							isSrc = true // header / cell strings of xlsx tables
						}
					}
				}
			}
			if isSrc {
				state[v] = 0
				work = append(work, v)
			}
		}
		for _, h := range cluster {
			eng.Instrs(h, false, srcScan)
		}
		if len(work) == 0 {
			c.Viol(R, name, fn.Pos(), "no cell text source found: the writer no longer emits cell texts")
			continue
		}
		var leaks []string
		seen := map[ssa.Value]bool{}
		for len(work) > 0 {
			v := work[len(work)-1]
			work = work[:len(work)-1]
			if seen[v] {
				continue
			}
			seen[v] = true
			st := state[v]
			if v.Referrers() == nil {
				continue
			}
			push := func(nv ssa.Value, ns int) {
				if old, ok := state[nv]; !ok || old&ns != old || !seen[nv] {
					if ok {
						ns = old & ns // meet: escapes guaranteed on all incoming values
					}
					state[nv] = ns
					delete(seen, nv)
					work = append(work, nv)
				}
			}
			for _, r := range *v.Referrers() {
				switch x := r.(type) {
				case *ssa.Call:
					cn := eng.CalleeName(x)
					switch {
					case cn == "strings.ReplaceAll" && len(x.Call.Args) == 3 && x.Call.Args[0] == v:
						ns := st
						if old, ok := eng.ConstString(x.Call.Args[1]); ok {
							if old == "\\" {
								ns &^= escPipe // doubles the backslash in front of an already escaped pipe
							}
							if old == "|" {
								ns |= escPipe
							}
							if old == "\n" {
								ns |= escNL
							}
						}
						push(x, ns)
					case cn == "strings.TrimSpace" || cn == "strings.Trim" || cn == "strings.ToValidUTF8":
						push(x, st)
					case strings.HasSuffix(cn, ").WriteString") || strings.HasPrefix(cn, "fmt.Fprint") || strings.HasPrefix(cn, "fmt.Sprint"):
						if st != escPipe|escNL {
							leaks = append(leaks, fmt.Sprintf("%s at %s receives cell text with %s unescaped", cn, c.P.Pos(x.Pos()), missing(st)))
						}
					default:
						if cal := eng.StaticCallee(x); cal != nil && eng.InModule(cal) {
							if es := escaperSummary(c.P, cal, cache); es != 0 {
								push(x, st|es)
								continue
							}
						}
						// other calls (len, comparisons helpers) do not emit text
					}
				case *ssa.BinOp:
					if x.Op == token.ADD {
						if st != escPipe|escNL {
							leaks = append(leaks, fmt.Sprintf("concatenation at %s uses cell text with %s unescaped", c.P.Pos(x.Pos()), missing(st)))
						}
					}
				case *ssa.Phi:
					push(x, st)
				case *ssa.Store:
					// spilled local: follow loads of the same alloc
					if a, ok := x.Addr.(*ssa.Alloc); ok && x.Val == v {
						for _, rr := range *a.Referrers() {
							if ld, ok := rr.(*ssa.UnOp); ok && ld.Op == token.MUL {
								push(ld, st)
							}
						}
					}
				}
			}
		}
		sort.Strings(leaks)
		leaks = dedupStr(leaks)
		if len(leaks) > 0 {
			c.Viol(R, name, fn.Pos(), strings.Join(leaks, "; ")+": a cell containing that character breaks the row into extra columns/lines")
		} else {
			c.Ok(R, name, fn.Pos(), "all cell texts escaped for '|' and newline")
		}
	}
	// the helpers themselves handle both characters
	for _, h := range []string{"model.escapeMarkdownCell", "xlsx.escapeMarkdown", "htmldoc.escapeMarkdown", "pptx.escapeMarkdown"} {
		fn := c.P.Func(h)
		if fn == nil {
			continue
		}
		es := escaperSummary(c.P, fn, cache)
		if es != escPipe|escNL {
			// the replacements may be assembled where the summary does not look (a replacer built by a helper from a
			// table): the helper is evaluated on a text with both characters
			if got, err := eng.NewEvaluator().Call(fn, []any{"a|b\nc"}, 0); err == nil {
				if out, ok := got.(string); ok {
					if strings.Contains(out, "\\|") && !strings.Contains(strings.ReplaceAll(out, "\\|", ""), "|") {
						es |= escPipe
					}
					if !strings.Contains(out, "\n") {
						es |= escNL
					}
				}
			}
		}
		c.Check(es == escPipe|escNL, R, h, fn.Pos(), "handles '|' and newline", "escape helper no longer handles "+missing(es))
	}
}

func missing(st int) string {
	var m []string
	if st&escPipe == 0 {
		m = append(m, "'|'")
	}
	if st&escNL == 0 {
		m = append(m, "newline")
	}
	return strings.Join(m, " and ")
}

// boundedProg is the program the bound prover looks call sites up in.
var boundedProg *eng.Prog

// UseProg tells the shared provers which program is being analysed.
func UseProg(p *eng.Prog) { boundedProg = p }

func sameIntSize(a, b types.Type) bool {
	ba, ok1 := a.Underlying().(*types.Basic)
	bb, ok2 := b.Underlying().(*types.Basic)
	if !ok1 || !ok2 || ba.Info()&types.IsInteger == 0 || bb.Info()&types.IsInteger == 0 {
		return false
	}
	return ba.Kind() == bb.Kind()
}

// boundFacts: is v <= hi (upper=true) or v >= lo proven at the start of block at?
func bounded(fn *ssa.Function, v ssa.Value, k int64, upper bool, at *ssa.BasicBlock, depth int) bool {
	if depth > 6 {
		return false
	}
	if cst, ok := eng.ConstInt(v); ok {
		if upper {
			return cst <= k
		}
		return cst >= k
	}
	// a conversion between integer types of the same size keeps the order (int <-> a named int)
	switch x := v.(type) {
	case *ssa.ChangeType:
		if bounded(fn, x.X, k, upper, at, depth+1) {
			return true
		}
	case *ssa.Convert:
		if sameIntSize(x.X.Type(), x.Type()) && bounded(fn, x.X, k, upper, at, depth+1) {
			return true
		}
	case *ssa.Parameter:
		// a parameter (or receiver) of an unexported helper: bounded when the argument is bounded at every call site
		if obj, ok := fn.Object().(*types.Func); ok && !obj.Exported() && boundedProg != nil {
			idx := -1
			for i, p := range fn.Params {
				if p == x {
					idx = i
				}
			}
			n, all := 0, true
			for _, g := range boundedProg.ModuleFuncs() {
				if g.Pkg != fn.Pkg {
					continue
				}
				for _, ci := range eng.Calls(g, true, func(_ string, ci ssa.CallInstruction) bool { return eng.StaticCallee(ci) == fn }) {
					n++
					args := ci.Common().Args
					if idx < 0 || idx >= len(args) || !bounded(ci.Parent(), args[idx], k, upper, ci.Block(), depth+2) {
						all = false
					}
				}
			}
			if n > 0 && all {
				return true
			}
		}
	}
	// what the type alone says: an unsigned value is >= 0, a byte is <= 255
	if bt, ok := v.Type().Underlying().(*types.Basic); ok && bt.Info()&types.IsUnsigned != 0 {
		if !upper && k <= 0 {
			return true
		}
		if upper && ((bt.Kind() == types.Uint8 && k >= 255) || (bt.Kind() == types.Uint16 && k >= 65535)) {
			return true
		}
	}
	// a widening conversion of an unsigned value keeps value and order
	if cv, ok := v.(*ssa.Convert); ok {
		if st, ok := cv.X.Type().Underlying().(*types.Basic); ok && st.Info()&types.IsUnsigned != 0 && (st.Kind() == types.Uint8 || st.Kind() == types.Uint16 || st.Kind() == types.Uint32) {
			if dt, ok := cv.Type().Underlying().(*types.Basic); ok && dt.Info()&types.IsInteger != 0 && (dt.Kind() == types.Int || dt.Kind() == types.Int64 || dt.Kind() == types.Uint || dt.Kind() == types.Uint64 || (dt.Kind() == types.Int32 && st.Kind() != types.Uint32) || (dt.Kind() == types.Uint32)) {
				if bounded(fn, cv.X, k, upper, at, depth+1) {
					return true
				}
			}
		}
	}
	// len(…) and cap(…) are >= 0
	if call, ok := v.(*ssa.Call); ok && !upper && k <= 0 {
		if bi, ok := call.Call.Value.(*ssa.Builtin); ok && (bi.Name() == "len" || bi.Name() == "cap") {
			return true
		}
	}
	// x % c, x / c, x & c, x >> c with a positive constant c
	if b, ok := v.(*ssa.BinOp); ok {
		if cst, isC := eng.ConstInt(b.Y); isC && cst > 0 && cst < 1<<40 {
			nonNeg := func() bool { return bounded(fn, b.X, 0, false, at, depth+1) }
			switch b.Op {
			case token.REM:
				if upper && cst-1 <= k && (k >= cst-1) {
					return true
				}
				if !upper && k <= 0 && nonNeg() {
					return true
				}
			case token.QUO:
				if upper && k >= 0 && k < 1<<20 && bounded(fn, b.X, (k+1)*cst-1, true, at, depth+1) {
					return true
				}
				if !upper && k <= 0 && nonNeg() {
					return true
				}
			case token.AND:
				if upper && cst <= k {
					return true
				}
				if !upper && k <= 0 {
					return true
				}
			case token.SHR:
				if cst < 40 && upper && k >= 0 && k < 1<<20 && bounded(fn, b.X, ((k+1)<<uint(cst))-1, true, at, depth+1) {
					return true
				}
				if !upper && k <= 0 && nonNeg() {
					return true
				}
			}
		}
	}
	// x + c and x - c
	if b, ok := v.(*ssa.BinOp); ok && (b.Op == token.ADD || b.Op == token.SUB) {
		if cst, isC := eng.ConstInt(b.Y); isC && cst > -(1<<40) && cst < 1<<40 {
			if b.Op == token.SUB {
				cst = -cst
			}
			if bounded(fn, b.X, k-cst, upper, at, depth+1) {
				return true
			}
		}
	}
	// min(x, y) is <= k when one operand is and >= k when both are; max is the dual
	if kind, args, ok := minMaxCall(v); ok {
		bx := bounded(fn, args[0], k, upper, at, depth+1)
		by := bounded(fn, args[1], k, upper, at, depth+1)
		if (kind < 0) == upper {
			return bx || by
		}
		return bx && by
	}
	// the value is computed by a helper of the module (level := adjustedLevel(…)): bounded when
	// every value the helper returns is bounded at its return
	if call, ok := v.(*ssa.Call); ok {
		if h := eng.StaticCallee(call); h != nil && h.Blocks != nil && eng.InModule(h) && h.Signature.Results().Len() == 1 {
			rets := eng.Returns(h)
			all := len(rets) > 0
			for _, r := range rets {
				if !bounded(h, r.Results[0], k, upper, r.Block(), depth+1) {
					all = false
				}
			}
			if all {
				return true
			}
		}
	}
	// one of several results of a helper (cols, colors, rowSize, err := geometry(…)): bounded when it is
	// bounded at every return of the helper that does not return an error
	if ex, ok := v.(*ssa.Extract); ok {
		if call, ok := ex.Tuple.(*ssa.Call); ok {
			if h := eng.StaticCallee(call); h != nil && h.Blocks != nil && eng.InModule(h) {
				rets := eng.Returns(h)
				all, n := true, 0
				for _, r := range rets {
					if k := len(r.Results); k > 0 {
						if _, isErr := r.Results[k-1].Type().Underlying().(*types.Interface); isErr && !eng.IsNilConst(r.Results[k-1]) {
							continue
						}
					}
					if ex.Index >= len(r.Results) {
						all = false
						continue
					}
					n++
					if !bounded(h, r.Results[ex.Index], k, upper, r.Block(), depth+1) {
						all = false
					}
				}
				if all && n > 0 {
					return true
				}
			}
		}
	}
	// int(f) >= 8 is a fact about f when the conversion keeps the value (same-size integer types)
	unconv := func(v ssa.Value) ssa.Value {
		for i := 0; i < 3; i++ {
			switch x := v.(type) {
			case *ssa.ChangeType:
				v = x.X
				continue
			case *ssa.Convert:
				if sameIntSize(x.X.Type(), x.Type()) {
					v = x.X
					continue
				}
			}
			break
		}
		return v
	}
	fact := func(w ssa.Value) func(eng.Fact) bool {
		return func(f eng.Fact) bool {
			op, x, y, ok := f.Cmp()
			if !ok {
				return false
			}
			if ux := unconv(x); ux != x && eng.SameValue(ux, w) {
				x = ux
			}
			if uy := unconv(y); uy != y && eng.SameValue(uy, w) {
				y = uy
			}
			if eng.SameValue(y, w) && !eng.SameValue(x, w) {
				x, y = y, x
				op = eng.Swap(op)
			}
			if !eng.SameValue(x, w) {
				return false
			}
			c, isC := eng.ConstInt(y)
			if !isC {
				// v < w (or v <= w) with w itself bounded where v is used: endBucket < numBuckets, numBuckets <= K
				if depth < 4 && !eng.SameValue(y, v) {
					if upper && (op == token.LSS || op == token.LEQ) {
						kk := k
						if op == token.LSS && kk < 1<<62 {
							kk = k + 1
						}
						return bounded(fn, y, kk, true, at, depth+3)
					}
					if !upper && (op == token.GTR || op == token.GEQ) {
						kk := k
						if op == token.GTR {
							kk = k - 1
						}
						return bounded(fn, y, kk, false, at, depth+3)
					}
				}
				return false
			}
			if upper {
				return (op == token.LEQ && c <= k) || (op == token.LSS && c <= k+1) || (op == token.EQL && c <= k)
			}
			return (op == token.GEQ && c >= k) || (op == token.GTR && c >= k-1) || (op == token.EQL && c >= k)
		}
	}
	if ph, ok := v.(*ssa.Phi); ok {
		all := true
		for i, e := range ph.Edges {
			pred := ph.Block().Preds[i]
			if e == ssa.Value(ph) {
				continue
			}
			// a counter: the phi plus a positive constant never falls below its start (minus: never rises above it)
			if b, ok := e.(*ssa.BinOp); ok && b.X == ssa.Value(ph) && (b.Op == token.ADD || b.Op == token.SUB) {
				if step, isC := eng.ConstInt(b.Y); isC && step > 0 && (b.Op == token.ADD) == !upper {
					continue
				}
			}
			if cst, ok := eng.ConstInt(e); ok {
				if (upper && cst <= k) || (!upper && cst >= k) {
					continue
				}
				all = false
				continue
			}
			// fact about e established on the way to the end of pred (or on the edge pred->phi block)
			m := eng.MustCross(fn, func(ed eng.Edge) bool {
				return eng.AnyEdgeFact(ed, fact(e))
			}, nil)
			edgeOK := m[pred]
			for si, s := range pred.Succs {
				if s == ph.Block() {
					if eng.AnyEdgeFact(eng.Edge{From: pred, Succ: si}, fact(e)) {
						edgeOK = true
					}
				}
			}
			if edgeOK {
				continue
			}
			if bounded(fn, e, k, upper, pred, depth+1) {
				continue
			}
			all = false
		}
		if all {
			return true
		}
	}
	m := eng.MustCross(fn, func(ed eng.Edge) bool {
		return eng.AnyEdgeFact(ed, fact(v))
	}, nil)
	return m[at]
}

func ruleHeadingClamp(c *eng.Ctx) {
	const R = "R15.2-HEADING-CLAMP"
	c.Rule(R, "for every strings.Repeat(\"#\", n) in the docx, odt and rag Markdown writers, n is proven >= 1 and <= 6 at the call; where options apply, the MaxHeadingLevel clamp comes after the offset addition", 5, 0)
	for _, fn := range c.P.ModuleFuncs() {
		if fn.Pkg == nil {
			continue
		}
		sp := eng.ShortPath(fn.Pkg.Pkg.Path())
		if sp != "docx" && sp != "odt" && sp != "rag" {
			continue
		}
		n := 0
		for _, ci := range eng.CallsNamed(fn, false, "strings.Repeat") {
			args := ci.Common().Args
			if s, ok := eng.ConstString(args[0]); !ok || s != "#" {
				continue
			}
			n++
			key := fmt.Sprintf("%s#heading%d", eng.FuncName(fn), n)
			lo := bounded(fn, args[1], 1, false, ci.Block(), 0)
			hi := bounded(fn, args[1], 6, true, ci.Block(), 0)
			var bad []string
			if !lo {
				bad = append(bad, "not proven >= 1 (a heading could lose its marker)")
			}
			if !hi {
				bad = append(bad, "not proven <= 6 (more than six '#' is not an ATX heading)")
			}
			// offset ordering: if the level depends on HeadingLevelOffset, the value compared with MaxHeadingLevel must depend on it too
			dependsOffset := false
			thruMM := func(call *ssa.Call) bool { _, _, ok := minMaxCall(call); return ok }
			hasOffset := func(v ssa.Value) bool {
				for w := range eng.Slice(v, thruMM) {
					if fr, ok := eng.AsField(w); ok && fr.Field == "HeadingLevelOffset" {
						return true
					}
				}
				return false
			}
			dependsOffset = hasOffset(args[1])
			if dependsOffset {
				okMax := false
				eng.Instrs(fn, false, func(in ssa.Instruction) {
					if v, isV := in.(ssa.Value); isV {
						if kind, a, ok := minMaxCall(v); ok && kind < 0 {
							for i := 0; i < 2; i++ {
								if fr, ok := eng.LoadOfField(a[i]); ok && fr.Field == "MaxHeadingLevel" && hasOffset(a[1-i]) {
									okMax = true
								}
							}
						}
					}
					b, ok := in.(*ssa.BinOp)
					if !ok || b.Op != token.GTR {
						return
					}
					if fr, ok := eng.LoadOfField(b.Y); !ok || fr.Field != "MaxHeadingLevel" {
						return
					}
					if hasOffset(b.X) {
						okMax = true
					}
				})
				if !okMax {
					bad = append(bad, "MaxHeadingLevel is not applied to the level after the offset was added")
				}
				// the final <= 6 clamp must also see the offset: the compared value depends on the offset
				okSix := false
				eng.Instrs(fn, false, func(in ssa.Instruction) {
					if v, isV := in.(ssa.Value); isV && in.Block().Dominates(ci.Block()) {
						if kind, a, ok := minMaxCall(v); ok && kind < 0 {
							for i := 0; i < 2; i++ {
								if k, isC := eng.ConstInt(a[i]); isC && k == 6 && hasOffset(a[1-i]) {
									okSix = true
								}
							}
						}
					}
					b, ok := in.(*ssa.BinOp)
					if !ok || b.Op != token.GTR {
						return
					}
					if k, isC := eng.ConstInt(b.Y); !isC || k != 6 {
						return
					}
					if !b.Block().Dominates(ci.Block()) {
						return
					}
					if hasOffset(b.X) {
						okSix = true
					}
				})
				if !okSix {
					bad = append(bad, "the cap at 6 is applied before the offset is added")
				}
			}
			if len(bad) > 0 {
				c.Viol(R, eng.FuncName(fn)+"#heading-level", ci.Pos(), "heading level "+strings.Join(bad, "; "))
			} else {
				c.Ok(R, key, ci.Pos(), "1 <= level <= 6 proven at the call")
			}
		}
	}
}

func ruleColumnCount(c *eng.Ctx) {
	const R = "R15.3-COLUMN-COUNT"
	c.Rule(R, "docx/odt ParsedTable.ToMarkdown pads rows and sizes the delimiter row with a column count accumulated over ALL rows (a loop-carried maximum over pt.Rows)", 2, 0)
	for _, name := range []string{"docx.(*ParsedTable).ToMarkdown", "odt.(*ParsedTable).ToMarkdown"} {
		fn := c.P.Func(name)
		if fn == nil {
			c.Undec(R, name, token.NoPos, "anchor not found")
			continue
		}
		// the values compared as loop bounds: x < colCount
		var bounds []ssa.Value
		eng.Instrs(fn, false, func(in ssa.Instruction) {
			b, ok := in.(*ssa.BinOp)
			if !ok || b.Op != token.LSS {
				return
			}
			if _, isInd := eng.Induction(b.X); !isInd {
				if ph, ok := b.X.(*ssa.Phi); !ok || !isLoopCarried(ph) {
					return
				}
			}
			if call, ok := b.Y.(*ssa.Call); ok {
				if bi, ok := call.Call.Value.(*ssa.Builtin); ok && bi.Name() == "len" {
					return
				}
			}
			if perCellSpan(b.Y, map[ssa.Value]bool{}) {
				// a loop over the columns one cell spans (bounded by that cell's own span) is not a padding loop
				return
			}
			bounds = append(bounds, b.Y)
		})
		okAll := len(bounds) > 0
		for _, bv := range bounds {
			overRows := false
			for v := range eng.Slice(bv, nil) {
				ph, ok := v.(*ssa.Phi)
				if !ok || !isLoopCarried(ph) {
					continue
				}
				// the loop this phi belongs to ranges over the Rows field
				for w := range eng.Slice(ph, nil) {
					if ia, ok := w.(*ssa.IndexAddr); ok {
						if fr, ok := eng.LoadOfField(ia.X); ok && fr.Field == "Rows" {
							if _, isInd := eng.Induction(ia.Index); isInd {
								overRows = true
							}
						}
					}
				}
			}
			if !overRows {
				okAll = false
			}
		}
		c.Check(okAll, R, name+"#column-count", fn.Pos(), "column count is the maximum over all rows", "the padding/delimiter column count is not accumulated over all rows: a later, wider row gets more cells than the header and the table breaks")
	}
}

// perCellSpan reports whether v is computed directly (not through a loop-carried
// accumulator) from a ColSpan field load: the span of the cell at hand.
func perCellSpan(v ssa.Value, seen map[ssa.Value]bool) bool {
	if v == nil || seen[v] {
		return false
	}
	seen[v] = true
	switch x := v.(type) {
	case *ssa.Phi:
		if isLoopCarried(x) {
			return false
		}
		for _, e := range x.Edges {
			if perCellSpan(e, seen) {
				return true
			}
		}
	case *ssa.BinOp:
		return perCellSpan(x.X, seen) || perCellSpan(x.Y, seen)
	case *ssa.UnOp:
		if fr, ok := eng.LoadOfField(x); ok && fr.Field == "ColSpan" {
			return true
		}
	case *ssa.Field:
		return x.X.Type().Underlying().(*types.Struct).Field(x.Field).Name() == "ColSpan"
	}
	return false
}
