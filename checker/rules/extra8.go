package rules

import (
	"fmt"
	"go/token"
	"go/types"
	"sort"
	"strings"

	"golang.org/x/tools/go/ssa"

	"verif/checker/eng"
)

// Round 9 rules.

// ---------------------------------------------------------------------------------------------------------------
// R2.25 no lock is held across a call that can come back to the function that took it.

// R2.25 [C02, C04]
func ruleNoLockAcrossReentry(c *eng.Ctx) {
	const R = "R2.25-NO-LOCK-ACROSS-REENTRY"
	c.Rule(R, "no function that is a member of a recursive cycle of the call graph takes a sync.Mutex or sync.RWMutex and calls another member of its cycle before it has released it (a deferred Unlock releases at return, i.e. after every call): Go's mutexes are not re-entrant, and the object lookup re-enters itself through the parser's reference resolver whenever a stream has an indirect /Length, so such a lock turns that lookup into a hang", 0, 1)
	n := 0
	for _, scc := range eng.RecursiveSCCs(c.P) {
		member := map[*ssa.Function]bool{}
		for _, f := range scc {
			member[f] = true
		}
		for _, fn := range scc {
			if fn.Blocks == nil {
				continue
			}
			var locks []ssa.Instruction
			deferredUnlock := false
			var unlocks []ssa.Instruction
			eng.Instrs(fn, false, func(in ssa.Instruction) {
				ci, ok := in.(ssa.CallInstruction)
				if !ok {
					return
				}
				switch eng.CalleeName(ci) {
				case "sync.(*Mutex).Lock", "sync.(*RWMutex).Lock", "sync.(*RWMutex).RLock":
					locks = append(locks, in)
				case "sync.(*Mutex).Unlock", "sync.(*RWMutex).Unlock", "sync.(*RWMutex).RUnlock":
					if _, isDefer := in.(*ssa.Defer); isDefer {
						deferredUnlock = true
					} else {
						unlocks = append(unlocks, in)
					}
				}
			})
			if len(locks) == 0 {
				continue
			}
			n++
			// a call into the cycle that can run while the lock is held
			var bad []string
			for _, lk := range locks {
				held := eng.ReachableBlocks([]*ssa.BasicBlock{lk.Block()}, func(b *ssa.BasicBlock) bool {
					if deferredUnlock {
						return false
					}
					for _, u := range unlocks {
						if u.Block() == b && b != lk.Block() {
							return true
						}
					}
					return false
				})
				eng.Instrs(fn, false, func(in ssa.Instruction) {
					ci, ok := in.(ssa.CallInstruction)
					if !ok || !held[in.Block()] {
						return
					}
					if _, isDefer := in.(*ssa.Defer); isDefer {
						return
					}
					for _, cal := range c.P.Callees(ci) {
						if member[cal] {
							bad = append(bad, eng.FuncName(cal)+" called at "+c.P.Pos(ci.Pos()))
						}
					}
				})
			}
			bad = dedupStr(bad)
			sort.Strings(bad)
			c.Check(len(bad) == 0, R, eng.FuncName(fn)+"#lock", fn.Pos(), "no member of the function's cycle is called while the lock is held", "the function takes a lock and, still holding it, calls into its own recursive cycle ("+strings.Join(bad, "; ")+"): when the call comes back here the second Lock never returns")
		}
	}
	if n == 0 {
		c.Ok(R, "module#locks", token.NoPos, "no function of a recursive cycle takes a mutex")
	}
}

// ---------------------------------------------------------------------------------------------------------------
// RX.DF a field computed from another field of the same object is recomputed wherever that other field is assigned.

func derivedFieldRule(id string, pkgs ...string) func(*eng.Ctx) {
	return func(c *eng.Ctx) {
		R := id + "-DERIVED-FIELD-FOLLOWS-ITS-SOURCE"
		c.Rule(R, "when a function stores into field D of an object a value it computed from field S of the same object (directly or through a method of the object that reads S), every other function of the package that assigns S to an object of that type also assigns D (or S is assigned only before D is ever computed: both in the same constructor): otherwise D describes an S the object no longer has (an encoding table resolved from the default encoding name before the font's /Encoding was read; a de-duplicated list of the fragments of the previous page)", 0, 1)
		set := map[string]bool{}
		for _, k := range pkgs {
			set[k] = true
		}
		type pair struct{ st, d, s string }
		seen := map[pair]bool{}
		n := 0
		for _, fn := range c.P.ModuleFuncs() {
			if fn.Pkg == nil || fn.Blocks == nil {
				continue
			}
			sp := eng.ShortPath(fn.Pkg.Pkg.Path())
			if !set[sp] && !strings.Contains(sp, eng.PositivePkg) {
				continue
			}
			eng.Instrs(fn, false, func(in ssa.Instruction) {
				st, ok := in.(*ssa.Store)
				if !ok {
					return
				}
				dfr, ok := eng.AsField(st.Addr)
				if !ok {
					return
				}
				// the value is the result of a call (a resolved table, a computed list), not a plain copy
				call, isCall := st.Val.(*ssa.Call)
				if !isCall {
					if ex, isEx := st.Val.(*ssa.Extract); isEx {
						call, isCall = ex.Tuple.(*ssa.Call)
					}
				}
				if !isCall {
					return
				}
				// source fields of the same object: arguments that are loads of its fields, or fields read by a method
				// of the object that is called
				src := map[string]bool{}
				args := eng.ArgsWithRecv(call)
				for _, a := range args {
					if fr, ok := eng.LoadOfField(a); ok && fr.Struct == dfr.Struct && eng.SameValue(fr.Base, dfr.Base) && fr.Field != dfr.Field {
						src[fr.Field] = true
					}
				}
				if cal := eng.StaticCallee(call); cal != nil && eng.InModule(cal) && cal.Signature.Recv() != nil && len(args) > 0 && eng.SameValue(args[0], dfr.Base) {
					reads := map[string]bool{}
					receiverFieldsRead(cal, 0, map[*ssa.Function]bool{}, reads)
					for f := range reads {
						if f != dfr.Field {
							src[f] = true
						}
					}
				}
				for s := range src {
					p := pair{dfr.Struct, dfr.Field, s}
					if seen[p] {
						continue
					}
					seen[p] = true
					n++
					// functions that assign S without assigning D
					var bad []string
					for _, g := range c.P.ModuleFuncs() {
						if g.Blocks == nil || g.Pkg == nil {
							continue
						}
						assignsS, assignsD := token.NoPos, false
						eng.Instrs(g, true, func(i2 ssa.Instruction) {
							s2, ok := i2.(*ssa.Store)
							if !ok {
								return
							}
							f2, ok := eng.AsField(s2.Addr)
							if !ok || f2.Struct != dfr.Struct {
								return
							}
							if f2.Field == s {
								// a composite literal or constructor that builds a fresh object sets every field once
								// (the object is being built: nothing has been computed from it yet)
								if _, fresh := addrRoot(s2.Addr).(*ssa.Alloc); fresh {
									return
								}
								assignsS = s2.Pos()
							}
							if f2.Field == dfr.Field {
								assignsD = true
							}
						})
						if assignsS.IsValid() && !assignsD {
							bad = append(bad, eng.FuncName(g)+" assigns "+s+" at "+c.P.Pos(assignsS))
						}
					}
					sort.Strings(bad)
					if len(bad) > 4 {
						bad = append(bad[:4], fmt.Sprintf("and %d more", len(bad)-4))
					}
					c.Check(len(bad) == 0, R, fmt.Sprintf("%s.%s<-%s", dfr.Struct, dfr.Field, s), st.Pos(), "every assignment of "+s+" also assigns "+dfr.Field, dfr.Field+" is computed from "+s+" in "+eng.FuncName(fn)+", but "+s+" is assigned elsewhere without "+dfr.Field+" being recomputed ("+strings.Join(bad, "; ")+"): "+dfr.Field+" keeps describing the old "+s)
				}
			})
		}
		if n == 0 {
			c.Ok(R, "scope#derived", token.NoPos, "no field is computed from another field of the same object in "+strings.Join(pkgs, ", "))
		}
	}
}

// ---------------------------------------------------------------------------------------------------------------
// R4.14 a failed lookup stays a failure on its way up through the resolving functions.

// R4.14 [C04]
func ruleLookupErrorsPropagate(c *eng.Ctx) {
	const R = "R4.14-LOOKUP-ERRORS-PROPAGATE"
	c.Rule(R, "in reader.(*Reader).Resolve, ResolveReference, ResolveDeep and resolveDeep an error returned by a lookup of the same family (GetObject, Resolve, ResolveReference, resolveDeep) leads, on the branch where it was found non-nil, to a return whose error result is non-nil: a deleted or undefined object is an error for every way of asking, and a caller that swallows it answers 'the reference itself' for one spelling of the question and an error for the other", 3, 0)
	family := map[string]bool{"GetObject": true, "Resolve": true, "ResolveReference": true, "resolveDeep": true, "ResolveDeep": true}
	n := 0
	for _, name := range []string{"reader.(*Reader).Resolve", "reader.(*Reader).ResolveReference", "reader.(*Reader).ResolveDeep", "reader.(*Reader).resolveDeep"} {
		fn := c.P.Func(name)
		if fn == nil {
			c.Undec(R, name, token.NoPos, "anchor not found")
			continue
		}
		for _, h := range eng.Cluster(fn, 1) {
			if h.Pkg != fn.Pkg || (h != fn && h.Parent() != fn) {
				continue
			}
			eng.Instrs(h, true, func(in ssa.Instruction) {
				call, ok := in.(*ssa.Call)
				if !ok {
					return
				}
				cal := eng.StaticCallee(call)
				if cal == nil || cal.Pkg != fn.Pkg || !family[cal.Name()] || cal.Signature.Results().Len() < 2 {
					return
				}
				// the error result
				var errV ssa.Value
				for _, r := range *call.Referrers() {
					if ex, ok := r.(*ssa.Extract); ok && ex.Index == cal.Signature.Results().Len()-1 {
						errV = ex
					}
				}
				n++
				key := fmt.Sprintf("%s#%s@%s", eng.FuncName(in.Parent()), cal.Name(), c.P.Pos(call.Pos()))
				if errV == nil {
					// returned as it is (return r.ResolveReference(ref)), or the error is dropped
					direct := false
					for _, r := range *call.Referrers() {
						if _, isRet := r.(*ssa.Return); isRet {
							direct = true
						}
					}
					c.Check(direct, R, key, call.Pos(), "the result pair is returned as it is", "the error of the lookup is not looked at")
					return
				}
				// every If on errV != nil: the true side returns a non-nil error
				okAll, tested := true, false
				for _, r := range *errV.Referrers() {
					b, ok := r.(*ssa.BinOp)
					if !ok || (b.Op != token.NEQ && b.Op != token.EQL) {
						if _, isRet := r.(*ssa.Return); isRet {
							tested = true
						}
						continue
					}
					iff, isIf := condIf(b)
					if !isIf {
						continue
					}
					tested = true
					side := iff.Block().Succs[0]
					if b.Op == token.EQL {
						side = iff.Block().Succs[1]
					}
					// all returns reachable from the error side without leaving it (stop at the other side's join is not
					// needed: the error side must end in a return of its own)
					for blk := side; blk != nil; {
						last := blk.Instrs[len(blk.Instrs)-1]
						if ret, ok := last.(*ssa.Return); ok {
							vals := eng.ReturnValues(ret) // (through the result cells of a function that defers)
							k := len(vals)
							if k == 0 || eng.IsNilConst(vals[k-1]) {
								okAll = false
							}
							break
						}
						if j, ok := last.(*ssa.Jump); ok {
							_ = j
							// the error side falls through to code shared with the success side: the error is swallowed
							if len(blk.Succs[0].Preds) > 1 {
								okAll = false
								break
							}
							blk = blk.Succs[0]
							continue
						}
						okAll = false
						break
					}
				}
				c.Check(tested && okAll, R, key, call.Pos(), "a failed lookup is returned as a failure", "the error of the lookup is swallowed: on the branch where it is non-nil the function goes on (or returns nil), so a deleted or missing object is answered with a value instead of an error")
			})
		}
	}
	if n == 0 {
		c.Undec(R, "reader#lookups", token.NoPos, "no lookup call found in the resolving functions")
	}
}

// ---------------------------------------------------------------------------------------------------------------
// R1.11 every object parser of the reader can resolve references.

// R1.11 [C01, C04]
func ruleObjectParsersHaveResolver(c *eng.Ctx) {
	const R = "R1.11-OBJECT-PARSERS-HAVE-RESOLVER"
	c.Rule(R, "every core.Parser on which package reader calls ParseIndirectObject has been given the reader as its reference resolver on every path to that call (SetReferenceResolver with a non-nil argument, also when parser and resolver are handed through parameters of unexported functions): an indirect /Length is legal for any stream, object-stream containers included, and a parser without a resolver refuses it, which makes every object stored in that container unreachable", 1, 0)
	n := 0
	var nonNil func(v ssa.Value, depth int) bool
	nonNil = func(v ssa.Value, depth int) bool {
		if eng.IsNilConst(v) || depth > 3 {
			return false
		}
		if mi, ok := v.(*ssa.MakeInterface); ok {
			return nonNil(mi.X, depth+1)
		}
		if par, ok := v.(*ssa.Parameter); ok {
			g := par.Parent()
			if obj, ok := g.Object().(*types.Func); !ok || obj.Exported() {
				return true // the receiver or an argument of the exported entry point
			}
			if len(g.Params) > 0 && g.Params[0] == par && g.Signature.Recv() != nil {
				return true
			}
			pi := -1
			for i, q := range g.Params {
				if q == par {
					pi = i
				}
			}
			sites, all := 0, true
			for _, h := range c.P.ModuleFuncs() {
				if h.Pkg != g.Pkg {
					continue
				}
				for _, ci := range eng.Calls(h, true, func(_ string, ci ssa.CallInstruction) bool { return eng.StaticCallee(ci) == g }) {
					sites++
					args := eng.ArgsWithRecv(ci)
					if pi < 0 || pi >= len(args) || !nonNil(args[pi], depth+1) {
						all = false
					}
				}
			}
			return sites > 0 && all
		}
		return true
	}
	for _, fn := range c.P.ModuleFuncs() {
		if fn.Pkg == nil || fn.Blocks == nil || eng.ShortPath(fn.Pkg.Pkg.Path()) != "reader" {
			continue
		}
		for _, ci := range eng.CallsNamed(fn, true, "core.(*Parser).ParseIndirectObject") {
			n++
			parser := eng.ArgsWithRecv(ci)[0]
			ok := false
			for _, set := range eng.CallsNamed(ci.Parent(), false, "core.(*Parser).SetReferenceResolver") {
				args := eng.ArgsWithRecv(set)
				if !eng.SameValue(args[0], parser) {
					continue
				}
				before := set.Block() == ci.Block() || set.Block().Dominates(ci.Block())
				if before && nonNil(args[1], 0) {
					ok = true
				}
			}
			c.Check(ok, R, fmt.Sprintf("%s#parse@%s", eng.FuncName(ci.Parent()), c.P.Pos(ci.Pos())), ci.Pos(), "the parser has a resolver on every path", "the object is parsed by a parser that was not given a reference resolver on every path (or was given nil by one caller): a stream whose /Length is an indirect reference cannot be read there")
		}
	}
	if n == 0 {
		c.Undec(R, "reader#parsers", token.NoPos, "no ParseIndirectObject call found in package reader")
	}
}

// ---------------------------------------------------------------------------------------------------------------
// R10.17 Close forgets only what it closed.

// R10.17 [C10, C03]
func ruleCloseClearsOnlyOwned(c *eng.Ctx) {
	const R = "R10.17-CLOSE-CLEARS-ONLY-OWNED"
	c.Rule(R, "tabula.(*Extractor).Close sets readerOpened to false only where ownsReader was found true: an extractor that borrows its reader (FromReader, the copies of an HTML-string extractor) has nothing to re-open, and every terminal operation ends in Close, so clearing the flag there makes the second operation on such an extractor fail with 'no filename specified' although the first one worked", 1, 0)
	fn := c.P.Func("tabula.(*Extractor).Close")
	if fn == nil {
		c.Undec(R, "tabula.(*Extractor).Close", token.NoPos, "anchor not found")
		return
	}
	n := 0
	for _, h := range eng.Cluster(fn, 1) {
		if h.Pkg != fn.Pkg {
			continue
		}
		if h != fn {
			// only helpers that Close alone calls
			continue
		}
		eng.Instrs(h, true, func(in ssa.Instruction) {
			st, ok := in.(*ssa.Store)
			if !ok {
				return
			}
			fr, ok := eng.AsField(st.Addr)
			if !ok || fr.Field != "readerOpened" {
				return
			}
			k, isC := st.Val.(*ssa.Const)
			if !isC || k.Value == nil || k.Value.ExactString() != "false" {
				return
			}
			n++
			owned := eng.GuardedBy(in.Parent(), in.Block(), func(f eng.Fact) bool {
				if !f.Pos {
					return false
				}
				f2, ok := eng.LoadOfField(f.Cond)
				return ok && f2.Field == "ownsReader"
			})
			c.Check(owned, R, fmt.Sprintf("%s#readerOpened@%s", eng.FuncName(in.Parent()), c.P.Pos(st.Pos())), st.Pos(), "cleared only for an owned reader", "readerOpened is cleared without ownsReader having been found true: an extractor that borrows its reader loses it after its first terminal operation")
		})
	}
	if n == 0 {
		c.Ok(R, eng.FuncName(fn)+"#readerOpened", fn.Pos(), "not evaluated: Close does not clear readerOpened itself")
	}
}

// ---------------------------------------------------------------------------------------------------------------
// R6.16 the keyword operands are recognised wherever an operand can stand.

// R6.16 [C06]
func ruleKeywordOperandsInContainers(c *eng.Ctx) {
	const R = "R6.16-KEYWORD-OPERANDS-IN-CONTAINERS"
	c.Rule(R, "from contentstream.(*Parser).parseArray and parseDict the code that recognises the keyword operands (the comparison with \"true\", \"false\" and \"null\") is reachable: array elements and dictionary values are operands like any other, and the object parser reads [true null] and <</A true>> as values, so a content stream parser that knows the keywords only at the top level refuses the same operand inside a container", 2, 0)
	// functions of the package that compare with all three words
	knows := map[*ssa.Function]bool{}
	for _, fn := range c.P.ModuleFuncs() {
		if fn.Pkg == nil || fn.Blocks == nil || eng.ShortPath(fn.Pkg.Pkg.Path()) != "contentstream" {
			continue
		}
		words := map[string]bool{}
		eng.Instrs(fn, true, func(in ssa.Instruction) {
			for _, op := range in.Operands(nil) {
				if op == nil || *op == nil {
					continue
				}
				if s, ok := eng.ConstString(*op); ok && (s == "true" || s == "false" || s == "null") {
					words[s] = true
				}
			}
		})
		if len(words) == 3 {
			knows[fn] = true
		}
	}
	if len(knows) == 0 {
		c.Undec(R, "contentstream#keywords", token.NoPos, "no function compares with true, false and null")
		return
	}
	for _, name := range []string{"contentstream.(*Parser).parseArray", "contentstream.(*Parser).parseDict"} {
		fn := c.P.Func(name)
		if fn == nil {
			c.Undec(R, name, token.NoPos, "anchor not found")
			continue
		}
		reach := c.P.Reachable([]*ssa.Function{fn})
		ok := false
		for k := range knows {
			if reach[k] {
				ok = true
			}
		}
		c.Check(ok, R, name+"#keywords", fn.Pos(), "the keyword recognition is reachable from here", "nothing reachable from here recognises true, false and null: such an element or value is refused although it is an ordinary operand")
	}
}

// ---------------------------------------------------------------------------------------------------------------
// R2.26 a slice bound or an index is not computed in a type that can wrap.

// narrowIntBits: 8, 16 or 32 for the sized integer types narrower than the machine word, 0 otherwise.
func narrowIntBits(t types.Type) (bits int, unsigned bool) {
	bt, ok := t.Underlying().(*types.Basic)
	if !ok {
		return 0, false
	}
	switch bt.Kind() {
	case types.Uint8:
		return 8, true
	case types.Uint16:
		return 16, true
	case types.Uint32:
		return 32, true
	case types.Int8:
		return 8, false
	case types.Int16:
		return 16, false
	case types.Int32:
		return 32, false
	}
	return 0, false
}

// R2.26 [C02]
func ruleBoundsNotInNarrowArithmetic(c *eng.Ctx) {
	const R = "R2.26-BOUND-NOT-IN-NARROW-ARITHMETIC"
	c.Rule(R, "a slice bound, an index or an allocation size is not the sum, product or left shift of two non-constant values computed in an 8-, 16- or 32-bit integer type, unless the operands are proven small enough for the result to fit, or the same sum computed in a wide type was found to be at most a slice length on the way (slice lengths are taken to be below 2^31): such arithmetic wraps around silently, the wrapped value passes the range test it is compared in, and the slice expression panics on the unwrapped operand (offset 0xFFFFFFF0 + length 0x20 = 0x10)", 0, 1)
	n := 0
	for _, fn := range c.P.ModuleFuncs() {
		if fn.Blocks == nil {
			continue
		}
		k := 0
		seen := map[*ssa.BinOp]bool{}
		check := func(in ssa.Instruction, v ssa.Value, what string) {
			if v == nil {
				return
			}
			for {
				if cv, ok := v.(*ssa.Convert); ok {
					v = cv.X
					continue
				}
				break
			}
			b, ok := v.(*ssa.BinOp)
			if !ok || seen[b] || (b.Op != token.ADD && b.Op != token.MUL && b.Op != token.SHL) {
				return
			}
			bits, uns := narrowIntBits(b.Type())
			if bits == 0 {
				return
			}
			_, cx := eng.ConstInt(b.X)
			_, cy := eng.ConstInt(b.Y)
			if cx && cy {
				return
			}
			seen[b] = true
			max := int64(1)<<uint(bits) - 1
			if !uns {
				max = int64(1)<<uint(bits-1) - 1
			}
			fits := false
			switch b.Op {
			case token.ADD:
				fits = bounded(in.Parent(), b.X, max/2, true, b.Block(), 0) && bounded(in.Parent(), b.Y, max/2, true, b.Block(), 0)
				if !fits {
					if kx, ok := eng.ConstInt(b.X); ok && kx >= 0 {
						fits = bounded(in.Parent(), b.Y, max-kx, true, b.Block(), 0)
					}
					if ky, ok := eng.ConstInt(b.Y); ok && ky >= 0 {
						fits = bounded(in.Parent(), b.X, max-ky, true, b.Block(), 0)
					}
				}
			case token.MUL:
				for _, pair := range [][2]ssa.Value{{b.X, b.Y}, {b.Y, b.X}} {
					if kx, ok := eng.ConstInt(pair[0]); ok && kx > 0 {
						fits = fits || bounded(in.Parent(), pair[1], max/kx, true, b.Block(), 0)
					}
				}
				root := int64(1)<<uint(bits/2) - 1
				fits = fits || (bounded(in.Parent(), b.X, root, true, b.Block(), 0) && bounded(in.Parent(), b.Y, root, true, b.Block(), 0))
			case token.SHL:
				if ky, ok := eng.ConstInt(b.Y); ok && ky >= 0 && ky < int64(bits) {
					fits = bounded(in.Parent(), b.X, max>>uint(ky), true, b.Block(), 0)
				}
			}
			if !fits {
				// the same sum (product) was computed in a wide type and found to be at most a length there: lengths of
				// in-memory slices are taken to be below 2^31 here (assumption stated in the rule), so the narrow result is exact
				strip := func(v ssa.Value) ssa.Value {
					for {
						if cv, ok := v.(*ssa.Convert); ok {
							v = cv.X
							continue
						}
						return v
					}
				}
				fits = eng.GuardedBy(in.Parent(), in.Block(), func(f eng.Fact) bool {
					op, x, y, ok := f.Cmp()
					if !ok || (op != token.LEQ && op != token.LSS) {
						return false
					}
					w, isB := x.(*ssa.BinOp)
					if !isB || w.Op != b.Op {
						return false
					}
					if wb, _ := narrowIntBits(w.Type()); wb != 0 {
						return false
					}
					if call, isCall := y.(*ssa.Call); !isCall || eng.CalleeName(call) != "builtin:len" {
						return false
					}
					return (eng.SameValue(strip(w.X), b.X) && eng.SameValue(strip(w.Y), b.Y)) || (eng.SameValue(strip(w.X), b.Y) && eng.SameValue(strip(w.Y), b.X))
				})
			}
			n++
			k++
			c.Check(fits, R, fmt.Sprintf("%s#%s%d", eng.FuncName(fn), what, k), b.Pos(), "the operands are small enough for the narrow result to be exact", fmt.Sprintf("the %s is computed as %s in %s from operands not proven small: the arithmetic wraps around (0xFFFFFFF0 + 0x20 = 0x10), the wrapped value passes the range test, and the access panics (slice bounds out of range) or reads the wrong bytes", what, b.Op, b.Type()))
		}
		eng.Instrs(fn, true, func(in ssa.Instruction) {
			switch x := in.(type) {
			case *ssa.Slice:
				check(in, x.Low, "bound")
				check(in, x.High, "bound")
				check(in, x.Max, "bound")
			case *ssa.IndexAddr:
				check(in, x.Index, "index")
			case *ssa.Index:
				check(in, x.Index, "index")
			case *ssa.MakeSlice:
				check(in, x.Len, "size")
				check(in, x.Cap, "size")
			}
		})
	}
	c.Ok(R, "module#scanned", token.NoPos, fmt.Sprintf("%d narrow sums, products or shifts used as a bound", n))
}
