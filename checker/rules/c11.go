package rules

import (
	"fmt"
	"go/token"
	"go/types"
	"strings"

	"golang.org/x/tools/go/ssa"

	"verif/checker/eng"
)

func init() {
	register(&Property{
		ID:    "C11",
		Level: "other",
		Explanation: "Decided (structural necessary conditions of 'exclusion only deletes repeated marginal text'): (R11.1) FilterFragments is a pure subsequence filter: it returns its input or appends unmodified elements of it in one forward pass; (R11.2) a fragment is deleted only on paths that crossed the page-membership test, the margin-band test and (character-level or text match); (R11.3) in the root package every header/footer detection runs on the result of collectAllPages and every filtering call is applied to that detection's result under the exclude options; (R11.4) detection candidates are taken only from the margin band and keep their trimmed text; (R11.5) the occurrence threshold counts distinct pages; (R11.6) the filter compares trimmed texts on both sides, like detection does. " +
			"Not decided: which text actually repeats in a given document, thresholds and tolerances, DOCX/ODT/PPTX part-based exclusion.",
		Rules: []func(*eng.Ctx){ruleHeaderFooterDetectionEvaluated, ruleFluentExtractorEvaluated, constructorBypassedRule("R11.CL", "", "layout"), deleteInRangeRule("R11.DR", "layout", ""), rulePageNumberMatchFollowsDetection, ruleNoGroupSkippedByLength, ruleRegionPagesByMembership, ruleCandidateKeepsEdgeDistance, loopVarRule("R11.LV", "layout", "tabula", ""), rulePureFilter, ruleDeleteGuard, ruleDetectAllPages, ruleCandidates, ruleDistinctPages, ruleTextsMatch, ruleMatchIsEquality, roleRule("R11.R", "layout", "docx", "odt", "pptx"), ruleFilterPageIndex, ruleInputReadonly, rulePageOwnGeometry, ruleFilterResultKept},
	})
}

// pureFilter checks that fn returns either its slice parameter or a slice built by
// append(acc, elem) of unmodified elements of that parameter indexed by a forward induction.
func pureFilter(fn *ssa.Function, param *ssa.Parameter) (bool, string) {
	return pureFilterSrc(fn, func(v ssa.Value) bool { return v == ssa.Value(param) })
}

// pureFilterSrc is pureFilter with an arbitrary recogniser of the input slice.
func pureFilterSrc(fn *ssa.Function, isSrc func(ssa.Value) bool) (bool, string) {
	if len(eng.Returns(fn)) == 0 {
		return false, "no return"
	}
	var appends []*ssa.Call
	eng.Instrs(fn, false, func(in ssa.Instruction) {
		if call, ok := in.(*ssa.Call); ok && eng.CalleeName(call) == "builtin:append" {
			appends = append(appends, call)
		}
	})
	isAcc := func(v ssa.Value) bool {
		// the accumulator: nil, a phi of accumulators, or an append result
		seen := map[ssa.Value]bool{}
		var ok func(v ssa.Value) bool
		ok = func(v ssa.Value) bool {
			if seen[v] {
				return true
			}
			seen[v] = true
			switch x := v.(type) {
			case *ssa.Const:
				return x.Value == nil
			case *ssa.Phi:
				for _, e := range x.Edges {
					if !ok(e) {
						return false
					}
				}
				return true
			case *ssa.Call:
				for _, a := range appends {
					if a == x {
						return true
					}
				}
			case *ssa.MakeSlice:
				if k, isC := eng.ConstInt(x.Len); isC && k == 0 {
					return true
				}
			}
			return false
		}
		return ok(v)
	}
	for _, r := range eng.Returns(fn) {
		v := r.Results[0]
		if isSrc(v) || isAcc(v) {
			continue
		}
		// &T{Field: acc}: a fresh collection holding the accumulator
		holdsAcc := false
		if al, ok := v.(*ssa.Alloc); ok {
			for _, r := range *al.Referrers() {
				if fa, ok := r.(*ssa.FieldAddr); ok {
					for _, rr := range *fa.Referrers() {
						if st, ok := rr.(*ssa.Store); ok {
							if isAcc(st.Val) {
								holdsAcc = true
							} else if g, _, ok := delegatedFilter(st.Val, isSrc); ok && g != fn {
								holdsAcc = true
							}
						}
					}
				}
			}
		}
		if holdsAcc {
			continue
		}
		// the selection handed to a helper of the module that is itself a pure filter of the slice it is given
		if g, _, ok := delegatedFilter(v, isSrc); ok && g != fn {
			continue
		}
		return false, "returns a slice that is neither the input nor the filtered accumulator"
	}
	for _, a := range appends {
		args := a.Call.Args
		if !isAcc(args[0]) {
			continue // unrelated append
		}
		// appended elements: a one-element varargs slice holding a load of param[induction]
		sl, ok := args[1].(*ssa.Slice)
		if !ok {
			return false, "appends a whole slice instead of single input elements"
		}
		al, ok := sl.X.(*ssa.Alloc)
		if !ok {
			return false, "appended value is not a single element"
		}
		for _, r := range *al.Referrers() {
			ia, ok := r.(*ssa.IndexAddr)
			if !ok {
				continue
			}
			for _, rr := range *ia.Referrers() {
				st, ok := rr.(*ssa.Store)
				if !ok {
					continue
				}
				ld, ok := st.Val.(*ssa.UnOp)
				if !ok || ld.Op != token.MUL {
					return false, "an appended element is computed, not copied from the input (fragments would be altered or invented)"
				}
				src, ok := ld.X.(*ssa.IndexAddr)
				if ok {
					// `for rest := input; len(rest) > 0; rest = rest[1:]` with rest[0]: the input front to back
					if base, isCur := eng.ShrinkingCursor(src); isCur && isSrc(base) {
						continue
					}
				}
				if !ok || !isSrc(src.X) {
					return false, "an appended element does not come from the input slice"
				}
				if _, ok := eng.Induction(src.Index); !ok {
					return false, "input elements are not visited by a forward +1 index (order could change)"
				}
			}
		}
	}
	// no store into the input slice
	bad := false
	eng.Instrs(fn, false, func(in ssa.Instruction) {
		if st, ok := in.(*ssa.Store); ok {
			if ia, ok := st.Addr.(*ssa.IndexAddr); ok && isSrc(ia.X) {
				bad = true
			}
			if fa, ok := st.Addr.(*ssa.FieldAddr); ok {
				if ia, ok := fa.X.(*ssa.IndexAddr); ok && isSrc(ia.X) {
					bad = true
				}
			}
		}
	})
	if bad {
		return false, "writes into the input slice"
	}
	return true, ""
}

// delegatedFilter: v is the result of a call that passes the input slice (isSrc) to a module function which is a pure
// filter of that parameter (a generic filterSlice(s, keep) helper). It returns the helper and the call.
func delegatedFilter(v ssa.Value, isSrc func(ssa.Value) bool) (*ssa.Function, *ssa.Call, bool) {
	call, ok := v.(*ssa.Call)
	if !ok {
		return nil, nil, false
	}
	g := eng.StaticCallee(call)
	if g == nil || g.Blocks == nil || !eng.InModule(g) {
		return nil, nil, false
	}
	args := eng.ArgsWithRecv(call)
	for i, a := range args {
		if i < len(g.Params) && isSrc(a) {
			if ok, _ := pureFilter(g, g.Params[i]); ok {
				return g, call, true
			}
		}
	}
	return nil, nil, false
}

func rulePureFilter(c *eng.Ctx) {
	const R = "R11.1-PURE-FILTER"
	c.Rule(R, "HeaderFooterResult.FilterFragments returns its input or a forward selection of unmodified input elements", 1, 0)
	fn := c.P.Func("layout.(*HeaderFooterResult).FilterFragments")
	if fn == nil {
		c.Undec(R, "layout.(*HeaderFooterResult).FilterFragments", token.NoPos, "anchor not found")
		return
	}
	ok, why := pureFilter(fn, fn.Params[2])
	c.Check(ok, R, "layout.(*HeaderFooterResult).FilterFragments", fn.Pos(), "pure subsequence filter", "not a pure subsequence filter: "+why)
}

func ruleDeleteGuard(c *eng.Ctx) {
	const R = "R11.2-DELETE-GUARD"
	c.Rule(R, "every `return true` of isInHeaderFooter is dominated by containsPage(region.PageIndices, pageIndex), by distance < region height, and by (charLevel or textsMatch(...))", 2, 0)
	fn := c.P.Func("layout.(*HeaderFooterResult).isInHeaderFooter")
	if fn == nil {
		c.Undec(R, "layout.(*HeaderFooterResult).isInHeaderFooter", token.NoPos, "anchor not found")
		return
	}
	callFact := func(name string) func(eng.Fact) bool {
		return func(f eng.Fact) bool {
			call, ok := f.Cond.(*ssa.Call)
			return ok && f.Pos && eng.CalleeName(call) == name
		}
	}
	band := func(f eng.Fact) bool { // dist < headerRegion|footerRegion (float compare against a region parameter)
		op, x, y, ok := f.Cmp()
		if !ok {
			return false
		}
		isRegion := func(v ssa.Value) bool {
			return strings.Contains(strings.ToLower(regionName(v)), "region")
		}
		return (op == token.LSS && isRegion(y)) || (op == token.GTR && isRegion(x)) || (op == token.LEQ && isRegion(y)) || (op == token.GEQ && isRegion(x))
	}
	var charLevel ssa.Value
	for _, p := range fn.Params {
		if b, ok := p.Type().Underlying().(*types.Basic); ok && b.Kind() == types.Bool && strings.Contains(strings.ToLower(p.Name()), "char") {
			charLevel = p
		}
	}
	matchOrChar := func(f eng.Fact) bool {
		if f.Pos && charLevel != nil && f.Cond == charLevel {
			return true
		}
		if callFact("layout.textsMatch")(f) {
			return true
		}
		// the text test as a strategy chosen per page: a function value that is textsMatch, or (only where the page
		// was found to be character-level) a function that accepts every text
		call, ok := f.Cond.(*ssa.Call)
		if !ok || !f.Pos || eng.StaticCallee(call) != nil || call.Call.IsInvoke() {
			return false
		}
		cands, complete := eng.FuncValues(call.Call.Value)
		if !complete || len(cands) == 0 {
			return false
		}
		for _, g := range cands {
			if eng.FuncName(g) == "layout.textsMatch" {
				continue
			}
			if !alwaysTrue(g) || !storedOnlyUnderCharLevel(g) {
				return false
			}
		}
		return true
	}
	n := 0
	for _, r := range eng.Returns(fn) {
		cst, ok := r.Results[0].(*ssa.Const)
		if !ok || cst.Value == nil || cst.Value.ExactString() != "true" {
			if _, isC := r.Results[0].(*ssa.Const); !isC {
				c.Viol(R, "layout.(*HeaderFooterResult).isInHeaderFooter#return", r.Pos(), "returns a computed value instead of an explicit decision: cannot show that deletion needs band and match")
			}
			continue
		}
		n++
		key := fmt.Sprintf("layout.(*HeaderFooterResult).isInHeaderFooter#return-true-%d", n)
		b := r.Block()
		p1 := eng.GuardedBy(fn, b, callFact("layout.containsPage"))
		// which list this decision belongs to: the region whose page membership guards it
		side := ""
		for _, kind := range []string{"Headers", "Footers"} {
			k := kind
			if eng.GuardedBy(fn, b, func(f eng.Fact) bool {
				call, ok := f.Cond.(*ssa.Call)
				if !ok || !f.Pos || eng.CalleeName(call) != "layout.containsPage" {
					return false
				}
				for v := range eng.Slice(call.Call.Args[0], nil) {
					if fr, ok := eng.AsField(v); ok && fr.Field == k {
						return true
					}
				}
				return false
			}) {
				side = strings.ToLower(strings.TrimSuffix(k, "s"))
			}
		}
		// the band test must be the one of that side: a header is deleted only inside the header band
		bandOfSide := func(f eng.Fact) bool {
			if !band(f) {
				return false
			}
			if side == "" {
				return true
			}
			_, x, y, _ := f.Cmp()
			for _, v := range []ssa.Value{x, y} {
				if strings.Contains(strings.ToLower(regionName(v)), side) {
					return true
				}
			}
			return false
		}
		p2 := eng.GuardedBy(fn, b, bandOfSide)
		p3 := eng.GuardedBy(fn, b, matchOrChar)
		var miss []string
		if !p1 {
			miss = append(miss, "page membership of the region")
		}
		if !p2 {
			miss = append(miss, "margin-band distance test of its own side (header band for headers, footer band for footers)")
		}
		if !p3 {
			miss = append(miss, "text match (or character-level page)")
		}
		c.Check(len(miss) == 0, R, key, r.Pos(), "deletion requires page membership, margin band and text match", "a fragment can be deleted without: "+strings.Join(miss, ", "))
	}
	if n == 0 {
		c.Viol(R, "layout.(*HeaderFooterResult).isInHeaderFooter#return-true", fn.Pos(), "no `return true` found")
	}
	// the phi-merged single return form: handle `return cond` by requiring explicit decisions (above)
}

func ruleDetectAllPages(c *eng.Ctx) {
	const R = "R11.3-DETECT-ALL-PAGES"
	c.Rule(R, "every call of Extractor.detectHeaderFooter receives the result of collectAllPages of the same function, is made only under excludeHeaders||excludeFooters, and every FilterFragments call in the root package is applied to such a detection result with the page's own index", 7, 0)
	detect := c.P.Func("tabula.(*Extractor).detectHeaderFooter")
	collect := c.P.Func("tabula.(*Extractor).collectAllPages")
	if detect == nil || collect == nil {
		c.Undec(R, "tabula.(*Extractor).detectHeaderFooter", token.NoPos, "anchor not found")
		return
	}
	optFact := func(f eng.Fact) bool {
		if !f.Pos {
			return false
		}
		if fr, ok := eng.LoadOfField(f.Cond); ok && (fr.Field == "excludeHeaders" || fr.Field == "excludeFooters") {
			return true
		}
		return false
	}
	for _, fn := range c.P.ModuleFuncs() {
		if fn.Pkg == nil || eng.ShortPath(fn.Pkg.Pkg.Path()) != "" {
			continue
		}
		for _, ci := range eng.Calls(fn, false, func(string, ssa.CallInstruction) bool { return true }) {
			if eng.StaticCallee(ci) != detect {
				continue
			}
			key := eng.FuncName(fn) + "#detectHeaderFooter"
			arg := ci.Common().Args[len(ci.Common().Args)-1] // the pages (after the receiver, if it is still a method)
			fromCollect := false
			if ex, ok := arg.(*ssa.Extract); ok && ex.Index == 0 {
				if call, ok := ex.Tuple.(*ssa.Call); ok && eng.StaticCallee(call) == collect {
					fromCollect = true
				}
			}
			c.Check(fromCollect, R, key+"/all-pages", ci.Pos(), "detection runs on collectAllPages()", "header/footer detection is fed something other than all pages of the document (a page subset cannot show repetition)")
			c.Check(eng.GuardedBy(fn, ci.Block(), optFact), R, key+"/option", ci.Pos(), "only under excludeHeaders||excludeFooters", "detection (and therefore filtering) can run although no exclusion was requested")
			// whether detection runs must not depend on WHICH pages were selected: a page is filtered the
			// same way in every selection that contains it (an empty selection aside)
			selDep := eng.GuardedBy(fn, ci.Block(), func(f eng.Fact) bool {
				dep := false
				for v := range eng.Slice(f.Cond, func(call *ssa.Call) bool { _, isB := call.Call.Value.(*ssa.Builtin); return isB }) {
					if ex, ok := v.(*ssa.Extract); ok && ex.Index == 0 {
						if call, ok := ex.Tuple.(*ssa.Call); ok && strings.HasSuffix(eng.CalleeName(call), ".resolvePages") {
							dep = true
						}
					}
					if fr, ok := eng.AsField(v); ok && fr.Field == "pages" && strings.HasSuffix(fr.Struct, "xtractOptions") {
						dep = true
					}
				}
				if !dep {
					return false
				}
				if _, x, y, ok := f.Cmp(); ok {
					if k, isC := eng.ConstInt(y); isC && k == 0 {
						return false // nothing selected at all
					}
					for _, side := range []ssa.Value{x, y} {
						if _, isInd := eng.Induction(side); isInd {
							return false // the bound of a loop over the selection
						}
					}
				}
				return true
			})
			c.Check(!selDep, R, key+"/selection-independent", ci.Pos(), "not conditioned on the page selection", "whether header/footer detection runs depends on the page selection: the same page is filtered in one selection and not in another")
		}
		for _, ci := range eng.CallsNamed(fn, false, "layout.(*HeaderFooterResult).FilterFragments") {
			key := eng.FuncName(fn) + "#FilterFragments"
			recv := ci.Common().Args[0]
			fromDetect := false
			for v := range eng.Slice(recv, nil) {
				if call, ok := v.(*ssa.Call); ok && eng.StaticCallee(call) == detect {
					fromDetect = true
				}
			}
			if !fromDetect {
				// the detection result handed on in a field of a small job struct by an earlier stage: every store
				// to that field in the package takes the result of the detection call
				for v := range eng.Slice(recv, nil) {
					var st *types.Struct
					idx := -1
					switch x := v.(type) {
					case *ssa.Field:
						st, _ = x.X.Type().Underlying().(*types.Struct)
						idx = x.Field
					case *ssa.FieldAddr:
						if pt, ok := x.X.Type().Underlying().(*types.Pointer); ok {
							st, _ = pt.Elem().Underlying().(*types.Struct)
							idx = x.Field
						}
					}
					if st == nil || idx < 0 {
						continue
					}
					nSt, all := 0, true
					for _, g := range c.P.ModuleFuncs() {
						if g.Pkg != fn.Pkg || g.Blocks == nil {
							continue
						}
						eng.Instrs(g, true, func(in ssa.Instruction) {
							s2, ok := in.(*ssa.Store)
							if !ok {
								return
							}
							fa2, ok := s2.Addr.(*ssa.FieldAddr)
							if !ok || fa2.Field != idx {
								return
							}
							pt, ok := fa2.X.Type().Underlying().(*types.Pointer)
							if !ok || !types.Identical(pt.Elem().Underlying(), st) {
								return
							}
							nSt++
							// the stored value is the detection result, possibly handed to a constructor of the job
							// struct as a parameter (every call site then passes the detection result or nil)
							var fromD func(v ssa.Value, depth int) bool
							fromD = func(v ssa.Value, depth int) bool {
								if eng.IsNilConst(v) {
									return true
								}
								for w := range eng.Slice(v, nil) {
									if call, ok := w.(*ssa.Call); ok && eng.StaticCallee(call) == detect {
										return true
									}
								}
								if depth > 2 {
									return false
								}
								if ph, ok := v.(*ssa.Phi); ok {
									for _, e := range ph.Edges {
										if !fromD(e, depth+1) {
											return false
										}
									}
									return true
								}
								par, ok := v.(*ssa.Parameter)
								if !ok {
									return false
								}
								h := par.Parent()
								pi := -1
								for i, q := range h.Params {
									if q == par {
										pi = i
									}
								}
								sites, okAll := 0, true
								for _, g2 := range c.P.ModuleFuncs() {
									if g2.Pkg != h.Pkg {
										continue
									}
									for _, site := range eng.Calls(g2, true, func(_ string, ci ssa.CallInstruction) bool { return eng.StaticCallee(ci) == h }) {
										sites++
										args := eng.ArgsWithRecv(site)
										if pi < 0 || pi >= len(args) || !fromD(args[pi], depth+1) {
											okAll = false
										}
									}
								}
								return sites > 0 && okAll
							}
							if !fromD(s2.Val, 0) {
								all = false
							}
						})
					}
					if nSt > 0 && all {
						fromDetect = true
					}
				}
			}
			c.Check(fromDetect, R, key, ci.Pos(), "filter is the detection result of this call", "FilterFragments is applied to a result that does not come from this function's detectHeaderFooter call")
		}
	}
	// collectAllPages ranges 0..PageCount
	okAll := false
	eng.Instrs(collect, false, func(in ssa.Instruction) {
		if b, ok := in.(*ssa.BinOp); ok && b.Op == token.LSS {
			if _, isInd := eng.Induction(b.X); isInd {
				for v := range eng.Slice(b.Y, nil) {
					if call, ok := v.(*ssa.Call); ok && strings.HasSuffix(eng.CalleeName(call), ").PageCount") {
						okAll = true
					}
				}
			}
		}
	})
	c.Check(okAll, R, "tabula.(*Extractor).collectAllPages#range", collect.Pos(), "iterates 0..PageCount", "collectAllPages does not iterate over every page index below PageCount()")
	// a page that cannot be read is skipped: its error never becomes the error of the collection (the callers
	// run detection only when err == nil, so one damaged page would switch the exclusion off for all pages)
	fatal := token.NoPos
	for _, r := range eng.Returns(collect) {
		rv := eng.ReturnValues(r)
		if len(rv) == 0 {
			continue
		}
		ev := rv[len(rv)-1]
		if !eng.IsErrorType(ev.Type()) || eng.IsNilConst(ev) {
			continue
		}
		for v := range eng.Slice(ev, func(*ssa.Call) bool { return true }) {
			if call, ok := v.(*ssa.Call); ok && eng.InLoop(call.Block()) {
				if eng.IsErrorType(call.Type()) {
					continue // the wrapping call itself (fmt.Errorf)
				}
				fatal = r.Pos()
			}
		}
	}
	c.Check(fatal == token.NoPos, R, "tabula.(*Extractor).collectAllPages#skip-unreadable", collect.Pos(), "per-page failures are skipped", "the failure of one page is returned as the failure of the whole collection: every caller then skips detection, and headers/footers stay on all pages")
}

func ruleCandidates(c *eng.Ctx) {
	const R = "R11.4-CANDIDATES"
	c.Rule(R, "extractCandidates appends a candidate only under the margin-band flag and stores the trimmed fragment text with the page's own index", 2, 0)
	fn := c.P.Func("layout.(*HeaderFooterDetector).extractCandidates")
	if fn == nil {
		c.Undec(R, "layout.(*HeaderFooterDetector).extractCandidates", token.NoPos, "anchor not found")
		return
	}
	name := "layout.(*HeaderFooterDetector).extractCandidates"
	var apps []ssa.CallInstruction
	for _, ci := range eng.Calls(fn, false, func(n string, _ ssa.CallInstruction) bool { return n == "builtin:append" }) {
		if strings.Contains(ci.Common().Args[0].Type().String(), "candidate") {
			apps = append(apps, ci)
		}
	}
	if len(apps) == 0 {
		c.Viol(R, name+"#append", fn.Pos(), "no candidate is ever appended")
		return
	}
	for _, a := range apps {
		// guarded by a phi named inRegion (a boolean merged from the distance comparisons)
		g := eng.GuardedBy(fn, a.Block(), func(f eng.Fact) bool {
			if !f.Pos {
				return false
			}
			ph, ok := f.Cond.(*ssa.Phi)
			if !ok {
				// direct comparison form
				op, _, _, ok := f.Cmp()
				return ok && (op == token.LSS || op == token.LEQ)
			}
			// every incoming value is a `<` comparison against a region height
			for _, e := range ph.Edges {
				b, ok := e.(*ssa.BinOp)
				if !ok || (b.Op != token.LSS && b.Op != token.LEQ) {
					return false
				}
			}
			return true
		})
		c.Check(g, R, name+"#band", a.Pos(), "candidates only from the margin band", "a fragment outside the top/bottom band can become a header/footer candidate")
	}
	trimmed, pageIdx := false, false
	eng.Instrs(fn, false, func(in ssa.Instruction) {
		st, ok := in.(*ssa.Store)
		if !ok {
			return
		}
		fr, ok := eng.AsField(st.Addr)
		if !ok || !strings.HasSuffix(fr.Struct, "layout.candidate") {
			return
		}
		switch fr.Field {
		case "Text":
			if call, ok := st.Val.(*ssa.Call); ok && eng.CalleeName(call) == "strings.TrimSpace" {
				trimmed = true
			}
		case "PageIndex":
			for v := range eng.Slice(st.Val, nil) {
				if f, ok := eng.AsField(v); ok && f.Field == "PageIndex" {
					pageIdx = true
				}
			}
		}
	})
	c.Check(trimmed && pageIdx, R, name+"#fields", fn.Pos(), "candidate text is trimmed, page index is the page's", "candidate text is no longer trimmed or the page index is not the page's own")
}

func ruleDistinctPages(c *eng.Ctx) {
	const R = "R11.5-DISTINCT-PAGES"
	c.Rule(R, "findRepeatingPatterns compares the number of DISTINCT pages a text occurs on (size of a set keyed by PageIndex) with the occurrence threshold", 1, 0)
	fn := c.P.Func("layout.(*HeaderFooterDetector).findRepeatingPatterns")
	if fn == nil {
		c.Undec(R, "layout.(*HeaderFooterDetector).findRepeatingPatterns", token.NoPos, "anchor not found")
		return
	}
	// the threshold value: phi/load named minOccurrences -> derived from MinOccurrenceRatio
	isThreshold := func(v ssa.Value) bool {
		for w := range eng.Slice(v, nil) {
			if fr, ok := eng.AsField(w); ok && fr.Field == "MinOccurrenceRatio" {
				return true
			}
		}
		return false
	}
	found, okSet := false, false
	var pos token.Pos = fn.Pos()
	eng.Instrs(fn, false, func(in ssa.Instruction) {
		b, ok := in.(*ssa.BinOp)
		if !ok || (b.Op != token.LSS && b.Op != token.GEQ && b.Op != token.LEQ && b.Op != token.GTR) {
			return
		}
		var other ssa.Value
		switch {
		case isThreshold(b.Y) && !isThreshold(b.X):
			other = b.X
		case isThreshold(b.X) && !isThreshold(b.Y):
			other = b.Y
		default:
			return
		}
		if k, isC := eng.ConstInt(other); isC && k == 2 {
			return // the `minOccurrences < 2` floor
		}
		found = true
		pos = b.Pos()
		if call, ok := other.(*ssa.Call); ok {
			if bi, ok := call.Call.Value.(*ssa.Builtin); ok && bi.Name() == "len" {
				if distinctKeyed(c, fn, call.Call.Args[0], "PageIndex") {
					okSet = true
				}
			}
		}
	})
	if !found {
		c.Viol(R, "layout.(*HeaderFooterDetector).findRepeatingPatterns#threshold", pos, "no comparison against the occurrence threshold")
		return
	}
	c.Check(okSet, R, "layout.(*HeaderFooterDetector).findRepeatingPatterns#threshold", pos, "threshold is applied to the number of distinct pages", "the occurrence threshold is applied to something other than the number of distinct pages (a line printed twice on one page would count as repeating)")
}

func ruleTextsMatch(c *eng.Ctx) {
	const R = "R11.6-TEXTS-MATCH"
	c.Rule(R, "textsMatch uses both of its text arguments only through strings.TrimSpace (detection stores trimmed text, so the filter must compare trimmed text)", 2, 0)
	fn := c.P.Func("layout.textsMatch")
	if fn == nil {
		c.Undec(R, "layout.textsMatch", token.NoPos, "anchor not found")
		return
	}
	// onlyTrimmed: every use of the value is strings.TrimSpace, or hands it on (to a function of the module, or to a
	// method of a small interface) to a parameter that is itself only used trimmed
	var onlyTrimmed func(v ssa.Value, depth int) (bool, int)
	onlyTrimmed = func(v ssa.Value, depth int) (bool, int) {
		okT, n := true, 0
		if depth > 3 || v.Referrers() == nil {
			return false, 0
		}
		for _, r := range *v.Referrers() {
			if _, isDbg := r.(*ssa.DebugRef); isDbg {
				continue
			}
			call, ok := r.(*ssa.Call)
			if !ok {
				n++
				okT = false
				continue
			}
			if eng.CalleeName(call) == "strings.TrimSpace" {
				n++
				continue
			}
			handed := false
			args := eng.ArgsWithRecv(call)
			for _, g := range c.P.Callees(call) {
				if g.Blocks == nil || !eng.InModule(g) {
					continue
				}
				for ai, a := range args {
					if a != v || ai >= len(g.Params) {
						continue
					}
					handed = true
					o2, n2 := onlyTrimmed(g.Params[ai], depth+1)
					n += n2
					if !o2 {
						okT = false
					}
				}
			}
			if !handed {
				n++
				okT = false
			}
		}
		return okT, n
	}
	for i := 0; i < 2 && i < len(fn.Params); i++ {
		p := fn.Params[i]
		okT, n := onlyTrimmed(p, 0)
		c.Check(okT && n > 0, R, "layout.textsMatch#"+p.Name(), fn.Pos(), "only used trimmed", "argument "+p.Name()+" is compared without trimming: padded header text is detected but never removed")
	}
}

// distinctKeyed reports whether coll (a value of host) is a duplicate-free
// collection of the given field of the elements: a map whose every update is
// keyed by that field, or an int slice into which that field's values are only
// put after a membership test (a seen-map lookup, or the binary-search idiom on
// an ascending slice). The collection may be built by a module function called
// by host.
func distinctKeyed(c *eng.Ctx, host *ssa.Function, coll ssa.Value, field string) bool {
	isKey := func(v ssa.Value) bool {
		for w := range eng.Slice(v, nil) {
			if fr, ok := eng.AsField(w); ok && fr.Field == field {
				return true
			}
		}
		return false
	}
	if call, ok := coll.(*ssa.Call); ok {
		if g := eng.StaticCallee(call); g != nil && len(g.Blocks) > 0 && eng.InModule(g) {
			okAll, n := true, 0
			for _, r := range eng.Returns(g) {
				rv := eng.ReturnValues(r)
				if len(rv) == 0 {
					continue
				}
				n++
				if !distinctKeyed(c, g, rv[0], field) {
					okAll = false
				}
			}
			return okAll && n > 0
		}
		return false
	}
	if _, isMap := coll.Type().Underlying().(*types.Map); isMap {
		n, okAll := 0, true
		eng.Instrs(host, false, func(in ssa.Instruction) {
			if mu, ok := in.(*ssa.MapUpdate); ok && eng.SameValue(mu.Map, coll) {
				n++
				if !isKey(mu.Key) {
					okAll = false
				}
			}
		})
		return n > 0 && okAll
	}
	if _, isSl := coll.Type().Underlying().(*types.Slice); !isSl {
		return false
	}
	// every insertion of a key into the slice is membership-guarded
	n, okAll := 0, true
	for _, st := range sortedInsertStores(host, isKey) {
		n++
		if !sortedInsertDedup(host, st.Block(), isKey) {
			okAll = false
		}
	}
	for _, ci := range eng.Calls(host, false, func(nm string, _ ssa.CallInstruction) bool { return nm == "builtin:append" }) {
		args := ci.Common().Args
		if len(args) < 2 || !isKey(args[1]) {
			continue
		}
		n++
		seen := eng.GuardedBy(host, ci.Block(), func(f eng.Fact) bool {
			if f.Cond == nil || f.Pos {
				return false
			}
			var lk *ssa.Lookup
			switch x := f.Cond.(type) {
			case *ssa.Lookup:
				lk = x
			case *ssa.Extract:
				lk, _ = x.Tuple.(*ssa.Lookup)
			}
			return lk != nil && isKey(lk.Index)
		})
		if !seen {
			okAll = false
		}
	}
	return n > 0 && okAll
}

// regionName: the name under which a band height reaches the test: a parameter, or a field of a per-page struct.
func regionName(v ssa.Value) string {
	if p, ok := v.(*ssa.Parameter); ok {
		return p.Name()
	}
	if fr, ok := eng.LoadOfField(v); ok {
		return fr.Field
	}
	if f, ok := v.(*ssa.Field); ok {
		if fr, ok := eng.AsField(f); ok {
			return fr.Field
		}
	}
	return ""
}

// alwaysTrue: every return of g is the constant true.
func alwaysTrue(g *ssa.Function) bool {
	rets := eng.Returns(g)
	if len(rets) == 0 {
		return false
	}
	for _, r := range rets {
		if len(r.Results) != 1 {
			return false
		}
		k, ok := r.Results[0].(*ssa.Const)
		if !ok || k.Value == nil || k.Value.ExactString() != "true" {
			return false
		}
	}
	return true
}

// storedOnlyUnderCharLevel: wherever g is stored as a function value, a test of a boolean named like charLevel was
// crossed on every path.
func storedOnlyUnderCharLevel(g *ssa.Function) bool {
	if g.Pkg == nil {
		return false
	}
	n, okAll := 0, true
	if boundedProg == nil {
		return false
	}
	for _, f := range boundedProg.ModuleFuncs() {
		if f.Pkg != g.Pkg {
			continue
		}
		eng.Instrs(f, false, func(in ssa.Instruction) {
			st, ok := in.(*ssa.Store)
			if !ok || st.Val != ssa.Value(g) {
				return
			}
			n++
			if !eng.GuardedBy(st.Parent(), st.Block(), func(fc eng.Fact) bool {
				if !fc.Pos {
					return false
				}
				name := ""
				switch x := fc.Cond.(type) {
				case *ssa.Parameter:
					name = x.Name()
				case *ssa.Call:
					name = eng.CalleeName(x)
				case *ssa.Phi:
					name = x.Comment
				}
				return strings.Contains(strings.ToLower(name), "char")
			}) {
				okAll = false
			}
		})
	}
	return n > 0 && okAll
}
