package rules

import (
	"fmt"
	"go/token"
	"go/types"
	"sort"
	"strings"

	"golang.org/x/tools/go/ssa"

	"verif/checker/eng"
)

// Rules added after the second round of seeded changes: generic who-may-write /
// who-may-call / disallowed-call clauses. Each is a necessary condition of its
// property that is visible in the shape of the code.

// R14.7 [C14]
func ruleCSVNoCRLF(c *eng.Ctx) {
	const R = "R14.7-CSV-NO-CRLF"
	c.Rule(R, "no code of the module sets encoding/csv.Writer.UseCRLF: with it the writer drops every bare carriage return inside a quoted field and rewrites LF as CRLF, so a text containing CR does not parse back", 1, 1)
	n := 0
	for _, fn := range c.P.ModuleFuncs() {
		eng.Instrs(fn, true, func(in ssa.Instruction) {
			st, ok := in.(*ssa.Store)
			if !ok {
				return
			}
			fr, ok := eng.AsField(st.Addr)
			if !ok || fr.Field != "UseCRLF" || !strings.HasSuffix(fr.Struct, "encoding/csv.Writer") {
				return
			}
			n++
			if cst, ok := st.Val.(*ssa.Const); ok && cst.Value != nil && cst.Value.ExactString() == "false" {
				c.Ok(R, eng.FuncName(fn)+"#UseCRLF", st.Pos(), "explicitly false")
				return
			}
			c.Viol(R, eng.FuncName(fn)+"#UseCRLF", st.Pos(), "csv.Writer.UseCRLF is set: carriage returns inside fields are lost on export")
		})
	}
	// every CSV writer of package rag is an obligation even when nothing is set
	for _, fn := range c.P.ModuleFuncs() {
		if fn.Pkg == nil || eng.ShortPath(fn.Pkg.Pkg.Path()) != "rag" {
			continue
		}
		for _, ci := range eng.CallsNamed(fn, false, "encoding/csv.NewWriter") {
			c.Ok(R, eng.FuncName(fn)+"#NewWriter", ci.Pos(), "writer left at its default line ending")
		}
	}
}

// R11.7 [C11]
func ruleMatchIsEquality(c *eng.Ctx) {
	const R = "R11.7-MATCH-IS-EQUALITY"
	c.Rule(R, "the DOCX/ODT paragraph exclusion compares a body paragraph with header/footer lines by string equality only: a substring test (strings.Contains / HasPrefix / HasSuffix / Index / EqualFold on parts) deletes body paragraphs that merely occur inside a header or footer", 2, 0)
	for _, name := range []string{"docx.(*Reader).shouldExcludeParagraph", "odt.(*Reader).shouldExcludeParagraph"} {
		fn := c.P.Func(name)
		if fn == nil {
			c.Undec(R, name, token.NoPos, "anchor not found")
			continue
		}
		var bad []string
		eq := false
		for _, h := range eng.Cluster(fn, 2) {
			for _, ci := range eng.Calls(h, false, func(n string, _ ssa.CallInstruction) bool {
				switch n {
				case "strings.Contains", "strings.HasPrefix", "strings.HasSuffix", "strings.Index", "strings.LastIndex", "strings.ContainsAny", "strings.Count":
					return true
				}
				return strings.HasPrefix(n, "regexp.")
			}) {
				bad = append(bad, eng.CalleeName(ci)+" at "+c.P.Pos(ci.Pos()))
			}
			eng.Instrs(h, false, func(in ssa.Instruction) {
				if b, ok := in.(*ssa.BinOp); ok && b.Op == token.EQL {
					if bt, ok := b.X.Type().Underlying().(interface{ Kind() int }); ok {
						_ = bt
					}
					if strings.HasSuffix(b.X.Type().String(), "string") {
						if _, isC := eng.ConstString(b.Y); !isC {
							if _, isC2 := eng.ConstString(b.X); !isC2 {
								eq = true
							}
						}
					}
				}
			})
		}
		sort.Strings(bad)
		c.Check(len(bad) == 0 && eq, R, name, fn.Pos(), "whole-line equality", "the header/footer match is not a whole-line equality ("+strings.Join(bad, ", ")+"): body text that is a fragment of a header or footer line is deleted")
	}
}

// R18.4 [C18]
func ruleOPFBaseDir(c *eng.Ctx) {
	const R = "R18.4-OPF-BASE-DIR"
	c.Rule(R, "the directory that EPUB manifest hrefs are resolved against is the directory of the package file (path.Dir / everything before the LAST '/'), never a prefix cut at the first '/'", 1, 0)
	fn := c.P.Func("epubdoc.parseOPF")
	if fn == nil {
		c.Undec(R, "epubdoc.parseOPF", token.NoPos, "anchor not found")
		return
	}
	dir, first := false, ""
	for _, h := range eng.Cluster(fn, 2) {
		for _, ci := range eng.Calls(h, false, func(string, ssa.CallInstruction) bool { return true }) {
			switch n := eng.CalleeName(ci); n {
			case "path.Dir", "path/filepath.Dir", "path.Split", "strings.LastIndex", "strings.LastIndexByte":
				dir = true
			case "strings.Index", "strings.IndexByte", "strings.Cut", "strings.SplitN":
				for _, a := range ci.Common().Args[1:] {
					if s, ok := eng.ConstString(a); ok && s == "/" {
						first = n + " at " + c.P.Pos(ci.Pos())
					}
					if k, ok := eng.ConstInt(a); ok && k == '/' {
						first = n + " at " + c.P.Pos(ci.Pos())
					}
				}
			}
		}
	}
	c.Check(dir && first == "", R, "epubdoc.parseOPF#base-dir", fn.Pos(), "base directory = directory of the package file", "the base directory is not the directory of the package file ("+first+"): a package file two directories deep resolves its chapters against the wrong folder")
}

// R19.8 [C19]
func ruleExcludeCallers(c *eng.Ctx) {
	const R = "R19.8-EXCLUDE-CALLERS"
	c.Rule(R, "the exclusion decision is consulted only by the filtered traversal (or a helper that re-enters it): structure classification and text collection do not depend on the filter, so unexcluded content is identical across modes", 1, 0)
	target := c.P.Func("htmldoc.(*exclusionChecker).shouldExclude")
	trav := c.P.Func("htmldoc.(*Reader).traverseNodeFiltered")
	if target == nil || trav == nil {
		c.Undec(R, "htmldoc.(*exclusionChecker).shouldExclude", token.NoPos, "anchor not found")
		return
	}
	inTraversal := map[*ssa.Function]bool{trav: true}
	for _, h := range eng.Cluster(trav, 2) {
		// a helper extracted from the traversal calls back into it
		if len(eng.Calls(h, false, func(_ string, ci ssa.CallInstruction) bool { return eng.StaticCallee(ci) == trav })) > 0 {
			inTraversal[h] = true
		}
	}
	// a wrapper of the decision (nil test + call) whose every caller is the traversal is part of the traversal
	callersOf := func(f *ssa.Function) []*ssa.Function {
		var out []*ssa.Function
		for _, g := range c.P.ModuleFuncs() {
			if g.Pkg != f.Pkg || g == f {
				continue
			}
			if len(eng.Calls(g, true, func(_ string, ci ssa.CallInstruction) bool { return eng.StaticCallee(ci) == f })) > 0 {
				out = append(out, g)
			}
		}
		return out
	}
	var okCaller func(f *ssa.Function, d int) bool
	okCaller = func(f *ssa.Function, d int) bool {
		if inTraversal[f] {
			return true
		}
		if d >= 2 {
			return false
		}
		cs := callersOf(f)
		if len(cs) == 0 {
			return false
		}
		for _, g := range cs {
			if !okCaller(g, d+1) {
				return false
			}
		}
		return true
	}
	var bad []string
	n := 0
	for _, fn := range c.P.ModuleFuncs() {
		if fn == target || fn.Pkg == nil || eng.ShortPath(fn.Pkg.Pkg.Path()) != "htmldoc" {
			continue
		}
		for _, ci := range eng.Calls(fn, true, func(_ string, ci ssa.CallInstruction) bool { return eng.StaticCallee(ci) == target }) {
			n++
			if !okCaller(fn, 0) {
				bad = append(bad, eng.FuncName(fn)+" at "+c.P.Pos(ci.Pos()))
			}
		}
	}
	sort.Strings(bad)
	c.Check(n > 0 && len(bad) == 0, R, "htmldoc.(*exclusionChecker).shouldExclude#callers", target.Pos(), fmt.Sprintf("%d call site(s), all in the filtered traversal", n),
		"the exclusion filter is consulted outside the filtered traversal ("+strings.Join(bad, ", ")+"): classification or text collection now differs between modes")
}

// R19.7 [C19]
func ruleTraversalStateless(c *eng.Ctx) {
	const R = "R19.7-TRAVERSAL-STATELESS"
	c.Rule(R, "the filtered HTML traversal writes nothing through the long-lived Reader: everything a pass learns lives in its per-call context, so a pass in one mode cannot change what a later pass in another mode sees (a memo of rejected nodes shared across modes narrows the weaker modes)", 1, 0)
	eff := eng.EffectsOf(c.P)
	for _, name := range []string{"htmldoc.(*Reader).traverseNodeFiltered"} {
		fn := c.P.Func(name)
		if fn == nil {
			c.Undec(R, name, token.NoPos, "anchor not found")
			continue
		}
		w := eff.WritesThrough(fn, 0)
		sort.Strings(w)
		c.Check(len(w) == 0, R, name+"#receiver-writes", fn.Pos(), "no write through the Reader", "the traversal writes through the Reader ("+strings.Join(w, "; ")+"): state survives from one mode's pass to the next")
	}
}

// R9.6 [C09]
func ruleNoInputAlias(c *eng.Ctx) {
	const R = "R9.6-NO-INPUT-ALIAS"
	c.Rule(R, "the regrouping functions do not write through their input slices (no append onto a re-slice of a parameter, no element store): the caller keeps using the same fragments for the later stages, so an in-place filter loses and duplicates text there", 10, 0)
	eff := eng.EffectsOf(c.P)
	for _, name := range c09Functions {
		fn := c.P.Func(name)
		if fn == nil {
			continue // reported by R9.1
		}
		for i, par := range fn.Params {
			if _, isSlice := par.Type().Underlying().(*types.Slice); !isSlice {
				continue
			}
			w := eff.WritesThrough(fn, i)
			// sorting the caller's slice in place is an ordering effect, not a loss: accepted
			var bad []string
			for _, s := range w {
				if strings.Contains(s, "call sort.") || strings.Contains(s, "call slices.Sort") {
					continue
				}
				bad = append(bad, s)
			}
			sort.Strings(bad)
			c.Check(len(bad) == 0, R, fmt.Sprintf("%s#param:%s", name, par.Name()), fn.Pos(), "input slice is only read", "writes through the input slice "+par.Name()+" ("+strings.Join(bad, "; ")+"): the caller's fragments are overwritten")
		}
	}
}

// R9.5 [C09]
func ruleTextUnmodified(c *eng.Ctx) {
	const R = "R9.5-TEXT-UNMODIFIED"
	c.Rule(R, "the regrouping and text-assembly functions copy element text as it is: no trimming by a cut set or suffix/prefix, no replacement, no mapping and no sub-string of it (only strings.TrimSpace, which removes white space, is accepted): anything else removes or alters non-white-space characters", 15, 0)
	lossy := map[string]bool{
		"strings.TrimSuffix": true, "strings.TrimPrefix": true, "strings.TrimRight": true, "strings.TrimLeft": true, "strings.Trim": true,
		"strings.TrimFunc": true, "strings.TrimRightFunc": true, "strings.TrimLeftFunc": true, "strings.Replace": true, "strings.ReplaceAll": true,
		"strings.Map": true, "strings.NewReplacer": true, "strings.ToLower": true, "strings.ToUpper": true, "strings.Title": true, "strings.CutSuffix": true, "strings.CutPrefix": true, "strings.Cut": true,
	}
	for _, name := range c09Functions {
		fn := c.P.Func(name)
		if fn == nil {
			continue // reported by R9.1
		}
		var bad []string
		for _, h := range eng.Cluster(fn, 2) {
			if h != fn && h.Pkg != nil && eng.ShortPath(h.Pkg.Pkg.Path()) != eng.ShortPath(fn.Pkg.Pkg.Path()) {
				continue
			}
			eng.Instrs(h, true, func(in ssa.Instruction) {
				switch x := in.(type) {
				case ssa.CallInstruction:
					if n := eng.CalleeName(x); lossy[n] {
						bad = append(bad, n+" at "+c.P.Pos(x.Pos()))
					}
				case *ssa.Slice:
					if bt, ok := x.X.Type().Underlying().(*types.Basic); ok && bt.Info()&types.IsString != 0 {
						bad = append(bad, "sub-string at "+c.P.Pos(x.Pos()))
					}
				}
			})
		}
		sort.Strings(bad)
		c.Check(len(bad) == 0, R, name, fn.Pos(), "element text is copied unmodified", "element text is altered on its way to the output ("+strings.Join(dedupStr(bad), "; ")+"): characters of the input are removed or changed")
	}
}

// R17.4 [C17] (applied to every OOXML/ODF/EPUB reader)
// R16.10 [C16]: the same clause for the word-processor readers
func ruleFreshDecodeTargetDoc(c *eng.Ctx) {
	freshDecodeTarget(c, "R16.10-FRESH-DECODE-TARGET", map[string]bool{"docx": true, "odt": true}, 10)
}

func ruleFreshDecodeTarget(c *eng.Ctx) {
	freshDecodeTarget(c, "R17.4-FRESH-DECODE-TARGET", map[string]bool{"xlsx": true, "docx": true, "odt": true, "pptx": true, "epubdoc": true}, 20)
}

func freshDecodeTarget(c *eng.Ctx, R string, pkgs map[string]bool, floor int) {
	freshProg = c.P
	c.Rule(R, "every xml.Unmarshal / Decoder.Decode / DecodeElement in the document readers decodes into storage allocated in the same function (a local, or a field that was just assigned a new value): encoding/xml appends to existing slices and keeps stale pointers, so a reused destination leaks the previous part's cells, merges or paragraphs into the next one", floor, 0)
	for _, fn := range c.P.ModuleFuncs() {
		if fn.Pkg == nil || !pkgs[eng.ShortPath(fn.Pkg.Pkg.Path())] {
			continue
		}
		n := 0
		for _, ci := range eng.Calls(fn, true, func(name string, _ ssa.CallInstruction) bool {
			return name == "encoding/xml.Unmarshal" || name == "encoding/xml.(*Decoder).Decode" || name == "encoding/xml.(*Decoder).DecodeElement"
		}) {
			args := ci.Common().Args
			var dst ssa.Value
			if eng.CalleeName(ci) == "encoding/xml.Unmarshal" {
				dst = args[1]
			} else {
				dst = args[1] // receiver is args[0]
			}
			n++
			key := fmt.Sprintf("%s#decode%d", eng.FuncName(fn), n)
			fresh, why := freshStorage(ci.Parent(), eng.Unwrap(dst), ci, 0)
			c.Check(fresh, R, key, ci.Pos(), "destination allocated here", "the XML is decoded into storage that outlives the call ("+why+"): content of a previously decoded part stays in its slices and pointers")
		}
	}
}

var freshProg *eng.Prog

// freshStorage: v (a pointer passed as decode destination) points to storage allocated in fn.
func freshStorage(fn *ssa.Function, v ssa.Value, at ssa.Instruction, depth int) (bool, string) {
	if depth > 4 {
		return false, "too indirect"
	}
	switch x := v.(type) {
	case *ssa.Alloc:
		// inside a loop the destination must be allocated by the same iteration: a variable declared before the
		// loop is decoded into again and again, and encoding/xml appends to what is already there
		if at != nil && at.Block() != nil && x.Block() != nil && x.Parent() == at.Parent() && eng.InLoop(at.Block()) {
			if !eng.ReachableBlocks(at.Block().Succs, nil)[x.Block()] && x.Block() != at.Block() {
				return false, "the destination is allocated once, before the loop that decodes into it on every trip"
			}
		}
		return true, ""
	case *ssa.MakeInterface:
		return freshStorage(fn, x.X, at, depth+1)
	case *ssa.ChangeInterface:
		return freshStorage(fn, x.X, at, depth+1)
	case *ssa.Parameter:
		// a custom UnmarshalXML decodes into its own receiver / an element of it: the caller owns freshness
		if root := fn; root != nil {
			for root.Parent() != nil {
				root = root.Parent()
			}
			if root.Name() == "UnmarshalXML" {
				return true, ""
			}
		}
		// a helper of a decoder that receives the destination: fresh when every call site in the package passes
		// fresh storage
		if freshProg != nil && fn != nil && depth == 0 { // only when the parameter itself is the destination, not a field of it
			idx := -1
			for i, q := range fn.Params {
				if q == x {
					idx = i
				}
			}
			sites, all := 0, true
			for _, g := range freshProg.ModuleFuncs() {
				if g.Pkg != fn.Pkg {
					continue
				}
				for _, ci := range eng.Calls(g, true, func(string, ssa.CallInstruction) bool { return true }) {
					if eng.StaticCallee(ci) != fn || idx < 0 || idx >= len(ci.Common().Args) {
						continue
					}
					sites++
					if ok, _ := freshStorage(ci.Parent(), eng.Unwrap(ci.Common().Args[idx]), ci, depth+1); !ok {
						all = false
					}
				}
			}
			if sites > 0 && all {
				return true, ""
			}
		}
		return false, "storage reachable from parameter " + x.Name() + " (it outlives the call)"
	case *ssa.FieldAddr:
		// address of a field of fresh storage or of the receiver of an UnmarshalXML method
		return freshStorage(fn, x.X, at, depth+1)
	case *ssa.IndexAddr:
		return freshStorage(fn, x.X, at, depth+1)
	case *ssa.Phi:
		for _, e := range x.Edges {
			if ok, why := freshStorage(fn, e, at, depth+1); !ok {
				return false, why
			}
		}
		return true, ""
	case *ssa.UnOp:
		if x.Op != token.MUL {
			return false, "computed pointer"
		}
		// a closure of a custom UnmarshalXML decodes into the receiver its method captured
		if _, isFree := x.X.(*ssa.FreeVar); isFree && fn != nil {
			root := fn
			for root.Parent() != nil {
				root = root.Parent()
			}
			if root.Name() == "UnmarshalXML" {
				return true, ""
			}
		}
		// pointer loaded from a field or local: every store to that place in this function must store fresh storage,
		// and one such store must dominate the decode
		var place ssa.Value = x.X
		stored, dominated := 0, false
		var bad string
		eng.Instrs(fn, true, func(in ssa.Instruction) {
			st, ok := in.(*ssa.Store)
			if !ok || !eng.SameValue(st.Addr, place) {
				return
			}
			stored++
			if ok2, why := freshStorage(fn, eng.Unwrap(st.Val), at, depth+1); !ok2 {
				bad = why
			}
			if st.Parent() == at.Parent() && eng.InstrDominates(st, at) {
				dominated = true
			}
		})
		if stored == 0 {
			if fr, ok := eng.AsField(place); ok {
				return false, "field " + fr.Field + " is not assigned in this function"
			}
			return false, "pointer not assigned in this function"
		}
		if bad != "" {
			return false, bad
		}
		if !dominated {
			return false, "no fresh assignment precedes the decode on every path"
		}
		return true, ""
	case *ssa.Call:
		if b, ok := x.Call.Value.(*ssa.Builtin); ok && b.Name() == "new" {
			return true, ""
		}
		return false, "result of a call"
	case *ssa.Slice:
		return freshStorage(fn, x.X, at, depth+1)
	}
	return false, fmt.Sprintf("%T", v)
}
