package rules

import (
	"fmt"
	"go/ast"
	"go/constant"
	"go/token"
	"go/types"
	"os"
	"sort"
	"strings"

	"golang.org/x/tools/go/ssa"

	"verif/checker/eng"
)

func init() {
	register(&Property{
		ID:    "C16",
		Level: "other",
		Explanation: "Decided (structural clauses; the property as a whole quantifies over run-time XML and is not decided): (R16.1) no DOCX/ODT function rebuilds ordered inline content kind by kind from >= 2 child-content fields of the same unmarshalled element (that loses the interleaving of the source); (R16.2) every loop over a row's cells that keeps a column cursor advances it on every path to the next cell, and the DOCX fillers step by the cell's own span; (R16.3) list-item, list and run/inline text builders reach the loop over each child collection on every path to their return; (R16.4) every text-carrying child collection declared by the structs the body is decoded into is read somewhere; (R16.5) the hand-written ordered decoders dispatch on every text-carrying inline element of the content model and on no deleted-text element; (R16.6) a streaming token walk that records elements by name consumes their subtree or tests the nesting depth. " +
			"Not decided: that the counting second pass and the unmarshalled slices agree on which elements are body elements beyond the depth condition, heading levels through style inheritance, vertical-merge row spans, header/footer leakage.",
		Rules: []func(*eng.Ctx){deleteInRangeRule("R16.DR", "docx", "odt"), ruleCellAtColumnBySpans, ruleVerticalMergesByGridColumn, ruleTableCellOnOneLine, ruleVMergeSpellings, ruleMergeStartSurvives, ruleContentStylesWin, ruleRenderLeavesReader, loopVarRule("R16.LV", "docx", "odt"), ruleOrderLoss, ruleGridAdvance, ruleDrainChildren, ruleDeclaredChildRead, ruleInlineDispatch, ruleStreamDepth, roleRule("R16.R", "docx", "odt"), ruleResolvedStyleReadOnly, ruleBlockContentModel, ruleFreshDecodeTargetDoc, ruleCharDataUnconditional, ruleFlushBeforeElement, ruleInlineContainersRecursive, ruleDecodedElementsAllKept, ruleListLevelsZeroToEight, ruleLevelByILvl},
	})
}

// R16.1
func ruleOrderLoss(c *eng.Ctx) {
	const R = "R16.1-ORDER-LOSS"
	c.Rule(R, "no docx/odt function appends to one ordered output from >= 2 different child-content fields (child-element slices or character data) of the same XML-mapped struct value, one kind after the other: the source order between the kinds is lost", 140, 0)
	decls := c.P.AllDecls()
	names := make([]string, 0, len(decls))
	for n := range decls {
		if strings.HasPrefix(n, "docx.") || strings.HasPrefix(n, "odt.") {
			names = append(names, n)
		}
	}
	sort.Strings(names)
	for _, name := range names {
		fd := decls[name]
		if fd.Decl.Body == nil {
			continue
		}
		info := fd.Pkg.TypesInfo
		// childField reports root.Field when e is a selector of an XML-mapped struct value whose field is child content
		childField := func(e ast.Expr) (string, string, bool) {
			sel, ok := e.(*ast.SelectorExpr)
			if !ok {
				return "", "", false
			}
			root, ok := sel.X.(*ast.Ident)
			if !ok {
				return "", "", false
			}
			t := info.TypeOf(sel.X)
			if t == nil {
				return "", "", false
			}
			if pt, isP := t.Underlying().(*types.Pointer); isP {
				t = pt.Elem()
			}
			st, ok := t.Underlying().(*types.Struct)
			if !ok {
				return "", "", false
			}
			for i := 0; i < st.NumFields(); i++ {
				if st.Field(i).Name() == sel.Sel.Name && strings.Contains(st.Tag(i), "xml:") && !strings.Contains(st.Tag(i), ",attr") {
					return root.Name, sel.Sel.Name, true
				}
			}
			return "", "", false
		}
		groups := map[string]map[string]bool{}
		for _, s := range fd.Decl.Body.List {
			var srcRoot, srcField string
			var body ast.Node
			switch st := s.(type) {
			case *ast.RangeStmt:
				r, f, ok := childField(st.X)
				if !ok {
					continue
				}
				srcRoot, srcField, body = r, f, st.Body
			case *ast.IfStmt:
				body = st.Body
			default:
				continue
			}
			ast.Inspect(body, func(n ast.Node) bool {
				as, ok := n.(*ast.AssignStmt)
				if !ok || len(as.Rhs) != 1 {
					return true
				}
				call, ok := as.Rhs[0].(*ast.CallExpr)
				if !ok {
					return true
				}
				id, ok := call.Fun.(*ast.Ident)
				if !ok || id.Name != "append" || len(call.Args) < 2 {
					return true
				}
				dest := types.ExprString(as.Lhs[0])
				r, f := srcRoot, srcField
				if r == "" {
					// if-statement form: the appended value itself is the child content
					var ok2 bool
					r, f, ok2 = childField(call.Args[1])
					if !ok2 {
						return true
					}
				}
				k := r + "->" + dest
				if groups[k] == nil {
					groups[k] = map[string]bool{}
				}
				groups[k][f] = true
				return true
			})
		}
		bad := ""
		gk := make([]string, 0, len(groups))
		for k := range groups {
			gk = append(gk, k)
		}
		sort.Strings(gk)
		for _, k := range gk {
			if len(groups[k]) >= 2 {
				bad = fmt.Sprintf("%s from fields %v", k, keysOf(groups[k]))
			}
		}
		if bad != "" {
			c.Viol(R, name, fd.Decl.Pos(), "ordered text is rebuilt kind by kind ("+bad+"): content of one kind that precedes content of another kind in the source comes out after it")
		} else {
			c.Ok(R, name, fd.Decl.Pos(), "no kind-by-kind reassembly")
		}
	}
}

// R16.2
func ruleGridAdvance(c *eng.Ctx) {
	const R = "R16.2-GRID-ADVANCE"
	c.Rule(R, "in every loop over a table row's cells that keeps a column cursor, each path through the loop body that reaches the next cell (fall-through or continue) advances the cursor; in the DOCX fillers the step is the cell's own column span on every such path", 8, 0)
	decls := c.P.AllDecls()
	names := make([]string, 0)
	for n := range decls {
		if strings.HasPrefix(n, "docx.") || strings.HasPrefix(n, "odt.") {
			names = append(names, n)
		}
	}
	sort.Strings(names)
	for _, name := range names {
		fd := decls[name]
		if fd.Decl.Body == nil {
			continue
		}
		info := fd.Pkg.TypesInfo
		isDocx := strings.HasPrefix(name, "docx.")
		loopNo := 0
		ast.Inspect(fd.Decl.Body, func(n ast.Node) bool {
			rs, ok := n.(*ast.RangeStmt)
			if !ok {
				return true
			}
			sel, ok := rs.X.(*ast.SelectorExpr)
			if !ok || sel.Sel.Name != "Cells" {
				return true
			}
			// cursors: int variables declared outside the loop body and stepped inside it
			cursors := map[types.Object]bool{}
			ast.Inspect(rs.Body, func(m ast.Node) bool {
				var id *ast.Ident
				switch st := m.(type) {
				case *ast.IncDecStmt:
					id, _ = st.X.(*ast.Ident)
				case *ast.AssignStmt:
					if st.Tok == token.ADD_ASSIGN && len(st.Lhs) == 1 {
						id, _ = st.Lhs[0].(*ast.Ident)
					}
				}
				if id != nil {
					if o := info.ObjectOf(id); o != nil && (o.Pos() < rs.Body.Pos() || o.Pos() > rs.Body.End()) {
						cursors[o] = true
					}
				}
				return true
			})
			for cur := range cursors {
				loopNo++
				key := fmt.Sprintf("%s#cells-loop(%s)", name, cur.Name())
				if onlyMeasuredAgainstConstant(fd.Decl.Body, info, cur) {
					// a budget counter (how much of a fixed allowance the row has used), not a position: it is never an index,
					// an argument, a result or a stored value, only an operand next to a constant
					c.Ok(R, key, rs.Pos(), "not a column cursor: the counter is only ever measured against a constant bound")
					continue
				}
				// spanLocal: locals assigned from <cell>.ColSpan in the body
				spanLocal := map[types.Object]bool{}
				ast.Inspect(rs.Body, func(m ast.Node) bool {
					if as, ok := m.(*ast.AssignStmt); ok && len(as.Lhs) == 1 && len(as.Rhs) == 1 {
						if s2, ok := as.Rhs[0].(*ast.SelectorExpr); ok && s2.Sel.Name == "ColSpan" {
							if id, ok := as.Lhs[0].(*ast.Ident); ok {
								spanLocal[info.ObjectOf(id)] = true
							}
						}
					}
					return true
				})
				var bad []string
				stepOK := func(e ast.Expr) bool {
					if s2, ok := e.(*ast.SelectorExpr); ok && s2.Sel.Name == "ColSpan" {
						return true
					}
					if id, ok := e.(*ast.Ident); ok && spanLocal[info.ObjectOf(id)] {
						return true
					}
					return false
				}
				// walk returns (advanced on fall-through, terminated)
				var walk func(list []ast.Stmt, adv bool) (bool, bool)
				walk = func(list []ast.Stmt, adv bool) (bool, bool) {
					for _, st := range list {
						switch x := st.(type) {
						case *ast.IncDecStmt:
							if id, ok := x.X.(*ast.Ident); ok && info.ObjectOf(id) == cur {
								adv = true
								if isDocx && cur.Name() != "count" {
									bad = append(bad, fmt.Sprintf("%s: the cursor steps by one instead of the cell's span", c.P.Pos(x.Pos())))
								}
							}
						case *ast.AssignStmt:
							if x.Tok == token.ADD_ASSIGN && len(x.Lhs) == 1 {
								if id, ok := x.Lhs[0].(*ast.Ident); ok && info.ObjectOf(id) == cur {
									adv = true
									if isDocx && !stepOK(x.Rhs[0]) {
										bad = append(bad, fmt.Sprintf("%s: the cursor steps by %s, not by the cell's span", c.P.Pos(x.Pos()), types.ExprString(x.Rhs[0])))
									}
								}
							}
						case *ast.BranchStmt:
							if x.Tok == token.CONTINUE && !adv {
								bad = append(bad, fmt.Sprintf("%s: continue reaches the next cell without advancing the cursor", c.P.Pos(x.Pos())))
							}
							return adv, true
						case *ast.ReturnStmt:
							return adv, true
						case *ast.BlockStmt:
							a, t := walk(x.List, adv)
							if t {
								return a, true
							}
							adv = a
						case *ast.IfStmt:
							a1, t1 := walk(x.Body.List, adv)
							a2, t2 := adv, false
							if x.Else != nil {
								switch e := x.Else.(type) {
								case *ast.BlockStmt:
									a2, t2 = walk(e.List, adv)
								case *ast.IfStmt:
									a2, t2 = walk([]ast.Stmt{e}, adv)
								}
							}
							switch {
							case t1 && t2:
								return adv, true
							case t1:
								adv = a2
							case t2:
								adv = a1
							default:
								adv = a1 && a2
							}
						case *ast.SwitchStmt:
							all, hasDefault, allTerm := true, false, true
							for _, cc := range x.Body.List {
								cl := cc.(*ast.CaseClause)
								if cl.List == nil {
									hasDefault = true
								}
								a, t := walk(cl.Body, adv)
								if !t {
									allTerm = false
									all = all && a
								}
							}
							if !hasDefault {
								allTerm = false
								all = all && adv
							}
							if allTerm {
								return adv, true
							}
							adv = all
						}
					}
					return adv, false
				}
				a, t := walk(rs.Body.List, false)
				if !t && !a {
					bad = append(bad, fmt.Sprintf("%s: the end of the loop body is reached without advancing the cursor", c.P.Pos(rs.Body.End())))
				}
				c.Check(len(bad) == 0, R, key, rs.Pos(), "advanced on every path to the next cell", strings.Join(bad, "; ")+": the cells that follow land in the wrong column")
			}
			return true
		})
	}
}

// R16.3
func ruleDrainChildren(c *eng.Ctx) {
	const R = "R16.3-DRAIN-CHILDREN"
	c.Rule(R, "parsers of nested structures range over every child collection on every path: the loop over the collection dominates every successful return", 5, 0)
	for _, sp := range []struct {
		fn     string
		fields []string
	}{
		{"odt.(*ListParser).parseListItem", []string{"Paragraphs", "SubLists"}},
		{"odt.(*ListParser).parseList", []string{"Items"}},
		{"odt.inlineText", []string{"content"}},
		{"docx.runText", []string{"Items"}},
	} {
		fn := c.P.Func(sp.fn)
		if fn == nil {
			c.Ok(R, sp.fn+"#absent", token.NoPos, "function not present (nothing to drain)")
			continue
		}
		for _, field := range sp.fields {
			var hdrs []*ssa.BasicBlock
			eng.Instrs(fn, false, func(in ssa.Instruction) {
				ia, ok := in.(*ssa.IndexAddr)
				if !ok {
					return
				}
				ph, isInd := eng.Induction(ia.Index)
				if !isInd {
					// a loop that runs from the last element down to the first drains the collection just as well
					if p2, ok := ia.Index.(*ssa.Phi); ok {
						for _, e := range p2.Edges {
							if b, ok := e.(*ssa.BinOp); ok && b.Op == token.SUB && b.X == ssa.Value(p2) {
								if k, isC := eng.ConstInt(b.Y); isC && k == 1 {
									ph, isInd = p2, true
								}
							}
						}
					}
				}
				if !isInd {
					return
				}
				for v := range eng.Slice(ia.X, nil) {
					fr, isField := eng.AsField(v)
					par, isParam := v.(*ssa.Parameter)
					if (isField && fr.Field == field) || (isParam && par.Name() == field) {
						hdrs = append(hdrs, ph.Block())
					}
				}
			})
			key := sp.fn + "#" + field
			if len(hdrs) == 0 {
				// `for range x.Tabs` has no element access: look for len(field) loop bound instead
				eng.Instrs(fn, false, func(in ssa.Instruction) {
					call, ok := in.(*ssa.Call)
					if !ok {
						return
					}
					if bi, ok := call.Call.Value.(*ssa.Builtin); !ok || bi.Name() != "len" {
						return
					}
					for v := range eng.Slice(call.Call.Args[0], nil) {
						if fr, ok := eng.AsField(v); ok && fr.Field == field {
							for _, r := range *call.Referrers() {
								if b, ok := r.(*ssa.BinOp); ok && b.Op == token.LSS {
									hdrs = append(hdrs, b.Block())
								}
							}
						}
					}
				})
			}
			if len(hdrs) == 0 {
				c.Viol(R, key, fn.Pos(), "the child collection "+field+" is never iterated: its content is dropped")
				continue
			}
			okDom := false
			for _, hdr := range hdrs {
				all := true
				for _, r := range eng.Returns(fn) {
					if !hdr.Dominates(r.Block()) {
						all = false
					}
				}
				if all {
					okDom = true
				}
				// the walk as a loop over an explicit stack of pending items: the collection is drained once per item
				// when its loop lies on every way round that outer loop
				for _, outer := range enclosingLoopHeaders(hdr) {
					if outer == hdr {
						continue
					}
					everyTrip, back := true, 0
					for _, pr := range outer.Preds {
						if outer.Dominates(pr) {
							back++
							if !hdr.Dominates(pr) {
								everyTrip = false
							}
						}
					}
					// ... and nothing is returned before the loop over the pending items was entered
					for _, r := range eng.Returns(fn) {
						if !outer.Dominates(r.Block()) {
							everyTrip = false
						}
					}
					if back > 0 && everyTrip {
						if os.Getenv("VDEBUG") != "" {
							fmt.Fprintf(os.Stderr, "R16.3 %s outer=%d hdr=%d back=%d\n", key, outer.Index, hdr.Index, back)
						}
						okDom = true
					}
				}
			}
			c.Check(okDom, R, key, fn.Pos(), "iterated on every path", "a return can be reached without iterating "+field+": that content is dropped on that path (e.g. a list item with only a nested list and no text of its own loses the nested list)")
		}
	}
}

// R16.4
func ruleDeclaredChildRead(c *eng.Ctx) {
	declaredChildRead(c, "R16.4-DECLARED-CHILD-READ", map[string][]string{"docx": {"documentXML"}, "odt": {"documentXML"}}, 10,
		"every child-element collection that the DOCX/ODT XML structs declare and that can carry text (its element type transitively has a character-data field) is read somewhere in the package: a collection that is decoded and never read is content silently dropped")
}

// R17.7 [C17]
func ruleDeclaredChildReadXlsx(c *eng.Ctx) {
	declaredChildRead(c, "R17.7-DECLARED-CHILD-READ", map[string][]string{"xlsx": {"worksheetXML", "sharedStringsXML"}}, 3,
		"every child-element collection that the XLSX worksheet and shared-string structs declare and that can carry text is read somewhere in the package")
}

// R18.8 [C18]
func ruleDeclaredChildReadPptx(c *eng.Ctx) {
	declaredChildRead(c, "R18.8-DECLARED-CHILD-READ", map[string][]string{"pptx": {"slideXML", "notesSlideXML"}}, 6,
		"every child-element collection that the PPTX slide structs declare and that can carry text is read somewhere in the package: a collection that is decoded and never read is text that appears on no page")
}

func declaredChildRead(c *eng.Ctx, R string, roots map[string][]string, floor int, doc string) {
	c.Rule(R, doc, floor, 0)
	for _, pkg := range c.P.Pkgs {
		rootNames, ok := roots[pkg.Name]
		if !ok || !strings.HasSuffix(pkg.PkgPath, "/"+pkg.Name) {
			continue
		}
		used := map[types.Object]bool{}
		for _, sel := range pkg.TypesInfo.Selections {
			used[sel.Obj()] = true
		}
		var carriesText func(t types.Type, seen map[types.Type]bool) bool
		carriesText = func(t types.Type, seen map[types.Type]bool) bool {
			if seen[t] {
				return false
			}
			seen[t] = true
			switch u := t.Underlying().(type) {
			case *types.Slice:
				return carriesText(u.Elem(), seen)
			case *types.Pointer:
				return carriesText(u.Elem(), seen)
			case *types.Struct:
				for i := 0; i < u.NumFields(); i++ {
					if strings.Contains(u.Tag(i), ",chardata") {
						return true
					}
					// an element decoded straight into a string field (<t>text</t> as `T string xml:"t"`)
					if bt, ok := u.Field(i).Type().Underlying().(*types.Basic); ok && bt.Info()&types.IsString != 0 && xmlTagName(u.Tag(i)) != "" {
						return true
					}
					if !strings.Contains(u.Tag(i), ",attr") && carriesText(u.Field(i).Type(), seen) {
						return true
					}
				}
			}
			return false
		}
		scope := pkg.Types.Scope()
		// only the structs the body is decoded into: reachable from documentXML through xml-mapped fields
		inBody := map[string]bool{}
		var reach func(t types.Type)
		reach = func(t types.Type) {
			switch u := t.(type) {
			case *types.Slice:
				reach(u.Elem())
			case *types.Pointer:
				reach(u.Elem())
			case *types.Named:
				if inBody[u.Obj().Name()] || u.Obj().Pkg() != pkg.Types {
					return
				}
				inBody[u.Obj().Name()] = true
				if st, ok := u.Underlying().(*types.Struct); ok {
					for i := 0; i < st.NumFields(); i++ {
						reach(st.Field(i).Type())
					}
				}
			}
		}
		missingRoot := false
		for _, rn := range rootNames {
			root := scope.Lookup(rn)
			if root == nil {
				c.Undec(R, pkg.Name+"."+rn, token.NoPos, "root struct not found")
				missingRoot = true
				continue
			}
			reach(root.Type())
		}
		if missingRoot {
			continue
		}
		names := scope.Names()
		sort.Strings(names)
		for _, n := range names {
			tn, ok := scope.Lookup(n).(*types.TypeName)
			if !ok || !inBody[n] {
				continue
			}
			st, ok := tn.Type().Underlying().(*types.Struct)
			if !ok {
				continue
			}
			for i := 0; i < st.NumFields(); i++ {
				f := st.Field(i)
				tag := st.Tag(i)
				if strings.Contains(tag, ",attr") || strings.Contains(tag, `xml:"-"`) || f.Name() == "XMLName" {
					continue
				}
				if _, isSlice := f.Type().Underlying().(*types.Slice); !isSlice {
					continue
				}
				if !carriesText(f.Type(), map[types.Type]bool{}) {
					continue
				}
				key := pkg.Name + "." + n + "." + f.Name()
				c.Check(used[f], R, key, f.Pos(), "read in the package", "the collection is decoded from the XML ("+tag+") but never read: all text inside these elements is dropped from every output")
			}
		}
	}
}

// R16.5
func ruleInlineDispatch(c *eng.Ctx) {
	const R = "R16.5-INLINE-DISPATCH"
	c.Rule(R, "the hand-written XML decoders that collect inline content in document order dispatch on every element of the format's inline content model that carries visible text (table below, from ECMA-376 part 1 17.3.2/17.3.3 and ODF 1.2 part 1 6.1), and on none that carries deleted text", 3, 0)
	for _, sp := range []struct {
		fn        string
		must, not []string
	}{
		{"docx.(*paragraphXML).UnmarshalXML", []string{"r", "hyperlink", "ins", "smartTag", "fldSimple", "sdt", "sdtContent"}, []string{"del", "moveFrom"}},
		{"docx.(*runXML).UnmarshalXML", []string{"t", "tab", "br", "sym"}, []string{"delText", "instrText"}},
		{"odt.decodeInlineContent", []string{"span", "s", "tab", "line-break", "a"}, []string{"note", "annotation", "tracked-changes"}},
	} {
		fd := c.P.Decl(sp.fn)
		if fd == nil {
			c.Undec(R, sp.fn, token.NoPos, "anchor not found")
			continue
		}
		labels := map[string]bool{}
		// the dispatch may sit in a helper or in a method of a collector object the decoder drives
		for _, d := range c.P.DeclCluster(fd, 2) {
			d := d
			ast.Inspect(d.Decl.Body, func(n ast.Node) bool {
				cc, ok := n.(*ast.CaseClause)
				if !ok {
					return true
				}
				for _, e := range cc.List {
					if tv, ok := d.Pkg.TypesInfo.Types[e]; ok && tv.Value != nil && tv.Value.Kind() == constant.String {
						labels[constant.StringVal(tv.Value)] = true
					}
				}
				return true
			})
		}
		var missing, forbidden []string
		for _, m := range sp.must {
			if !labels[m] {
				missing = append(missing, m)
			}
		}
		for _, m := range sp.not {
			if labels[m] {
				forbidden = append(forbidden, m)
			}
		}
		c.Check(len(missing) == 0 && len(forbidden) == 0, R, sp.fn, fd.Decl.Pos(), fmt.Sprintf("dispatches on %v", keysOf(labels)),
			fmt.Sprintf("inline elements not dispatched: %v (their text is dropped); deleted/hidden content dispatched: %v", missing, forbidden))
	}
}

// R16.6
func ruleStreamDepth(c *eng.Ctx) {
	const R = "R16.6-STREAM-DEPTH"
	c.Rule(R, "a streaming walk over XML tokens that records elements in order by their local name either consumes the element's subtree (DecodeElement / Skip on the same path) or is guarded by a nesting-depth test: otherwise same-named descendants (paragraphs inside table cells) are counted as siblings and every later element is matched to the wrong position", 4, 0)
	for _, fn := range c.P.ModuleFuncs() {
		if fn.Pkg == nil {
			continue
		}
		if sp := eng.ShortPath(fn.Pkg.Pkg.Path()); sp != "docx" && sp != "odt" {
			continue
		}
		inTokenLoop := false
		for _, ci := range eng.Calls(fn, false, func(n string, _ ssa.CallInstruction) bool { return strings.HasSuffix(n, "xml.(*Decoder).Token") }) {
			if eng.InLoop(ci.Block()) {
				inTokenLoop = true
			}
		}
		if !inTokenLoop {
			continue
		}
		consumers := eng.Calls(fn, false, func(n string, _ ssa.CallInstruction) bool {
			return strings.HasSuffix(n, "xml.(*Decoder).DecodeElement") || strings.HasSuffix(n, "xml.(*Decoder).Skip")
		})
		depthFact := func(f eng.Fact) bool {
			_, x, y, ok := f.Cmp()
			if !ok {
				return false
			}
			for _, s := range [][2]ssa.Value{{x, y}, {y, x}} {
				ph, isPhi := s[0].(*ssa.Phi)
				if !isPhi || !isLoopCarried(ph) {
					// depth+1 compared with a constant is the same test
					if b, isB := s[0].(*ssa.BinOp); isB {
						ph, isPhi = b.X.(*ssa.Phi)
						if !isPhi || !isLoopCarried(ph) {
							continue
						}
					} else {
						continue
					}
				}
				if bt, isInt := ph.Type().Underlying().(*types.Basic); !isInt || bt.Info()&types.IsInteger == 0 {
					continue
				}
				if _, isC := eng.ConstInt(s[1]); isC {
					return true
				}
			}
			return false
		}
		n := 0
		for _, ci := range eng.Calls(fn, false, func(n string, _ ssa.CallInstruction) bool { return n == "builtin:append" }) {
			if !eng.InLoop(ci.Block()) {
				continue
			}
			// only elements recorded by their name (a branch taken on Name.Local == "…")
			byName := eng.GuardedBy(fn, ci.Block(), func(f eng.Fact) bool {
				op, x, y, ok := f.Cmp()
				if !ok || op != token.EQL {
					return false
				}
				_, sx := eng.ConstString(x)
				_, sy := eng.ConstString(y)
				return sx || sy
			})
			if !byName {
				continue
			}
			n++
			consumed := false
			for _, d := range consumers {
				if d.Block().Dominates(ci.Block()) || ci.Block().Dominates(d.Block()) {
					consumed = true
				}
			}
			guarded := eng.GuardedBy(fn, ci.Block(), depthFact)
			c.Check(consumed || guarded, R, fmt.Sprintf("%s#append%d", eng.FuncName(fn), n), ci.Pos(), "subtree consumed or depth-guarded",
				"an element is recorded by name while its descendants stay in the token stream and no nesting depth is tested: a same-named descendant (a paragraph inside a table cell) is taken for the next sibling")
		}
	}
}

// onlyMeasuredAgainstConstant reports whether every read of v in body (other than its own += / ++ step) is an operand of a
// binary expression whose other operand is a compile-time constant: such a variable is a budget, never a position.
func onlyMeasuredAgainstConstant(body *ast.BlockStmt, info *types.Info, v types.Object) bool {
	var stack []ast.Node
	reads, ok := 0, true
	ast.Inspect(body, func(n ast.Node) bool {
		if n == nil {
			stack = stack[:len(stack)-1]
			return true
		}
		stack = append(stack, n)
		id, isID := n.(*ast.Ident)
		if !isID || info.ObjectOf(id) != v {
			return true
		}
		// the step statement itself
		if len(stack) >= 2 {
			switch p := stack[len(stack)-2].(type) {
			case *ast.IncDecStmt:
				return true
			case *ast.AssignStmt:
				if len(p.Lhs) == 1 && p.Lhs[0] == ast.Expr(id) {
					return true
				}
			case *ast.ValueSpec:
				return true
			}
		}
		reads++
		var child ast.Node = id
		for i := len(stack) - 2; i >= 0; i-- {
			switch p := stack[i].(type) {
			case *ast.ParenExpr:
				child = p
				continue
			case *ast.BinaryExpr:
				other := p.X
				if p.X == child {
					other = p.Y
				}
				if tv, has := info.Types[other]; has && tv.Value != nil {
					return true
				}
			}
			break
		}
		ok = false
		return true
	})
	return ok && reads > 0
}
