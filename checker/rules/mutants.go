package rules

import (
	"encoding/json"
	"os"
	"path/filepath"
	"sort"
	"strings"
)

// Mutant is one overlay edit used to test the checker both ways (DESIGN 2.4):
// either a single find/replace in one file or a unified diff kept under
// /verif/seeded (property-breaking changes that compile and pass the tests) or
// /verif/benign (behaviour-preserving refactorings: the check must stay silent).
type Mutant struct {
	Name            string
	File            string // relative to the repository root
	Find            string // must occur exactly once, otherwise the mutant is inapplicable
	Replace         string
	Patch           string // path of a unified diff (-p1) to overlay instead of Find/Replace
	ExpectRule      string // rule that must report a violation ("" = any rule of the property)
	ExpectConstruct string // substring of the construct key
	Benign          bool   // behaviour-preserving variant: the check must stay silent
}

var mutants = map[string][]Mutant{}

// Mutants returns the mutation table of a property: the static table plus the
// patches found under verifDir/seeded/<prop>-* and verifDir/benign/<prop>-*.
func Mutants(prop, verifDir string) []Mutant {
	ms := append([]Mutant(nil), mutants[prop]...)
	for _, kind := range []string{"seeded", "benign"} {
		dirs, _ := filepath.Glob(filepath.Join(verifDir, kind, prop+"-*"))
		sort.Strings(dirs)
		for _, d := range dirs {
			p := filepath.Join(d, "patch.diff")
			if _, err := os.Stat(p); err != nil {
				continue
			}
			var meta struct {
				StaticExpected *bool  `json:"static_expected"`
				ExpectRule     string `json:"expect_rule"`
			}
			if b, err := os.ReadFile(filepath.Join(d, "meta.json")); err == nil {
				json.Unmarshal(b, &meta)
			}
			if meta.StaticExpected != nil && !*meta.StaticExpected {
				continue
			}
			ms = append(ms, Mutant{Name: kind + "/" + filepath.Base(d), Patch: p, Benign: kind == "benign", ExpectRule: meta.ExpectRule})
		}
	}
	return ms
}

// PatchFiles lists the files a unified diff touches (b/ side, -p1).
func PatchFiles(diff string) []string {
	var out []string
	for _, l := range strings.Split(diff, "\n") {
		if strings.HasPrefix(l, "+++ b/") {
			out = append(out, strings.TrimSpace(strings.TrimPrefix(l, "+++ b/")))
		}
	}
	return out
}
