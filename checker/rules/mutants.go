package rules

// Mutant is one overlay edit used to test the checker both ways (DESIGN 2.4).
type Mutant struct {
	Name            string
	File            string // relative to the repository root
	Find            string // must occur exactly once, otherwise the mutant is inapplicable
	Replace         string
	ExpectRule      string // rule that must report a violation
	ExpectConstruct string // substring of the construct key
	Benign          bool   // behaviour-preserving variant: the check must stay silent
}

var mutants = map[string][]Mutant{}

// Mutants returns the mutation table of a property.
func Mutants(prop string) []Mutant { return mutants[prop] }
