package rules
