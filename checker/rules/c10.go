package rules

import (
	"fmt"
	"go/token"
	"go/types"
	"strings"

	"golang.org/x/tools/go/ssa"

	"verif/checker/eng"
)

func init() {
	register(&Property{
		ID:    "C10",
		Level: "other",
		Explanation: "Decided (structural necessary conditions): (R10.1) every configuration method of *Extractor returns a value derived from clone() and neither writes through its receiver nor appends onto a slice owned by it; (R10.2) clone functions copy every field and rebuild reference-holding fields; (R10.4) every exported method that opens the reader, except the documented non-terminal ones, defers Close on every path after the open succeeds; (R10.5) every file/zip acquisition is closed on each error return and handed to the returned owner on success, and Close methods clear what they test; (R10.6) page numbers reaching the result of resolvePages passed the range check, are de-duplicated and sorted; (R10.7) the page number stamped on a model page survives AddPage. " +
			"Not decided: that a selection yields exactly the per-page results (needs C01), descriptor counts at run time, the per-page join rule.",
		Rules: []func(*eng.Ctx){ruleFluentExtractorEvaluated, constructorBypassedRule("R10.CL", "", "model", "pages", "reader"), deleteInRangeRule("R10.DR", "", "model", "pages", "reader"), lostLoopCopyWriteRule("R10.LC", "", "layout", "text", "model", "rag"), ruleEverySelectedPageAdded, ruleTOCEntryPerHeading, ruleCloseClearsOnlyOwned, ruleAllRequestedPagesValidated, ruleBuilderPurity, ruleCloneComplete, ruleTerminalClose, ruleResourcePairing, rulePageRange, rulePageStamp, ruleFilterPageIndex, roleRule("R10.R", "tabula"), ruleCloseResetsFlags, ruleSeparatorBetweenNonEmpty, ruleNoSharedOwnership, ruleDetectAllPages, ruleFontsFromOwnResources, rulePageRangeInclusive, rulePerPageDecision, ruleSelectionReadonly},
	})
}

func extractorMethods(p *eng.Prog) []*ssa.Function {
	var out []*ssa.Function
	for _, fn := range p.ModuleFuncs() {
		if fn.Parent() != nil || fn.Signature.Recv() == nil {
			continue
		}
		if eng.TypeName(fn.Signature.Recv().Type()) != "*tabula.Extractor" {
			continue
		}
		out = append(out, fn)
	}
	return out
}

func isExported(name string) bool { return name != "" && name[0] >= 'A' && name[0] <= 'Z' }

// R10.1
func ruleBuilderPurity(c *eng.Ctx) {
	const R = "R10.1-BUILDER-PURITY"
	c.Rule(R, "configuration methods (*Extractor -> *Extractor) return a value derived from e.clone() and do not write through e (stores, map updates, copy/append onto receiver-owned slices, callees that write through it)", 9, 0)
	eff := eng.EffectsOf(c.P)
	clone := c.P.Func("tabula.(*Extractor).clone")
	if clone == nil {
		c.Undec(R, "tabula.(*Extractor).clone", token.NoPos, "anchor not found")
		return
	}
	for _, fn := range extractorMethods(c.P) {
		res := fn.Signature.Results()
		if !isExported(fn.Name()) || res.Len() != 1 || eng.TypeName(res.At(0).Type()) != "*tabula.Extractor" {
			continue
		}
		name := eng.FuncName(fn)
		// returns derived from clone()
		okRet := true
		for _, r := range eng.Returns(fn) {
			// the clone may be taken by a small helper of the package that returns it (e.withOptions(func…))
			var cl []*ssa.Function
			for _, g := range eng.Cluster(fn, 2) {
				if g != clone {
					cl = append(cl, g)
				}
			}
			sl := eng.SliceInter(r.Results[0], nil, cl)
			fromClone := false
			for v := range sl {
				if call, ok := v.(*ssa.Call); ok && eng.StaticCallee(call) == clone {
					fromClone = true
				}
				if v == ssa.Value(fn.Params[0]) {
					okRet = false
				}
			}
			if !fromClone {
				okRet = false
			}
		}
		c.Check(okRet, R, name+"#returns-clone", fn.Pos(), "returns e.clone()", "returns the receiver itself or a value not derived from e.clone(): configuring mutates a shared extractor")
		ws := eff.WritesThrough(fn, 0)
		if len(ws) > 0 {
			c.Viol(R, name+"#receiver-writes", fn.Pos(), "writes through the receiver: "+strings.Join(ws, "; "))
		} else {
			c.Ok(R, name+"#receiver-writes", fn.Pos(), "no write through the receiver")
		}
	}
}

// nonTerminal lists the documented operations that leave the reader open.
var nonTerminal = map[string]string{
	"PageCount":        "documented: does NOT close the reader",
	"IsCharacterLevel": "documented: the reader remains open",
	"IsMultiColumn":    "documented: the reader remains open",
	"Close":            "is the closer",
}

// R10.4
func ruleTerminalClose(c *eng.Ctx) {
	const R = "R10.4-TERMINAL-CLOSE"
	c.Rule(R, "every exported *Extractor method that calls ensureReader (except the documented non-terminal table) has `defer e.Close()` on every path from the success edge of ensureReader to any return", 14, 0)
	ensure := c.P.Func("tabula.(*Extractor).ensureReader")
	closeFn := c.P.Func("tabula.(*Extractor).Close")
	if ensure == nil || closeFn == nil {
		c.Undec(R, "anchors", token.NoPos, "ensureReader / Close not found")
		return
	}
	for _, fn := range extractorMethods(c.P) {
		if !isExported(fn.Name()) {
			continue
		}
		var calls []ssa.CallInstruction
		for _, ci := range eng.Calls(fn, false, func(string, ssa.CallInstruction) bool { return true }) {
			if opensReader(eng.StaticCallee(ci), ensure, closeFn, 0) {
				calls = append(calls, ci)
			}
		}
		if len(calls) == 0 {
			continue
		}
		name := eng.FuncName(fn)
		if why, ok := nonTerminal[fn.Name()]; ok {
			c.Ok(R, name, fn.Pos(), "non-terminal: "+why)
			continue
		}
		hasDeferClose := func(b *ssa.BasicBlock) bool {
			for _, in := range b.Instrs {
				if d, ok := in.(*ssa.Defer); ok && eng.StaticCallee(d) == closeFn {
					return true
				}
			}
			return false
		}
		bad := ""
		for _, ci := range calls {
			// success edge: the false edge of `err != nil` on the call's result
			blk := ci.Block()
			var succ *ssa.BasicBlock
			// the error result: the call's value, or the last component of a helper's tuple
			var errVal ssa.Value = ci.Value()
			if cv := ci.Value(); cv != nil {
				if tup, ok := cv.Type().(*types.Tuple); ok {
					errVal = nil
					for _, r := range *cv.Referrers() {
						if ex, ok := r.(*ssa.Extract); ok && ex.Index == tup.Len()-1 {
							errVal = ex
						}
					}
				}
			}
			if ifi, ok := blk.Instrs[len(blk.Instrs)-1].(*ssa.If); ok && errVal != nil {
				if f, ok := eng.EdgeFact(eng.Edge{From: blk, Succ: 1}); ok {
					if op, x, y, ok := f.Cmp(); ok && op == token.EQL && (x == errVal || y == errVal) {
						succ = blk.Succs[1]
					}
				}
				if f, ok := eng.EdgeFact(eng.Edge{From: blk, Succ: 0}); ok && succ == nil {
					if op, x, y, ok := f.Cmp(); ok && op == token.EQL && (x == errVal || y == errVal) {
						succ = blk.Succs[0]
					}
				}
				_ = ifi
			}
			if succ == nil {
				bad = "result of ensureReader is not tested directly after the call"
				break
			}
			reach := eng.ReachableBlocks([]*ssa.BasicBlock{succ}, hasDeferClose)
			for b := range reach {
				if len(b.Instrs) == 0 {
					continue
				}
				if r, ok := b.Instrs[len(b.Instrs)-1].(*ssa.Return); ok {
					bad = fmt.Sprintf("return at %s is reachable after the reader was opened without `defer e.Close()` having run: the file handle stays open", c.P.Pos(r.Pos()))
				}
			}
		}
		if bad != "" {
			c.Viol(R, name, fn.Pos(), bad)
		} else {
			c.Ok(R, name, fn.Pos(), "defer e.Close() covers every exit after ensureReader succeeded")
		}
	}
}

// opensReader reports whether f is ensureReader or an unexported helper of the package that opens the reader through
// it, reports failure in a trailing error result and leaves closing to its caller (no defer e.Close() of its own).
func opensReader(f, ensure, closeFn *ssa.Function, depth int) bool {
	if f == nil {
		return false
	}
	if f == ensure {
		return true
	}
	if depth >= 2 || f.Blocks == nil || isExported(f.Name()) || f.Pkg != ensure.Pkg {
		return false
	}
	res := f.Signature.Results()
	if res.Len() == 0 || !types.Identical(res.At(res.Len()-1).Type(), types.Universe.Lookup("error").Type()) {
		return false
	}
	opens := false
	for _, b := range f.Blocks {
		for _, in := range b.Instrs {
			if d, ok := in.(*ssa.Defer); ok && eng.StaticCallee(d) == closeFn {
				return false
			}
			if ci, ok := in.(ssa.CallInstruction); ok && opensReader(eng.StaticCallee(ci), ensure, closeFn, depth+1) {
				opens = true
			}
		}
	}
	return opens
}

// R10.5
var acquirers = map[string]bool{"os.Open": true, "os.Create": true, "os.OpenFile": true, "archive/zip.OpenReader": true}

func ruleResourcePairing(c *eng.Ctx) {
	const R = "R10.5-RES-PAIR"
	c.Rule(R, "every os.Open/os.Create/zip.OpenReader handle is closed (call or defer) on each path to an error return, and on success is returned, stored in the returned owner or covered by a defer; Close methods reset the state they test", 12, 1)
	for _, fn := range c.P.ModuleFuncs() {
		for _, ci := range eng.Calls(fn, false, func(n string, _ ssa.CallInstruction) bool { return acquirers[n] }) {
			call, ok := ci.(*ssa.Call)
			if !ok {
				continue
			}
			key := fmt.Sprintf("%s#%s", eng.FuncName(fn), eng.CalleeName(ci))
			var handle ssa.Value
			for _, r := range *call.Referrers() {
				if ex, ok := r.(*ssa.Extract); ok && ex.Index == 0 {
					handle = ex
				}
			}
			if handle == nil {
				c.Viol(R, key, call.Pos(), "handle result is discarded")
				continue
			}
			// aliases of the handle: the value itself plus interface conversions of it
			isHandle := func(v ssa.Value) bool {
				for i := 0; i < 4 && v != nil; i++ {
					if v == handle {
						return true
					}
					switch x := v.(type) {
					case *ssa.MakeInterface:
						v = x.X
					case *ssa.ChangeInterface:
						v = x.X
					case *ssa.ChangeType:
						v = x.X
					case *ssa.UnOp:
						// load from a local the handle was stored into
						if a, ok := x.X.(*ssa.Alloc); ok {
							for _, r := range *a.Referrers() {
								if st, ok := r.(*ssa.Store); ok && st.Addr == a && st.Val == handle {
									return true
								}
							}
						}
						if fa, ok := x.X.(*ssa.FieldAddr); ok && fieldHoldsHandle(fa, handle) {
							return true
						}
						return false
					case *ssa.FieldAddr:
						// address of the embedded Reader inside a *zip.ReadCloser
						v = x.X
					default:
						return false
					}
				}
				return false
			}
			closes := func(b *ssa.BasicBlock) bool {
				for _, in := range b.Instrs {
					cc, ok := in.(ssa.CallInstruction)
					if !ok {
						continue
					}
					com := cc.Common()
					mname := ""
					var recv ssa.Value
					if com.IsInvoke() {
						mname, recv = com.Method.Name(), com.Value
					} else if f := com.StaticCallee(); f != nil && f.Signature.Recv() != nil && len(com.Args) > 0 {
						mname, recv = f.Name(), com.Args[0]
					}
					if mname == "Close" && isHandle(recv) {
						return true
					}
				}
				return false
			}
			// does the handle escape into an owner (stored into a struct field / returned)?
			escapes := false
			var walkRefs func(v ssa.Value, d int)
			walkRefs = func(v ssa.Value, d int) {
				if d > 3 || v.Referrers() == nil {
					return
				}
				for _, r := range *v.Referrers() {
					switch x := r.(type) {
					case *ssa.Store:
						if x.Val == v {
							if _, isField := x.Addr.(*ssa.FieldAddr); isField {
								escapes = true
							}
						}
					case *ssa.Return:
						escapes = true
					case *ssa.MakeInterface:
						walkRefs(x, d+1)
					case *ssa.ChangeType:
						walkRefs(x, d+1)
					case ssa.CallInstruction:
						// passed to a constructor that keeps it (e.g. NewReader(file))
						if f := eng.StaticCallee(x); f != nil && eng.InModule(f) && strings.HasPrefix(f.Name(), "New") {
							escapes = true
						}
					}
				}
			}
			walkRefs(handle, 0)
			// a deferred closure that closes the handle when the function's error result is set:
			// defer func() { if err != nil { zr.Close() } }()
			var errCloser *ssa.Defer
			eng.Instrs(fn, false, func(in ssa.Instruction) {
				df, ok := in.(*ssa.Defer)
				if !ok {
					return
				}
				mc, ok := df.Call.Value.(*ssa.MakeClosure)
				if !ok {
					return
				}
				lit, _ := mc.Fn.(*ssa.Function)
				if lit == nil || lit.Parent() != fn {
					return
				}
				closesIt, testsErr := false, false
				eng.Instrs(lit, false, func(in2 ssa.Instruction) {
					if cc, ok := in2.(ssa.CallInstruction); ok {
						com := cc.Common()
						name := ""
						if com.IsInvoke() {
							name = com.Method.Name()
						} else if f := com.StaticCallee(); f != nil {
							name = f.Name()
						}
						if name == "Close" {
							closesIt = true
						}
					}
					if b, ok := in2.(*ssa.BinOp); ok && b.Op == token.NEQ && (eng.IsErrorType(b.X.Type()) || eng.IsErrorType(b.Y.Type())) {
						testsErr = true
					}
				})
				if closesIt && testsErr {
					errCloser = df
				}
			})
			// success successor of the `err != nil` test on the acquisition
			start := call.Block().Succs
			reach := eng.ReachableBlocks(start, closes)
			var leaks []string
			for b := range reach {
				if len(b.Instrs) == 0 {
					continue
				}
				r, ok := b.Instrs[len(b.Instrs)-1].(*ssa.Return)
				if !ok {
					continue
				}
				// the failing-acquisition return itself has no handle to close
				if acquisitionFailed(b, call) {
					continue
				}
				isErr := false
				if n := len(r.Results); n > 0 && eng.IsErrorType(r.Results[n-1].Type()) {
					nn, known := eng.ErrValueNonNil(r.Results[n-1])
					isErr = !known || nn
					if known && !nn {
						isErr = false
					}
				}
				if isErr && errCloser != nil && (errCloser.Block() == b || errCloser.Block().Dominates(b)) {
					continue // the deferred closure closes the handle on every return that sets the error
				}
				if isErr {
					leaks = append(leaks, "error return at "+c.P.Pos(r.Pos())+" without closing the handle")
				} else if !escapes {
					leaks = append(leaks, "return at "+c.P.Pos(r.Pos())+" neither closes the handle nor hands it to an owner")
				}
			}
			if len(leaks) > 0 {
				c.Viol(R, key, call.Pos(), strings.Join(leaks, "; "))
			} else {
				c.Ok(R, key, call.Pos(), "closed on every error path; owned or deferred on success")
			}
		}
	}
	// Close methods reset what they test
	for _, spec := range []struct {
		fn, field string
		mustClear bool
	}{
		{"tabula.(*Extractor).Close", "ownsReader", true},
		{"docx.(*Reader).Close", "zipReader", true}, {"odt.(*Reader).Close", "zipReader", true}, {"xlsx.(*Reader).Close", "zipReader", true},
		{"pptx.(*Reader).Close", "zipReader", true},
		// epubdoc keeps its handle after Close (a second Reader.Close returns the zip package's
		// "already closed" error, it does not crash); the Extractor never reaches it twice
		// because Extractor.Close drops its epubReader. Only the nil test is required here.
		{"epubdoc.(*Reader).Close", "zr", false},
	} {
		fn := c.P.Func(spec.fn)
		if fn == nil {
			c.Undec(R, spec.fn, token.NoPos, "anchor not found")
			continue
		}
		tested, cleared := false, false
		// the clearing store may sit in a helper of the same package (e.releaseOwnership())
		for _, h := range eng.Cluster(fn, 2)[1:] {
			eng.Instrs(h, false, func(in ssa.Instruction) {
				if x, ok := in.(*ssa.Store); ok {
					if fr, ok := eng.AsField(x.Addr); ok && fr.Field == spec.field {
						if cst, ok := x.Val.(*ssa.Const); ok && (cst.Value == nil || cst.Value.ExactString() == "false") {
							cleared = true
						}
					}
				}
			})
		}
		eng.Instrs(fn, false, func(in ssa.Instruction) {
			switch x := in.(type) {
			case *ssa.Store:
				if fr, ok := eng.AsField(x.Addr); ok && fr.Field == spec.field {
					if cst, ok := x.Val.(*ssa.Const); ok && (cst.Value == nil || cst.Value.ExactString() == "false") {
						cleared = true
					}
				}
			case *ssa.If:
				sl := eng.Slice(x.Cond, nil)
				for v := range sl {
					if fr, ok := eng.AsField(v); ok && fr.Field == spec.field {
						tested = true
					}
				}
			}
		})
		c.Check(tested && (cleared || !spec.mustClear), R, spec.fn+"#idempotent", fn.Pos(), "tests and clears "+spec.field, "Close does not both test and clear "+spec.field+": a second Close closes the handle again")
	}
}

func fieldHoldsHandle(fa *ssa.FieldAddr, handle ssa.Value) bool {
	// some store in the function puts the handle into the same field of the same base
	fn := fa.Parent()
	found := false
	eng.Instrs(fn, false, func(in ssa.Instruction) {
		if st, ok := in.(*ssa.Store); ok && st.Val == handle {
			if o, ok := st.Addr.(*ssa.FieldAddr); ok && o.Field == fa.Field && eng.SameValue(o.X, fa.X) {
				found = true
			}
		}
	})
	return found
}

// acquisitionFailed: block b is only reached through the `err != nil` edge of the
// acquisition call's own error result.
func acquisitionFailed(b *ssa.BasicBlock, call *ssa.Call) bool {
	var errv ssa.Value
	for _, r := range *call.Referrers() {
		if ex, ok := r.(*ssa.Extract); ok && ex.Index == 1 {
			errv = ex
		}
	}
	if errv == nil {
		return false
	}
	m := eng.MustCross(b.Parent(), func(e eng.Edge) bool {
		f, ok := eng.EdgeFact(e)
		if !ok {
			return false
		}
		op, x, y, ok := f.Cmp()
		if !ok || op != token.NEQ {
			return false
		}
		isErr := func(v ssa.Value) bool {
			if v == errv {
				return true
			}
			// the named error result, kept in a cell because a deferred closure reads it: a load of the cell the
			// acquisition's error was stored into
			if ld, ok := v.(*ssa.UnOp); ok && ld.Op == token.MUL {
				if al, ok := ld.X.(*ssa.Alloc); ok && al.Referrers() != nil {
					for _, r := range *al.Referrers() {
						if st, ok := r.(*ssa.Store); ok && st.Addr == ssa.Value(al) && st.Val == errv && st.Block().Dominates(ld.Block()) {
							return true
						}
					}
				}
			}
			return false
		}
		return (isErr(x) && eng.IsNilConst(y)) || (isErr(y) && eng.IsNilConst(x))
	}, nil)
	return m[b]
}

// R10.6
func rulePageRange(c *eng.Ctx) {
	const R = "R10.6-PAGE-RANGE"
	c.Rule(R, "in resolvePages every requested page number appended to the result passed `p < 1 || p > pageCount` on its false edge and the seen-set test; the result is sorted before it is returned", 4, 0)
	fn := c.P.Func("tabula.(*Extractor).resolvePages")
	if fn == nil {
		c.Undec(R, "tabula.(*Extractor).resolvePages", token.NoPos, "anchor not found")
		return
	}
	name := eng.FuncName(fn)
	// appends of values derived from options.pages elements
	fromRequested := func(v ssa.Value) (ssa.Value, bool) {
		sl := eng.Slice(v, pureLeafCall)
		for w := range sl {
			if ia, ok := w.(*ssa.IndexAddr); ok {
				if fr, ok := eng.LoadOfField(ia.X); ok && fr.Field == "pages" {
					return ia, true
				}
			}
		}
		return nil, false
	}
	var pageCount ssa.Value
	for _, ci := range eng.Calls(fn, false, func(n string, _ ssa.CallInstruction) bool { return strings.HasSuffix(n, ").PageCount") }) {
		for _, r := range *ci.Value().Referrers() {
			if ex, ok := r.(*ssa.Extract); ok && ex.Index == 0 {
				pageCount = ex
			}
		}
	}
	if pageCount == nil {
		c.Viol(R, name+"#pageCount", fn.Pos(), "page count is not obtained from the reader")
		return
	}
	nApp := 0
	type site struct {
		in     ssa.Instruction
		sorted bool // placed at the position a binary search of the result gives: the result stays ascending
	}
	var sites []site
	for _, ci := range eng.Calls(fn, false, func(n string, _ ssa.CallInstruction) bool { return n == "builtin:append" }) {
		args := ci.Common().Args
		if len(args) < 2 {
			continue
		}
		if _, ok := fromRequested(args[1]); !ok {
			continue
		}
		sites = append(sites, site{ci, false})
	}
	// sorted insertion: result[pos] = page with pos = sort.SearchInts(result, page)
	isReq := func(v ssa.Value) bool { _, ok := fromRequested(v); return ok }
	searchInsert := false
	for _, st := range sortedInsertStores(fn, isReq) {
		sites = append(sites, site{st, true})
		searchInsert = true
	}
	for _, sx := range sites {
		ci := sx.in
		nApp++
		blk := ci.Block()
		isP := func(v ssa.Value) bool {
			_, ok := fromRequested(v)
			if !ok {
				return false
			}
			// must be the raw requested number (not p-1): a load of the element
			u, ok := v.(*ssa.UnOp)
			return ok && u.Op == token.MUL
		}
		lowerPred := func(f eng.Fact) bool {
			op, x, y, ok := f.Cmp()
			if !ok {
				return false
			}
			if k, isC := eng.ConstInt(y); isC && isP(x) && ((op == token.GEQ && k == 1) || (op == token.GTR && k == 0)) {
				return true
			}
			if k, isC := eng.ConstInt(x); isC && isP(y) && ((op == token.LEQ && k == 1) || (op == token.LSS && k == 0)) {
				return true
			}
			return false
		}
		// the bounds may also have been established for every requested number by a validation pass of its own
		lower := eng.GuardedBy(fn, blk, lowerPred) || validatedByEarlierPass(fn, blk, "pages", lowerPred)
		upperPred := func(f eng.Fact) bool {
			op, x, y, ok := f.Cmp()
			if !ok {
				return false
			}
			return (isP(x) && y == pageCount && op == token.LEQ) || (isP(y) && x == pageCount && op == token.GEQ)
		}
		upper := eng.GuardedBy(fn, blk, upperPred) || validatedByEarlierPass(fn, blk, "pages", upperPred)
		seen := eng.GuardedBy(fn, blk, func(f eng.Fact) bool {
			// !seen[k]: negative fact on a map lookup (plain or comma-ok)
			if f.Pos {
				return false
			}
			if _, ok := f.Cond.(*ssa.Lookup); ok {
				return true
			}
			if ex, ok := f.Cond.(*ssa.Extract); ok {
				_, isL := ex.Tuple.(*ssa.Lookup)
				return isL
			}
			return false
		})
		if !seen && sx.sorted {
			seen = sortedInsertDedup(fn, blk, isReq)
		}
		c.Check(lower, R, name+"#lower-bound", ci.Pos(), "p >= 1 holds where the page is appended", "a requested page number below 1 reaches the result (no `p < 1` rejection on every path)")
		c.Check(upper, R, name+"#upper-bound", ci.Pos(), "p <= pageCount holds where the page is appended", "a requested page number beyond the document reaches the result (no `p > pageCount` rejection on every path)")
		c.Check(seen, R, name+"#dedup", ci.Pos(), "append is guarded by the seen-set", "duplicates are not removed before appending")
	}
	if nApp == 0 {
		c.Viol(R, name+"#append", fn.Pos(), "no append of a requested page number found")
	}
	// sort dominates the final return of the requested branch
	sorts := eng.Calls(fn, false, func(n string, _ ssa.CallInstruction) bool {
		return n == "sort.Ints" || n == "slices.Sort"
	})
	okSort := len(sorts) > 0 || searchInsert
	c.Check(okSort, R, name+"#sorted", fn.Pos(), "result is sorted", "result is no longer sorted: pages come out in request order, not ascending page order")
}

// R10.7
func rulePageStamp(c *eng.Ctx) {
	R := "R10.7-PAGE-STAMP"
	c.Rule(R, "in Extractor.Document the store to Page.Number that survives is the one derived from the source page index: no store to Number may be followed by AddPage (which overwrites it), and one store after AddPage must derive from the resolved page index", 2, 0)
	fn := c.P.Func("tabula.(*Extractor).Document")
	if fn == nil {
		c.Undec(R, "tabula.(*Extractor).Document", token.NoPos, "anchor not found")
		return
	}
	name := eng.FuncName(fn)
	resolve := c.P.Func("tabula.(*Extractor).resolvePages")
	// the page assembly may live in a helper of the package (addLayoutPage): every function of the cluster is
	// examined on its own (stamp and AddPage must be in the same function), values are followed through helper parameters
	cluster := eng.Cluster(fn, 2)
	good, dead := false, false
	var pos token.Pos = fn.Pos()
	for _, h := range cluster {
		var addCalls []ssa.CallInstruction
		for _, ci := range eng.Calls(h, false, func(n string, _ ssa.CallInstruction) bool { return n == "model.(*Document).AddPage" }) {
			addCalls = append(addCalls, ci)
		}
		// the PDF branch: AddPage calls whose page argument has a Number store derived from resolvePages
		eng.Instrs(h, false, func(in ssa.Instruction) {
			st, ok := in.(*ssa.Store)
			if !ok {
				return
			}
			fr, ok := eng.AsField(st.Addr)
			if !ok || fr.Field != "Number" || !strings.HasSuffix(fr.Struct, "model.Page") {
				return
			}
			fromResolve := false
			for v := range eng.SliceInter(st.Val, nil, cluster) {
				if call, ok := v.(*ssa.Call); ok && eng.StaticCallee(call) == resolve && resolve != nil {
					fromResolve = true
				}
			}
			for _, ac := range addCalls {
				if len(ac.Common().Args) < 2 || !eng.SameValue(ac.Common().Args[1], fr.Base) {
					continue
				}
				if eng.InstrDominates(st, ac) {
					dead = true
					pos = st.Pos()
				}
				if eng.InstrDominates(ac, st) && fromResolve {
					good = true
				}
			}
		})
	}
	if dead {
		c.Viol(R, name+"#Number", pos, "Page.Number is stamped before AddPage, which overwrites it with the insertion index: a page selection reports page 1,2,… instead of the source page")
	} else if !good {
		c.Viol(R, name+"#Number", pos, "no store to Page.Number after AddPage that derives from the resolved source page index")
	} else {
		c.Ok(R, name+"#Number", pos, "source page number is stamped after AddPage")
	}
	if add := c.P.Func("model.(*Document).AddPage"); add != nil {
		overwrites := false
		eng.Instrs(add, false, func(in ssa.Instruction) {
			if st, ok := in.(*ssa.Store); ok {
				if fr, ok := eng.AsField(st.Addr); ok && fr.Field == "Number" {
					overwrites = true
				}
			}
		})
		c.Note("model.(*Document).AddPage overwrites Page.Number: %v", overwrites)
		c.Ok(R, "model.(*Document).AddPage", add.Pos(), fmt.Sprintf("AddPage assigns Number by insertion order: %v", overwrites))
	}
	_ = types.Typ
}

// pureLeafCall: a call to a function of the module that is one straight line of arithmetic on its parameters (no
// branch, no call, no memory): zeroIndexOf(p) is p-1 written with a name.
func pureLeafCall(call *ssa.Call) bool {
	g := eng.StaticCallee(call)
	if g == nil || !eng.InModule(g) || len(g.Blocks) != 1 {
		return false
	}
	for _, in := range g.Blocks[0].Instrs {
		switch in.(type) {
		case *ssa.BinOp, *ssa.UnOp, *ssa.Convert, *ssa.ChangeType, *ssa.Return, *ssa.DebugRef:
		default:
			return false
		}
		if u, ok := in.(*ssa.UnOp); ok && u.Op == token.MUL {
			return false
		}
	}
	return true
}
