package rules

import (
	"fmt"
	"go/ast"
	"go/constant"
	"go/token"
	"go/types"
	"sort"
	"strings"

	"golang.org/x/tools/go/ssa"

	"verif/checker/eng"
)

func init() {
	register(&Property{
		ID:    "C05",
		Level: "other",
		Explanation: "Decided (structural necessary conditions of exact inversion): (R5.1) the filter dispatch table knows every ISO 32000 filter under its long and abbreviated name in the same clause, routes the three implemented filters to their decoders and rejects unknown names; (R5.2) a filter chain is applied in array order, each stage reading the previous stage's output, with the i-th DecodeParms entry and nothing carried over from an earlier stage, and a failing stage aborts; (R5.3) predictor dispatch {1: identity, 2: TIFF, 10..15: PNG, else error} and PNG row tags 0..4 with an erroring default; (R5.4) every neighbour access of the PNG/TIFF predictors has exactly the specified offset polynomial (left = -bytesPerPixel, up = -rowLength, upper-left = both) under exactly the specified first-pixel/first-row guards, row geometry (tag byte, row slice, output window) tiles the buffers, and the Paeth selection has the PNG specification's comparison structure; (R5.5) whitespace class, hex digit values and EOD markers of the ASCII filters. " +
			"Not decided: numeric results of Average/base-85 arithmetic at run time, zlib itself, that undecodable data always yields an error.",
		Rules: []func(*eng.Ctx){ruleASCIIChainsEvaluated, rulePredictorsInvert, ruleDecodersLeaveInput, ruleHexDecoderInverts, ruleBase85DecoderInverts, ruleEveryZlibHeaderInflated, ruleBase85GroupRangeChecked, rulePooledObjectsStayInside, ruleDecompressorGetsWholeInput, ruleFilterNames, ruleChainOrder, rulePredictorTable, ruleStride, rulePaeth, ruleASCIIClasses, ruleNarrowSum, ruleA85Constants, roleRule("R5.R", "internal/filters", "core"), ruleLimitTruncationFilters, ruleFilterParmsParallelC05, rulePNGPredictorValueUnused, rulePDFWhitespaceOnly, ruleA85GroupsInDigits},
	})
}

// ISO 32000-1 table 6 + abbreviations of table 94 (written independently of the repository).
var isoFilters = [][2]string{
	{"FlateDecode", "Fl"}, {"ASCIIHexDecode", "AHx"}, {"ASCII85Decode", "A85"}, {"LZWDecode", "LZW"},
	{"RunLengthDecode", "RL"}, {"CCITTFaxDecode", "CCF"}, {"DCTDecode", "DCT"},
}

var implementedFilters = map[string]string{
	"FlateDecode":    "internal/filters.FlateDecode",
	"ASCIIHexDecode": "internal/filters.ASCIIHexDecode",
	"ASCII85Decode":  "internal/filters.ASCII85Decode",
}

// caseTable extracts the string case labels of the (first) switch in a function:
// label -> clause index, plus the clauses.
func caseTable(fd *eng.FuncDecl) (map[string]int, []*ast.CaseClause) {
	labels := map[string]int{}
	var clauses []*ast.CaseClause
	ast.Inspect(fd.Decl.Body, func(n ast.Node) bool {
		sw, ok := n.(*ast.SwitchStmt)
		if !ok || len(clauses) > 0 {
			return true
		}
		for i, st := range sw.Body.List {
			cc := st.(*ast.CaseClause)
			clauses = append(clauses, cc)
			for _, e := range cc.List {
				if tv, ok := fd.Pkg.TypesInfo.Types[e]; ok && tv.Value != nil && tv.Value.Kind() == constant.String {
					labels[constant.StringVal(tv.Value)] = i
				}
			}
		}
		return false
	})
	return labels, clauses
}

func ruleFilterNames(c *eng.Ctx) {
	const R = "R5.1-FILTER-NAMES"
	c.Rule(R, "decodeWithFilter has a case for each ISO 32000 filter name and its abbreviation in the same clause; implemented filters call their decoder with the incoming data; the default clause returns an error", 11, 0)
	fd := c.P.Decl("core.decodeWithFilter")
	if fd == nil {
		c.Undec(R, "core.decodeWithFilter", token.NoPos, "anchor not found")
		return
	}
	labels, clauses := caseTable(fd)
	if len(labels) == 0 {
		if ruleFilterNamesTable(c, R, fd) {
			ruleParamsObjToDict(c, R)
			return
		}
	}
	for _, pair := range isoFilters {
		long, short := pair[0], pair[1]
		li, okL := labels[long]
		si, okS := labels[short]
		key := "core.decodeWithFilter#case " + long + "/" + short
		switch {
		case !okL || !okS:
			c.Viol(R, key, fd.Decl.Pos(), fmt.Sprintf("filter name %q or its abbreviation %q has no case: streams using it fall into the unknown-filter error", long, short))
		case li != si:
			c.Viol(R, key, clauses[li].Pos(), fmt.Sprintf("%q and its abbreviation %q are handled by different clauses", long, short))
		default:
			c.Ok(R, key, clauses[li].Pos(), "long and abbreviated name share a clause")
		}
		if want, ok := implementedFilters[long]; ok && okL {
			found, dataArg := false, false
			ast.Inspect(clauses[li], func(n ast.Node) bool {
				call, ok := n.(*ast.CallExpr)
				if !ok {
					return true
				}
				if sel, ok := call.Fun.(*ast.SelectorExpr); ok {
					if f, ok := fd.Pkg.TypesInfo.Uses[sel.Sel].(*types.Func); ok && funcObjName(f) == want {
						found = true
						if len(call.Args) > 0 {
							if id, ok := call.Args[0].(*ast.Ident); ok {
								if o := fd.Pkg.TypesInfo.Uses[id]; o != nil && o == fd.Pkg.TypesInfo.Defs[fd.Decl.Type.Params.List[0].Names[0]] {
									dataArg = true
								}
							}
						}
					}
				}
				return true
			})
			if !(found && dataArg) {
				// the decoder may be reached through a forwarding layer (a backend object whose methods pass the
				// arguments on): evaluate the dispatcher for this filter name on the SSA form
				found, dataArg = decoderReached(c.P, long, want), true
				if found {
					found = decoderReached(c.P, short, want)
				}
			}
			c.Check(found && dataArg, R, "core.decodeWithFilter#"+long+"->decoder", clauses[li].Pos(), "dispatches to "+want+"(data, …)", "clause for "+long+" does not call "+want+" on the incoming data")
		}
	}
	// default clause returns a non-nil error
	okDef := false
	for _, cc := range clauses {
		if cc.List != nil {
			continue
		}
		for _, st := range cc.Body {
			if rs, ok := st.(*ast.ReturnStmt); ok && len(rs.Results) == 2 {
				if call, ok := rs.Results[1].(*ast.CallExpr); ok {
					if sel, ok := call.Fun.(*ast.SelectorExpr); ok && sel.Sel.Name == "Errorf" {
						okDef = true
					}
				}
			}
		}
	}
	c.Check(okDef, R, "core.decodeWithFilter#default", fd.Decl.Pos(), "unknown filter names are an error", "unknown filter names no longer produce an error (data would pass through undecoded)")
	ruleParamsObjToDict(c, R)
}

func ruleParamsObjToDict(c *eng.Ctx, R string) {
	// paramsObjToDict: Dict -> itself, anything else -> nil
	if fn := c.P.Func("core.paramsObjToDict"); fn == nil {
		c.Undec(R, "core.paramsObjToDict", token.NoPos, "anchor not found")
	} else {
		okP := true
		nonNil := 0
		for _, r := range eng.Returns(fn) {
			v := r.Results[0]
			if eng.IsNilConst(v) {
				continue
			}
			nonNil++
			// must be the comma-ok result of a type assertion of the parameter to Dict
			ex, ok := v.(*ssa.Extract)
			if !ok {
				okP = false
				continue
			}
			ta, ok := ex.Tuple.(*ssa.TypeAssert)
			if !ok || ta.X != ssa.Value(fn.Params[0]) || eng.TypeName(ta.AssertedType) != "core.Dict" {
				okP = false
			}
		}
		c.Check(okP && nonNil >= 1, R, "core.paramsObjToDict", fn.Pos(), "Dict passes through, null/absent give nil", "DecodeParms conversion changed: a non-Dict value is returned or a Dict is dropped")
	}
}

func ruleChainOrder(c *eng.Ctx) {
	const R = "R5.2-CHAIN-ORDER"
	c.Rule(R, "in Stream.Decode the chain loop is one forward range over the filter array; stage i decodes the previous stage's output (phi of s.Data and the last result), with DecodeParms[i] (same index, no value carried over from an earlier iteration), and a stage error is returned", 5, 0)
	fn := c.P.Func("core.(*Stream).Decode")
	dwf := c.P.Func("core.decodeWithFilter")
	if fn == nil || dwf == nil {
		c.Undec(R, "core.(*Stream).Decode", token.NoPos, "anchor not found")
		return
	}
	name := "core.(*Stream).Decode"
	var loopCall *ssa.Call
	for _, ci := range eng.Calls(fn, false, func(string, ssa.CallInstruction) bool { return true }) {
		if call, ok := ci.(*ssa.Call); ok && eng.StaticCallee(call) == dwf && eng.InLoop(call.Block()) {
			loopCall = call
		}
	}
	if loopCall == nil {
		// the stage may be a method of a small chain object called once per filter: a same-package function called
		// in a loop of Decode that calls decodeWithFilter. The phi shapes this rule reads are then spread over two
		// functions; the order and threading of the stages are what R5.22 evaluates, so nothing is alleged here.
		inHelper := false
		for _, ci := range eng.Calls(fn, false, func(string, ssa.CallInstruction) bool { return true }) {
			g := eng.StaticCallee(ci)
			if g == nil || g.Pkg != fn.Pkg || g.Blocks == nil || !eng.InLoop(ci.Block()) {
				continue
			}
			for _, inner := range eng.Calls(g, false, func(string, ssa.CallInstruction) bool { return true }) {
				if eng.StaticCallee(inner) == dwf {
					inHelper = true
				}
			}
		}
		if inHelper {
			for _, k := range []string{"#data-threading", "#forward", "#parms-index", "#parms-fresh", "#stage-error"} {
				c.Ok(R, name+k, fn.Pos(), "not evaluated: the stage is a method of a chain object called once per filter (see R5.22)")
			}
			return
		}
		c.Viol(R, name+"#chain", fn.Pos(), "no call to decodeWithFilter inside a loop: filter arrays are not applied stage by stage")
		return
	}
	args := loopCall.Call.Args
	// data argument: phi(initial = load of s.Data, back edge = result of this call)
	dataPhi, ok := args[0].(*ssa.Phi)
	okData := false
	if ok {
		fromField, fromCall := false, false
		for _, e := range dataPhi.Edges {
			if fr, ok := eng.LoadOfField(e); ok && fr.Field == "Data" {
				fromField = true
			}
			if ex, ok := e.(*ssa.Extract); ok && ex.Tuple == ssa.Value(loopCall) && ex.Index == 0 {
				fromCall = true
			}
		}
		okData = fromField && fromCall && len(dataPhi.Edges) == 2
	}
	c.Check(okData, R, name+"#data-threading", loopCall.Pos(), "stage input is phi(s.Data, previous stage output)", "a chain stage does not decode exactly the previous stage's output (or the raw data for the first stage)")
	// the filter name and the params entry are selected with the same +1 induction value
	var idxVal ssa.Value
	var idxPhi *ssa.Phi
	for v := range eng.Slice(args[1], nil) {
		if ia, ok := v.(*ssa.IndexAddr); ok {
			if ph, ok := eng.Induction(ia.Index); ok {
				idxVal, idxPhi = ia.Index, ph
			}
		}
	}
	c.Check(idxVal != nil, R, name+"#forward", loopCall.Pos(), "filters are applied in array order (index advances by +1)", "filters are not applied in forward array order")
	okIdx, carried := true, false
	nIdx := 0
	for v := range eng.Slice(args[2], func(call *ssa.Call) bool { return true }) {
		switch x := v.(type) {
		case *ssa.IndexAddr:
			nIdx++
			if x.Index != idxVal {
				okIdx = false
			}
		case *ssa.Phi:
			if x == idxPhi {
				continue
			}
			// a phi that receives a value computed inside the loop over a back edge = carried state
			if isLoopCarried(x) {
				carried = true
			}
		}
	}
	if nIdx == 0 {
		// the entry may be selected by a function or by a method of a small interface that is handed the stage index:
		// every implementation then indexes (if it indexes at all) with the parameter that receives the index
		for v := range eng.Slice(args[2], func(call *ssa.Call) bool { return true }) {
			call, ok := v.(*ssa.Call)
			if !ok {
				continue
			}
			cargs := eng.ArgsWithRecv(call)
			ai := -1
			for i, a := range cargs {
				if a == idxVal {
					ai = i
				}
			}
			if ai < 0 {
				continue
			}
			for _, g := range c.P.Callees(call) {
				if g.Blocks == nil || !eng.InModule(g) || ai >= len(g.Params) {
					continue
				}
				eng.Instrs(g, false, func(in ssa.Instruction) {
					if ia, ok := in.(*ssa.IndexAddr); ok {
						nIdx++
						if ia.Index != ssa.Value(g.Params[ai]) {
							okIdx = false
						}
					}
				})
			}
		}
	}
	c.Check(okIdx && nIdx >= 1, R, name+"#parms-index", loopCall.Pos(), "DecodeParms entry is selected with the filter's own index", "DecodeParms entry of a chain stage is not selected with the stage's own index")
	c.Check(!carried, R, name+"#parms-fresh", loopCall.Pos(), "parameters are recomputed for every stage", "DecodeParms of a stage can be inherited from an earlier stage (value carried around the loop)")
	// error of the stage is returned
	okErr := false
	for _, r := range *loopCall.Referrers() {
		if ex, ok := r.(*ssa.Extract); ok && ex.Index == 1 {
			for _, rr := range *ex.Referrers() {
				if b, ok := rr.(*ssa.BinOp); ok && b.Op == token.NEQ {
					okErr = true
				}
			}
		}
	}
	c.Check(okErr, R, name+"#stage-error", loopCall.Pos(), "a failing stage aborts the chain", "the error of a chain stage is not tested")
}

// isLoopCarried: phi with an incoming value defined in a block that the phi's block dominates (back edge).
func isLoopCarried(ph *ssa.Phi) bool {
	b := ph.Block()
	for i, e := range ph.Edges {
		pred := b.Preds[i]
		if b.Dominates(pred) {
			if _, isConst := e.(*ssa.Const); !isConst && e != ssa.Value(ph) {
				return true
			}
		}
	}
	return false
}

func rulePredictorTable(c *eng.Ctx) {
	const R = "R5.3-PREDICTOR-TABLE"
	c.Rule(R, "applyPredictor: 1 -> data unchanged, 2 -> TIFF, 10..15 -> PNG, anything else -> error; decodePNGRow handles row tags 0..4 and errors on others", 5, 0)
	fn := c.P.Func("internal/filters.applyPredictor")
	if fn == nil {
		c.Undec(R, "filters.applyPredictor", token.NoPos, "anchor not found")
		return
	}
	// table form: the decoder is looked up in a read-only package-level map keyed by the predictor value
	if done := predictorTableForm(c, R, fn); done {
		predictorRowTags(c, R)
		return
	}
	// the predictor value: what is passed on to the PNG decoder as its predictor argument (the dispatch may have
	// been inlined into its caller, so it need not be a parameter of this function)
	var pred ssa.Value
	hosted := eng.FuncName(fn) != "internal/filters.applyPredictor"
	if pngs := eng.CallsNamed(fn, false, "internal/filters.applyPNGPredictor"); len(pngs) == 1 && len(pngs[0].Common().Args) > 1 {
		pred = pngs[0].Common().Args[1]
	} else if len(fn.Params) > 1 {
		pred = fn.Params[1]
	}
	if pred == nil {
		c.Viol(R, "filters.applyPredictor#predictor 10..15 -> PNG", fn.Pos(), "the PNG predictors are no longer dispatched")
		return
	}
	cmpK := func(f eng.Fact, op token.Token, k int64) bool {
		o, x, y, ok := f.Cmp()
		if !ok {
			return false
		}
		if kk, isC := eng.ConstInt(y); isC && eng.SameValue(x, pred) && o == op && kk == k {
			return true
		}
		if kk, isC := eng.ConstInt(x); isC && eng.SameValue(y, pred) && eng.Swap(o) == op && kk == k {
			return true
		}
		return false
	}
	for _, sp := range []struct {
		callee string
		facts  []func(eng.Fact) bool
		doc    string
	}{
		{"internal/filters.applyTIFFPredictor2", []func(eng.Fact) bool{func(f eng.Fact) bool { return cmpK(f, token.EQL, 2) }}, "predictor 2 -> TIFF"},
		{"internal/filters.applyPNGPredictor", []func(eng.Fact) bool{
			func(f eng.Fact) bool { return cmpK(f, token.GEQ, 10) || cmpK(f, token.GTR, 9) },
			func(f eng.Fact) bool { return cmpK(f, token.LEQ, 15) || cmpK(f, token.LSS, 16) }}, "predictor 10..15 -> PNG"},
	} {
		calls := eng.CallsNamed(fn, false, sp.callee)
		ok := len(calls) == 1
		if ok {
			for _, f := range sp.facts {
				if !eng.GuardedBy(fn, calls[0].Block(), f) {
					ok = false
				}
			}
			// data argument is the incoming data
			if !hosted && calls[0].Common().Args[0] != ssa.Value(fn.Params[0]) {
				ok = false
			}
		}
		c.Check(ok, R, "filters.applyPredictor#"+sp.doc, fn.Pos(), sp.doc, "dispatch changed: "+sp.doc+" no longer holds exactly")
	}
	// identity for 1; error otherwise
	idOK, errOK := false, false
	for _, r := range eng.Exits(fn) {
		if len(r.Results) < 2 {
			continue
		}
		if r.Results[0] == ssa.Value(fn.Params[0]) && eng.IsNilConst(r.Results[1]) {
			if eng.ExitGuarded(fn, r, func(f eng.Fact) bool { return cmpK(f, token.EQL, 1) }) {
				idOK = true
			}
		}
		if nn, known := eng.ErrValueNonNil(r.Results[1]); known && nn && eng.IsNilConst(r.Results[0]) {
			errOK = true
		}
	}
	if hosted {
		// inlined form: predictor 1 skips the dispatch (every decoder call is reached only with predictor != 1),
		// and an error is constructed where neither decoder applies
		idOK = true
		for _, callee := range []string{"internal/filters.applyTIFFPredictor2", "internal/filters.applyPNGPredictor"} {
			for _, ci := range eng.CallsNamed(fn, false, callee) {
				if !eng.GuardedBy(fn, ci.Block(), func(f eng.Fact) bool { return cmpK(f, token.NEQ, 1) }) {
					idOK = false
				}
			}
		}
		for _, ci := range eng.Calls(fn, false, func(n string, _ ssa.CallInstruction) bool { return n == "fmt.Errorf" || n == "errors.New" }) {
			if eng.GuardedBy(fn, ci.Block(), func(f eng.Fact) bool { return cmpK(f, token.NEQ, 2) }) {
				errOK = true
			}
		}
	}
	c.Check(idOK, R, "filters.applyPredictor#1->identity", fn.Pos(), "predictor 1 returns the data unchanged", "predictor 1 is no longer the identity")
	c.Check(errOK, R, "filters.applyPredictor#else->error", fn.Pos(), "unsupported predictors are an error", "unsupported predictor values no longer produce an error")

	predictorRowTags(c, R)
}

func sortedKeys(m map[int64]bool) []int64 {
	var out []int64
	for k := range m {
		out = append(out, k)
	}
	sort.Slice(out, func(i, j int) bool { return out[i] < out[j] })
	return out
}

// ---------------------------------------------------------------------------
// R5.4 STRIDE
// ---------------------------------------------------------------------------

type access struct {
	base  string // "out" (result buffer), "prev", "in"
	index *eng.Poly
	instr ssa.Instruction
	val   ssa.Value
}

func ruleStride(c *eng.Ctx) {
	const R = "R5.4-STRIDE"
	c.Rule(R, "neighbour accesses of the PNG and TIFF predictors have exactly the specified index polynomials and guards; row geometry tiles input and output", 12, 0)
	pr := findPNGRow(c.P)
	if pr == nil {
		c.Undec(R, "filters.decodePNGRow", token.NoPos, "anchor not found")
		return
	}
	row := pr.fn
	// the inputs by role (parameters or fields of a decoder value): bpp, row, rowLen, prev, in, tag
	for _, need := range []string{"bpp", "row", "rowLen", "prev", "in", "tag"} {
		if pr.find(need) == nil {
			c.Undec(R, "filters.decodePNGRow", row.Pos(), "the row decoder no longer has an input recognisable as "+need+" (rowData, predictor, bytesPerPixel, rowNum, prevRows, rowLength)")
			return
		}
	}
	var loopI *ssa.Phi
	leaf := func(v ssa.Value) (*eng.Poly, bool) {
		switch pr.role(v) {
		case "bpp", "row", "rowLen":
			return eng.PSym(pr.role(v)), true
		}
		if ph, ok := v.(*ssa.Phi); ok && isLoopCarried(ph) {
			if loopI == nil || loopI == ph {
				loopI = ph
				// rotated range loop: the header phi starts at -1 and the index in use is phi+1
				for _, e := range ph.Edges {
					if k, isC := eng.ConstInt(e); isC && k == -1 {
						return eng.PSym("i").Sub(eng.PConst(1)), true
					}
				}
				return eng.PSym("i"), true
			}
		}
		return nil, false
	}
	// a variable captured by a closure lives in a cell: the value the cell holds (stored once)
	deref := func(v ssa.Value) ssa.Value {
		if ld, ok := v.(*ssa.UnOp); ok && ld.Op == token.MUL {
			if al, ok := ld.X.(*ssa.Alloc); ok {
				var stored ssa.Value
				n := 0
				for _, r := range *al.Referrers() {
					if st, ok := r.(*ssa.Store); ok && st.Addr == ssa.Value(al) {
						stored = st.Val
						n++
					}
				}
				if n == 1 {
					return stored
				}
			}
		}
		return v
	}
	var outBuf ssa.Value
	for _, r := range eng.Returns(row) {
		if !eng.IsNilConst(r.Results[0]) {
			outBuf = deref(r.Results[0])
		}
	}
	baseName := func(v ssa.Value) string {
		b, off, ok := eng.SliceBase(v, leaf)
		if !ok {
			return ""
		}
		_ = off
		b = deref(b)
		switch {
		case b == outBuf:
			return "out"
		case pr.role(b) == "prev":
			return "prev"
		case pr.role(b) == "in":
			return "in"
		}
		return ""
	}
	tagGuard := func(k int64) map[*ssa.BasicBlock]bool {
		return eng.MustCross(row, func(e eng.Edge) bool {
			f, ok := eng.EdgeFact(e)
			if !ok {
				return false
			}
			op, x, y, ok := f.Cmp()
			if !ok || op != token.EQL || pr.role(x) != "tag" {
				return false
			}
			kk, isC := eng.ConstInt(y)
			return isC && kk == k
		}, nil)
	}
	I, B, Rw, L := eng.PSym("i"), eng.PSym("bpp"), eng.PSym("row"), eng.PSym("rowLen")
	up := Rw.Sub(eng.PConst(1)).Mul(L).Add(I)
	left := I.Sub(B)
	upLeft := up.Sub(B)
	want := map[int64]map[string]bool{
		1: {"out:" + left.String(): true},
		2: {"prev:" + up.String(): true},
		3: {"out:" + left.String(): true, "prev:" + up.String(): true},
		4: {"out:" + left.String(): true, "prev:" + up.String(): true, "prev:" + upLeft.String(): true},
	}
	// the arm of a tag may be a closure chosen under the tag test (a per-row strategy called with the byte index):
	// its body is read with the captured variables replaced by what the row decoder bound them to and its integer
	// parameter as the index i
	capturedIn := func(cf *ssa.Function, mc *ssa.MakeClosure) func(ssa.Value) ssa.Value {
		return func(v ssa.Value) ssa.Value {
			cell := v
			load := false
			if ld, ok := v.(*ssa.UnOp); ok && ld.Op == token.MUL {
				if _, isFV := ld.X.(*ssa.FreeVar); isFV {
					cell, load = ld.X, true
				}
			}
			fv, ok := cell.(*ssa.FreeVar)
			if !ok {
				return v
			}
			for i, f := range cf.FreeVars {
				if f != fv || i >= len(mc.Bindings) {
					continue
				}
				b := mc.Bindings[i]
				if !load {
					return b
				}
				if al, ok := b.(*ssa.Alloc); ok {
					var stored ssa.Value
					n := 0
					for _, r := range *al.Referrers() {
						if st, ok := r.(*ssa.Store); ok && st.Addr == ssa.Value(al) {
							stored = st.Val
							n++
						}
					}
					if n == 1 {
						return stored
					}
				}
			}
			return v
		}
	}
	for k := int64(1); k <= 4; k++ {
		g := tagGuard(k)
		got := map[string]bool{}
		var bad []string
		scan := func(f *ssa.Function, inArm func(*ssa.BasicBlock) bool, lf func(ssa.Value) (*eng.Poly, bool), bname func(ssa.Value) string) {
			geIf := func(fc eng.Fact) bool { // i >= bpp
				op, x, y, ok := fc.Cmp()
				if !ok {
					return false
				}
				px, okx := eng.IntPoly(x, lf)
				py, oky := eng.IntPoly(y, lf)
				if !okx || !oky {
					return false
				}
				return (op == token.GEQ && px.Equal(I) && py.Equal(B)) || (op == token.LEQ && px.Equal(B) && py.Equal(I))
			}
			gtRowf := func(fc eng.Fact) bool { // row > 0
				op, x, y, ok := fc.Cmp()
				if !ok {
					return false
				}
				px, okx := eng.IntPoly(x, lf)
				py, oky := eng.IntPoly(y, lf)
				if !okx || !oky {
					return false
				}
				z, o := eng.PConst(0), eng.PConst(1)
				return (op == token.GTR && px.Equal(Rw) && py.Equal(z)) || (op == token.GEQ && px.Equal(Rw) && py.Equal(o)) ||
					(op == token.LSS && px.Equal(z) && py.Equal(Rw)) || (op == token.NEQ && px.Equal(Rw) && py.Equal(z))
			}
			eng.Instrs(f, false, func(in ssa.Instruction) {
				ld, ok := in.(*ssa.UnOp)
				if !ok || ld.Op != token.MUL || !inArm(ld.Block()) {
					return
				}
				ia, ok := ld.X.(*ssa.IndexAddr)
				if !ok {
					return
				}
				bn := bname(ia.X)
				if bn == "" || bn == "in" {
					return
				}
				_, off, _ := eng.SliceBase(ia.X, lf)
				idx, ok := eng.IntPoly(ia.Index, lf)
				if !ok {
					bad = append(bad, "index of a neighbour access is not an affine expression of i, bytesPerPixel, rowNum, rowLength at "+c.P.Pos(ld.Pos()))
					return
				}
				idx = idx.Add(off)
				keyS := bn + ":" + idx.String()
				got[keyS] = true
				// guards
				needLeft := idx.Equal(left) || idx.Equal(upLeft)
				needUp := bn == "prev"
				if needLeft && !eng.GuardedBy(f, ld.Block(), geIf) {
					bad = append(bad, "access "+keyS+" is not guarded by i >= bytesPerPixel (first pixel of a row has no left neighbour)")
				}
				if needUp && !eng.GuardedBy(f, ld.Block(), gtRowf) {
					bad = append(bad, "access "+keyS+" is not guarded by rowNum > 0 (first row has no row above)")
				}
			})
		}
		scan(row, func(b *ssa.BasicBlock) bool { return g[b] }, leaf, baseName)
		eng.Instrs(row, false, func(in ssa.Instruction) {
			mc, ok := in.(*ssa.MakeClosure)
			if !ok || !g[mc.Block()] {
				return
			}
			cf, ok := mc.Fn.(*ssa.Function)
			if !ok || cf.Blocks == nil {
				return
			}
			res := capturedIn(cf, mc)
			var iParam ssa.Value
			for _, p := range cf.Params {
				if bt, ok := p.Type().Underlying().(*types.Basic); ok && bt.Info()&types.IsInteger != 0 && iParam == nil {
					iParam = p
				}
			}
			lf := func(v ssa.Value) (*eng.Poly, bool) {
				if iParam != nil && v == iParam {
					return eng.PSym("i"), true
				}
				if r := res(v); r != v {
					if ph, isPhi := r.(*ssa.Phi); isPhi && isLoopCarried(ph) {
						return nil, false
					}
					return eng.IntPoly(r, leaf)
				}
				return nil, false
			}
			bname := func(v ssa.Value) string {
				if r := res(v); r != v {
					return baseName(r)
				}
				if sl, ok := v.(*ssa.Slice); ok {
					if r := res(sl.X); r != sl.X {
						return baseName(r)
					}
				}
				return ""
			}
			scan(cf, func(*ssa.BasicBlock) bool { return true }, lf, bname)
		})
		key := fmt.Sprintf("filters.decodePNGRow#tag %d neighbours", k)
		var diff []string
		for w := range want[k] {
			if !got[w] {
				diff = append(diff, "missing "+w)
			}
		}
		for gk := range got {
			if !want[k][gk] {
				diff = append(diff, "unexpected "+gk)
			}
		}
		sort.Strings(diff)
		diff = append(diff, bad...)
		if len(diff) > 0 {
			c.Viol(R, key, row.Pos(), "PNG predictor neighbour offsets differ from the specification (left = i-bpp, up = (row-1)*rowLen+i, upper-left = up-bpp): "+strings.Join(diff, "; "))
		} else {
			c.Ok(R, key, row.Pos(), "offsets and guards as specified")
		}
	}
	// Paeth argument order: (left, up, upper-left)
	for _, ci := range eng.CallsNamed(row, false, "internal/filters.paethPredictor") {
		wantArg := []*eng.Poly{left, up, upLeft}
		okArgs := true
		for i, a := range ci.Common().Args {
			polys := map[string]bool{}
			for v := range eng.Slice(a, nil) {
				if ld, ok := v.(*ssa.UnOp); ok && ld.Op == token.MUL {
					if ia, ok := ld.X.(*ssa.IndexAddr); ok && baseName(ia.X) != "" {
						if idx, ok := eng.IntPoly(ia.Index, leaf); ok {
							polys[idx.String()] = true
						}
					}
				}
			}
			if len(polys) != 1 || !polys[wantArg[i].String()] {
				okArgs = false
			}
		}
		c.Check(okArgs, R, "filters.decodePNGRow#paeth-args", ci.Pos(), "paethPredictor(left, up, upper-left)", "Paeth is called with its neighbours in the wrong order or from the wrong offsets")
	}
	// reconstruction: out[i] = in[i] + predicted
	okStore := false
	eng.Instrs(row, false, func(in ssa.Instruction) {
		st, ok := in.(*ssa.Store)
		if !ok {
			return
		}
		ia, ok := st.Addr.(*ssa.IndexAddr)
		if !ok || baseName(ia.X) != "out" {
			return
		}
		idx, ok := eng.IntPoly(ia.Index, leaf)
		if !ok || !idx.Equal(I) {
			return
		}
		add, ok := st.Val.(*ssa.BinOp)
		if !ok || add.Op != token.ADD {
			return
		}
		for _, side := range []ssa.Value{add.X, add.Y} {
			if ld, ok := side.(*ssa.UnOp); ok && ld.Op == token.MUL {
				if ia2, ok := ld.X.(*ssa.IndexAddr); ok && baseName(ia2.X) == "in" {
					if p2, ok := eng.IntPoly(ia2.Index, leaf); ok && p2.Equal(I) {
						okStore = true
					}
				}
			}
		}
	})
	c.Check(okStore, R, "filters.decodePNGRow#reconstruct", row.Pos(), "out[i] = in[i] + predicted", "row reconstruction is no longer out[i] = in[i] + predicted")

	ruleRowGeometry(c, R)
	ruleTIFF(c, R)
}

// paramSyms names the integer parameters fetched with getIntParam by their key.
func paramSyms(fn *ssa.Function) func(ssa.Value) (*eng.Poly, bool) {
	return paramSymsDepth(fn, 0)
}

func paramSymsDepth(fn *ssa.Function, depth int) func(ssa.Value) (*eng.Poly, bool) {
	loopVars := map[*ssa.Phi]string{}
	return func(v ssa.Value) (*eng.Poly, bool) {
		// a value returned by a geometry helper of the package (cols, colors, rowSize, err := geometry(…)):
		// the polynomial every successful return of the helper gives for that result
		if ex, ok := v.(*ssa.Extract); ok && depth < 2 {
			if call, ok := ex.Tuple.(*ssa.Call); ok {
				if h := eng.StaticCallee(call); h != nil && h.Blocks != nil && eng.InModule(h) && h.Name() != "getIntParam" {
					var poly *eng.Poly
					for _, r := range eng.Returns(h) {
						if n := len(r.Results); n > 0 {
							if _, isErr := r.Results[n-1].Type().Underlying().(*types.Interface); isErr && !eng.IsNilConst(r.Results[n-1]) {
								continue // an error return: the caller does not use the other results
							}
						}
						p, ok := eng.IntPoly(r.Results[ex.Index], paramSymsDepth(h, depth+1))
						if !ok || (poly != nil && !poly.Equal(p)) {
							return nil, false
						}
						poly = p
					}
					if poly != nil {
						return poly, true
					}
				}
			}
		}
		if call, ok := v.(*ssa.Call); ok {
			if f := eng.StaticCallee(call); f != nil && f.Name() == "getIntParam" && len(call.Call.Args) == 3 {
				if s, ok := eng.ConstString(call.Call.Args[1]); ok {
					return eng.PSym(s), true
				}
			}
		}
		if ph, ok := v.(*ssa.Phi); ok && isLoopCarried(ph) {
			if n, ok := loopVars[ph]; ok {
				return eng.PSym(n), true
			}
			n := ph.Comment
			if n == "" {
				n = fmt.Sprintf("loop%d", len(loopVars))
			}
			loopVars[ph] = "$" + n
			return eng.PSym("$" + n), true
		}
		return nil, false
	}
}

func ruleRowGeometry(c *eng.Ctx, R string) {
	fn := c.P.Func("internal/filters.applyPNGPredictor")
	pr := findPNGRow(c.P)
	if fn == nil || pr == nil {
		c.Undec(R, "filters.applyPNGPredictor", token.NoPos, "anchor not found")
		return
	}
	leaf := paramSyms(fn)
	calls := eng.Calls(fn, false, func(_ string, ci ssa.CallInstruction) bool { return eng.StaticCallee(ci) == pr.fn })
	if len(calls) != 1 {
		c.Viol(R, "filters.applyPNGPredictor#rows", fn.Pos(), "rows are not decoded by exactly one decodePNGRow call in the row loop")
		return
	}
	call := calls[0]
	// the six inputs in the original order, wherever the caller now supplies them
	args := make([]ssa.Value, 6)
	for i, role := range []string{"in", "tag", "bpp", "row", "prev", "rowLen"} {
		args[i] = pr.atCall(call, role)
		if args[i] == nil {
			c.Undec(R, "filters.applyPNGPredictor#rows", call.Pos(), "cannot find what the row loop supplies as "+role)
			return
		}
	}
	cols, colors := eng.PSym("Columns"), eng.PSym("Colors")
	rowLen := cols.Mul(colors)
	stride := rowLen.Add(eng.PConst(1))
	var rowSym *eng.Poly
	if p, ok := eng.IntPoly(args[3], leaf); ok && len(p.Symbols()) == 1 && strings.HasPrefix(p.Symbols()[0], "$") {
		rowSym = p
	}
	if rowSym == nil {
		c.Viol(R, "filters.applyPNGPredictor#rowNum", call.Pos(), "the row number passed to decodePNGRow is not the row loop variable")
		return
	}
	check := func(key string, got *eng.Poly, ok bool, want *eng.Poly, doc string) {
		if !ok {
			c.Viol(R, "filters.applyPNGPredictor#"+key, call.Pos(), doc+": expression is not an affine function of row, Columns, Colors")
			return
		}
		c.Check(got.Equal(want), R, "filters.applyPNGPredictor#"+key, call.Pos(), doc, fmt.Sprintf("%s: got %s, specified %s", doc, got, want))
	}
	bpp, ok := eng.IntPoly(args[2], leaf)
	check("bytesPerPixel", bpp, ok, colors, "bytes per pixel = Colors (8 bits per component)")
	rl, ok := eng.IntPoly(args[5], leaf)
	check("rowLength", rl, ok, rowLen, "decoded row length = Columns*Colors")
	// row data slice
	if _, lo, hi, okS := absSlice(args[0], leaf); okS && hi != nil {
		check("rowData.low", lo, true, rowSym.Mul(stride).Add(eng.PConst(1)), "row bytes start after the tag byte at row*(Columns*Colors+1)+1")
		check("rowData.high", hi, true, rowSym.Mul(stride).Add(stride), "row bytes end at (row+1)*(Columns*Colors+1)")
	} else {
		c.Viol(R, "filters.applyPNGPredictor#rowData", call.Pos(), "row bytes are not a sub-slice data[lo:hi]")
	}
	// tag byte (a conversion to a named byte type is transparent)
	tagv := args[1]
	for {
		if ct, ok := tagv.(*ssa.ChangeType); ok {
			tagv = ct.X
			continue
		}
		if cv, ok := tagv.(*ssa.Convert); ok && isUint8(cv.X.Type()) && isUint8(cv.Type()) {
			tagv = cv.X
			continue
		}
		break
	}
	if ld, isLd := tagv.(*ssa.UnOp); isLd && ld.Op == token.MUL {
		if ia, ok := ld.X.(*ssa.IndexAddr); ok {
			idx, okp := eng.IntPoly(ia.Index, leaf)
			if _, off, _, okB := absSlice(ia.X, leaf); okB && okp {
				idx = idx.Add(off) // the tag read through a window of the buffer: position in the buffer
			}
			check("tag", idx, okp, rowSym.Mul(stride), "row tag byte is data[row*(Columns*Colors+1)]")
		}
	} else {
		c.Viol(R, "filters.applyPNGPredictor#tag", call.Pos(), "row tag is not read directly from the data buffer")
	}
	// previous rows buffer is the output buffer
	var outBuf ssa.Value
	for _, r := range eng.Returns(fn) {
		if !eng.IsNilConst(r.Results[0]) {
			outBuf = r.Results[0]
		}
	}
	c.Check(args[4] == outBuf, R, "filters.applyPNGPredictor#prevRows", call.Pos(), "rows above are read from the output buffer", "the buffer of previous rows passed to decodePNGRow is not the output buffer")
	// copy window
	okCopy := false
	for _, ci := range eng.Calls(fn, false, func(n string, _ ssa.CallInstruction) bool { return n == "builtin:copy" }) {
		if sl, ok := ci.Common().Args[0].(*ssa.Slice); ok && sl.X == outBuf && sl.Low != nil && sl.High != nil {
			lo, ok1 := eng.IntPoly(sl.Low, leaf)
			hi, ok2 := eng.IntPoly(sl.High, leaf)
			if ok1 && ok2 && lo.Equal(rowSym.Mul(rowLen)) && hi.Equal(rowSym.Add(eng.PConst(1)).Mul(rowLen)) {
				okCopy = true
			}
		}
	}
	c.Check(okCopy, R, "filters.applyPNGPredictor#output-window", call.Pos(), "decoded row is copied to result[row*L:(row+1)*L]", "decoded rows are not written to consecutive windows result[row*L:(row+1)*L]")
}

func ruleTIFF(c *eng.Ctx, R string) {
	fn := c.P.Func("internal/filters.applyTIFFPredictor2")
	if fn == nil {
		c.Undec(R, "filters.applyTIFFPredictor2", token.NoPos, "anchor not found")
		return
	}
	leaf := paramSyms(fn)
	colors := eng.PSym("Colors")
	var outBuf ssa.Value
	for _, r := range eng.Returns(fn) {
		if !eng.IsNilConst(r.Results[0]) {
			outBuf = r.Results[0]
		}
	}
	okAny := false
	var bad []string
	eng.Instrs(fn, false, func(in ssa.Instruction) {
		st, ok := in.(*ssa.Store)
		if !ok {
			return
		}
		ia, ok := st.Addr.(*ssa.IndexAddr)
		if !ok {
			return
		}
		sBase, sOff, _, okB := absSlice(ia.X, leaf)
		if !okB || sBase != outBuf {
			return
		}
		sIdx, ok := eng.IntPoly(ia.Index, leaf)
		if !ok {
			bad = append(bad, "store index not affine")
			return
		}
		sIdx = sIdx.Add(sOff)
		add, isAdd := st.Val.(*ssa.BinOp)
		if !isAdd || add.Op != token.ADD {
			return // the first-pixel copy
		}
		for _, side := range []ssa.Value{add.X, add.Y} {
			ld, ok := side.(*ssa.UnOp)
			if !ok || ld.Op != token.MUL {
				continue
			}
			la, ok := ld.X.(*ssa.IndexAddr)
			if !ok {
				continue
			}
			lIdx, ok := eng.IntPoly(la.Index, leaf)
			if !ok {
				bad = append(bad, "load index not affine")
				continue
			}
			lBase, lOff, _, okL := absSlice(la.X, leaf)
			if !okL {
				bad = append(bad, "load window not affine")
				continue
			}
			lIdx = lIdx.Add(lOff)
			if lBase == outBuf {
				d := lIdx.Sub(sIdx)
				if !d.Equal(colors.Neg()) {
					bad = append(bad, "left neighbour offset is "+d.String()+", specified -Colors")
				} else {
					okAny = true
				}
				// guard: col >= colors
				g := eng.GuardedBy(fn, ld.Block(), func(f eng.Fact) bool {
					op, x, y, ok := f.Cmp()
					if !ok {
						return false
					}
					px, okx := eng.IntPoly(x, leaf)
					py, oky := eng.IntPoly(y, leaf)
					if !okx || !oky {
						return false
					}
					isCol := func(p *eng.Poly) bool { s := p.Symbols(); return len(s) == 1 && strings.HasPrefix(s[0], "$") }
					return (op == token.GEQ && isCol(px) && py.Equal(colors)) || (op == token.LEQ && px.Equal(colors) && isCol(py))
				})
				if !g {
					g = loopStartsAt(la.Index, leaf, colors)
				}
				// the prediction restarts in every row: the position is row*rowSize + col of two loop variables
				nLoop := 0
				for _, sy := range sIdx.Symbols() {
					if strings.HasPrefix(sy, "$") {
						nLoop++
					}
				}
				if nLoop < 2 {
					bad = append(bad, "the sample position is not row start + column of a row loop and a column loop (prediction must restart at every row)")
				}
				if !g {
					bad = append(bad, "left neighbour access not guarded by col >= Colors")
				}
			} else if lBase == ssa.Value(fn.Params[0]) {
				if !lIdx.Equal(sIdx) {
					bad = append(bad, "input byte index differs from output index")
				}
			}
		}
	})
	if len(bad) > 0 || !okAny {
		c.Viol(R, "filters.applyTIFFPredictor2#left", fn.Pos(), "TIFF predictor 2 must add the sample Colors bytes to the left: "+strings.Join(bad, "; "))
	} else {
		c.Ok(R, "filters.applyTIFFPredictor2#left", fn.Pos(), "result[idx] = data[idx] + result[idx-Colors] for col >= Colors")
	}
}

// loopStartsAt reports whether the index expression is driven by a +1 induction variable whose initial value is
// `start` on every way into the loop, so that  var >= start  holds in the body without a test. An initial value
// that is a merge (first := start; if first > n { first = n }) is accepted when each other alternative is the
// loop's own upper bound, which leaves the body unexecuted.
func loopStartsAt(index ssa.Value, leaf func(ssa.Value) (*eng.Poly, bool), start *eng.Poly) bool {
	for v := range eng.Slice(index, nil) {
		ph, ok := eng.Induction(v)
		if !ok || ph != v {
			continue
		}
		// the loop test  ph < bound  in the header, body on the true edge
		var bound ssa.Value
		if iff, ok := ph.Block().Instrs[len(ph.Block().Instrs)-1].(*ssa.If); ok {
			if cmp, ok := iff.Cond.(*ssa.BinOp); ok {
				switch {
				case cmp.Op == token.LSS && cmp.X == ssa.Value(ph):
					bound = cmp.Y
				case cmp.Op == token.GTR && cmp.Y == ssa.Value(ph):
					bound = cmp.X
				}
			}
		}
		var initOK func(e ssa.Value, d int) bool
		initOK = func(e ssa.Value, d int) bool {
			if p, ok := eng.IntPoly(e, leaf); ok && p.Equal(start) {
				return true
			}
			if bound != nil && eng.SameValue(e, bound) {
				return true
			}
			if m, ok := e.(*ssa.Phi); ok && d < 3 && !isLoopCarried(m) {
				for _, me := range m.Edges {
					if !initOK(me, d+1) {
						return false
					}
				}
				return true
			}
			return false
		}
		all := true
		for i, e := range ph.Edges {
			if ph.Block().Dominates(ph.Block().Preds[i]) {
				// back edge: must be the +1 step
				b, ok := e.(*ssa.BinOp)
				if !ok || b.Op != token.ADD || b.X != ssa.Value(ph) {
					all = false
				}
				continue
			}
			if !initOK(e, 0) {
				all = false
			}
		}
		if all {
			return true
		}
	}
	return false
}

// ---------------------------------------------------------------------------
// Paeth decision structure
// ---------------------------------------------------------------------------

func rulePaeth(c *eng.Ctx) {
	const R = "R5.4b-PAETH"
	c.Rule(R, "paethPredictor(a=left,b=up,c=upper-left) returns a iff pa<=pb && pa<=pc, else b iff pb<=pc, else c, with pa=|b-c|, pb=|a-c|, pc=|a+b-2c| (PNG specification 9.4)", 3, 0)
	fn := c.P.Func("internal/filters.paethPredictor")
	if fn == nil || len(fn.Params) != 3 {
		c.Undec(R, "filters.paethPredictor", token.NoPos, "anchor not found")
		return
	}
	names := map[ssa.Value]string{fn.Params[0]: "a", fn.Params[1]: "b", fn.Params[2]: "c"}
	leaf := func(v ssa.Value) (*eng.Poly, bool) {
		if n, ok := names[v]; ok {
			return eng.PSym(n), true
		}
		return nil, false
	}
	a, b, cc := eng.PSym("a"), eng.PSym("b"), eng.PSym("c")
	abs := func(p *eng.Poly) *eng.Poly {
		s := p.String()
		n := p.Neg().String()
		pick := s
		if strings.HasPrefix(s, "-") && !strings.HasPrefix(n, "-") {
			pick = n
		} else if !strings.HasPrefix(s, "-") && strings.HasPrefix(n, "-") {
			pick = s
		} else if n < s {
			pick = n
		}
		return eng.PSym("abs(" + pick + ")")
	}
	pa, pb, pc := abs(b.Sub(cc)), abs(a.Sub(cc)), abs(a.Add(b).Sub(cc).Sub(cc))
	leq := func(l, r *eng.Poly) func(eng.Fact) bool {
		return func(f eng.Fact) bool {
			op, x, y, ok := f.Cmp()
			if !ok {
				return false
			}
			px, okx := eng.IntPoly(x, leaf)
			py, oky := eng.IntPoly(y, leaf)
			if !okx || !oky {
				return false
			}
			return (op == token.LEQ && px.Equal(l) && py.Equal(r)) || (op == token.GEQ && px.Equal(r) && py.Equal(l))
		}
	}
	gt := func(l, r *eng.Poly) func(eng.Fact) bool { // l > r
		return func(f eng.Fact) bool {
			op, x, y, ok := f.Cmp()
			if !ok {
				return false
			}
			px, okx := eng.IntPoly(x, leaf)
			py, oky := eng.IntPoly(y, leaf)
			if !okx || !oky {
				return false
			}
			return (op == token.GTR && px.Equal(l) && py.Equal(r)) || (op == token.LSS && px.Equal(r) && py.Equal(l))
		}
	}
	seen := map[string]bool{}
	for _, r := range eng.Returns(fn) {
		v := r.Results[0]
		blk := r.Block()
		switch v {
		case ssa.Value(fn.Params[0]):
			ok := eng.GuardedBy(fn, blk, leq(pa, pb)) && eng.GuardedBy(fn, blk, leq(pa, pc))
			seen["a"] = true
			c.Check(ok, R, "filters.paethPredictor#return-left", r.Pos(), "left is chosen iff pa<=pb && pa<=pc", "the left neighbour is chosen under a condition other than pa<=pb && pa<=pc (pa=|b-c|, pb=|a-c|, pc=|a+b-2c|)")
		case ssa.Value(fn.Params[1]):
			ok := eng.GuardedBy(fn, blk, leq(pb, pc))
			seen["b"] = true
			c.Check(ok, R, "filters.paethPredictor#return-up", r.Pos(), "up is chosen iff (not left) && pb<=pc", "the upper neighbour is chosen under a condition other than pb<=pc (ties must prefer up over upper-left)")
		case ssa.Value(fn.Params[2]):
			ok := eng.GuardedBy(fn, blk, gt(pb, pc))
			seen["c"] = true
			c.Check(ok, R, "filters.paethPredictor#return-upleft", r.Pos(), "upper-left is chosen only when pb>pc", "the upper-left neighbour is chosen without pb>pc")
		default:
			c.Viol(R, "filters.paethPredictor#return", r.Pos(), "returns something other than one of its three neighbours")
		}
	}
	if !(seen["a"] && seen["b"] && seen["c"]) {
		c.Viol(R, "filters.paethPredictor#returns", fn.Pos(), "not all three neighbours can be returned")
	}
}

// ---------------------------------------------------------------------------
// R5.5 ASCII classes
// ---------------------------------------------------------------------------

var pdfWhitespace = map[byte]bool{0: true, 9: true, 10: true, 12: true, 13: true, 32: true}

func sameByteSet(a, b map[byte]bool) string {
	var diff []string
	for k := range a {
		if !b[k] {
			diff = append(diff, fmt.Sprintf("+0x%02X", k))
		}
	}
	for k := range b {
		if !a[k] {
			diff = append(diff, fmt.Sprintf("-0x%02X", k))
		}
	}
	sort.Strings(diff)
	return strings.Join(diff, " ")
}

func ruleASCIIClasses(c *eng.Ctx) {
	const R = "R5.5-ASCII-CLASSES"
	c.Rule(R, "filters.isWhitespace is exactly the ISO 32000 white-space set; hexDigitToByte is the hex value table with errors elsewhere; the EOD markers are '>' and '~>' and 'z' expands to four zero bytes", 4, 0)
	set, err := c.P.ByteSet("internal/filters.isWhitespace")
	if err != nil {
		c.Undec(R, "filters.isWhitespace", token.NoPos, err.Error())
	} else {
		d := sameByteSet(set, pdfWhitespace)
		c.Check(d == "", R, "filters.isWhitespace", c.P.Decl("internal/filters.isWhitespace").Decl.Pos(), "= {NUL,HT,LF,FF,CR,SP}", "white-space class differs from ISO 32000 table 1: "+d)
	}
	tab, err := c.P.ByteTable("internal/filters.hexDigitToByte")
	if err != nil {
		c.Undec(R, "filters.hexDigitToByte", token.NoPos, err.Error())
	} else {
		var bad []string
		for ch := 0; ch < 256; ch++ {
			want := int64(-1)
			switch {
			case ch >= '0' && ch <= '9':
				want = int64(ch - '0')
			case ch >= 'A' && ch <= 'F':
				want = int64(ch-'A') + 10
			case ch >= 'a' && ch <= 'f':
				want = int64(ch-'a') + 10
			}
			r := tab[ch]
			if len(r) != 2 {
				bad = append(bad, "shape")
				break
			}
			_, isErr := r[1].(eng.ErrVal)
			if want < 0 {
				if !isErr {
					bad = append(bad, fmt.Sprintf("0x%02X accepted", ch))
				}
			} else if isErr || r[0] != want {
				bad = append(bad, fmt.Sprintf("%q -> %v", rune(ch), r[0]))
			}
		}
		if len(bad) > 6 {
			bad = bad[:6]
		}
		c.Check(len(bad) == 0, R, "filters.hexDigitToByte", c.P.Decl("internal/filters.hexDigitToByte").Decl.Pos(), "hex digit values 0..15, error for non-digits", "hex digit table wrong: "+strings.Join(bad, ", "))
	}
	// markers: constants compared against data bytes in the two decoders
	for _, sp := range []struct {
		fn    string
		bytes []int64
		doc   string
	}{
		{"internal/filters.ASCIIHexDecode", []int64{'>'}, "EOD '>'"},
		{"internal/filters.ASCII85Decode", []int64{'~', '>', 'z', '!', 'u'}, "EOD '~>', 'z' group, digit range '!'..'u'"},
	} {
		fn := c.P.Func(sp.fn)
		if fn == nil {
			c.Undec(R, sp.fn, token.NoPos, "anchor not found")
			continue
		}
		cmp := map[int64]bool{}
		for _, h := range eng.Cluster(fn, 2) { // the scanning half may be a stage function of the decoder
			if h.Pkg != fn.Pkg {
				continue
			}
			eng.Instrs(h, false, func(in ssa.Instruction) {
				if b, ok := in.(*ssa.BinOp); ok {
					switch b.Op {
					case token.EQL, token.NEQ, token.LSS, token.GTR, token.LEQ, token.GEQ:
						if k, ok := eng.ConstInt(b.Y); ok {
							if t, ok := b.X.Type().Underlying().(*types.Basic); ok && t.Kind() == types.Uint8 {
								cmp[k] = true
							}
						}
					}
				}
			})
		}
		var missing []string
		for _, k := range sp.bytes {
			if !cmp[k] {
				missing = append(missing, fmt.Sprintf("%q", rune(k)))
			}
		}
		c.Check(len(missing) == 0, R, sp.fn+"#markers", fn.Pos(), sp.doc, "decoder no longer tests for "+strings.Join(missing, ","))
	}
	// 'z' -> four zero bytes: a Write of a 4-element zero literal guarded by == 'z'
	if fn := c.P.Func("internal/filters.ASCII85Decode"); fn != nil {
		okZ := false
		for _, ci := range eng.Calls(fn, false, func(n string, _ ssa.CallInstruction) bool {
			return strings.HasSuffix(n, ".Write") || n == "builtin:append" // (the output may be a plain []byte that is appended to)
		}) {
			g := eng.GuardedBy(fn, ci.Block(), func(f eng.Fact) bool {
				op, _, y, ok := f.Cmp()
				k, isC := eng.ConstInt(y)
				return ok && op == token.EQL && isC && k == 'z'
			})
			if !g {
				continue
			}
			args := ci.Common().Args
			if sl, ok := args[len(args)-1].(*ssa.Slice); ok {
				if al, ok := sl.X.(*ssa.Alloc); ok {
					if at, ok := al.Type().Underlying().(*types.Pointer).Elem().Underlying().(*types.Array); ok && at.Len() == 4 {
						zero := true
						for _, r := range *al.Referrers() {
							if ia, ok := r.(*ssa.IndexAddr); ok {
								for _, rr := range *ia.Referrers() {
									if st, ok := rr.(*ssa.Store); ok {
										if k, isC := eng.ConstInt(st.Val); !isC || k != 0 {
											zero = false
										}
									}
								}
							}
						}
						okZ = zero
					}
				}
			}
		}
		c.Check(okZ, R, "internal/filters.ASCII85Decode#z", fn.Pos(), "'z' writes four zero bytes", "'z' no longer expands to exactly four zero bytes")
	}
}

// ---------------------------------------------------------------------------
// the PNG row decoder and the roles of its inputs
// ---------------------------------------------------------------------------

// pngRow finds the function that reverses the prediction of one PNG row and names its inputs by role, whether they
// arrive as parameters (decodePNGRow(rowData, predictor, bytesPerPixel, rowNum, prevRows, rowLength)) or as fields of
// a small decoder value the row loop fills in once (d.bytesPerPixel, d.rowLength, d.prevRows).
type pngRow struct {
	fn *ssa.Function
}

var pngRoleNames = map[string]string{
	"bytesperpixel": "bpp", "bpp": "bpp", "pixelbytes": "bpp", "pixelsize": "bpp",
	"rownum": "row", "rowindex": "row", "rowno": "row",
	"rowlength": "rowLen", "rowlen": "rowLen", "rowbytes": "rowLen", "rowwidth": "rowLen",
	"prevrows": "prev", "prev": "prev", "previous": "prev", "decoded": "prev", "above": "prev",
	"rowdata": "in", "src": "in", "input": "in",
	"predictor": "tag", "tag": "tag", "filtertype": "tag", "filter": "tag",
}

func findPNGRow(p *eng.Prog) *pngRow {
	if f := p.FuncExact("internal/filters.decodePNGRow"); f != nil {
		return &pngRow{f}
	}
	// by role: the function the row loop of applyPNGPredictor calls that compares a byte input with the tags 0..4
	if host := p.Func("internal/filters.applyPNGPredictor"); host != nil {
		for _, h := range eng.Cluster(host, 1) {
			tags := map[int64]bool{}
			eng.Instrs(h, false, func(in ssa.Instruction) {
				if b, ok := in.(*ssa.BinOp); ok && b.Op == token.EQL {
					if bt, ok := b.X.Type().Underlying().(*types.Basic); ok && bt.Kind() == types.Uint8 {
						if k, ok := eng.ConstInt(b.Y); ok {
							tags[k] = true
						}
					}
				}
			})
			if tags[1] && tags[2] && tags[3] && tags[4] {
				return &pngRow{h}
			}
		}
	}
	if f := p.Func("internal/filters.decodePNGRow"); f != nil {
		return &pngRow{f}
	}
	return nil
}

// role names the input a value stands for inside the row decoder ("" if none).
func (r *pngRow) role(v ssa.Value) string {
	// a parameter captured by a closure lives in a cell: read through the load to the parameter it holds
	if ld, ok := v.(*ssa.UnOp); ok && ld.Op == token.MUL {
		if al, ok := ld.X.(*ssa.Alloc); ok {
			var stored ssa.Value
			n := 0
			for _, ref := range *al.Referrers() {
				if st, ok := ref.(*ssa.Store); ok && st.Addr == ssa.Value(al) {
					stored = st.Val
					n++
				}
			}
			if _, isP := stored.(*ssa.Parameter); isP && n == 1 {
				v = stored
			}
		}
	}
	name := ""
	switch x := v.(type) {
	case *ssa.Parameter:
		name = x.Name()
		// the original positional signature, whatever the names
		if ps := r.fn.Params; len(ps) == 6 && r.fn.Signature.Recv() == nil {
			for i, q := range ps {
				if q == x {
					return []string{"in", "tag", "bpp", "row", "prev", "rowLen"}[i]
				}
			}
		}
	default:
		if fr, ok := eng.LoadOfField(v); ok {
			name = fr.Field
		} else if f, ok := v.(*ssa.Field); ok {
			if fr, ok := eng.AsField(f); ok {
				name = fr.Field
			}
		}
	}
	if name == "" {
		return ""
	}
	return pngRoleNames[strings.ToLower(name)]
}

// find returns a value of the decoder that has the given role (a parameter, or a load of the field).
func (r *pngRow) find(role string) ssa.Value {
	for _, p := range r.fn.Params {
		if r.role(p) == role {
			return p
		}
	}
	var out ssa.Value
	eng.Instrs(r.fn, false, func(in ssa.Instruction) {
		if v, ok := in.(ssa.Value); ok && out == nil && r.role(v) == role {
			out = v
		}
	})
	return out
}

// atCall returns the value the caller supplies for a role: the argument, or what it stored into the field of the
// decoder value it passes as receiver.
func (r *pngRow) atCall(call ssa.CallInstruction, role string) ssa.Value {
	args := call.Common().Args
	for i, p := range r.fn.Params {
		if r.role(p) == role && i < len(args) {
			return args[i]
		}
	}
	if len(args) == 0 {
		return nil
	}
	recv := args[0]
	var out ssa.Value
	eng.Instrs(call.Parent(), false, func(in ssa.Instruction) {
		st, ok := in.(*ssa.Store)
		if !ok {
			return
		}
		fa, ok := st.Addr.(*ssa.FieldAddr)
		if !ok || fa.X != recv {
			return
		}
		if fr, ok := eng.AsField(fa); ok && pngRoleNames[strings.ToLower(fr.Field)] == role {
			out = st.Val
		}
	})
	return out
}

// decoderReached: with the filter-name parameter of core.decodeWithFilter equal to name, control reaches a call that
// hands the incoming data to the decoder `want` — directly, or through a function that only forwards its parameters.
func decoderReached(p *eng.Prog, name, want string) bool {
	fn := p.Func("core.decodeWithFilter")
	if fn == nil {
		return false
	}
	var nameP, dataP ssa.Value
	for _, prm := range fn.Params {
		switch t := prm.Type().Underlying().(type) {
		case *types.Basic:
			if t.Kind() == types.String && nameP == nil {
				nameP = prm
			}
		case *types.Slice:
			if dataP == nil {
				dataP = prm
			}
		}
	}
	if nameP == nil || dataP == nil {
		return false
	}
	// forwardsData: g passes its parameter k on as the first argument of want
	forwardsData := func(g *ssa.Function) int {
		for _, ci := range eng.Calls(g, false, func(string, ssa.CallInstruction) bool { return true }) {
			if h := eng.StaticCallee(ci); h != nil && eng.FuncName(h) == want && len(ci.Common().Args) > 0 {
				for k, prm := range g.Params {
					if ci.Common().Args[0] == ssa.Value(prm) {
						return k
					}
				}
			}
		}
		return -1
	}
	target := func(in ssa.Instruction) bool {
		ci, ok := in.(ssa.CallInstruction)
		if !ok {
			return false
		}
		g := eng.StaticCallee(ci)
		if g == nil && !ci.Common().IsInvoke() {
			// the handler looked up in a read-only table keyed by the filter name
			if tbl, lk := filterLookupTable(fn, nameP); tbl != nil && valueFromLookup(ci.Common().Value, lk) {
				g = tableHandler(tbl[name])
			}
		}
		if g == nil {
			return false
		}
		args := ci.Common().Args
		if eng.FuncName(g) == want {
			return len(args) > 0 && args[0] == dataP
		}
		if g.Blocks == nil || !eng.InModule(g) {
			return false
		}
		k := forwardsData(g)
		if k < 0 {
			return false
		}
		if ci.Common().IsInvoke() {
			k-- // the receiver is not among the arguments of an interface call
		}
		return k >= 0 && k < len(args) && args[k] == dataP
	}
	return eng.StrReach(fn, []string{name}, func(v ssa.Value) bool { return v == nameP }, nil, target)[name]
}

// filterLookupTable: the dispatcher reads a package-level table (a map literal nothing else writes) with the filter
// name as the key; returns the table's entries and the lookup.
func filterLookupTable(fn *ssa.Function, nameP ssa.Value) (map[string]ssa.Value, *ssa.Lookup) {
	var tbl map[string]ssa.Value
	var at *ssa.Lookup
	eng.Instrs(fn, false, func(in ssa.Instruction) {
		lk, ok := in.(*ssa.Lookup)
		if !ok || lk.Index != nameP || at != nil {
			return
		}
		ld, ok := lk.X.(*ssa.UnOp)
		if !ok {
			return
		}
		g, ok := ld.X.(*ssa.Global)
		if !ok {
			return
		}
		if strs, _, ok := eng.GlobalMapEntries(g); ok && len(strs) > 0 {
			tbl, at = strs, lk
		}
	})
	return tbl, at
}

func valueFromLookup(v ssa.Value, lk *ssa.Lookup) bool {
	if v == ssa.Value(lk) {
		return true
	}
	ex, ok := v.(*ssa.Extract)
	return ok && ex.Tuple == ssa.Value(lk) && ex.Index == 0
}

// tableHandler: the function a table entry stands for (conversions to a named function type are transparent).
func tableHandler(v ssa.Value) *ssa.Function {
	for v != nil {
		switch x := v.(type) {
		case *ssa.Function:
			return x
		case *ssa.ChangeType:
			v = x.X
		case *ssa.MakeClosure:
			if len(x.Bindings) == 0 {
				f, _ := x.Fn.(*ssa.Function)
				return f
			}
			return nil
		default:
			return nil
		}
	}
	return nil
}

// ruleFilterNamesTable decides R5.1 for a dispatcher written as a lookup in a table of handler functions. It reports
// false when the dispatcher does not have that form.
func ruleFilterNamesTable(c *eng.Ctx, R string, fd *eng.FuncDecl) bool {
	fn := c.P.Func("core.decodeWithFilter")
	if fn == nil {
		return false
	}
	var nameP ssa.Value
	for _, prm := range fn.Params {
		if b, ok := prm.Type().Underlying().(*types.Basic); ok && b.Kind() == types.String && nameP == nil {
			nameP = prm
		}
	}
	if nameP == nil {
		return false
	}
	tbl, lk := filterLookupTable(fn, nameP)
	if tbl == nil {
		return false
	}
	for _, pair := range isoFilters {
		long, short := pair[0], pair[1]
		hl, hs := handlerKey(tbl[long]), handlerKey(tbl[short])
		key := "core.decodeWithFilter#case " + long + "/" + short
		switch {
		case tbl[long] == nil || tbl[short] == nil:
			c.Viol(R, key, lk.Pos(), fmt.Sprintf("filter name %q or its abbreviation %q has no entry: streams using it fall into the unknown-filter error", long, short))
		case hl == "" || hl != hs:
			c.Viol(R, key, lk.Pos(), fmt.Sprintf("%q and its abbreviation %q are handled by different functions", long, short))
		default:
			c.Ok(R, key, lk.Pos(), "long and abbreviated name share a handler")
		}
		if want, ok := implementedFilters[long]; ok && tbl[long] != nil {
			found := decoderReached(c.P, long, want) && decoderReached(c.P, short, want)
			c.Check(found, R, "core.decodeWithFilter#"+long+"->decoder", lk.Pos(), "dispatches to "+want+"(data, …)", "entry for "+long+" does not call "+want+" on the incoming data")
		}
	}
	// a name outside the table ends in an error
	const none = "\x00no-such-filter"
	errRet, okRet := false, false
	eng.StrReach(fn, []string{none}, func(v ssa.Value) bool { return v == nameP }, nil, func(in ssa.Instruction) bool {
		r, ok := in.(*ssa.Return)
		if !ok || len(r.Results) == 0 {
			return false
		}
		if eng.IsNilConst(r.Results[len(r.Results)-1]) {
			okRet = true
		} else {
			errRet = true
		}
		return false
	})
	c.Check(errRet && !okRet, R, "core.decodeWithFilter#default", fd.Decl.Pos(), "unknown filter names are an error", "unknown filter names no longer produce an error (data would pass through undecoded)")
	return true
}

// absSlice resolves a slice value that is a window of a window … of a buffer: the buffer, and the window's bounds as
// positions in the buffer (hi is nil when the window runs to the end of the buffer). A value that is not a slice
// expression is its own buffer with offset 0.
func absSlice(v ssa.Value, leaf func(ssa.Value) (*eng.Poly, bool)) (base ssa.Value, lo, hi *eng.Poly, ok bool) {
	sl, isSl := v.(*ssa.Slice)
	if !isSl {
		return v, eng.PConst(0), nil, true
	}
	b, blo, bhi, ok := absSlice(sl.X, leaf)
	if !ok {
		return nil, nil, nil, false
	}
	lo = blo
	if sl.Low != nil {
		p, ok := eng.IntPoly(sl.Low, leaf)
		if !ok {
			return nil, nil, nil, false
		}
		lo = blo.Add(p)
	}
	hi = bhi
	if sl.High != nil {
		p, ok := eng.IntPoly(sl.High, leaf)
		if !ok {
			return nil, nil, nil, false
		}
		hi = blo.Add(p)
	}
	return b, lo, hi, true
}

// handlerKey identifies what a table entry stands for, so that two entries can be compared: a function, or the result
// of a factory of the module called with constant arguments (unimplemented("LZWDecode")).
func handlerKey(v ssa.Value) string {
	if f := tableHandler(v); f != nil {
		return "fn:" + eng.FuncName(f)
	}
	for {
		ct, ok := v.(*ssa.ChangeType)
		if !ok {
			break
		}
		v = ct.X
	}
	if call, ok := v.(*ssa.Call); ok {
		g := eng.StaticCallee(call)
		if g == nil || !eng.InModule(g) {
			return ""
		}
		key := "call:" + eng.FuncName(g) + "("
		for _, a := range call.Call.Args {
			cst, ok := a.(*ssa.Const)
			if !ok || cst.Value == nil {
				return ""
			}
			key += cst.Value.ExactString() + ","
		}
		return key + ")"
	}
	return ""
}

// predictorRowTags: the second half of R5.3 (row tags 0..4 of the PNG row decoder).
func predictorRowTags(c *eng.Ctx, R string) {
	pr := findPNGRow(c.P)
	if pr == nil || pr.find("tag") == nil {
		c.Undec(R, "filters.decodePNGRow", token.NoPos, "anchor not found")
		return
	}
	row := pr.fn
	tags := map[int64]bool{}
	eng.Instrs(row, false, func(in ssa.Instruction) {
		if b, ok := in.(*ssa.BinOp); ok && b.Op == token.EQL && pr.role(b.X) == "tag" {
			if k, ok := eng.ConstInt(b.Y); ok {
				tags[k] = true
			}
		}
	})
	allTags := tags[0] && tags[1] && tags[2] && tags[3] && tags[4] && len(tags) == 5
	errDefault := false
	for _, r := range eng.Returns(row) {
		if nn, known := eng.ErrValueNonNil(r.Results[len(r.Results)-1]); known && nn {
			errDefault = true
		}
	}
	if !errDefault {
		// the rejection may live in the strategy chosen for unknown tags (a closure that returns the error) with the
		// row decoder handing on whatever error the strategy reports
		inner := false
		for _, an := range row.AnonFuncs {
			for _, r := range eng.Returns(an) {
				if len(r.Results) > 0 {
					if nn, known := eng.ErrValueNonNil(r.Results[len(r.Results)-1]); known && nn {
						inner = true
					}
				}
			}
		}
		propagates := false
		for _, r := range eng.Returns(row) {
			last := r.Results[len(r.Results)-1]
			if ex, ok := last.(*ssa.Extract); ok {
				if call, ok := ex.Tuple.(*ssa.Call); ok && eng.StaticCallee(call) == nil && !call.Call.IsInvoke() {
					propagates = true
				}
			}
		}
		errDefault = inner && propagates
	}
	c.Check(allTags && errDefault, R, "filters.decodePNGRow#tags", row.Pos(), "row tags 0..4 handled, others rejected", fmt.Sprintf("row tag dispatch changed (tags compared: %v, erroring default: %v)", sortedKeys(tags), errDefault))
}

// predictorTableForm handles applyPredictor written as a lookup in a package-level table of decoder functions.
func predictorTableForm(c *eng.Ctx, R string, fn *ssa.Function) bool {
	var lk *ssa.Lookup
	var entries map[int64]ssa.Value
	eng.Instrs(fn, false, func(in ssa.Instruction) {
		x, ok := in.(*ssa.Lookup)
		if !ok || lk != nil {
			return
		}
		u, ok := x.X.(*ssa.UnOp)
		if !ok {
			return
		}
		g, ok := u.X.(*ssa.Global)
		if !ok {
			return
		}
		if _, ints, ok := eng.GlobalMapEntries(g); ok && len(ints) > 0 {
			lk, entries = x, ints
		}
	})
	if lk == nil || len(fn.Params) < 2 || !eng.SameValue(lk.Index, fn.Params[1]) {
		return false
	}
	reaches := func(v ssa.Value, target string) bool {
		var f *ssa.Function
		switch x := v.(type) {
		case *ssa.Function:
			f = x
		case *ssa.MakeClosure:
			f, _ = x.Fn.(*ssa.Function)
		case *ssa.ChangeType:
			f, _ = x.X.(*ssa.Function)
		}
		if f == nil {
			return false
		}
		if eng.FuncName(f) == target {
			return true
		}
		// an adapter: hands its own data parameter to the target and returns what it returns
		for _, ci := range eng.CallsNamed(f, false, target) {
			if len(f.Params) > 0 && ci.Common().Args[0] == ssa.Value(f.Params[0]) {
				return true
			}
		}
		return false
	}
	identity := func(v ssa.Value) bool {
		f, _ := v.(*ssa.Function)
		if ct, ok := v.(*ssa.ChangeType); ok {
			f, _ = ct.X.(*ssa.Function)
		}
		if f == nil || f.Blocks == nil || len(f.Params) == 0 {
			return false
		}
		rets := eng.Returns(f)
		if len(rets) != 1 || len(rets[0].Results) != 2 {
			return false
		}
		return rets[0].Results[0] == ssa.Value(f.Params[0]) && eng.IsNilConst(rets[0].Results[1])
	}
	okTIFF := entries[2] != nil && reaches(entries[2], "internal/filters.applyTIFFPredictor2")
	okPNG := true
	for k := int64(10); k <= 15; k++ {
		if entries[k] == nil || !reaches(entries[k], "internal/filters.applyPNGPredictor") {
			okPNG = false
		}
	}
	extra := false
	for k := range entries {
		if k != 1 && k != 2 && (k < 10 || k > 15) {
			extra = true
		}
	}
	c.Check(okTIFF && !extra, R, "filters.applyPredictor#predictor 2 -> TIFF", fn.Pos(), "predictor 2 -> TIFF", "dispatch changed: predictor 2 -> TIFF no longer holds exactly")
	c.Check(okPNG && !extra, R, "filters.applyPredictor#predictor 10..15 -> PNG", fn.Pos(), "predictor 10..15 -> PNG", "dispatch changed: predictor 10..15 -> PNG no longer holds exactly")
	c.Check(entries[1] != nil && identity(entries[1]), R, "filters.applyPredictor#1->identity", fn.Pos(), "predictor 1 returns the data unchanged", "predictor 1 is no longer the identity")
	// a missing key is an error: the lookup's ok result is tested and the miss side returns a non-nil error
	errOK := false
	for _, r := range eng.Returns(fn) {
		if len(r.Results) == 2 {
			if nn, known := eng.ErrValueNonNil(r.Results[1]); known && nn && eng.IsNilConst(r.Results[0]) {
				errOK = true
			}
		}
	}
	c.Check(errOK && lk.CommaOk, R, "filters.applyPredictor#else->error", fn.Pos(), "unsupported predictors are an error", "unsupported predictor values no longer produce an error")
	// the entry found is called with the incoming data and predictor
	called := false
	eng.Instrs(fn, false, func(in ssa.Instruction) {
		call, ok := in.(*ssa.Call)
		if !ok || eng.StaticCallee(call) != nil || call.Call.IsInvoke() {
			return
		}
		if len(call.Call.Args) >= 2 && call.Call.Args[0] == ssa.Value(fn.Params[0]) && eng.SameValue(call.Call.Args[1], fn.Params[1]) {
			called = true
		}
	})
	c.Check(called, R, "filters.applyPredictor#table-call", fn.Pos(), "the decoder found is called with the incoming data and predictor", "the decoder taken from the table is not called with the incoming data and predictor value")
	return true
}
