package rules

import (
	"fmt"
	"go/ast"
	"go/token"
	"go/types"
	"sort"
	"strings"
	"unicode"

	"verif/checker/eng"
)

// Role-name agreement (argument selection defects, Rice et al. 2017, specialised to the
// vocabulary of this code base): when a parameter or destination field names one member
// of an opposite pair (row/col, src/dst, start/end, x/y, width/height, min/max,
// header/footer, index/number ...) the value given to it must not be named after the
// OTHER member of the pair only. The rule works on the typed AST: names are split at
// camel-case boundaries, the callee's parameter names come from its declaration.

var rolePairs = [][2][]string{
	{{"row", "rows"}, {"col", "cols", "column", "columns"}},
	{{"src", "source"}, {"dst", "dest", "target"}},
	{{"start", "begin", "first"}, {"end", "last"}},
	{{"x"}, {"y"}},
	{{"width"}, {"height"}},
	{{"left"}, {"right"}},
	{{"top"}, {"bottom"}},
	{{"header", "headers"}, {"footer", "footers"}},
	{{"prev", "previous"}, {"next"}},
	{{"key"}, {"value", "val"}},
}

func splitWords(name string) []string {
	var out []string
	cur := ""
	rs := []rune(name)
	for i, r := range rs {
		if r == '_' || r == '.' {
			if cur != "" {
				out = append(out, strings.ToLower(cur))
				cur = ""
			}
			continue
		}
		if i > 0 && unicode.IsUpper(r) && (unicode.IsLower(rs[i-1]) || (i+1 < len(rs) && unicode.IsLower(rs[i+1]))) {
			if cur != "" {
				out = append(out, strings.ToLower(cur))
				cur = ""
			}
		}
		if unicode.IsDigit(r) {
			continue
		}
		cur += string(r)
	}
	if cur != "" {
		out = append(out, strings.ToLower(cur))
	}
	return out
}

// roleOf: for each pair, which side(s) the words name: bit 1 = first member, bit 2 = second.
func roleOf(words []string) []int {
	res := make([]int, len(rolePairs))
	for _, w := range words {
		for pi, p := range rolePairs {
			for _, a := range p[0] {
				if w == a {
					res[pi] |= 1
				}
			}
			for _, b := range p[1] {
				if w == b {
					res[pi] |= 2
				}
			}
		}
	}
	return res
}

// exprWords collects the words of the identifiers and selected field names of an expression
// (call arguments included: parseSpan(cell.RowsSpanned) is about rows).
func exprWords(e ast.Expr) []string {
	var out []string
	ast.Inspect(e, func(n ast.Node) bool {
		switch x := n.(type) {
		case *ast.Ident:
			out = append(out, splitWords(x.Name)...)
		case *ast.BasicLit:
			// string literals such as "number-rows-spanned" name a role too
			if len(x.Value) > 2 && x.Value[0] == '"' {
				for _, w := range strings.FieldsFunc(strings.Trim(x.Value, `"`), func(r rune) bool { return !unicode.IsLetter(r) }) {
					out = append(out, splitWords(w)...)
				}
			}
		}
		return true
	})
	return out
}

// roleExceptions: sites read and found intended. Key: function|destination name.
var roleExceptions = map[string]string{
	"graphicsstate.(*PathExtractor).extractLineSegments|end": "closing a subpath draws a segment from the current point back to the start of the subpath: the end point IS the subpath start",
}

type roleFinding struct {
	key  string
	tpos token.Pos
	pos  string
	what string // empty: the site is fine
}

// roleMismatches scans the functions of the given packages.
func roleMismatches(p *eng.Prog, pkgs map[string]bool) (n int, finds []roleFinding) {
	ord := map[string]int{}
	decls := p.AllDecls()
	names := make([]string, 0, len(decls))
	for k := range decls {
		names = append(names, k)
	}
	sort.Strings(names)
	for _, name := range names {
		fd := decls[name]
		sp := eng.ShortPath(fd.Pkg.PkgPath)
		if sp == "" {
			sp = "tabula"
		}
		if !pkgs[sp] || fd.Decl.Body == nil || strings.HasSuffix(p.Fset.Position(fd.Decl.Pos()).Filename, "_test.go") {
			continue
		}
		info := fd.Pkg.TypesInfo
		check := func(dstName string, src ast.Expr, pos ast.Node, kind string) {
			if len(dstName) == 1 && kind == "parameter" {
				return // generic one-letter parameters of math helpers (abs(x)) name no role
			}
			if be, isBin := ast.Unparen(src).(*ast.BinaryExpr); isBin {
				_ = be
				return // a computed value (end = start + n - 1), not a selection among named values
			}
			if why, ok := roleExceptions[name+"|"+dstName]; ok {
				_ = why
				return
			}
			dw := splitWords(dstName)
			dr := roleOf(dw)
			sr := roleOf(exprWords(src))
			for pi := range rolePairs {
				if dr[pi] == 0 || dr[pi] == 3 {
					continue
				}
				n++
				opposite := 3 - dr[pi]
				base := name + "#" + dstName
				ord[base]++
				f := roleFinding{key: fmt.Sprintf("%s@%d", base, ord[base]), tpos: pos.Pos(), pos: p.Pos(pos.Pos())}
				if sr[pi] == opposite {
					f.what = fmt.Sprintf("%s %q receives %s, which is named after the opposite role only", kind, dstName, types.ExprString(src))
				}
				finds = append(finds, f)
			}
		}
		ast.Inspect(fd.Decl.Body, func(nd ast.Node) bool {
			switch x := nd.(type) {
			case *ast.CallExpr:
				var obj types.Object
				switch f := x.Fun.(type) {
				case *ast.Ident:
					obj = info.Uses[f]
				case *ast.SelectorExpr:
					obj = info.Uses[f.Sel]
				}
				fn, ok := obj.(*types.Func)
				if !ok || fn.Pkg() == nil || !strings.HasPrefix(fn.Pkg().Path(), eng.ModPath) {
					return true
				}
				sig := fn.Type().(*types.Signature)
				for i, a := range x.Args {
					if i >= sig.Params().Len() || (sig.Variadic() && i >= sig.Params().Len()-1) {
						break
					}
					pn := sig.Params().At(i).Name()
					if pn == "" || pn == "_" {
						continue
					}
					check(pn, a, a, "parameter")
				}
			case *ast.KeyValueExpr:
				if id, ok := x.Key.(*ast.Ident); ok {
					if _, isField := info.Uses[id].(*types.Var); isField || info.Defs[id] == nil {
						check(id.Name, x.Value, x, "field")
					}
				}
			case *ast.AssignStmt:
				// a, b = b, a: an exchange of the two roles is a deliberate swap (mirrored coordinates), not a slip
				if len(x.Lhs) == 2 && len(x.Rhs) == 2 &&
					types.ExprString(x.Lhs[0]) == types.ExprString(x.Rhs[1]) && types.ExprString(x.Lhs[1]) == types.ExprString(x.Rhs[0]) {
					return true
				}
				if len(x.Lhs) == len(x.Rhs) {
					for i, l := range x.Lhs {
						if sel, ok := l.(*ast.SelectorExpr); ok {
							check(sel.Sel.Name, x.Rhs[i], x, "field")
						}
					}
				}
			}
			return true
		})
	}
	return
}

// DebugRoles prints every finding on the whole module (development aid).
func DebugRoles(p *eng.Prog) {
	all := map[string]bool{}
	for _, pk := range p.Pkgs {
		sp := eng.ShortPath(pk.PkgPath)
		if sp == "" {
			sp = "tabula"
		}
		all[sp] = true
	}
	n, f := roleMismatches(p, all)
	fmt.Println("sites", n, "findings", len(f))
	for _, x := range f {
		if x.what != "" {
			fmt.Println(x.pos, x.key, x.what)
		}
	}
}

// roleRule registers the lint for one property over its anchor packages.
func roleRule(id string, pkgs ...string) func(*eng.Ctx) {
	return func(c *eng.Ctx) {
		R := id + "-ROLE-NAMES"
		c.Rule(R, "a parameter or field named after one member of an opposite pair (row/col, src/dst, start/end, x/y, width/height, left/right, top/bottom, header/footer, prev/next, key/value) is not given a plainly selected value named after the other member only: swapped arguments and crossed assignments compile and pass symmetric tests", 0, 0)
		set := map[string]bool{}
		for _, k := range pkgs {
			set[k] = true
		}
		_, finds := roleMismatches(c.P, set)
		for _, f := range finds {
			c.Check(f.what == "", R, f.key, f.tpos, "role names agree", "crossed roles: "+f.what)
		}
	}
}
