package rules

import (
	"fmt"
	"go/token"
	"strings"

	"golang.org/x/tools/go/ssa"

	"verif/checker/eng"
)

func init() {
	register(&Property{
		ID:    "C09",
		Level: "other",
		Explanation: "Decided (structural necessary conditions of 'layout only regroups text'): (R9.1) in every regrouping and text-assembly function named by the property, each accumulating loop transfers its element (fragment, line, paragraph, block, column) on every iteration path, or skips it only under an emptiness test; every other skip is a lossy filter and must be a listed known finding or an explicitly justified de-duplication; (R9.2) no iteration path of a text-assembly loop writes the element's text twice; (R9.3) merging loops thread their accumulator (the merged value so far), so nothing merged earlier is forgotten. " +
			"Not decided: multiset equality of characters, duplication through overlapping assignment at run time, ordering.",
		Rules: []func(*eng.Ctx){constructorBypassedRule("R9.CL", "layout", "text"), deleteInRangeRule("R9.DR", "layout", "text"), ruleExtractorTextKeepsCharactersEvaluated, ruleLayoutKeepsCharactersEvaluated, ruleNoCharacterClassFilter, derivedFieldRule("R9.DF", "text", "layout"), loopVarRule("R9.LV", "layout", "tables"), ruleLossyFilterC09, ruleMergeThreading, ruleNoInputAlias, ruleTextUnmodified, roleRule("R9.R", "layout"), ruleParagraphPageCoordinates},
	})
}

var c09Functions = []string{
	"layout.(*ColumnDetector).createColumnsFromGaps", "layout.(*ColumnDetector).validateColumns", "layout.(*ColumnDetector).separateSpanningFragments",
	"layout.filterStraySpanningContent", "layout.(*LineDetector).groupIntoLines", "layout.(*LineDetector).buildLines",
	"layout.(*ParagraphDetector).groupIntoParagraphs", "layout.(*BlockDetector).groupLinesIntoBlocks", "layout.(*BlockDetector).mergeOverlappingBlocks",
	"layout.(*BlockDetector).validateBlocks", "layout.(*Analyzer).buildElementTree",
	"tabula.(*Extractor).assembleText", "tabula.(*Extractor).extractByColumn", "tabula.(*Extractor).extractWithParagraphs", "tabula.(*Extractor).extractPreserveLayout",
	"text.(*Extractor).GetText", "layout.(*ParagraphDetector).assembleParagraphText", "layout.(*ReadingOrderResult).GetText", "layout.(*LineLayout).GetText", "layout.(*ParagraphLayout).GetText",
}

// acceptedSkips: skips that were read and are not content loss. Key: function + "|" + condition signature.
var acceptedSkips = map[string]string{
	"rag.(*DocumentChunker).chunkPage|\"no case of the type switch\"":                    "the type switch is exhaustive over model.Element implementations (decided by R12.1), so no element takes this path",
	"layout.(*Analyzer).buildElementTree|":                                               "paragraphs whose box overlaps a heading or list are re-emitted by that heading/list element, which is built from the same lines (de-duplication; assumption: the overlapping element carries the paragraph's text)",
	"layout.(*ColumnDetector).separateSpanningFragments|Width,X":                         "partition: a fragment that is not spanning is appended to the column list in the complementary branch of the same test",
	"layout.(*ColumnDetector).separateSpanningFragments|Text,Width,X,isWhitespaceOnly()": "bounding-line bookkeeping loop, not the partition loop",
}

func lossyFilterRule(c *eng.Ctx, R string, fns []string, floor int) {
	c.Rule(R, "accumulating range loops of the listed functions transfer their element on every iteration path or skip it only under an emptiness test (len==0, ==\"\", TrimSpace==\"\", IsEmpty, isWhitespaceOnly); no path writes the element's text twice", floor, 0)
	for _, name := range fns {
		fd := c.P.Decl(name)
		if fd == nil {
			c.Undec(R, name, token.NoPos, "anchor function not found")
			continue
		}
		reps := analyseLoops(c.P, name, fd)
		if len(reps) == 0 {
			c.Ok(R, name+"#no-accumulating-loop", fd.Decl.Pos(), "no accumulating range loop")
			continue
		}
		for li, rep := range reps {
			lossy := 0
			for _, s := range rep.Skips {
				if s.Empty {
					continue
				}
				key := fmt.Sprintf("%s#range(%s) skip[%s]", name, rep.Elem, s.Signature)
				if why, ok := acceptedSkips[name+"|"+s.Signature]; ok {
					c.Ok(R, key, s.Pos, "accepted: "+why)
					continue
				}
				lossy++
				c.Viol(R, key, s.Pos, fmt.Sprintf("element %s is dropped when %s: its text appears in no output of this stage", rep.Elem, strings.Join(s.Conds, " && ")))
			}
			if rep.MaxTextWrites > 1 {
				c.Viol(R, fmt.Sprintf("%s#range(%s) double-write", name, rep.Elem), rep.Range.Pos(), "an iteration path writes the element's text more than once: text is duplicated")
			}
			if lossy == 0 {
				c.Ok(R, fmt.Sprintf("%s#loop%d(%s)", name, li+1, rep.Elem), rep.Range.Pos(), fmt.Sprintf("%d transferring paths, skips only on emptiness", rep.Transfers))
			}
		}
	}
}

func ruleLossyFilterC09(c *eng.Ctx) {
	lossyFilterRule(c, "R9.1-LOSSY-FILTER", c09Functions, 15)
}

// R9.3: merge loops thread the accumulator.
func ruleMergeThreading(c *eng.Ctx) {
	const R = "R9.3-MERGE-THREADING"
	c.Rule(R, "in mergeOverlappingBlocks every mergeBlocks call inside the loop takes the running merge result as its first argument (a loop-carried value fed by the call's own result)", 1, 0)
	fn := c.P.Func("layout.(*BlockDetector).mergeOverlappingBlocks")
	if fn == nil {
		c.Undec(R, "layout.(*BlockDetector).mergeOverlappingBlocks", token.NoPos, "anchor not found")
		return
	}
	calls := eng.CallsNamed(fn, false, "layout.(*BlockDetector).mergeBlocks")
	if len(calls) == 0 {
		c.Ok(R, "layout.(*BlockDetector).mergeOverlappingBlocks#no-merge", fn.Pos(), "no incremental merge")
		return
	}
	for _, ci := range calls {
		call, _ := ci.(*ssa.Call)
		ok := false
		if call != nil {
			// arg0 (after the receiver) flows from a phi/alloc that also receives this call's result
			acc := call.Call.Args[1]
			sl := eng.Slice(acc, nil)
			for v := range sl {
				if ph, isPhi := v.(*ssa.Phi); isPhi {
					for _, e := range ph.Edges {
						if e == ssa.Value(call) {
							ok = true
						}
					}
				}
				if v == ssa.Value(call) {
					ok = true
				}
			}
		}
		c.Check(ok, R, "layout.(*BlockDetector).mergeOverlappingBlocks#accumulator", ci.Pos(), "merge(current, next) threads the running result", "mergeBlocks is not applied to the running merge result: after the second merge the blocks merged earlier are forgotten (their text disappears)")
	}
}
