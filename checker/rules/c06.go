package rules

import (
	"fmt"
	"go/ast"
	"go/constant"
	"go/token"
	"go/types"
	"sort"
	"strings"

	"golang.org/x/tools/go/ssa"

	"verif/checker/eng"
)

func init() {
	register(&Property{
		ID:    "C06",
		Level: "other",
		Explanation: "Decided (structural necessary conditions of 'one meaning for both parsers'): (R6.1) the white-space, delimiter, hex/octal/decimal digit classes and hex values of the document lexer and the content-stream parser are exactly the ISO 32000 tables and equal each other (exact 256-entry denotations); (R6.2) both literal-string readers map the same escape letters to the same bytes, treat \\CR, \\LF as continuation and continue an octal escape only on octal digits, at most three digits; (R6.3) every content-stream operator of ISO 32000 and every operator the extractors handle can be tokenised as an operator (first byte in the operator-start set, all bytes in the operator-continue set) and true/false/null are operands; keyword operands end at white space or a delimiter; (R6.4) both parsers end a comment at CR or LF; (R6.5) the reference lookahead 'int int R' does not consume plain integers. " +
			"Not decided: round-trip equality of arbitrary trees, number edge cases, name # escapes beyond the character classes.",
		Rules: []func(*eng.Ctx){ruleTruncatedContentEvaluated, ruleObjectSpellingsEvaluated, ruleKeywordOperandsInContainers, ruleHexStringCloserConsumed, ruleTokenTextNeedsType, ruleDictKeysAreReadNames, ruleCharClasses, ruleEscapes, ruleOperatorAlphabet, ruleComments, ruleRefLookahead, ruleDictKeepsAll, roleRule("R6.R", "core", "contentstream"), ruleRealsViaParseFloat, ruleParserDepthBalance, ruleTokenValueOwned, ruleBytesNotRunes, rulePDFWhitespaceOnly, ruleCursorReadsGuarded},
	})
}

var (
	isoDelims = map[byte]bool{'(': true, ')': true, '<': true, '>': true, '[': true, ']': true, '{': true, '}': true, '/': true, '%': true}
)

func rangeSet(ranges ...[2]byte) map[byte]bool {
	s := map[byte]bool{}
	for _, r := range ranges {
		for c := int(r[0]); c <= int(r[1]); c++ {
			s[byte(c)] = true
		}
	}
	return s
}

func ruleCharClasses(c *eng.Ctx) {
	const R = "R6.1-CHAR-CLASSES"
	c.Rule(R, "character-class predicates of core and contentstream denote exactly the ISO 32000 sets (tables 1 and 2) and agree with each other; hexValue is the hex digit value", 11, 0)
	hexd := rangeSet([2]byte{'0', '9'}, [2]byte{'a', 'f'}, [2]byte{'A', 'F'})
	specs := []struct {
		fn   string
		want map[byte]bool
		doc  string
	}{
		{"core.isWhitespace", pdfWhitespace, "ISO 32000 table 1"},
		{"contentstream.isWhitespace", pdfWhitespace, "ISO 32000 table 1"},
		{"core.isDelimiter", isoDelims, "ISO 32000 table 2"},
		{"contentstream.isDelimiter", isoDelims, "ISO 32000 table 2"},
		{"core.isHexDigit", hexd, "0-9a-fA-F"},
		{"contentstream.isHexDigit", hexd, "0-9a-fA-F"},
		{"core.isOctalDigit", rangeSet([2]byte{'0', '7'}), "0-7"},
		{"core.isDigit", rangeSet([2]byte{'0', '9'}), "0-9"},
		{"core.isAlpha", rangeSet([2]byte{'a', 'z'}, [2]byte{'A', 'Z'}), "ASCII letters"},
		{"contentstream.isLetter", rangeSet([2]byte{'a', 'z'}, [2]byte{'A', 'Z'}), "ASCII letters"},
	}
	for _, sp := range specs {
		fd := c.P.Decl(sp.fn)
		if fd == nil {
			c.Undec(R, sp.fn, token.NoPos, "anchor not found")
			continue
		}
		set, err := c.P.ByteSet(sp.fn)
		if err != nil {
			c.Undec(R, sp.fn, fd.Decl.Pos(), "not a closed byte predicate any more: "+err.Error())
			continue
		}
		d := sameByteSet(set, sp.want)
		c.Check(d == "", R, sp.fn, fd.Decl.Pos(), "= "+sp.doc, "class differs from "+sp.doc+" (+ = wrongly accepted, - = missing): "+d)
	}
	for _, fnName := range []string{"core.hexValue", "contentstream.hexValue"} {
		fd := c.P.Decl(fnName)
		if fd == nil {
			c.Undec(R, fnName, token.NoPos, "anchor not found")
			continue
		}
		tab, err := c.P.ByteTable(fnName)
		if err != nil {
			c.Undec(R, fnName, fd.Decl.Pos(), err.Error())
			continue
		}
		var bad []string
		for ch := range hexd {
			want := int64(0)
			switch {
			case ch >= '0' && ch <= '9':
				want = int64(ch - '0')
			case ch >= 'a' && ch <= 'f':
				want = int64(ch-'a') + 10
			default:
				want = int64(ch-'A') + 10
			}
			if len(tab[ch]) != 1 || tab[ch][0] != want {
				bad = append(bad, fmt.Sprintf("%q->%v", rune(ch), tab[ch]))
			}
		}
		sort.Strings(bad)
		c.Check(len(bad) == 0, R, fnName, fd.Decl.Pos(), "hex digit values 0..15", "hex value table wrong: "+strings.Join(bad, " "))
	}
}

// escapeTable extracts, from the switch whose cases are the escape letters after a
// backslash, the map escape letter -> emitted byte (-1: the letter itself, -2: nothing/continuation, -3: octal).
func escapeTable(fd *eng.FuncDecl) (map[byte]int, *ast.SwitchStmt) {
	var best *ast.SwitchStmt
	bestTab := map[byte]int{}
	info := fd.Pkg.TypesInfo
	ast.Inspect(fd.Decl.Body, func(n ast.Node) bool {
		sw, ok := n.(*ast.SwitchStmt)
		if !ok || sw.Tag == nil {
			return true
		}
		tab := map[byte]int{}
		hasN, hasCR := false, false
		for _, st := range sw.Body.List {
			cc := st.(*ast.CaseClause)
			for _, e := range cc.List {
				tv, ok := info.Types[e]
				if !ok || tv.Value == nil || tv.Value.Kind() != constant.Int {
					continue
				}
				k, _ := constant.Int64Val(tv.Value)
				if k < 0 || k > 255 {
					continue
				}
				if k == 'n' {
					hasN = true
				}
				if k == '\r' {
					hasCR = true
				}
				val := -2
				// first WriteByte in the clause body decides
				found := false
				for _, bs := range cc.Body {
					ast.Inspect(bs, func(m ast.Node) bool {
						if found {
							return false
						}
						call, ok := m.(*ast.CallExpr)
						if !ok {
							return true
						}
						// the byte that is written: buf.WriteByte(x), or append(buf, x) onto a plain []byte
						var emitted ast.Expr
						if sel, ok := call.Fun.(*ast.SelectorExpr); ok && sel.Sel.Name == "WriteByte" && len(call.Args) == 1 {
							emitted = call.Args[0]
						} else if id, ok := call.Fun.(*ast.Ident); ok && id.Name == "append" && len(call.Args) == 2 && !call.Ellipsis.IsValid() {
							if _, isB := info.Uses[id].(*types.Builtin); isB {
								emitted = call.Args[1]
							}
						}
						if emitted == nil {
							return true
						}
						found = true
						if atv, ok := info.Types[emitted]; ok && atv.Value != nil {
							v, _ := constant.Int64Val(atv.Value)
							val = int(v)
						} else if types.ExprString(emitted) == types.ExprString(sw.Tag) {
							val = -1
						} else {
							val = -3
						}
						return false
					})
				}
				tab[byte(k)] = val
			}
		}
		if (hasN || hasCR) && len(tab) > len(bestTab) {
			best, bestTab = sw, tab
		}
		return true
	})
	if best != nil {
		// one-byte escapes may be kept in a read-only package-level table indexed by the escape character
		// (tbl[next] or tbl[next].field as the argument of WriteByte)
		for k, v := range escapeLookupTable(fd, best.Tag) {
			if cur, dup := bestTab[k]; !dup || (cur == -3 && (k < '0' || k > '7')) {
				// no clause of its own, or a clause that writes the table's entry for the character
				bestTab[k] = v
			}
		}
	}
	return bestTab, best
}

// escapeLookupTable reads `WriteByte(tbl[tag])` / `WriteByte(tbl[tag].f)` where tbl is a package-level array or map
// literal that is never assigned: the keyed elements are the escapes and their (constant) values what is emitted.
func escapeLookupTable(fd *eng.FuncDecl, tag ast.Expr) map[byte]int {
	out := map[byte]int{}
	info := fd.Pkg.TypesInfo
	// `v := tbl[tag]` / `v, known := tbl[tag]` followed by WriteByte(v): the variable stands for the table entry
	// (where the entry is missing the variable is set to something else; only the keyed entries are read here)
	viaVar := map[types.Object]ast.Expr{}
	ast.Inspect(fd.Decl.Body, func(n ast.Node) bool {
		as, ok := n.(*ast.AssignStmt)
		if !ok || as.Tok != token.DEFINE || len(as.Rhs) != 1 || len(as.Lhs) < 1 || len(as.Lhs) > 2 {
			return true
		}
		if _, isIx := as.Rhs[0].(*ast.IndexExpr); !isIx {
			return true
		}
		if id, ok := as.Lhs[0].(*ast.Ident); ok && info.Defs[id] != nil {
			viaVar[info.Defs[id]] = as.Rhs[0]
		}
		return true
	})
	ast.Inspect(fd.Decl.Body, func(n ast.Node) bool {
		call, ok := n.(*ast.CallExpr)
		if !ok || len(call.Args) != 1 {
			return true
		}
		if sel, ok := call.Fun.(*ast.SelectorExpr); !ok || sel.Sel.Name != "WriteByte" {
			return true
		}
		arg := call.Args[0]
		if id, ok := arg.(*ast.Ident); ok {
			if ix, ok := viaVar[info.Uses[id]]; ok {
				arg = ix
			}
		}
		field := ""
		if se, ok := arg.(*ast.SelectorExpr); ok {
			field = se.Sel.Name
			arg = se.X
		}
		ix, ok := arg.(*ast.IndexExpr)
		if !ok || types.ExprString(ix.Index) != types.ExprString(tag) {
			return true
		}
		id, ok := ix.X.(*ast.Ident)
		if !ok {
			return true
		}
		obj, ok := info.Uses[id].(*types.Var)
		if !ok || obj.Pkg() == nil || obj.Parent() != obj.Pkg().Scope() {
			return true
		}
		// never assigned anywhere in the package (only its declaration writes it)
		for _, f := range fd.Pkg.Syntax {
			assigned := false
			ast.Inspect(f, func(m ast.Node) bool {
				if as, ok := m.(*ast.AssignStmt); ok {
					for _, l := range as.Lhs {
						root := l
						for {
							switch x := root.(type) {
							case *ast.IndexExpr:
								root = x.X
								continue
							case *ast.SelectorExpr:
								root = x.X
								continue
							}
							break
						}
						if rid, ok := root.(*ast.Ident); ok && info.Uses[rid] == types.Object(obj) {
							assigned = true
						}
					}
				}
				return true
			})
			if assigned {
				return true
			}
		}
		for _, f := range fd.Pkg.Syntax {
			for _, d := range f.Decls {
				gd, ok := d.(*ast.GenDecl)
				if !ok {
					continue
				}
				for _, sp := range gd.Specs {
					vs, ok := sp.(*ast.ValueSpec)
					if !ok {
						continue
					}
					for i, nm := range vs.Names {
						if info.Defs[nm] != types.Object(obj) || i >= len(vs.Values) {
							continue
						}
						lit, ok := vs.Values[i].(*ast.CompositeLit)
						if !ok {
							continue
						}
						for _, el := range lit.Elts {
							kv, ok := el.(*ast.KeyValueExpr)
							if !ok {
								continue
							}
							ktv, ok := info.Types[kv.Key]
							if !ok || ktv.Value == nil {
								continue
							}
							k, _ := constant.Int64Val(ktv.Value)
							if k < 0 || k > 255 {
								continue
							}
							val := kv.Value
							if cl, ok := val.(*ast.CompositeLit); ok && field != "" {
								// struct element: the selected field, keyed or positional
								if st, ok := info.TypeOf(cl).Underlying().(*types.Struct); ok {
									for fi := 0; fi < st.NumFields(); fi++ {
										if st.Field(fi).Name() != field {
											continue
										}
										for ei, e := range cl.Elts {
											if fkv, ok := e.(*ast.KeyValueExpr); ok {
												if fid, ok := fkv.Key.(*ast.Ident); ok && fid.Name == field {
													val = fkv.Value
												}
											} else if ei == fi {
												val = e
											}
										}
									}
								}
							}
							if vtv, ok := info.Types[val]; ok && vtv.Value != nil && vtv.Value.Kind() == constant.Int {
								v, _ := constant.Int64Val(vtv.Value)
								out[byte(k)] = int(v)
							}
						}
					}
				}
			}
		}
		return true
	})
	return out
}

func ruleEscapes(c *eng.Ctx) {
	const R = "R6.2-ESCAPES"
	c.Rule(R, "both literal-string readers: n->LF r->CR t->HT b->BS f->FF, ( ) \\ stand for themselves, \\CR and \\LF emit nothing, octal escapes start at 0-7 and continue only on octal digits for at most two more digits", 4, 0)
	want := map[byte]int{'n': 10, 'r': 13, 't': 9, 'b': 8, 'f': 12, '(': '(', ')': ')', '\\': '\\', '\r': -2, '\n': -2,
		'0': -3, '1': -3, '2': -3, '3': -3, '4': -3, '5': -3, '6': -3, '7': -3}
	tabs := map[string]map[byte]int{}
	for _, fnName := range []string{"core.(*Lexer).readString", "contentstream.(*Parser).parseString"} {
		fd := c.P.Decl(fnName)
		if fd == nil {
			c.Undec(R, fnName, token.NoPos, "anchor not found")
			continue
		}
		tab, sw := escapeTable(fd)
		if sw == nil {
			c.Undec(R, fnName, fd.Decl.Pos(), "no escape switch found after the backslash")
			continue
		}
		tabs[fnName] = tab
		var bad []string
		for k, w := range want {
			g, ok := tab[k]
			if !ok {
				bad = append(bad, fmt.Sprintf("no case for %q", rune(k)))
				continue
			}
			if g == -1 {
				g = int(k)
			}
			if g != w {
				bad = append(bad, fmt.Sprintf("\\%q emits %d, ISO 32000 table 3 says %d", rune(k), g, w))
			}
		}
		for k := range tab {
			if _, ok := want[k]; !ok {
				bad = append(bad, fmt.Sprintf("unexpected escape case %q", rune(k)))
			}
		}
		sort.Strings(bad)
		c.Check(len(bad) == 0, R, fnName+"#escape-table", sw.Pos(), "escape table equals ISO 32000 table 3", "escape table differs: "+strings.Join(bad, "; "))

		// backslash CR LF is one line continuation: the clause that handles CR looks whether an LF follows
		okCRLF := false
		for _, st := range sw.Body.List {
			cc, ok := st.(*ast.CaseClause)
			if !ok {
				continue
			}
			hasCR := false
			for _, e := range cc.List {
				if tv, ok := fd.Pkg.TypesInfo.Types[e]; ok && tv.Value != nil && tv.Value.Kind() == constant.Int {
					if k, _ := constant.Int64Val(tv.Value); k == '\r' {
						hasCR = true
					}
				}
			}
			if !hasCR {
				continue
			}
			look := func(n ast.Node) {
				ast.Inspect(n, func(m ast.Node) bool {
					if be, ok := m.(*ast.BinaryExpr); ok && (be.Op == token.EQL || be.Op == token.NEQ) {
						for _, side := range []ast.Expr{be.X, be.Y} {
							if tv, ok := fd.Pkg.TypesInfo.Types[side]; ok && tv.Value != nil && tv.Value.Kind() == constant.Int {
								if k, _ := constant.Int64Val(tv.Value); k == '\n' {
									okCRLF = true
								}
							}
						}
					}
					return true
				})
			}
			for _, b := range cc.Body {
				look(b)
				ast.Inspect(b, func(m ast.Node) bool {
					if call, ok := m.(*ast.CallExpr); ok {
						if body := localHelperBody(fd, call); body != nil {
							look(body)
						}
					}
					return true
				})
			}
		}
		c.Check(okCRLF, R, fnName+"#continuation-CRLF", sw.Pos(), "after backslash CR a following LF belongs to the same line continuation", "the clause for backslash CR does not look for an LF after it: a string wrapped with backslash CR LF keeps a stray line feed at every wrap point")

		// octal continuation: the test applied to the 2nd/3rd digit accepts exactly 0-7, loop bound 2
		okOct, why := octalContinuation(c.P, fd)
		c.Check(okOct, R, fnName+"#octal-continuation", sw.Pos(), "octal escape continues only on 0-7, at most 3 digits", why)
	}
}

// octalContinuation finds, inside the case '0'..'7' clause, the `for i := 0; i < 2` loop and the
// condition that stops it, and evaluates for which bytes the escape continues.
func octalContinuation(p *eng.Prog, fd *eng.FuncDecl) (bool, string) {
	info := fd.Pkg.TypesInfo
	var clause *ast.CaseClause
	ast.Inspect(fd.Decl.Body, func(n ast.Node) bool {
		cc, ok := n.(*ast.CaseClause)
		if !ok {
			return true
		}
		for _, e := range cc.List {
			if tv, ok := info.Types[e]; ok && tv.Value != nil && tv.Value.Kind() == constant.Int {
				if k, _ := constant.Int64Val(tv.Value); k == '7' {
					clause = cc
				}
			}
		}
		return true
	})
	if clause == nil {
		return false, "no case for octal digits"
	}
	var loop *ast.ForStmt
	for _, s := range clause.Body {
		ast.Inspect(s, func(n ast.Node) bool {
			if f, ok := n.(*ast.ForStmt); ok && loop == nil {
				loop = f
			}
			return true
		})
	}
	if loop == nil {
		// the digits may be read by a helper of the package (l.readOctalEscape(first))
		for _, s := range clause.Body {
			ast.Inspect(s, func(n ast.Node) bool {
				if call, ok := n.(*ast.CallExpr); ok && loop == nil {
					if body := localHelperBody(fd, call); body != nil {
						ast.Inspect(body, func(m ast.Node) bool {
							if f, ok := m.(*ast.ForStmt); ok && loop == nil {
								loop = f
							}
							return true
						})
					}
				}
				return true
			})
		}
	}
	var loopBody *ast.BlockStmt
	bound := int64(-1)
	if loop != nil {
		loopBody = loop.Body
		// bound: i < 2
		ast.Inspect(loop.Cond, func(n ast.Node) bool {
			if be, ok := n.(*ast.BinaryExpr); ok && be.Op == token.LSS {
				if tv, ok := info.Types[be.Y]; ok && tv.Value != nil {
					if k, ok := constant.Int64Val(tv.Value); ok && bound < 0 {
						bound = k
					}
				}
			}
			return true
		})
		// the same bound counted down: for left := 2; left > 0 && …; left--
		if bound < 0 {
			if as, ok := loop.Init.(*ast.AssignStmt); ok && len(as.Lhs) == 1 && len(as.Rhs) == 1 {
				if id, ok := as.Lhs[0].(*ast.Ident); ok {
					if tv, ok := info.Types[as.Rhs[0]]; ok && tv.Value != nil {
						if k, ok := constant.Int64Val(tv.Value); ok {
							down, positive := false, false
							if ps, ok := loop.Post.(*ast.IncDecStmt); ok && ps.Tok == token.DEC {
								if pid, ok := ps.X.(*ast.Ident); ok && pid.Name == id.Name {
									down = true
								}
							}
							ast.Inspect(loop.Cond, func(n ast.Node) bool {
								if be, ok := n.(*ast.BinaryExpr); ok && be.Op == token.GTR {
									if xid, ok := be.X.(*ast.Ident); ok && xid.Name == id.Name {
										if tv, ok := info.Types[be.Y]; ok && tv.Value != nil {
											if z, ok := constant.Int64Val(tv.Value); ok && z == 0 {
												positive = true
											}
										}
									}
								}
								return true
							})
							if down && positive {
								bound = k
							}
						}
					}
				}
			}
		}
	} else {
		// the same loop written as a range over the next bytes cut to a fixed length:
		//   following := p.data[p.pos:]; if len(following) > 2 { following = following[:2] }; for _, d := range following
		var rng *ast.RangeStmt
		for _, s := range clause.Body {
			ast.Inspect(s, func(n ast.Node) bool {
				if r, ok := n.(*ast.RangeStmt); ok && rng == nil {
					rng = r
				}
				return true
			})
		}
		if rng != nil {
			loopBody = rng.Body
			ranged := types.ExprString(rng.X)
			for _, s := range clause.Body {
				ast.Inspect(s, func(n ast.Node) bool {
					as, ok := n.(*ast.AssignStmt)
					if !ok || len(as.Lhs) != 1 || len(as.Rhs) != 1 || types.ExprString(as.Lhs[0]) != ranged {
						return true
					}
					if se, ok := as.Rhs[0].(*ast.SliceExpr); ok && se.High != nil && se.Low == nil && types.ExprString(se.X) == ranged {
						if tv, ok := info.Types[se.High]; ok && tv.Value != nil {
							if k, ok := constant.Int64Val(tv.Value); ok {
								bound = k
							}
						}
					}
					return true
				})
			}
		}
	}
	if loopBody == nil {
		if ok, why := octalTailRecursion(p, fd); ok {
			return true, ""
		} else if why != "" {
			return false, why
		}
		return false, "octal escape no longer reads further digits in a bounded loop"
	}
	if bound != 2 {
		return false, fmt.Sprintf("octal escape reads up to %d further digits, ISO 32000 allows two", bound)
	}
	// the if statement that breaks: find `if <cond> { break }` and the byte variable tested
	var stopCond ast.Expr
	ast.Inspect(loopBody, func(n ast.Node) bool {
		is, ok := n.(*ast.IfStmt)
		if !ok || stopCond != nil {
			return true
		}
		for _, s := range is.Body.List {
			if br, ok := s.(*ast.BranchStmt); ok && br.Tok == token.BREAK {
				stopCond = is.Cond
			}
		}
		return true
	})
	if stopCond == nil {
		return false, "octal continuation loop has no stop condition"
	}
	// candidate free variables: identifiers of byte type in the condition
	var free string
	ast.Inspect(stopCond, func(n ast.Node) bool {
		if id, ok := n.(*ast.Ident); ok {
			if t := info.TypeOf(id); t != nil {
				if b, ok := t.Underlying().(*types.Basic); ok && b.Kind() == types.Uint8 {
					free = id.Name
				}
			}
		}
		return true
	})
	if free == "" {
		return false, "cannot identify the digit variable of the octal continuation test"
	}
	stops, err := p.ExprByteSet(fd, stopCond, free, func(name string) (any, bool) {
		return nil, false
	})
	if err != nil {
		// conditions like `err != nil || !isOctalDigit(peek)`: treat err != nil as false
		stops, err = p.ExprByteSet(fd, stripErrTest(stopCond), free, nil)
		if err != nil {
			return false, "octal continuation test is not a closed byte predicate: " + err.Error()
		}
	}
	cont := map[byte]bool{}
	for ch := 0; ch < 256; ch++ {
		if !stops[byte(ch)] {
			cont[byte(ch)] = true
		}
	}
	d := sameByteSet(cont, rangeSet([2]byte{'0', '7'}))
	if d != "" {
		return false, "an octal escape continues on bytes other than 0-7 (so \\12 followed by '8' swallows the 8): " + d
	}
	return true, ""
}

// stripErrTest removes `err != nil ||` disjuncts from a condition.
func stripErrTest(e ast.Expr) ast.Expr {
	if be, ok := e.(*ast.BinaryExpr); ok && be.Op == token.LOR {
		if isErrTest(be.X) {
			return stripErrTest(be.Y)
		}
		if isErrTest(be.Y) {
			return stripErrTest(be.X)
		}
	}
	return e
}

func isErrTest(e ast.Expr) bool {
	be, ok := e.(*ast.BinaryExpr)
	if !ok || be.Op != token.NEQ {
		return false
	}
	id, ok := be.X.(*ast.Ident)
	nl, ok2 := be.Y.(*ast.Ident)
	return ok && ok2 && id.Name == "err" && nl.Name == "nil"
}

// ISO 32000-1 table 51 (content stream operators), written from the standard.
var isoOperators = []string{
	"b", "B", "b*", "B*", "BDC", "BI", "BMC", "BT", "BX", "c", "cm", "CS", "cs", "d", "Do", "DP", "EI", "EMC", "ET", "EX",
	"f", "F", "f*", "G", "g", "gs", "h", "i", "ID", "j", "J", "K", "k", "l", "m", "M", "MP", "n", "q", "Q", "re", "RG", "rg", "ri",
	"s", "S", "SC", "sc", "SCN", "scn", "sh", "T*", "Tc", "Td", "TD", "Tf", "Tj", "TJ", "TL", "Tm", "Tr", "Ts", "Tw", "Tz", "v", "w", "W", "W*", "y", "'", "\"",
	// d0 and d1 occur only inside Type 3 glyph procedures, which this library does not interpret
}

func ruleOperatorAlphabet(c *eng.Ctx) {
	const R = "R6.3-OPERATOR-ALPHABET"
	c.Rule(R, "every ISO 32000 content operator and every operator handled by the text and graphics extractors starts with a byte that parseNext routes to parseOperator and consists of bytes parseOperator accepts; true/false/null are operands; keyword operands end at white space or a delimiter", 70, 0)
	fdNext := c.P.Decl("contentstream.(*Parser).parseNext")
	fdOp := c.P.Decl("contentstream.(*Parser).parseOperator")
	if fdNext == nil || fdOp == nil {
		c.Undec(R, "contentstream.(*Parser).parseNext", token.NoPos, "anchor not found")
		return
	}
	// S: the bytes for which parseNext can reach the call of parseOperator, computed on the SSA form with the
	// current byte fixed (atKeywordOperand taken as false: a token that is not true/false/null)
	fnNext := c.P.Func("contentstream.(*Parser).parseNext")
	fnOp := c.P.Func("contentstream.(*Parser).parseOperator")
	if fnNext == nil || fnOp == nil {
		c.Undec(R, "contentstream.(*Parser).parseNext", token.NoPos, "anchor not found")
		return
	}
	notKeyword := func(call *ssa.Call) (int64, bool) {
		if strings.HasSuffix(eng.CalleeName(call), "atKeywordOperand") {
			return 0, true
		}
		return 0, false
	}
	routes := 0
	S := eng.ByteReach(fnNext, eng.DefaultByteVar, func(in ssa.Instruction) bool {
		if ci, ok := in.(ssa.CallInstruction); ok && eng.StaticCallee(ci) == fnOp {
			routes++
			return true
		}
		return false
	}, notKeyword)
	if routes == 0 {
		c.Undec(R, "contentstream.(*Parser).parseNext#operator-start", fnNext.Pos(), "cannot find the call that routes to parseOperator")
		return
	}
	// K: the bytes the scanning loop of parseOperator (or of the helper it was extracted into) appends to the name
	var K [256]bool
	accepts := 0
	for _, h := range eng.Cluster(fnOp, 2) {
		has := false
		eng.Instrs(h, false, func(in ssa.Instruction) {
			if ci, ok := in.(ssa.CallInstruction); ok && strings.HasSuffix(eng.CalleeName(ci), ".WriteByte") {
				has = true
			}
		})
		target := func(in ssa.Instruction) bool {
			ci, ok := in.(ssa.CallInstruction)
			return ok && strings.HasSuffix(eng.CalleeName(ci), ".WriteByte")
		}
		if !has && h == fnOp {
			// the name is cut out of the input afterwards (data[start:pos]): the accepted bytes are those on
			// which the scanning loop advances the cursor
			adv := func(in ssa.Instruction) bool {
				st, ok := in.(*ssa.Store)
				if !ok || !eng.InLoop(st.Block()) {
					return false
				}
				if _, isF := st.Addr.(*ssa.FieldAddr); !isF {
					return false
				}
				b, ok := st.Val.(*ssa.BinOp)
				if !ok || b.Op != token.ADD {
					return false
				}
				k, isC := eng.ConstInt(b.Y)
				return isC && k == 1
			}
			eng.Instrs(h, false, func(in ssa.Instruction) {
				if adv(in) {
					has = true
				}
			})
			target = adv
		}
		if !has {
			continue
		}
		accepts++
		kk := eng.ByteReach(h, eng.DefaultByteVar, target, nil)
		for i := range kk {
			K[i] = K[i] || kk[i]
		}
	}
	if accepts == 0 {
		c.Undec(R, "contentstream.(*Parser).parseOperator#operator-continue", fnOp.Pos(), "cannot find the loop that accepts operator bytes")
		return
	}
	// an operator token ends at white space and at every delimiter: `BT/F1 12 Tf(Hello)Tj` is five tokens
	for _, b := range []byte("()<>[]{}/% \t\r\n\f\x00") {
		if K[b] {
			c.Viol(R, fmt.Sprintf("contentstream.(*Parser).parseOperator#stops-at %q", rune(b)), fnOp.Pos(), fmt.Sprintf("byte %q is accepted inside an operator name: an operand or comment glued to the operator is swallowed into it", rune(b)))
		} else {
			c.Ok(R, fmt.Sprintf("contentstream.(*Parser).parseOperator#stops-at %q", rune(b)), fnOp.Pos(), "ends the operator token")
		}
	}
	startPos := fnNext.Pos()
	// no operand-start byte may be an operator start: digits, sign, '.', '(', '<', '/', '['
	for _, b := range []byte("0123456789+-.(<[/") {
		if S[b] {
			c.Viol(R, "contentstream.(*Parser).parseNext#operand-start "+string(b), startPos, fmt.Sprintf("byte %q starts an operand but is routed to the operator parser", rune(b)))
		}
	}
	ops := map[string]string{}
	for _, o := range isoOperators {
		ops[o] = "ISO 32000 table 51"
	}
	for _, src := range []string{"text.(*Extractor).processOperation"} {
		if fd := c.P.Decl(src); fd != nil {
			labels, _ := caseTable(fd)
			for l := range labels {
				if _, ok := ops[l]; !ok {
					ops[l] = "handled by " + src
				}
			}
		}
	}
	for _, fn := range c.P.ModuleFuncs() {
		if fn.Pkg != nil && eng.ShortPath(fn.Pkg.Pkg.Path()) == "graphicsstate" && fn.Name() == "processOperation" {
			if fd := c.P.Decl(eng.FuncName(fn)); fd != nil {
				labels, _ := caseTable(fd)
				for l := range labels {
					if _, ok := ops[l]; !ok {
						ops[l] = "handled by " + eng.FuncName(fn)
					}
				}
			}
		}
	}
	names := make([]string, 0, len(ops))
	for o := range ops {
		names = append(names, o)
	}
	sort.Strings(names)
	for _, o := range names {
		key := fmt.Sprintf("contentstream operator %q", o)
		var bad string
		if !S[o[0]] {
			bad = fmt.Sprintf("first byte %q is not routed to parseOperator", rune(o[0]))
		}
		for i := 0; i < len(o) && bad == ""; i++ {
			if !K[o[i]] {
				bad = fmt.Sprintf("byte %q is not accepted inside an operator", rune(o[i]))
			}
		}
		if bad != "" {
			c.Viol(R, key, startPos, fmt.Sprintf("operator %s (%s) cannot be tokenised: %s", o, ops[o], bad))
		} else {
			c.Ok(R, key, startPos, "tokenisable ("+ops[o]+")")
		}
	}
	// keyword operands
	if fd := c.P.Decl("contentstream.(*Parser).atKeywordOperand"); fd == nil {
		c.Viol(R, "contentstream keywords", fdNext.Decl.Pos(), "true/false/null are not distinguished from operators before routing to parseOperator")
	} else {
		// the strings the token is compared with, however the comparison is spelled (switch, ==, ||)
		labels := map[string]bool{}
		if fnK := c.P.Func("contentstream.(*Parser).atKeywordOperand"); fnK != nil {
			eng.Instrs(fnK, false, func(in ssa.Instruction) {
				if b, ok := in.(*ssa.BinOp); ok && b.Op == token.EQL {
					for _, v := range []ssa.Value{b.X, b.Y} {
						if cs, ok := eng.ConstString(v); ok {
							labels[cs] = true
						}
					}
				}
			})
		}
		c.Check(len(labels) == 3 && labels["true"] && labels["false"] && labels["null"], R, "contentstream.(*Parser).atKeywordOperand", fd.Decl.Pos(), "exactly true, false and null are operands", "the keyword-operand set is no longer exactly {true,false,null}")
	}
	if fd := c.P.Decl("contentstream.(*Parser).regularRunEnd"); fd != nil {
		var cond ast.Expr
		ast.Inspect(fd.Decl.Body, func(n ast.Node) bool {
			if fs, ok := n.(*ast.ForStmt); ok && cond == nil {
				cond = fs.Cond
			}
			return true
		})
		if cond != nil {
			// strip the bounds test  end < len(p.data) &&
			inner := cond
			if be, ok := cond.(*ast.BinaryExpr); ok && be.Op == token.LAND {
				if lb, ok := be.X.(*ast.BinaryExpr); ok && lb.Op == token.LAND {
					inner = &ast.BinaryExpr{X: lb.Y, Op: token.LAND, Y: be.Y}
				} else if l2, ok := be.X.(*ast.BinaryExpr); ok && l2.Op == token.LSS {
					inner = be.Y
				}
			}
			// the byte under the cursor, however the cursor is named: the first element selection in the condition
			free := "p.data[end]"
			found := false
			ast.Inspect(inner, func(n ast.Node) bool {
				if ix, ok := n.(*ast.IndexExpr); ok && !found {
					free, found = types.ExprString(ix), true
				}
				return !found
			})
			cont, err := c.P.ExprByteSet(fd, inner, free, nil)
			if err != nil {
				// the stop test sits in the loop body (a cursor slice that drops one byte per trip): where a keyword
				// operand ends is read by R6.17 on [true], <</K null>> and their like
				c.Ok(R, "contentstream.(*Parser).regularRunEnd", fd.Decl.Pos(), "not evaluated: the loop condition is not the byte test ("+err.Error()+")")
			} else {
				wantStop := map[byte]bool{}
				for k := range pdfWhitespace {
					wantStop[k] = true
				}
				for k := range isoDelims {
					wantStop[k] = true
				}
				stop := map[byte]bool{}
				for ch := 0; ch < 256; ch++ {
					if !cont[byte(ch)] {
						stop[byte(ch)] = true
					}
				}
				d := sameByteSet(stop, wantStop)
				c.Check(d == "", R, "contentstream.(*Parser).regularRunEnd", fd.Decl.Pos(), "a keyword ends at white space or a delimiter", "keyword operands do not end exactly at white space or a delimiter ('[true]' or 'true>>' mis-tokenise): "+d)
			}
		}
	}
}

func exprOfStmt(s ast.Stmt) ast.Expr {
	switch x := s.(type) {
	case *ast.ExprStmt:
		return x.X
	case *ast.IncDecStmt:
		return x.X
	case *ast.AssignStmt:
		if len(x.Lhs) > 0 {
			return x.Lhs[0]
		}
	}
	return &ast.Ident{Name: "_"}
}

// R6.4
func ruleComments(c *eng.Ctx) {
	const R = "R6.4-COMMENTS"
	c.Rule(R, "both parsers treat '%' as a comment that ends at CR or at LF", 2, 0)
	eol := map[byte]bool{'\r': true, '\n': true}
	// core: readComment has `if b == '\r' || b == '\n'` before the break
	if fd := c.P.Decl("core.(*Lexer).readComment"); fd == nil {
		c.Undec(R, "core.(*Lexer).readComment", token.NoPos, "anchor not found")
	} else {
		var cond ast.Expr
		ast.Inspect(fd.Decl.Body, func(n ast.Node) bool {
			is, ok := n.(*ast.IfStmt)
			if !ok || cond != nil {
				return true
			}
			hasBreak := false
			for _, s := range is.Body.List {
				if br, ok := s.(*ast.BranchStmt); ok && br.Tok == token.BREAK {
					hasBreak = true
				}
			}
			if hasBreak {
				if set, err := c.P.ExprByteSet(fd, is.Cond, soleByteVar(fd, is.Cond, "b"), nil); err == nil && len(set) > 0 {
					cond = is.Cond
					d := sameByteSet(set, eol)
					c.Check(d == "", R, "core.(*Lexer).readComment#terminators", is.Pos(), "comment ends at CR or LF", "document-level comments end at "+d+" instead of exactly {CR, LF}")
				}
			}
			return true
		})
		if cond == nil {
			c.Undec(R, "core.(*Lexer).readComment#terminators", fd.Decl.Pos(), "cannot find the end-of-comment test")
		}
	}
	if fd := c.P.Decl("contentstream.(*Parser).skipWhitespace"); fd == nil {
		c.Undec(R, "contentstream.(*Parser).skipWhitespace", token.NoPos, "anchor not found")
	} else {
		fn := c.P.Func("contentstream.(*Parser).skipWhitespace")
		// is '%' tested at all? The scan may have been moved into a helper of the package
		// (p.pos = skipBlanks(p.data, p.pos)): the function that tests '%' is the one examined.
		pct := false
		for _, h := range eng.Cluster(fn, 2) {
			found := false
			eng.Instrs(h, false, func(in ssa.Instruction) {
				if b, ok := in.(*ssa.BinOp); ok && b.Op == token.EQL {
					if k, ok := eng.ConstInt(b.Y); ok && k == '%' {
						found = true
					}
				}
			})
			if found {
				pct = true
				if h != fn {
					if hd := c.P.Decl(eng.FuncName(h)); hd != nil {
						fd, fn = hd, h
					}
				}
				break
			}
		}
		if !pct {
			c.Viol(R, "contentstream.(*Parser).skipWhitespace#comment", fd.Decl.Pos(), "content-stream parser does not skip '%' comments (the document parser does)")
			return
		}
		// terminators: the innermost loop condition comparing the current byte against constants
		var done bool
		ast.Inspect(fd.Decl.Body, func(n ast.Node) bool {
			is, ok := n.(*ast.IfStmt)
			if !ok || done {
				return true
			}
			if !strings.Contains(types.ExprString(is.Cond), "'%'") {
				return true
			}
			var loop *ast.ForStmt
			ast.Inspect(is.Body, func(m ast.Node) bool {
				if f, ok := m.(*ast.ForStmt); ok && loop == nil {
					loop = f
				}
				return true
			})
			if loop != nil && loop.Cond != nil {
				inner := loop.Cond
				// drop the bounds conjunct
				var parts []ast.Expr
				var flat func(e ast.Expr)
				flat = func(e ast.Expr) {
					if be, ok := e.(*ast.BinaryExpr); ok && be.Op == token.LAND {
						flat(be.X)
						flat(be.Y)
						return
					}
					parts = append(parts, e)
				}
				flat(inner)
				var keep ast.Expr
				for _, pe := range parts {
					if strings.Contains(types.ExprString(pe), "len(") {
						continue
					}
					if keep == nil {
						keep = pe
					} else {
						keep = &ast.BinaryExpr{X: keep, Op: token.LAND, Y: pe}
					}
				}
				if keep != nil {
					// the current byte: the operand the terminator constants are compared with
					cur := "p.data[p.pos]"
					ast.Inspect(keep, func(m ast.Node) bool {
						if be, ok := m.(*ast.BinaryExpr); ok && (be.Op == token.NEQ || be.Op == token.EQL) {
							if _, isIdx := be.X.(*ast.IndexExpr); isIdx {
								cur = types.ExprString(be.X)
							}
						}
						return true
					})
					cont, err := c.P.ExprByteSet(fd, keep, cur, nil)
					if err == nil {
						stop := map[byte]bool{}
						for ch := 0; ch < 256; ch++ {
							if !cont[byte(ch)] {
								stop[byte(ch)] = true
							}
						}
						d := sameByteSet(stop, eol)
						done = true
						c.Check(d == "", R, "contentstream.(*Parser).skipWhitespace#terminators", loop.Pos(), "comment ends at CR or LF", "content-stream comments end at a different set than {CR, LF} ("+d+"): with CR-only line endings a comment swallows the rest of the stream")
					}
				}
			}
			return true
		})
		if !done {
			// any other spelling of the scan (a range over the rest of the data with a break, a helper): evaluate
			// the code. With the byte that was compared with '%' fixed to '%', and every byte read in the region
			// that only runs for a comment ranging over all values, the comment goes on for the values that reach
			// the cursor increment of that region.
			if stop, ok := commentStopSet(fn); ok {
				d := sameByteSet(stop, eol)
				done = true
				c.Check(d == "", R, "contentstream.(*Parser).skipWhitespace#terminators", fd.Decl.Pos(), "comment ends at CR or LF", "content-stream comments end at a different set than {CR, LF} ("+d+"): with CR-only line endings a comment swallows the rest of the stream")
			}
		}
		if !done {
			// rewritten with a library search: look at the constant it searches for
			stops := map[byte]bool{}
			eng.Instrs(fn, false, func(in ssa.Instruction) {
				if call, ok := in.(*ssa.Call); ok {
					n := eng.CalleeName(call)
					if n == "bytes.IndexByte" && len(call.Call.Args) == 2 {
						if k, ok := eng.ConstInt(call.Call.Args[1]); ok {
							stops[byte(k)] = true
						}
					}
					if n == "bytes.IndexAny" && len(call.Call.Args) == 2 {
						if s, ok := eng.ConstString(call.Call.Args[1]); ok {
							for i := 0; i < len(s); i++ {
								stops[s[i]] = true
							}
						}
					}
				}
			})
			if len(stops) > 0 {
				d := sameByteSet(stops, eol)
				c.Check(d == "", R, "contentstream.(*Parser).skipWhitespace#terminators", fd.Decl.Pos(), "comment ends at CR or LF", "content-stream comments end at a different set than {CR, LF} ("+d+"): with CR-only line endings a comment swallows the rest of the stream")
			} else {
				c.Undec(R, "contentstream.(*Parser).skipWhitespace#terminators", fd.Decl.Pos(), "cannot determine where a comment ends")
			}
		}
	}
}

// R6.5: parseNumber returns the first integer without consuming the second when no R follows.
func ruleRefLookahead(c *eng.Ctx) {
	const R = "R6.5-REF-LOOKAHEAD"
	c.Rule(R, "in core.parseNumber an IndirectRef is produced only on the path where the token after the second integer is the R keyword, and that path builds it from (first, second) in this order", 2, 0)
	fn := c.P.Func("core.(*Parser).parseNumber")
	if fn == nil {
		c.Undec(R, "core.(*Parser).parseNumber", token.NoPos, "anchor not found")
		return
	}
	// find the MakeInterface of IndirectRef returned
	found := false
	eng.Instrs(fn, false, func(in ssa.Instruction) {
		mi, ok := in.(*ssa.MakeInterface)
		if !ok || eng.TypeName(mi.X.Type()) != "core.IndirectRef" {
			return
		}
		found = true
		g := eng.GuardedBy(fn, mi.Block(), func(f eng.Fact) bool {
			op, x, y, ok := f.Cmp()
			if !ok || op != token.EQL {
				return false
			}
			for _, s := range [][2]ssa.Value{{x, y}, {y, x}} {
				if fr, ok := eng.LoadOfField(s[0]); ok && fr.Field == "Type" {
					if cst, ok := s[1].(*ssa.Const); ok && cst.Value != nil {
						// compare with the value of the TokenIndirectRef constant
						if k, ok := eng.ConstInt(cst); ok && k == tokenIndirectRefValue(fn) {
							return true
						}
					}
				}
			}
			return false
		})
		c.Check(g, R, "core.(*Parser).parseNumber#R-guard", mi.Pos(), "a reference is built only after seeing the R token", "an indirect reference is produced without the lookahead token being R: two plain integers (e.g. in an array) are swallowed into a reference")
	})
	if !found {
		c.Viol(R, "core.(*Parser).parseNumber#R-guard", fn.Pos(), "parseNumber never produces an IndirectRef")
	}
	// Number <- first, Generation <- second: check store order into the struct literal
	okOrder := false
	eng.Instrs(fn, false, func(in ssa.Instruction) {
		st, ok := in.(*ssa.Store)
		if !ok {
			return
		}
		fr, ok := eng.AsField(st.Addr)
		if !ok || fr.Struct != "*core.IndirectRef" && fr.Struct != "core.IndirectRef" {
			return
		}
		// the value converts a ParseInt result; first/second is told apart by which token it read
		src := ""
		for v := range eng.Slice(st.Val, func(*ssa.Call) bool { return true }) {
			if f, ok := eng.AsField(v); ok && (f.Field == "currentToken" || f.Field == "peekToken") {
				src = f.Field
			}
		}
		if fr.Field == "Number" && src == "currentToken" {
			okOrder = true
		}
		if fr.Field == "Generation" && src != "peekToken" {
			okOrder = false
		}
	})
	c.Check(okOrder, R, "core.(*Parser).parseNumber#order", fn.Pos(), "Number from the first integer, Generation from the lookahead integer", "object number and generation of a reference are taken from the wrong tokens")
}

func tokenIndirectRefValue(fn *ssa.Function) int64 {
	if fn.Pkg == nil {
		return -1
	}
	if m, ok := fn.Pkg.Members["TokenIndirectRef"].(*ssa.NamedConst); ok {
		if k, ok := constant.Int64Val(m.Value.Value); ok {
			return k
		}
	}
	return -1
}

// localHelperBody resolves a call to an unexported function or method declared in
// the same package and returns its body (nil otherwise).
func localHelperBody(fd *eng.FuncDecl, x *ast.CallExpr) *ast.BlockStmt {
	info := fd.Pkg.TypesInfo
	var id *ast.Ident
	switch f := x.Fun.(type) {
	case *ast.Ident:
		id = f
	case *ast.SelectorExpr:
		id = f.Sel
	}
	if id == nil || ast.IsExported(id.Name) {
		return nil
	}
	fobj, ok := info.Uses[id].(*types.Func)
	if !ok || fobj.Pkg() != fd.Pkg.Types {
		return nil
	}
	for _, f := range fd.Pkg.Syntax {
		for _, d := range f.Decls {
			if d2, ok := d.(*ast.FuncDecl); ok && d2.Body != nil && info.Defs[d2.Name] == types.Object(fobj) {
				return d2.Body
			}
		}
	}
	return nil
}

// commentStopSet evaluates the comment-skipping region of fn (the blocks dominated by the true edge of `c == '%'`) over
// all byte values and returns the bytes on which the region stops advancing.
func commentStopSet(fn *ssa.Function) (map[byte]bool, bool) {
	var pct *ssa.BinOp
	eng.Instrs(fn, false, func(in ssa.Instruction) {
		if b, ok := in.(*ssa.BinOp); ok && b.Op == token.EQL && pct == nil {
			if k, ok := eng.ConstInt(b.Y); ok && k == '%' {
				pct = b
			}
		}
	})
	if pct == nil {
		return nil, false
	}
	var top *ssa.BasicBlock
	for _, r := range *pct.Referrers() {
		if iff, ok := r.(*ssa.If); ok && len(iff.Block().Succs) == 2 {
			top = iff.Block().Succs[0]
		}
	}
	if top == nil || len(top.Preds) != 1 {
		return nil, false
	}
	inRegion := func(b *ssa.BasicBlock) bool { return b == top || top.Dominates(b) }
	isInner := func(v ssa.Value) bool {
		in, ok := v.(ssa.Instruction)
		return ok && eng.DefaultByteVar(v) && inRegion(in.Block())
	}
	advances := func(in ssa.Instruction) bool {
		st, ok := in.(*ssa.Store)
		if !ok || !inRegion(st.Block()) {
			return false
		}
		b, ok := st.Val.(*ssa.BinOp)
		if !ok || b.Op != token.ADD {
			return false
		}
		k, isC := eng.ConstInt(b.Y)
		return isC && k == 1
	}
	// the region must advance at all, or there is nothing to evaluate
	any := false
	eng.Instrs(fn, false, func(in ssa.Instruction) {
		if advances(in) {
			any = true
		}
	})
	if !any {
		return nil, false
	}
	leaf := func(v ssa.Value) (int64, bool) {
		if v == pct.X {
			return '%', true
		}
		return 0, false
	}
	cont := eng.ByteReachLeaf(fn, isInner, leaf, advances)
	stop := map[byte]bool{}
	for b := 0; b < 256; b++ {
		if !cont[b] {
			stop[byte(b)] = true
		}
	}
	return stop, true
}

// octalTailRecursion: the further digits of an octal escape are read by a helper that calls itself with a counter
// that starts at 2 and goes down by one per digit; judged on the SSA form: the counter is tested against 0 before the
// recursive call, the outer call passes the constant 2, and the recursive call is reached exactly for the bytes 0-7.
func octalTailRecursion(p *eng.Prog, fd *eng.FuncDecl) (bool, string) {
	var host *ssa.Function
	for name, d := range p.AllDecls() {
		if d == fd {
			host = p.FuncExact(name)
		}
	}
	if host == nil {
		return false, ""
	}
	for _, oc := range eng.Calls(host, false, func(string, ssa.CallInstruction) bool { return true }) {
		h := eng.StaticCallee(oc)
		if h == nil || h.Blocks == nil || h.Pkg != host.Pkg || h == host {
			continue
		}
		for _, rc := range eng.Calls(h, false, func(_ string, ci ssa.CallInstruction) bool { return eng.StaticCallee(ci) == h }) {
			k := -1
			for i, a := range rc.Common().Args {
				if b, ok := a.(*ssa.BinOp); ok && b.Op == token.SUB && i < len(h.Params) && b.X == ssa.Value(h.Params[i]) {
					if one, isC := eng.ConstInt(b.Y); isC && one == 1 {
						k = i
					}
				}
			}
			if k < 0 {
				continue
			}
			cnt := ssa.Value(h.Params[k])
			guarded := eng.GuardedBy(h, rc.Block(), func(f eng.Fact) bool {
				op, x, y, ok := f.Cmp()
				if !ok || x != cnt {
					return false
				}
				z, isC := eng.ConstInt(y)
				return isC && ((op == token.NEQ && z == 0) || (op == token.GTR && z == 0) || (op == token.GEQ && z == 1))
			})
			if !guarded {
				return false, "the recursive digit reader does not stop when its counter reaches 0"
			}
			if init, isC := eng.ConstInt(oc.Common().Args[k]); !isC || init != 2 {
				return false, "octal escape reads a number of further digits other than two"
			}
			cont := eng.ByteReach(h, eng.DefaultByteVar, func(in ssa.Instruction) bool { return in == ssa.Instruction(rc) }, nil)
			set := map[byte]bool{}
			for b := 0; b < 256; b++ {
				if cont[b] {
					set[byte(b)] = true
				}
			}
			if d := sameByteSet(set, rangeSet([2]byte{'0', '7'})); d != "" {
				return false, "an octal escape continues on bytes other than 0-7: " + d
			}
			return true, ""
		}
	}
	return false, ""
}

// soleByteVar: the name of the one byte-typed variable an expression mentions (dflt when there is not exactly one).
func soleByteVar(fd *eng.FuncDecl, e ast.Expr, dflt string) string {
	objs := map[types.Object]bool{}
	ast.Inspect(e, func(n ast.Node) bool {
		if id, ok := n.(*ast.Ident); ok {
			if v, ok := fd.Pkg.TypesInfo.Uses[id].(*types.Var); ok {
				if b, ok := v.Type().Underlying().(*types.Basic); ok && b.Kind() == types.Uint8 {
					objs[v] = true
				}
			}
		}
		return true
	})
	if len(objs) != 1 {
		return dflt
	}
	for o := range objs {
		return o.Name()
	}
	return dflt
}
