package rules

import (
	"fmt"
	"go/token"
	"go/types"
	"os"
	"sort"
	"strings"

	"golang.org/x/tools/go/ssa"

	"verif/checker/eng"
)

var _ = fmt.Sprintf
var _ = sort.Strings
var _ = strings.HasPrefix
var _ = token.NoPos
var _ = os.Getenv

// ---------------------------------------------------------------------------------------------------------------
// bytes re-encoded as code points

// byteAsRuneSite: a uint8 value converted to rune whose UTF-8 encoding is then written out. For a byte below 0x80
// nothing changes; a byte from 0x80 up becomes two bytes. That is right only when the byte IS a code point (Latin-1
// text); for a code unit of UTF-8 text (an element of a Go string) or a raw byte of a binary token it corrupts the data.
type byteAsRuneSite struct {
	fn     *ssa.Function
	conv   *ssa.Convert
	sink   ssa.Instruction
	source string // "string-element", "byte"
}

func isUint8(t types.Type) bool {
	b, ok := t.Underlying().(*types.Basic)
	return ok && b.Kind() == types.Uint8
}

func isRuneT(t types.Type) bool {
	b, ok := t.Underlying().(*types.Basic)
	return ok && b.Kind() == types.Int32
}

func byteAsRuneSites(fn *ssa.Function) []byteAsRuneSite {
	var out []byteAsRuneSite
	eng.Instrs(fn, true, func(in ssa.Instruction) {
		conv, ok := in.(*ssa.Convert)
		if !ok || !isUint8(conv.X.Type()) {
			return
		}
		// string(b) with b a byte encodes the code point b as UTF-8 at once
		direct := false
		if bt, ok := conv.Type().Underlying().(*types.Basic); ok && bt.Info()&types.IsString != 0 {
			direct = true
		}
		if !direct && !isRuneT(conv.Type()) {
			return
		}
		// where the rune goes
		var sink ssa.Instruction
		if direct {
			sink = conv
		}
		seen := map[ssa.Value]bool{}
		var follow func(v ssa.Value)
		follow = func(v ssa.Value) {
			if seen[v] || sink != nil {
				return
			}
			seen[v] = true
			refs := v.Referrers()
			if refs == nil {
				return
			}
			for _, r := range *refs {
				switch x := r.(type) {
				case *ssa.Phi:
					follow(x)
				case *ssa.ChangeType:
					follow(x)
				case *ssa.Convert:
					if b, ok := x.Type().Underlying().(*types.Basic); ok && b.Info()&types.IsString != 0 {
						sink = x
					}
				case ssa.CallInstruction:
					n := eng.CalleeName(x)
					if strings.HasSuffix(n, ").WriteRune") || n == "unicode/utf8.AppendRune" || n == "unicode/utf8.EncodeRune" {
						sink = x
					}
				}
			}
		}
		if !direct {
			follow(conv)
		}
		if sink == nil {
			return
		}
		// the byte is known to be ASCII where it is converted
		ascii := eng.GuardedBy(conv.Parent(), conv.Block(), func(f eng.Fact) bool {
			op, x, y, ok := f.Cmp()
			if !ok {
				return false
			}
			strip := func(v ssa.Value) ssa.Value {
				for {
					if c, ok := v.(*ssa.Convert); ok {
						v = c.X
						continue
					}
					return v
				}
			}
			if strip(x) == strip(conv.X) {
				if k, isC := eng.ConstInt(y); isC && ((op == token.LSS && k <= 0x80) || (op == token.LEQ && k < 0x80)) {
					return true
				}
			}
			if strip(y) == strip(conv.X) {
				if k, isC := eng.ConstInt(x); isC && ((op == token.GTR && k <= 0x80) || (op == token.GEQ && k < 0x80)) {
					return true
				}
			}
			return false
		})
		if ascii {
			return
		}
		src := "byte"
		for v := range eng.Slice(conv.X, nil) {
			switch x := v.(type) {
			case *ssa.Lookup:
				if b, ok := x.X.Type().Underlying().(*types.Basic); ok && b.Info()&types.IsString != 0 {
					src = "string-element"
				}
			case *ssa.Index:
				if b, ok := x.X.Type().Underlying().(*types.Basic); ok && b.Info()&types.IsString != 0 {
					src = "string-element"
				}
			case *ssa.Convert:
				// []byte(s)[i]
				if b, ok := x.X.Type().Underlying().(*types.Basic); ok && b.Info()&types.IsString != 0 {
					if _, isSl := x.Type().Underlying().(*types.Slice); isSl {
						src = "string-element"
					}
				}
			}
		}
		out = append(out, byteAsRuneSite{fn: conv.Parent(), conv: conv, sink: sink, source: src})
	})
	return out
}

// DebugByteAsRune lists every site (development aid, VDEBUG=bar).
func DebugByteAsRune(c *eng.Ctx) {
	if os.Getenv("VDEBUG") != "bar" {
		return
	}
	for _, fn := range c.P.ModuleFuncs() {
		if fn.Parent() != nil {
			continue
		}
		for _, s := range byteAsRuneSites(fn) {
			fmt.Fprintf(os.Stderr, "BAR %s %s %s -> %s\n", c.P.Pos(s.conv.Pos()), eng.FuncName(s.fn), s.source, c.P.Pos(s.sink.Pos()))
		}
	}
}

// R6.12 [C06, C15, C19]
func ruleBytesNotRunes(c *eng.Ctx) {
	const R = "R6.12-BYTES-NOT-RUNES"
	c.Rule(R, "no byte is turned into a code point and written out as UTF-8 where the byte is a code unit or a raw byte: an element of a Go string (s[i]) converted with rune() and passed to WriteRune/string() anywhere in the module, and any byte so converted in the token builders of core and contentstream (names and strings are byte sequences); a byte from 0x80 up would come out as two bytes. Conversions under a test that the byte is below 0x80 are accepted", 0, 1)
	n := 0
	for _, fn := range c.P.ModuleFuncs() {
		if fn.Pkg == nil || fn.Parent() != nil {
			continue
		}
		sp := eng.ShortPath(fn.Pkg.Pkg.Path())
		tokenPkg := sp == "core" || sp == "contentstream" || strings.Contains(sp, eng.PositivePkg)
		n++
		for _, s := range byteAsRuneSites(fn) {
			if s.source != "string-element" && !tokenPkg {
				continue
			}
			what := "a raw byte of a token"
			if s.source == "string-element" {
				what = "a code unit of a string"
			}
			c.Viol(R, fmt.Sprintf("%s#rune(%s)", eng.FuncName(s.fn), s.conv.X.Name()), s.conv.Pos(), "a byte ("+what+") is converted to a code point and encoded as UTF-8 at "+c.P.Pos(s.sink.Pos())+": every byte from 0x80 up becomes two bytes, so non-ASCII text turns into mojibake and binary names change")
		}
	}
	c.Ok(R, "module#scanned", token.NoPos, fmt.Sprintf("%d functions scanned, no byte re-encoded as a code point", n))
}

// addrRoot strips field and element selections (and loads of pointers held in fields) from an address or a loaded value
// and returns what the path starts at: a parameter, a call result, an allocation …
func addrRoot(v ssa.Value) ssa.Value {
	for i := 0; i < 32; i++ {
		switch x := v.(type) {
		case *ssa.FieldAddr:
			v = x.X
		case *ssa.IndexAddr:
			v = x.X
		case *ssa.Field:
			v = x.X
		case *ssa.UnOp:
			if x.Op != token.MUL {
				return v
			}
			v = x.X
		case *ssa.Slice:
			v = x.X
		case *ssa.ChangeType:
			v = x.X
		default:
			return v
		}
	}
	return v
}

// R10.14 [C10]
func ruleSelectionReadonly(c *eng.Ctx) {
	const R = "R10.14-SELECTION-READONLY"
	c.Rule(R, "no method writes through the page selection stored in its own receiver (options.pages reached from the receiver): no element store, no append onto a re-sliced prefix of it, no hand-over to a function that writes through its slice parameter. Builders write the selection of the clone they return; a terminal operation that filters the stored selection in place changes what the next operation on the same extractor selects", 1, 1)
	mut := paramMutations(c.P)
	for _, fn := range c.P.ModuleFuncs() {
		if fn.Pkg == nil || fn.Parent() != nil || fn.Blocks == nil {
			continue
		}
		sp := eng.ShortPath(fn.Pkg.Pkg.Path())
		if sp != "" && !strings.Contains(sp, eng.PositivePkg) {
			continue
		}
		if fn.Signature.Recv() == nil || len(fn.Params) == 0 {
			continue
		}
		recv := ssa.Value(fn.Params[0])
		// the stored selection: loads of a field named pages reached from the receiver
		isStored := func(v ssa.Value) bool {
			for {
				sl, ok := v.(*ssa.Slice)
				if !ok {
					break
				}
				v = sl.X
			}
			fr, ok := eng.LoadOfField(v)
			return ok && fr.Field == "pages" && addrRoot(v) == recv
		}
		reads := false
		var bad []string
		var pos token.Pos
		eng.Instrs(fn, true, func(in ssa.Instruction) {
			if v, ok := in.(ssa.Value); ok && isStored(v) {
				if _, isSl := v.(*ssa.Slice); !isSl {
					reads = true
				}
			}
			switch x := in.(type) {
			case *ssa.Store:
				if ia, ok := x.Addr.(*ssa.IndexAddr); ok && isStored(ia.X) {
					bad = append(bad, "element store at "+c.P.Pos(x.Pos()))
					pos = x.Pos()
				}
			case ssa.CallInstruction:
				args := x.Common().Args
				name := eng.CalleeName(x)
				if name == "builtin:append" && len(args) > 0 {
					// the base: a re-sliced prefix of the stored selection, possibly grown by earlier appends (a loop)
					var isPrefix func(v ssa.Value, seen map[ssa.Value]bool) bool
					isPrefix = func(v ssa.Value, seen map[ssa.Value]bool) bool {
						if v == nil || seen[v] {
							return false
						}
						seen[v] = true
						switch y := v.(type) {
						case *ssa.Slice:
							return isStored(y)
						case *ssa.Phi:
							for _, e := range y.Edges {
								if isPrefix(e, seen) {
									return true
								}
							}
						case *ssa.Call:
							if eng.CalleeName(y) == "builtin:append" && len(y.Call.Args) > 0 {
								return isPrefix(y.Call.Args[0], seen)
							}
						}
						return false
					}
					if isPrefix(args[0], map[ssa.Value]bool{}) {
						bad = append(bad, "append onto a re-sliced prefix at "+c.P.Pos(x.Pos()))
						pos = x.Pos()
					}
				}
				if name == "builtin:copy" && len(args) > 0 && isStored(args[0]) {
					bad = append(bad, "copy into it at "+c.P.Pos(x.Pos()))
					pos = x.Pos()
				}
				if g := eng.StaticCallee(x); g != nil && eng.InModule(g) {
					for k, a := range eng.ArgsWithRecv(x) {
						if isStored(a) {
							if mi, is := mut[g][k]; is {
								bad = append(bad, fmt.Sprintf("handed to %s, which writes through it (%s)", eng.FuncName(g), mi.what))
								pos = x.Pos()
							}
						}
					}
				}
			}
		})
		if os.Getenv("VDEBUG") == "sel" {
			fmt.Fprintf(os.Stderr, "SEL %s reads=%v bad=%v\n", eng.FuncName(fn), reads, bad)
		}
		if !reads && len(bad) == 0 {
			continue
		}
		if pos == token.NoPos {
			pos = fn.Pos()
		}
		c.Check(len(bad) == 0, R, eng.FuncName(fn)+"#options.pages", pos, "the stored selection is only read", "the page selection stored in the receiver is written through ("+strings.Join(bad, "; ")+"): the next operation on this extractor, and every extractor derived from it, selects other pages")
	}
}

// R14.14 [C14]
func ruleBatchDataOwn(c *eng.Ctx) {
	const R = "R14.14-BATCH-DATA-OWN"
	c.Rule(R, "in BatchExporter.Export the Data of a batch is what exporting that batch's own window produced: a value returned by a call made in the same trip of the batch loop, or the content of a buffer that is created inside the loop or reset there before it is written — a buffer that lives across trips and is never reset hands every batch the output of all batches before it", 1, 0)
	fn := c.P.Func("rag.(*BatchExporter).Export")
	if fn == nil {
		c.Undec(R, "rag.(*BatchExporter).Export", token.NoPos, "anchor not found")
		return
	}
	n := 0
	eng.Instrs(fn, false, func(in ssa.Instruction) {
		st, ok := in.(*ssa.Store)
		if !ok {
			return
		}
		fr, ok := eng.AsField(st.Addr)
		if !ok || fr.Field != "Data" || !strings.HasSuffix(fr.Struct, "rag.ExportBatch") {
			return
		}
		n++
		key := fmt.Sprintf("rag.(*BatchExporter).Export#Data%d", n)
		if !eng.InLoop(st.Block()) {
			c.Viol(R, key, st.Pos(), "the batch is not filled inside the batch loop")
			return
		}
		var bad []string
		for w := range eng.Slice(st.Val, func(*ssa.Call) bool { return true }) {
			call, ok := w.(*ssa.Call)
			if !ok {
				continue
			}
			name := eng.CalleeName(call)
			if !(strings.HasSuffix(name, ").String") || strings.HasSuffix(name, ").Bytes")) || len(call.Call.Args) == 0 {
				continue
			}
			al, ok := addrRoot(call.Call.Args[0]).(*ssa.Alloc)
			if !ok {
				continue
			}
			if eng.InLoop(al.Block()) {
				continue // a new buffer every trip
			}
			// a buffer from outside the loop: reset in the loop before its content is taken
			reset := false
			for _, r := range *al.Referrers() {
				if rc, ok := r.(*ssa.Call); ok && strings.HasSuffix(eng.CalleeName(rc), ").Reset") && eng.InLoop(rc.Block()) && (eng.InstrDominates(rc, call) || eng.InstrDominates(call, rc)) {
					reset = true
				}
			}
			if !reset {
				bad = append(bad, "buffer declared at "+c.P.Pos(al.Pos())+" outside the loop and not reset in it")
			}
		}
		c.Check(len(bad) == 0, R, key, st.Pos(), "the batch data comes from this trip only", "the batch data is the content of a "+strings.Join(bad, "; ")+": every batch after the first also carries the output of the batches before it (duplicated chunks, repeated headers, several JSON arrays back to back)")
	})
	if n == 0 {
		c.Undec(R, "rag.(*BatchExporter).Export#Data", fn.Pos(), "no store to ExportBatch.Data found")
	}
}

// R11.10 [C11]
func ruleFilterResultKept(c *eng.Ctx) {
	const R = "R11.10-FILTER-RESULT-KEPT"
	c.Rule(R, "where a page's fragments are passed through HeaderFooterResult.FilterFragments, what goes on is the result of the call: no branch that looks at the result (its length, its content) puts the unfiltered input back. A page whose only text is the running header and the page number otherwise keeps both while every other page loses them", 9, 0)
	filter := c.P.Func("layout.(*HeaderFooterResult).FilterFragments")
	if filter == nil {
		c.Undec(R, "layout.(*HeaderFooterResult).FilterFragments", token.NoPos, "anchor not found")
		return
	}
	for _, fn := range c.P.ModuleFuncs() {
		if fn.Blocks == nil {
			continue
		}
		n := 0
		for _, ci := range eng.Calls(fn, false, func(_ string, ci ssa.CallInstruction) bool { return eng.StaticCallee(ci) == filter }) {
			call, ok := ci.(*ssa.Call)
			if !ok {
				continue
			}
			n++
			key := fmt.Sprintf("%s#filter%d", eng.FuncName(fn), n)
			args := eng.ArgsWithRecv(call)
			if len(args) < 3 {
				continue
			}
			input := args[2]
			dependsOnResult := func(v ssa.Value) bool {
				for w := range eng.Slice(v, func(*ssa.Call) bool { return true }) {
					if w == ssa.Value(call) {
						return true
					}
				}
				return false
			}
			bad := ""
			eng.Instrs(fn, false, func(in ssa.Instruction) {
				ph, ok := in.(*ssa.Phi)
				if !ok || bad != "" {
					return
				}
				hasR, hasIn := false, false
				for _, e := range ph.Edges {
					if e == ssa.Value(call) {
						hasR = true
					}
					if e == input {
						hasIn = true
					}
				}
				if !hasR || !hasIn {
					return
				}
				for _, pb := range ph.Block().Preds {
					for d := pb; d != nil && call.Block().Dominates(d); d = d.Idom() {
						if iff, ok := lastIf(d); ok && dependsOnResult(iff.Cond) {
							bad = c.P.Pos(iff.Cond.Pos())
						}
						if d == call.Block() {
							break
						}
					}
				}
			})
			c.Check(bad == "", R, key, call.Pos(), "the filtered fragments go on unconditionally", "the test at "+bad+" looks at the filtered result and can put the unfiltered fragments back: a page the filter would empty keeps its running header and page number")
		}
	}
}

// R5.12 [C05]
func rulePNGPredictorValueUnused(c *eng.Ctx) {
	const R = "R5.12-PNG-ROWS-BY-TAG"
	c.Rule(R, "inside the PNG predictor path nothing depends on which of the values 10..15 /Predictor declares: the filter of a row is the row's own tag byte, the declared value is only a hint that PNG prediction is in use (a writer may declare 12 and still emit None, Sub, Average or Paeth rows). The declared value may be printed in an error message, nothing else", 1, 0)
	fn := c.P.Func("internal/filters.applyPNGPredictor")
	if fn == nil {
		c.Undec(R, "internal/filters.applyPNGPredictor", token.NoPos, "anchor not found")
		return
	}
	var declared *ssa.Parameter
	for _, p := range fn.Params {
		if b, ok := p.Type().Underlying().(*types.Basic); ok && b.Info()&types.IsInteger != 0 {
			declared = p
		}
	}
	if declared == nil {
		c.Ok(R, "filters.applyPNGPredictor#declared-value", fn.Pos(), "the declared value is not even received")
		return
	}
	var bad []string
	seen := map[ssa.Value]bool{}
	var follow func(v ssa.Value)
	follow = func(v ssa.Value) {
		if seen[v] {
			return
		}
		seen[v] = true
		refs := v.Referrers()
		if refs == nil {
			return
		}
		for _, r := range *refs {
			switch x := r.(type) {
			case *ssa.MakeInterface, *ssa.Convert, *ssa.ChangeType, *ssa.Phi:
				follow(x.(ssa.Value))
			case *ssa.Store:
				// into the argument list of a formatting call, or a local that is followed through its loads
				if ia, ok := x.Addr.(*ssa.IndexAddr); ok {
					follow(ia.X)
				} else if al, ok := x.Addr.(*ssa.Alloc); ok {
					for _, rr := range *al.Referrers() {
						if ld, ok := rr.(*ssa.UnOp); ok {
							follow(ld)
						}
					}
				} else {
					bad = append(bad, "stored at "+c.P.Pos(x.Pos()))
				}
			case *ssa.Slice:
				follow(x)
			case ssa.CallInstruction:
				n := eng.CalleeName(x)
				if !strings.HasPrefix(n, "fmt.") && !strings.HasPrefix(n, "errors.") {
					bad = append(bad, "passed to "+n+" at "+c.P.Pos(x.Pos()))
				}
			case *ssa.BinOp:
				bad = append(bad, "used in "+x.Op.String()+" at "+c.P.Pos(x.Pos()))
			case *ssa.DebugRef:
			default:
				bad = append(bad, fmt.Sprintf("used by %T at %s", r, c.P.Pos(r.Pos())))
			}
		}
	}
	follow(declared)
	sort.Strings(bad)
	c.Check(len(bad) == 0, R, "filters.applyPNGPredictor#declared-value", fn.Pos(), "rows are decoded by their own tag whatever value was declared", "the declared /Predictor value decides how rows are decoded ("+strings.Join(dedupStr(bad), "; ")+"): a stream that declares one PNG predictor and uses another on some rows is decoded to wrong bytes")
}

// unicodeSpaceHelpers: standard-library functions whose notion of white space is Unicode's (HT LF VT FF CR SP U+0085
// U+00A0 …), not ISO 32000's (NUL HT LF FF CR SP).
var unicodeSpaceHelpers = map[string]bool{
	"bytes.Fields": true, "bytes.TrimSpace": true, "strings.Fields": true, "strings.TrimSpace": true, "unicode.IsSpace": true,
}

// R5.13 [C05, C06]
func rulePDFWhitespaceOnly(c *eng.Ctx) {
	const R = "R5.13-PDF-WHITESPACE-ONLY"
	c.Rule(R, "the stream filters and the two tokenizers separate input with the PDF white-space set only: no function of internal/filters, of contentstream, or method of core.Lexer hands raw input to a standard-library helper that uses Unicode's white space (bytes.Fields, bytes.TrimSpace, strings.Fields, strings.TrimSpace, unicode.IsSpace): NUL is PDF white space and not Unicode's, VT, U+0085 and U+00A0 the other way round", 0, 1)
	n := 0
	for _, fn := range c.P.ModuleFuncs() {
		if fn.Pkg == nil || fn.Blocks == nil {
			continue
		}
		top := fn
		for top.Parent() != nil {
			top = top.Parent()
		}
		sp := eng.ShortPath(top.Pkg.Pkg.Path())
		inScope := sp == "internal/filters" || sp == "contentstream" || strings.Contains(sp, eng.PositivePkg)
		if sp == "core" && top.Signature.Recv() != nil && strings.HasSuffix(eng.TypeName(top.Signature.Recv().Type()), "core.Lexer") {
			inScope = true
		}
		if !inScope || fn.Parent() != nil {
			continue
		}
		n++
		eng.Instrs(fn, true, func(in ssa.Instruction) {
			ci, ok := in.(ssa.CallInstruction)
			if !ok {
				return
			}
			name := eng.CalleeName(ci)
			hit := unicodeSpaceHelpers[name]
			if !hit {
				// unicode.IsSpace handed over as a function value (bytes.FieldsFunc(data, unicode.IsSpace))
				for _, a := range ci.Common().Args {
					if f, ok := a.(*ssa.Function); ok && eng.FuncName(f) == "unicode.IsSpace" {
						hit, name = true, name+"(unicode.IsSpace)"
					}
				}
			}
			if hit {
				c.Viol(R, fmt.Sprintf("%s#%s", eng.FuncName(fn), name), ci.Pos(), name+" splits or trims by Unicode white space: input that uses NUL as white space (allowed between the digits of ASCIIHex/ASCII85 data and between tokens) is no longer skipped, and VT, U+0085, U+00A0 are silently dropped instead of rejected")
			}
		})
	}
	c.Ok(R, "filters+tokenizers#scanned", token.NoPos, fmt.Sprintf("%d functions scanned, none uses a Unicode white-space helper", n))
}

// R5.14 [C05, C01]
func ruleA85GroupsInDigits(c *eng.Ctx) {
	const R = "R5.14-A85-GROUPS-IN-DIGITS"
	c.Rule(R, "ASCII85Decode measures its groups of five in digits, not in input bytes: the number 5 is never compared with the length of a window of the raw input, and no window of constant width is cut from the raw input (white space may stand between any two digits, so five bytes of input are not five digits)", 1, 0)
	fn := c.P.Func("internal/filters.ASCII85Decode")
	if fn == nil || len(fn.Params) == 0 {
		c.Undec(R, "internal/filters.ASCII85Decode", token.NoPos, "anchor not found")
		return
	}
	data := ssa.Value(fn.Params[0])
	rawWindow := func(v ssa.Value) bool {
		seen := map[ssa.Value]bool{}
		var walk func(v ssa.Value) bool
		walk = func(v ssa.Value) bool {
			if v == nil || seen[v] {
				return false
			}
			seen[v] = true
			switch x := v.(type) {
			case *ssa.Parameter:
				return v == data
			case *ssa.Slice:
				return walk(x.X)
			case *ssa.Phi:
				for _, e := range x.Edges {
					if walk(e) {
						return true
					}
				}
			}
			return false
		}
		return walk(v)
	}
	var bad []string
	eng.Instrs(fn, true, func(in ssa.Instruction) {
		switch x := in.(type) {
		case *ssa.BinOp:
			switch x.Op {
			case token.LSS, token.LEQ, token.GTR, token.GEQ, token.EQL, token.NEQ:
			default:
				return
			}
			for _, pair := range [][2]ssa.Value{{x.X, x.Y}, {x.Y, x.X}} {
				k, isC := eng.ConstInt(pair[1])
				if !isC || k != 5 {
					continue
				}
				if call, ok := pair[0].(*ssa.Call); ok && eng.CalleeName(call) == "builtin:len" {
					if _, isSl := call.Call.Args[0].(*ssa.Slice); isSl || func() bool { _, p := call.Call.Args[0].(*ssa.Phi); return p }() {
						if rawWindow(call.Call.Args[0]) {
							bad = append(bad, "the length of a window of the raw input is compared with 5 at "+c.P.Pos(x.Pos()))
						}
					}
				}
			}
		case *ssa.Slice:
			if !rawWindow(x.X) || x.High == nil {
				return
			}
			lo := eng.PConst(0)
			okLo := true
			if x.Low != nil {
				lo, okLo = eng.IntPoly(x.Low, func(v ssa.Value) (*eng.Poly, bool) { return eng.PSym(v.Name()), true })
			}
			hi, okHi := eng.IntPoly(x.High, func(v ssa.Value) (*eng.Poly, bool) { return eng.PSym(v.Name()), true })
			if okLo && okHi {
				if d := hi.Sub(lo); len(d.Symbols()) == 0 && !d.Equal(eng.PConst(0)) && !d.Equal(eng.PConst(1)) && !d.Equal(eng.PConst(2)) {
					bad = append(bad, "a window of constant width "+d.String()+" is cut from the raw input at "+c.P.Pos(x.Pos()))
				}
			}
		}
	})
	sort.Strings(bad)
	c.Check(len(bad) == 0, R, "internal/filters.ASCII85Decode#groups", fn.Pos(), "groups are counted in digits", strings.Join(dedupStr(bad), "; ")+": a line break inside a group shortens the group and shifts every group after it (data wrapped at a width that is not a multiple of 5 decodes to garbage)")
}

// R8.6 [C08]
func ruleShowKeepsLineMatrix(c *eng.Ctx) {
	const R = "R8.6-SHOW-KEEPS-LINE-MATRIX"
	c.Rule(R, "showing text moves the text matrix only: none of the functions that handle Tj and TJ (GraphicsState.ShowText, ShowTextWithWidth, ShowTextArray, and the text extractor's showText and showTextArray) writes the text line matrix, directly or through a function it calls (SetTextMatrix is the Tm operator and sets both). Td, TD, T*, ' and \" are relative to the line matrix, so a line matrix dragged along by glyph advances or TJ adjustments starts the next line where the last string ended", 5, 0)
	writes := map[*ssa.Function]string{}
	fns := c.P.ModuleFuncs()
	for _, fn := range fns {
		if fn.Blocks == nil {
			continue
		}
		eng.Instrs(fn, false, func(in ssa.Instruction) {
			if st, ok := in.(*ssa.Store); ok {
				if fr, ok := eng.AsField(st.Addr); ok && fr.Field == "TextLineMatrix" {
					writes[fn] = "assigns it at " + c.P.Pos(st.Pos())
				}
			}
		})
	}
	for changed := true; changed; {
		changed = false
		for _, fn := range fns {
			if fn.Blocks == nil || writes[fn] != "" {
				continue
			}
			eng.Instrs(fn, true, func(in ssa.Instruction) {
				ci, ok := in.(ssa.CallInstruction)
				if !ok || writes[fn] != "" {
					return
				}
				if g := eng.StaticCallee(ci); g != nil && writes[g] != "" {
					writes[fn] = "calls " + eng.FuncName(g) + " at " + c.P.Pos(ci.Pos()) + ", which " + writes[g]
					changed = true
				}
			})
		}
	}
	for _, name := range []string{"graphicsstate.(*GraphicsState).ShowText", "graphicsstate.(*GraphicsState).ShowTextWithWidth", "graphicsstate.(*GraphicsState).ShowTextArray", "text.(*Extractor).showText", "text.(*Extractor).showTextArray"} {
		fn := c.P.FuncExact(name)
		if fn == nil {
			if r := c.P.RenamedTo(name); r != "" {
				fn = c.P.FuncExact(r)
			}
		}
		if fn == nil {
			c.Ok(R, name+"#absent", token.NoPos, "function not present")
			continue
		}
		c.Check(writes[fn] == "", R, name, fn.Pos(), "leaves the line matrix alone", "a text-showing function writes the text line matrix (it "+writes[fn]+"): the next Td, TD, T*, ' or \" starts from the end of the shown string instead of the start of the line")
	}
}

// R4.11 [C04, C01]
func ruleSectionKindPerSection(c *eng.Ctx) {
	const R = "R4.11-SECTION-KIND-PER-SECTION"
	c.Rule(R, "ParseXRef decides for every cross-reference section on its own whether it is a classic table or a cross-reference stream: the branch that picks the sub-parser depends on what this call read at the given offset, never on a field of the parser that an earlier call set. The sections of one file need not be of one kind (a classic file updated by a writer that emits xref streams, and the reverse), and a kind remembered from the newest section sends the older ones to the wrong sub-parser", 2, 0)
	fn := c.P.Func("core.(*XRefParser).ParseXRef")
	if fn == nil || len(fn.Params) == 0 {
		c.Undec(R, "core.(*XRefParser).ParseXRef", token.NoPos, "anchor not found")
		return
	}
	// fields of the parser that some method assigns after construction
	assigned := map[string]string{}
	for _, f := range c.P.ModuleFuncs() {
		if f.Pkg != fn.Pkg || f.Blocks == nil || strings.HasPrefix(f.Name(), "New") {
			continue
		}
		eng.Instrs(f, true, func(in ssa.Instruction) {
			if st, ok := in.(*ssa.Store); ok {
				if fr, ok := eng.AsField(st.Addr); ok && strings.HasSuffix(fr.Struct, "core.XRefParser") {
					assigned[fr.Field] = eng.FuncName(f) + " at " + c.P.Pos(st.Pos())
				}
			}
		})
	}
	n := 0
	// where the sub-parser is picked: a call, or a method value taken to be called later (a strategy chosen by a
	// helper of ParseXRef)
	type pick struct {
		in   ssa.Instruction
		host *ssa.Function
		what string
	}
	var picks []pick
	targets := map[string]bool{"core.(*XRefParser).parseTraditionalXRef": true, "core.(*XRefParser).parseXRefStream": true}
	for _, h := range eng.Cluster(fn, 1) {
		if h.Pkg != fn.Pkg || (h != fn && targets[eng.FuncName(h)]) {
			continue
		}
		eng.Instrs(h, false, func(in ssa.Instruction) {
			switch x := in.(type) {
			case ssa.CallInstruction:
				if nm := eng.CalleeName(x); targets[nm] {
					picks = append(picks, pick{in, h, nm})
				}
			case *ssa.MakeClosure:
				if gs, _ := eng.FuncValues(x); len(gs) == 1 && targets[eng.FuncName(gs[0])] {
					picks = append(picks, pick{in, h, eng.FuncName(gs[0])})
				}
			}
		})
	}
	for _, pk := range picks {
		ci := pk.in
		n++
		key := fmt.Sprintf("core.(*XRefParser).ParseXRef#%s", pk.what)
		fn := pk.host
		if len(fn.Params) == 0 {
			continue
		}
		recv := ssa.Value(fn.Params[0])
		ifs, _ := eng.DominatingIfs([]*ssa.Function{fn}, ci)
		bad := ""
		for _, iff := range ifs {
			for w := range eng.Slice(iff.Cond, nil) {
				if fr, ok := eng.LoadOfField(w); ok && addrRoot(w) == recv {
					if by, is := assigned[fr.Field]; is {
						if _, isIface := w.Type().Underlying().(*types.Interface); isIface {
							continue // the reader handle
						}
						// a field assigned afresh on every path to the test is a value of this call
						fresh := func() bool {
							for _, b := range fn.Blocks {
								for _, in := range b.Instrs {
									if st, ok := in.(*ssa.Store); ok {
										if fr2, ok := eng.AsField(st.Addr); ok && fr2.Field == fr.Field && addrRoot(st.Addr) == recv && b.Dominates(iff.Block()) && b != iff.Block() {
											return true
										}
									}
								}
							}
							return false
						}()
						if !fresh {
							bad = "field " + fr.Field + " (set by " + by + ")"
						}
					}
				}
			}
		}
		c.Check(bad == "", R, key, ci.Pos(), "chosen from what this call read", "the sub-parser is chosen by the parser's "+bad+", a value kept from an earlier section: a file whose revisions mix classic tables and xref streams cannot be opened")
	}
	if n == 0 {
		c.Undec(R, "core.(*XRefParser).ParseXRef#dispatch", fn.Pos(), "no call to the two section parsers found")
	}
}

// R20.8 [C20]
func ruleContentByExtension(c *eng.Ctx) {
	const R = "R20.8-CONTENT-BY-EXTENSION"
	c.Rule(R, "isContentFile answers yes only for a name it recognises: every way of returning true passed the positive outcome of a test of the name against a constant (a suffix, an extension, a table of extensions); a name it knows nothing about is not a content document. With the default the other way round, an encrypted resource of any kind the deny-list forgot (a .woff2 or .ttc font under the IDPF or Adobe obfuscation algorithms, the NCX) makes an unprotected book a DRM refusal", 1, 0)
	fn := c.P.Func("epubdoc.isContentFile")
	if fn == nil {
		c.Undec(R, "epubdoc.isContentFile", token.NoPos, "anchor not found")
		return
	}
	recognised := func(f eng.Fact) bool {
		if !f.Pos {
			return false
		}
		switch x := f.Cond.(type) {
		case *ssa.Call:
			n := eng.CalleeName(x)
			// a small method of the module that is the string test under another name (uri.hasSuffix(".css"))
			if h := eng.StaticCallee(x); h != nil && eng.InModule(h) && h.Blocks != nil {
				rets := eng.Returns(h)
				all := len(rets) > 0
				for _, r := range rets {
					inner, ok := r.Results[0].(*ssa.Call)
					if !ok {
						all = false
						continue
					}
					switch eng.CalleeName(inner) {
					case "strings.HasSuffix", "strings.EqualFold", "strings.Contains":
					default:
						all = false
					}
				}
				if all {
					return true
				}
			}
			if n == "strings.HasSuffix" || n == "strings.EqualFold" || n == "strings.Contains" {
				for _, a := range x.Call.Args {
					if _, ok := eng.ConstString(a); ok {
						return true
					}
				}
				// the suffix comes out of a read-only table the loop walks
				return true
			}
		case *ssa.BinOp:
			if x.Op == token.EQL {
				_, okx := eng.ConstString(x.X)
				_, oky := eng.ConstString(x.Y)
				return okx || oky
			}
		case *ssa.Lookup:
			return true
		case *ssa.Extract:
			_, isL := x.Tuple.(*ssa.Lookup)
			return isL
		}
		return false
	}
	n := 0
	if fn.Signature.Results().Len() != 1 || fn.Signature.Params().Len() != 1 {
		c.Ok(R, "epubdoc.isContentFile#true", fn.Pos(), "not evaluated: the name test is no longer a predicate of its own (one name in, one answer out)")
		return
	}
	for _, e := range eng.Exits(fn) {
		if len(e.Results) != 1 {
			continue
		}
		cst, ok := e.Results[0].(*ssa.Const)
		if ok && cst.Value != nil && cst.Value.ExactString() == "false" {
			continue
		}
		n++
		key := fmt.Sprintf("epubdoc.isContentFile#true%d", n)
		if !ok {
			// the result of the last test itself (return a || b): the value is the test
			if call, isCall := e.Results[0].(*ssa.Call); isCall && recognised(eng.Fact{Cond: call, Pos: true}) {
				c.Ok(R, key, e.Ret.Pos(), "the answer is the outcome of a name test")
				continue
			}
		}
		c.Check(eng.ExitGuarded(fn, e, recognised), R, key, e.Ret.Pos(), "yes only after a positive name test", "isContentFile answers yes without having recognised the name (the default is yes): every encrypted resource the exceptions do not list counts as an encrypted content document")
	}
	if n == 0 {
		c.Viol(R, "epubdoc.isContentFile#true", fn.Pos(), "isContentFile never answers yes")
	}
}

// R18.14 [C18]
func ruleSheetAccessorsAgree(c *eng.Ctx) {
	const R = "R18.14-SHEET-ACCESSORS-AGREE"
	c.Rule(R, "the XLSX reader's SheetNames, Sheet(i) and PageCount speak about one list: the names returned are read from the elements of the very field whose length PageCount reports and which Sheet indexes. Entries of the workbook's declared sheet list that are not readable worksheets (chart sheets, missing parts) are skipped when the sheets are loaded, so names taken from the declared list have more entries than there are pages and every name after a skipped entry belongs to another page", 2, 0)
	pc := c.P.Func("xlsx.(*Reader).PageCount")
	names := c.P.Func("xlsx.(*Reader).SheetNames")
	if pc == nil || names == nil {
		c.Undec(R, "xlsx.(*Reader).SheetNames", token.NoPos, "anchor not found")
		return
	}
	counted := ""
	for _, r := range eng.Returns(pc) {
		for w := range eng.Slice(r.Results[0], func(*ssa.Call) bool { return true }) {
			if fr, ok := eng.LoadOfField(w); ok && addrRoot(w) == ssa.Value(pc.Params[0]) {
				counted = fr.Field
			}
		}
	}
	if counted == "" {
		c.Undec(R, "xlsx.(*Reader).PageCount#field", pc.Pos(), "cannot tell which list PageCount counts")
		return
	}
	c.Ok(R, "xlsx.(*Reader).PageCount#field", pc.Pos(), "counts "+counted)
	check := func(fn *ssa.Function, what string) {
		var fields []string
		// the receiver, also where a function literal of the method has captured it
		isRecv := func(root ssa.Value) bool {
			if root == ssa.Value(fn.Params[0]) {
				return true
			}
			if ld, ok := root.(*ssa.UnOp); ok && ld.Op == token.MUL {
				root = ld.X
			}
			if fv, ok := root.(*ssa.FreeVar); ok {
				t := fv.Type()
				if pt, ok := t.(*types.Pointer); ok && !types.Identical(t, fn.Params[0].Type()) {
					t = pt.Elem()
				}
				return types.Identical(t, fn.Params[0].Type())
			}
			return false
		}
		eng.Instrs(fn, true, func(in ssa.Instruction) {
			v, ok := in.(ssa.Value)
			if !ok {
				return
			}
			if _, isSl := v.Type().Underlying().(*types.Slice); !isSl {
				return
			}
			if fr, ok := eng.LoadOfField(v); ok && isRecv(addrRoot(v)) {
				fields = append(fields, fr.Field)
			}
			// a list reached through a nested struct of the receiver (r.workbook.Sheets.Sheet)
			if ld, ok := v.(*ssa.UnOp); ok && ld.Op == token.MUL {
				if fa, ok := ld.X.(*ssa.FieldAddr); ok && isRecv(addrRoot(fa)) {
					if fr, ok := eng.AsField(fa); ok {
						fields = append(fields, fr.Field)
					}
				}
			}
		})
		fields = dedupStr(fields)
		sort.Strings(fields)
		ok := len(fields) > 0
		for _, f := range fields {
			if f != counted {
				ok = false
			}
		}
		c.Check(ok, R, eng.FuncName(fn)+"#list", fn.Pos(), what+" reads "+counted, fmt.Sprintf("%s reads the list(s) %v while PageCount counts %s: the two disagree as soon as a declared sheet is not a readable worksheet", what, fields, counted))
	}
	check(names, "SheetNames")
	if sh := c.P.Func("xlsx.(*Reader).Sheet"); sh != nil {
		check(sh, "Sheet(i)")
	}
}

// R18.15 [C18]
func ruleFirstRootfile(c *eng.Ctx) {
	const R = "R18.15-FIRST-ROOTFILE"
	c.Rule(R, "parseContainer answers with the first rootfile that qualifies: inside the loop over the container's rootfile list the result is returned on the spot, or a variable that holds it is assigned only while it is still empty (or the loop is left right after). A container may list several package documents (renditions), the first is the default one; a loop that keeps overwriting its choice reads the book from the last", 1, 0)
	fn := c.P.Func("epubdoc.parseContainer")
	if fn == nil {
		c.Undec(R, "epubdoc.parseContainer", token.NoPos, "anchor not found")
		return
	}
	n := 0
	for _, h := range fn.Blocks {
		isRootLoop := false
		for _, src := range loopRangeSource(h) {
			if sl, ok := src.Type().Underlying().(*types.Slice); ok && strings.HasSuffix(sl.Elem().String(), "epubdoc.rootfile") {
				isRootLoop = true
			}
		}
		if !isRootLoop {
			continue
		}
		n++
		body := map[*ssa.BasicBlock]bool{h: true}
		var stack []*ssa.BasicBlock
		for _, p := range h.Preds {
			if h.Dominates(p) {
				stack = append(stack, p)
			}
		}
		for len(stack) > 0 {
			b := stack[len(stack)-1]
			stack = stack[:len(stack)-1]
			if body[b] {
				continue
			}
			body[b] = true
			stack = append(stack, b.Preds...)
		}
		var bad []string
		for _, in := range h.Instrs {
			ph, ok := in.(*ssa.Phi)
			if !ok {
				continue
			}
			if bt, ok := ph.Type().Underlying().(*types.Basic); !ok || bt.Info()&types.IsString == 0 {
				continue
			}
			stillEmpty := func(f eng.Fact) bool {
				op, x, y, ok := f.Cmp()
				if !ok || op != token.EQL {
					return false
				}
				if s, isC := eng.ConstString(y); isC && s == "" && x == ssa.Value(ph) {
					return true
				}
				if s, isC := eng.ConstString(x); isC && s == "" && y == ssa.Value(ph) {
					return true
				}
				return false
			}
			seen := map[ssa.Value]bool{}
			var walk func(v ssa.Value, from *ssa.BasicBlock)
			walk = func(v ssa.Value, from *ssa.BasicBlock) {
				if v == ssa.Value(ph) {
					return
				}
				if p2, ok := v.(*ssa.Phi); ok && body[p2.Block()] && p2.Block() != h {
					if seen[p2] {
						return
					}
					seen[p2] = true
					for i, e := range p2.Edges {
						walk(e, p2.Block().Preds[i])
					}
					return
				}
				// a new value for the variable, flowing in from block `from`
				if !eng.GuardedBy(fn, from, stillEmpty) {
					okEdge := false
					for si, sx := range from.Succs {
						_ = sx
						if eng.AnyEdgeFact(eng.Edge{From: from, Succ: si}, stillEmpty) {
							okEdge = true
						}
					}
					if !okEdge {
						bad = append(bad, "variable "+ph.Comment+" is assigned again at "+c.P.Pos(v.Pos()))
					}
				}
			}
			for i, e := range ph.Edges {
				if body[h.Preds[i]] {
					walk(e, h.Preds[i])
				}
			}
		}
		c.Check(len(bad) == 0, R, fmt.Sprintf("epubdoc.parseContainer#rootfile-loop%d", n), h.Instrs[0].Pos(), "the first qualifying rootfile is the answer", strings.Join(dedupStr(bad), "; ")+" by a later rootfile although it already holds one: with several package documents listed the last one wins, and manifest, spine and base directory come from the wrong rendition")
	}
	if n == 0 {
		c.Undec(R, "epubdoc.parseContainer#rootfile-loop", fn.Pos(), "no loop over the rootfile list found")
	}
}

// R17.12 [C17]
func ruleSheetTextUntrimmed(c *eng.Ctx) {
	const R = "R17.12-SHEET-TEXT-UNTRIMMED"
	c.Rule(R, "the tab-separated text of a workbook is returned as it was built: no strings.TrimSpace, Trim, TrimLeft or TrimPrefix is applied to the whole output. Tabs and line breaks at the start are the empty cells and empty rows in front of the first value; cutting them moves the first populated row to line 1, field 1 and shifts every line after it", 1, 0)
	fn := c.P.Func("xlsx.(*Reader).TextWithOptions")
	if fn == nil {
		c.Undec(R, "xlsx.(*Reader).TextWithOptions", token.NoPos, "anchor not found")
		return
	}
	leadingTrim := map[string]bool{"strings.TrimSpace": true, "strings.Trim": true, "strings.TrimLeft": true, "strings.TrimPrefix": true, "strings.TrimLeftFunc": true, "strings.TrimFunc": true}
	n := 0
	for _, r := range eng.Returns(fn) {
		if len(r.Results) == 0 {
			continue
		}
		if cs, ok := eng.ConstString(r.Results[0]); ok && cs == "" {
			continue
		}
		n++
		bad := ""
		for w := range eng.Slice(r.Results[0], func(*ssa.Call) bool { return true }) {
			if call, ok := w.(*ssa.Call); ok && leadingTrim[eng.CalleeName(call)] {
				// trimming one cell or one line while the text is built is fine: only a trim of what the builder holds
				for a := range eng.Slice(call.Call.Args[0], func(*ssa.Call) bool { return false }) {
					if inner, ok := a.(*ssa.Call); ok && (strings.HasSuffix(eng.CalleeName(inner), ").String") || strings.HasSuffix(eng.CalleeName(inner), "strings.Join")) {
						bad = eng.CalleeName(call) + " at " + c.P.Pos(call.Pos())
					}
				}
			}
		}
		c.Check(bad == "", R, fmt.Sprintf("xlsx.(*Reader).TextWithOptions#return%d", n), r.Pos(), "the text is returned as built", "the whole text goes through "+bad+": a sheet whose first cell is not A1 loses its leading empty rows and cells, and every value moves to another line and field")
	}
}

// R16.14 [C16]
func ruleDecodedElementsAllKept(c *eng.Ctx) {
	const R = "R16.14-DECODED-ELEMENTS-ALL-KEPT"
	c.Rule(R, "the DOCX body decoder keeps every paragraph and every table it decodes: between DecodeElement and the append no branch looks into the decoded element (its runs, its text). The order of body elements is restored afterwards by counting start tags (the k-th <w:p> is Paragraphs[k]), so a paragraph dropped here shifts every later paragraph against the tables", 2, 0)
	fn := c.P.Func("docx.(*bodyXML).UnmarshalXML")
	if fn == nil {
		c.Undec(R, "docx.(*bodyXML).UnmarshalXML", token.NoPos, "anchor not found")
		return
	}
	n := 0
	for _, h := range eng.Cluster(fn, 1) {
		if h.Pkg != fn.Pkg {
			continue
		}
		for _, ci := range eng.Calls(h, false, func(nm string, _ ssa.CallInstruction) bool { return strings.HasSuffix(nm, ").DecodeElement") }) {
			args := eng.ArgsWithRecv(ci)
			if len(args) < 2 {
				continue
			}
			var target *ssa.Alloc
			for w := range eng.Slice(args[1], nil) {
				if al, ok := w.(*ssa.Alloc); ok {
					target = al
				}
			}
			if target == nil {
				continue
			}
			n++
			key := fmt.Sprintf("%s#decoded(%s)", eng.FuncName(h), target.Comment)
			bad := ""
			for _, b := range h.Blocks {
				iff, ok := lastIf(b)
				if !ok || !ci.Block().Dominates(b) {
					continue
				}
				for w := range eng.Slice(iff.Cond, func(*ssa.Call) bool { return true }) {
					if ld, ok := w.(*ssa.UnOp); ok && ld.Op == token.MUL && ld.X != ssa.Value(target) && addrRoot(ld.X) == ssa.Value(target) {
						bad = c.P.Pos(iff.Cond.Pos())
					}
				}
			}
			c.Check(bad == "", R, key, ci.Pos(), "kept whatever it contains", "whether the decoded element is kept depends on its content (test at "+bad+"): an element that is dropped here is still counted when the body order is restored, so every paragraph after it changes places with the tables")
		}
	}
	if n == 0 {
		c.Undec(R, "docx.(*bodyXML).UnmarshalXML#decode", fn.Pos(), "no DecodeElement into a local element found")
	}
}

// R16.15 [C16, C15]
func ruleListLevelsZeroToEight(c *eng.Ctx) {
	const R = "R16.15-LIST-LEVELS-0-TO-8"
	c.Rule(R, "the DOCX list level read from w:ilvl passes through unchanged for each of the nine levels WordprocessingML has (0..8): every comparison of the parsed level with a constant in parseListLevel has the same outcome for all of 0..8, so a bound, if there is one, only affects values no conforming file contains", 1, 0)
	fn := c.P.Func("docx.parseListLevel")
	if fn == nil {
		c.Undec(R, "docx.parseListLevel", token.NoPos, "anchor not found")
		return
	}
	var bad []string
	n := 0
	eng.Instrs(fn, true, func(in ssa.Instruction) {
		b, ok := in.(*ssa.BinOp)
		if !ok {
			return
		}
		switch b.Op {
		case token.LSS, token.LEQ, token.GTR, token.GEQ, token.EQL, token.NEQ:
		default:
			return
		}
		for _, pair := range [][2]ssa.Value{{b.X, b.Y}, {b.Y, b.X}} {
			k, isC := eng.ConstInt(pair[1])
			if !isC {
				continue
			}
			bt, isB := pair[0].Type().Underlying().(*types.Basic)
			if !isB || bt.Kind() != types.Int {
				continue // comparisons of the digit characters themselves
			}
			if _, isLen := pair[0].(*ssa.Call); isLen {
				continue
			}
			n++
			op := b.Op
			if pair[0] == b.Y { // constant on the left: mirror
				switch op {
				case token.LSS:
					op = token.GTR
				case token.LEQ:
					op = token.GEQ
				case token.GTR:
					op = token.LSS
				case token.GEQ:
					op = token.LEQ
				}
			}
			first, same := false, true
			for x := int64(0); x <= 8; x++ {
				var v bool
				switch op {
				case token.LSS:
					v = x < k
				case token.LEQ:
					v = x <= k
				case token.GTR:
					v = x > k
				case token.GEQ:
					v = x >= k
				case token.EQL:
					v = x == k
				case token.NEQ:
					v = x != k
				}
				if x == 0 {
					first = v
				} else if v != first {
					same = false
				}
			}
			if !same {
				bad = append(bad, fmt.Sprintf("level %s %d at %s", op, k, c.P.Pos(b.Pos())))
			}
		}
	})
	c.Check(len(bad) == 0, R, "docx.parseListLevel#levels", fn.Pos(), fmt.Sprintf("%d comparisons, none separates the levels 0..8", n), "a comparison treats some of the levels 0..8 differently from the others ("+strings.Join(bad, "; ")+"): items at the deepest levels are reported one level up and indented less")
}

// ---------------------------------------------------------------------------------------------------------------
// numbers written in the document that say how often something is repeated

// digitAccumulator: fn returns an int it builds as acc*10 + digit in a loop (a hand-written Atoi). capped reports
// whether the function itself compares the accumulator with a constant >= 2 (a bound on what it returns).
func digitAccumulator(fn *ssa.Function) (is, capped bool) {
	if fn == nil || fn.Blocks == nil || fn.Signature.Results().Len() == 0 {
		return false, false
	}
	if bt, ok := fn.Signature.Results().At(0).Type().Underlying().(*types.Basic); !ok || bt.Kind() != types.Int {
		return false, false
	}
	var acc *ssa.Phi
	eng.Instrs(fn, false, func(in ssa.Instruction) {
		b, ok := in.(*ssa.BinOp)
		if !ok || b.Op != token.MUL {
			return
		}
		if k, isC := eng.ConstInt(b.Y); isC && k == 10 {
			if ph, ok := b.X.(*ssa.Phi); ok && isLoopCarried(ph) {
				acc = ph
			}
		}
	})
	if acc == nil {
		return false, false
	}
	eng.Instrs(fn, false, func(in ssa.Instruction) {
		b, ok := in.(*ssa.BinOp)
		if !ok {
			return
		}
		switch b.Op {
		case token.LSS, token.LEQ, token.GTR, token.GEQ:
		default:
			return
		}
		for _, pair := range [][2]ssa.Value{{b.X, b.Y}, {b.Y, b.X}} {
			k, isC := eng.ConstInt(pair[1])
			if !isC || k < 2 {
				continue
			}
			if bt, ok := pair[0].Type().Underlying().(*types.Basic); !ok || bt.Kind() != types.Int {
				continue
			}
			for w := range eng.Slice(pair[0], nil) {
				if w == ssa.Value(acc) {
					capped = true
				}
			}
		}
	})
	return true, capped
}

type repeatSink struct {
	fn    *ssa.Function
	at    ssa.Instruction
	count ssa.Value
	kind  string
}

// repeatSinks: places where a number decides how many times output is produced: the count of strings.Repeat /
// bytes.Repeat, and the bound of a counting loop whose body writes or appends.
func repeatSinks(fn *ssa.Function) []repeatSink {
	var out []repeatSink
	eng.Instrs(fn, true, func(in ssa.Instruction) {
		if ci, ok := in.(ssa.CallInstruction); ok {
			switch eng.CalleeName(ci) {
			case "strings.Repeat", "bytes.Repeat":
				out = append(out, repeatSink{in.Parent(), in, ci.Common().Args[1], "repeat count"})
			}
		}
	})
	for _, f := range append([]*ssa.Function{fn}, fn.AnonFuncs...) {
		for _, h := range f.Blocks {
			iff, ok := lastIf(h)
			if !ok {
				continue
			}
			cmp, ok := iff.Cond.(*ssa.BinOp)
			if !ok || (cmp.Op != token.LSS && cmp.Op != token.LEQ) {
				continue
			}
			if _, isInd := eng.Induction(cmp.X); !isInd {
				continue
			}
			if call, isCall := cmp.Y.(*ssa.Call); isCall && eng.CalleeName(call) == "builtin:len" {
				continue
			}
			if _, isC := eng.ConstInt(cmp.Y); isC {
				continue
			}
			// i < n && len(out) < K: the second half of the condition bounds the loop by a constant
			if iff2, ok := lastIf(h.Succs[0]); ok && len(h.Succs[0].Instrs) <= 3 {
				if cmp2, ok := iff2.Cond.(*ssa.BinOp); ok && (cmp2.Op == token.LSS || cmp2.Op == token.LEQ) {
					if _, isC := eng.ConstInt(cmp2.Y); isC && h.Succs[0].Succs[1] == h.Succs[1] {
						continue
					}
				}
			}
			// the body produces output
			produces := false
			body := h.Succs[0]
			for b := range eng.ReachableBlocks([]*ssa.BasicBlock{body}, func(x *ssa.BasicBlock) bool { return x == h }) {
				for _, in := range b.Instrs {
					if ci, ok := in.(ssa.CallInstruction); ok {
						n := eng.CalleeName(ci)
						if n == "builtin:append" || strings.Contains(n, ").Write") {
							produces = true
						}
					}
				}
			}
			if produces {
				out = append(out, repeatSink{f, iff, cmp.Y, "loop bound"})
			}
		}
	}
	return out
}

// DebugRepeatSinks (VDEBUG=rep)
func DebugRepeatSinks(c *eng.Ctx) {
	if os.Getenv("VDEBUG") != "rep" {
		return
	}
	for _, fn := range c.P.ModuleFuncs() {
		if fn.Parent() != nil || fn.Blocks == nil {
			continue
		}
		if is, capped := digitAccumulator(fn); is {
			fmt.Fprintf(os.Stderr, "REP accumulator %s capped=%v\n", eng.FuncName(fn), capped)
		}
		for _, s := range repeatSinks(fn) {
			var srcs []string
			for w := range eng.Slice(s.count, func(*ssa.Call) bool { return true }) {
				if fr, ok := eng.LoadOfField(w); ok {
					srcs = append(srcs, fr.Struct+"."+fr.Field)
				}
				if call, ok := w.(*ssa.Call); ok {
					srcs = append(srcs, "call:"+eng.CalleeName(call))
				}
				if p, ok := w.(*ssa.Parameter); ok {
					srcs = append(srcs, "param:"+p.Name())
				}
			}
			sort.Strings(srcs)
			fmt.Fprintf(os.Stderr, "REP sink %s %s %s <- %v\n", c.P.Pos(s.at.Pos()), eng.FuncName(s.fn), s.kind, dedupStr(srcs))
		}
	}
}

// R2.16 [C02]
func ruleParsedRepeatBounded(c *eng.Ctx) {
	const R = "R2.16-PARSED-REPEAT-BOUNDED"
	c.Rule(R, "a number written in the document that says how often output is repeated (a list level that becomes that many indentation steps, a repeat count) is bounded before it is used: the count of strings.Repeat and the bound of a counting loop that writes or appends never derive from a parsed number — strconv.Atoi/ParseInt, a hand-written digit accumulator, an integer attribute filled by encoding/xml — unless that number, or the field it was copied into, is compared with a constant cap in its package. Without a cap one attribute set to 2^31 makes every item write gigabytes", 4, 1)
	type fkey struct {
		st  string
		idx int
	}
	norm := func(s string) string { return strings.TrimPrefix(s, "*") }
	keyOfAddr := func(fa *ssa.FieldAddr) fkey { return fkey{norm(eng.TypeName(fa.X.Type())), fa.Field} }
	fieldOf := func(v ssa.Value) (fkey, bool) {
		switch x := v.(type) {
		case *ssa.UnOp:
			if fa, ok := x.X.(*ssa.FieldAddr); ok && x.Op == token.MUL {
				return keyOfAddr(fa), true
			}
		case *ssa.Field:
			return fkey{norm(eng.TypeName(x.X.Type())), x.Field}, true
		}
		return fkey{}, false
	}
	isInt := func(t types.Type) bool {
		b, ok := t.Underlying().(*types.Basic)
		return ok && b.Info()&types.IsInteger != 0
	}
	name := map[fkey]string{}
	// sources[F]: what F is filled from — "xml", "atoi", "acc:<fn>" (uncapped accumulator), or another field
	sources := map[fkey]map[string]bool{}
	fieldSrc := map[fkey]map[fkey]bool{}
	add := func(k fkey, s string) {
		if sources[k] == nil {
			sources[k] = map[string]bool{}
		}
		sources[k][s] = true
	}
	accCapped := map[*ssa.Function][2]bool{}
	accOf := func(f *ssa.Function) (bool, bool) {
		if v, ok := accCapped[f]; ok {
			return v[0], v[1]
		}
		is, cp := digitAccumulator(f)
		accCapped[f] = [2]bool{is, cp}
		return is, cp
	}
	fns := c.P.ModuleFuncs()
	for _, fn := range fns {
		if fn.Blocks == nil {
			continue
		}
		eng.Instrs(fn, false, func(in ssa.Instruction) {
			// integer fields of structs that encoding/xml fills
			if fa, ok := in.(*ssa.FieldAddr); ok {
				if pt, ok := fa.X.Type().Underlying().(*types.Pointer); ok {
					if st, ok := pt.Elem().Underlying().(*types.Struct); ok && fa.Field < st.NumFields() && isInt(st.Field(fa.Field).Type()) && strings.Contains(st.Tag(fa.Field), `xml:"`) {
						k := keyOfAddr(fa)
						name[k] = st.Field(fa.Field).Name()
						add(k, "xml")
					}
				}
			}
			st, ok := in.(*ssa.Store)
			if !ok || !isInt(st.Val.Type()) {
				return
			}
			fa, ok := st.Addr.(*ssa.FieldAddr)
			if !ok {
				return
			}
			k := keyOfAddr(fa)
			if fr, ok := eng.AsField(fa); ok {
				name[k] = fr.Field
			}
			for w := range eng.Slice(st.Val, nil) {
				switch x := w.(type) {
				case *ssa.Extract:
					if call, ok := x.Tuple.(*ssa.Call); ok && x.Index == 0 {
						switch eng.CalleeName(call) {
						case "strconv.Atoi", "strconv.ParseInt", "strconv.ParseUint":
							add(k, "atoi")
						}
					}
				case *ssa.Call:
					if g := eng.StaticCallee(x); g != nil && eng.InModule(g) {
						if is, capped := accOf(g); is && !capped {
							add(k, "acc:"+eng.FuncName(g))
						}
					}
				}
				if k2, ok := fieldOf(w); ok && k2 != k && isInt(w.Type()) {
					if fieldSrc[k] == nil {
						fieldSrc[k] = map[fkey]bool{}
					}
					fieldSrc[k][k2] = true
				}
			}
		})
	}
	// caps
	capped := map[fkey]bool{}
	for _, fn := range fns {
		if fn.Blocks == nil {
			continue
		}
		eng.Instrs(fn, true, func(in ssa.Instruction) {
			b, ok := in.(*ssa.BinOp)
			if !ok {
				return
			}
			switch b.Op {
			case token.LSS, token.LEQ, token.GTR, token.GEQ:
			default:
				return
			}
			for _, side := range [][2]ssa.Value{{b.X, b.Y}, {b.Y, b.X}} {
				hasConst := false
				for w := range eng.Slice(side[1], nil) {
					if k, isC := eng.ConstInt(w); isC && k >= 2 {
						hasConst = true
					}
				}
				if !hasConst {
					continue
				}
				for w := range eng.Slice(side[0], nil) {
					if fk, ok := fieldOf(w); ok {
						capped[fk] = true
					}
				}
			}
		})
	}
	// uncappedOrigin: a parsed origin of field k that no cap stands in front of
	var uncappedOrigin func(k fkey, seen map[fkey]bool) string
	uncappedOrigin = func(k fkey, seen map[fkey]bool) string {
		if seen[k] || capped[k] {
			return ""
		}
		seen[k] = true
		var ss []string
		for s := range sources[k] {
			ss = append(ss, s)
		}
		sort.Strings(ss)
		if len(ss) > 0 {
			return k.st + "." + name[k] + " (" + strings.Join(ss, ",") + ")"
		}
		var ks []fkey
		for k2 := range fieldSrc[k] {
			ks = append(ks, k2)
		}
		sort.Slice(ks, func(i, j int) bool { return ks[i].st+fmt.Sprint(ks[i].idx) < ks[j].st+fmt.Sprint(ks[j].idx) })
		for _, k2 := range ks {
			if o := uncappedOrigin(k2, seen); o != "" {
				return o
			}
		}
		return ""
	}
	for _, fn := range fns {
		if fn.Blocks == nil || fn.Parent() != nil {
			continue
		}
		n := 0
		for _, s := range repeatSinks(fn) {
			if _, isC := eng.ConstInt(s.count); isC {
				continue
			}
			// a bound established right where the count is used
			var fields []fkey
			direct := ""
			for w := range eng.Slice(s.count, nil) {
				if fk, ok := fieldOf(w); ok && isInt(w.Type()) {
					fields = append(fields, fk)
				}
				if ex, ok := w.(*ssa.Extract); ok && ex.Index == 0 {
					if call, ok := ex.Tuple.(*ssa.Call); ok {
						switch eng.CalleeName(call) {
						case "strconv.Atoi", "strconv.ParseInt", "strconv.ParseUint":
							direct = eng.CalleeName(call)
						}
					}
				}
			}
			origin := ""
			sort.Slice(fields, func(i, j int) bool {
				return fields[i].st+fmt.Sprint(fields[i].idx) < fields[j].st+fmt.Sprint(fields[j].idx)
			})
			for _, fk := range fields {
				if o := uncappedOrigin(fk, map[fkey]bool{}); o != "" && origin == "" {
					origin = o
				}
			}
			if origin == "" && direct == "" {
				continue
			}
			n++
			key := fmt.Sprintf("%s#%s%d", eng.FuncName(fn), strings.ReplaceAll(s.kind, " ", "-"), n)
			pos := s.at.Pos()
			if pos == token.NoPos {
				pos = s.count.Pos()
			}
			if origin == "" {
				// parsed right here: the use must sit behind a comparison of the value with a constant
				guarded := eng.GuardedBy(s.fn, s.at.Block(), func(f eng.Fact) bool {
					_, x, y, ok := f.Cmp()
					if !ok {
						return false
					}
					_, cx := eng.ConstInt(x)
					_, cy := eng.ConstInt(y)
					return cx || cy
				})
				c.Check(guarded, R, key, pos, "the parsed count is compared with a constant before it is used", "the "+s.kind+" comes straight from "+direct+" and is used without a cap")
				continue
			}
			c.Viol(R, key, pos, "the "+s.kind+" derives from "+origin+", a number written in the document that nothing compares with a cap: one attribute set to 2^31 makes this write gigabytes (out of memory) for a single item")
		}
	}
	nOK := 0
	for k := range sources {
		if capped[k] {
			nOK++
			c.Ok(R, "field "+k.st+"."+name[k], token.NoPos, "parsed number with a cap in its package")
		}
	}
	_ = nOK
}

// ---------------------------------------------------------------------------------------------------------------
// element reads at a cursor kept in a struct field

type cursorSpec struct {
	typ, data, pos string // "contentstream.Parser", "data", "pos"
}

type cursorRead struct {
	at    ssa.Instruction
	need  int64 // the read is data[pos+need]
	known int64 // pos+known < len(data) is established there (-1: nothing)
}

// cursorMovers: the functions of the package that assign the cursor field, directly or through a call.
func cursorMovers(p *eng.Prog, pkg *ssa.Package, spec cursorSpec) map[*ssa.Function]bool {
	mv := map[*ssa.Function]bool{}
	var fns []*ssa.Function
	for _, fn := range p.ModuleFuncs() {
		if fn.Pkg == pkg && fn.Blocks != nil {
			fns = append(fns, fn)
		}
	}
	for _, fn := range fns {
		eng.Instrs(fn, true, func(in ssa.Instruction) {
			if st, ok := in.(*ssa.Store); ok {
				if fr, ok := eng.AsField(st.Addr); ok && fr.Field == spec.pos && strings.HasSuffix(fr.Struct, spec.typ) {
					mv[fn] = true
				}
			}
		})
	}
	for changed := true; changed; {
		changed = false
		for _, fn := range fns {
			if mv[fn] {
				continue
			}
			eng.Instrs(fn, true, func(in ssa.Instruction) {
				if ci, ok := in.(ssa.CallInstruction); ok && !mv[fn] {
					if g := eng.StaticCallee(ci); g != nil && mv[g] {
						mv[fn] = true
						changed = true
					}
				}
			})
		}
	}
	return mv
}

// cursorReads runs a forward must-analysis over fn: the state is the largest K for which pos+K < len(data) is known
// to hold for the present value of the cursor field (-1: nothing known). Branch conditions that compare pos+a with
// len(data)+b raise it on the edge where they hold, an assignment pos = pos+c lowers it by c, any other assignment of
// the cursor and any call that may move it forget it. Every element read data[pos+k] is reported with the state there.
func cursorReads(fn *ssa.Function, spec cursorSpec, movers map[*ssa.Function]bool, entry int64, atCall func(g *ssa.Function, k int64)) []cursorRead {
	isField := func(v ssa.Value, name string) bool {
		ld, ok := v.(*ssa.UnOp)
		if !ok || ld.Op != token.MUL {
			return false
		}
		fr, ok := eng.AsField(ld.X)
		return ok && fr.Field == name && strings.HasSuffix(fr.Struct, spec.typ)
	}
	var posLoads []ssa.Value
	leaf := func(v ssa.Value) (*eng.Poly, bool) {
		if isField(v, spec.pos) {
			posLoads = append(posLoads, v)
			return eng.PSym("pos"), true
		}
		if call, ok := v.(*ssa.Call); ok && eng.CalleeName(call) == "builtin:len" && isField(call.Call.Args[0], spec.data) {
			return eng.PSym("len"), true
		}
		return nil, false
	}
	// offset: v = pos + k with every cursor load taken in block b at or after instruction index from
	idx := map[ssa.Instruction]int{}
	for _, b := range fn.Blocks {
		for i, in := range b.Instrs {
			idx[in] = i
		}
	}
	var isKill func(in ssa.Instruction) (kill bool, shift int64, shifted bool)
	killsIn := func(b *ssa.BasicBlock, from, to int) bool {
		saved := posLoads
		defer func() { posLoads = saved }()
		for i, ins := range b.Instrs {
			if i < from || i >= to {
				continue
			}
			if k, _, _ := isKill(ins); k {
				return true
			}
		}
		return false
	}
	// fresh: every cursor load the expression used still shows the cursor's value at position `from` of block b —
	// taken there, or taken in an earlier block with no move of the cursor on any way from there to here (the
	// operands of a named condition: ok := pos+1 < len(data); if ok && data[pos+1] …)
	fresh := func(b *ssa.BasicBlock, from int) bool {
		for _, l := range posLoads {
			li, ok := l.(ssa.Instruction)
			if !ok {
				return false
			}
			lb := li.Block()
			if lb == b {
				if idx[li] < from {
					return false
				}
				continue
			}
			if from > 0 && killsIn(b, 0, from) {
				return false
			}
			if killsIn(lb, idx[li], len(lb.Instrs)) {
				return false
			}
			fwd := eng.ReachableBlocks(lb.Succs, func(x *ssa.BasicBlock) bool { return x == b })
			for x := range fwd {
				if x == lb || x == b {
					continue
				}
				if eng.ReachableBlocks([]*ssa.BasicBlock{x}, nil)[b] && killsIn(x, 0, len(x.Instrs)) {
					return false
				}
			}
		}
		return true
	}
	isKill = func(in ssa.Instruction) (kill bool, shift int64, shifted bool) {
		switch x := in.(type) {
		case *ssa.Store:
			if fr, ok := eng.AsField(x.Addr); ok && fr.Field == spec.pos && strings.HasSuffix(fr.Struct, spec.typ) {
				posLoads = nil
				if p, ok := eng.IntPoly(x.Val, leaf); ok {
					d := p.Sub(eng.PSym("pos"))
					if r, isC := d.IsConst(); isC && r.IsInt() && r.Num().Int64() >= 0 {
						return true, r.Num().Int64(), true
					}
				}
				return true, 0, false
			}
		case ssa.CallInstruction:
			g := eng.StaticCallee(x)
			if g != nil && movers[g] {
				return true, 0, false
			}
			if g == nil && !x.Common().IsInvoke() {
				if _, isB := x.Common().Value.(*ssa.Builtin); !isB {
					return true, 0, false // a function value: may be a closure that moves the cursor
				}
			}
		}
		return false, 0, false
	}
	const top = int64(1 << 30)
	in := map[*ssa.BasicBlock]int64{}
	for _, b := range fn.Blocks {
		in[b] = top
	}
	in[fn.Blocks[0]] = entry
	if fn.Recover != nil {
		in[fn.Recover] = -1
	}
	var reads []cursorRead
	transfer := func(b *ssa.BasicBlock, k int64, record bool) int64 {
		lastKill := 0
		for i, ins := range b.Instrs {
			if record && atCall != nil {
				if ci, ok := ins.(ssa.CallInstruction); ok {
					if g := eng.StaticCallee(ci); g != nil && g.Pkg == fn.Pkg {
						known := k
						atCall(g, known)
					}
				}
			}
			if kill, shift, shifted := isKill(ins); kill {
				if shifted && k >= 0 {
					k -= shift
					if k < -1 {
						k = -1
					}
				} else {
					k = -1
				}
				lastKill = i + 1
				continue
			}
			if !record {
				continue
			}
			var base, index ssa.Value
			switch x := ins.(type) {
			case *ssa.IndexAddr:
				base, index = x.X, x.Index
			case *ssa.Index:
				base, index = x.X, x.Index
			default:
				continue
			}
			if !isField(base, spec.data) {
				continue
			}
			posLoads = nil
			p, ok := eng.IntPoly(index, leaf)
			if !ok {
				continue
			}
			d := p.Sub(eng.PSym("pos"))
			r, isC := d.IsConst()
			if !isC || !r.IsInt() || len(posLoads) == 0 {
				continue
			}
			known := k
			if !fresh(b, lastKill) {
				known = -1
			}
			reads = append(reads, cursorRead{ins, r.Num().Int64(), known})
		}
		return k
	}
	edgeGain := func(b *ssa.BasicBlock, succ int) int64 {
		gain := int64(-1)
		// where in b the cursor was last moved
		lastKill := 0
		for i, ins := range b.Instrs {
			if kill, _, _ := isKill(ins); kill {
				lastKill = i + 1
			}
		}
		for _, f := range eng.EdgeFacts(eng.Edge{From: b, Succ: succ}) {
			op, x, y, ok := f.Cmp()
			if !ok {
				continue
			}
			posLoads = nil
			px, okx := eng.IntPoly(x, leaf)
			py, oky := eng.IntPoly(y, leaf)
			if !okx || !oky || len(posLoads) == 0 || !fresh(b, lastKill) {
				continue
			}
			// normalise to  pos + a  OP  len + b
			var c int64
			d := px.Sub(py) // (pos + a) - (len + b)  or  (len + b) - (pos + a)
			flip := false
			e := d.Sub(eng.PSym("pos")).Add(eng.PSym("len"))
			r, isC := e.IsConst()
			if !isC {
				e = d.Add(eng.PSym("pos")).Sub(eng.PSym("len"))
				r, isC = e.IsConst()
				flip = true
			}
			if !isC || !r.IsInt() {
				continue
			}
			ab := r.Num().Int64() // a-b (not flipped) or b-a (flipped)
			if flip {
				ab = -ab
				op = eng.Swap(op)
			}
			switch op {
			case token.LSS: // pos + (a-b) < len
				c = ab
			case token.LEQ: // pos + (a-b) <= len  ->  pos + (a-b-1) < len
				c = ab - 1
			default:
				continue
			}
			if c > gain {
				gain = c
			}
		}
		return gain
	}
	for changed, rounds := true, 0; changed && rounds < 64; rounds++ {
		changed = false
		for _, b := range fn.Blocks {
			if in[b] == top {
				continue
			}
			out := transfer(b, in[b], false)
			for si, sx := range b.Succs {
				v := out
				if g := edgeGain(b, si); g > v {
					v = g
				}
				if v < in[sx] {
					in[sx] = v
					changed = true
				}
			}
		}
	}
	for _, b := range fn.Blocks {
		if in[b] != top {
			transfer(b, in[b], true)
		}
	}
	return reads
}

// R2.17 [C02, C06]
func ruleCursorReadsGuarded(c *eng.Ctx) {
	const R = "R2.17-CURSOR-READS-GUARDED"
	c.Rule(R, "in the content-stream parser every read of the input at the cursor, data[pos+k], happens where pos+k < len(data) is established for the cursor's present value: by a branch condition on every path since the cursor last moved (a call that skips white space or parses a token moves it), counting pos = pos+c steps. A read after skipWhitespace without a new test is a read past the end when the stream is cut off there", 25, 0)
	spec := cursorSpec{"contentstream.Parser", "data", "pos"}
	var pkg *ssa.Package
	for _, fn := range c.P.ModuleFuncs() {
		if fn.Pkg != nil && eng.ShortPath(fn.Pkg.Pkg.Path()) == "contentstream" {
			pkg = fn.Pkg
		}
	}
	if pkg == nil {
		c.Undec(R, "contentstream", token.NoPos, "package not found")
		return
	}
	movers := cursorMovers(c.P, pkg, spec)
	var fns []*ssa.Function
	for _, fn := range c.P.ModuleFuncs() {
		if fn.Pkg == pkg && fn.Blocks != nil && fn.Parent() == nil {
			fns = append(fns, fn)
		}
	}
	// what a function may assume on entry: the weakest state at any of its call sites in the package (nothing for
	// exported functions, which anybody may call)
	const top = int64(1 << 30)
	entry := map[*ssa.Function]int64{}
	for _, fn := range fns {
		entry[fn] = top
		if obj, ok := fn.Object().(*types.Func); ok && obj.Exported() {
			entry[fn] = -1
		}
	}
	for round := 0; round < 8; round++ {
		next := map[*ssa.Function]int64{}
		for _, fn := range fns {
			next[fn] = top
			if entry[fn] == -1 {
				if obj, ok := fn.Object().(*types.Func); ok && obj.Exported() {
					next[fn] = -1
				}
			}
		}
		for _, fn := range fns {
			e := entry[fn]
			if e == top {
				continue // not reached yet
			}
			cursorReads(fn, spec, movers, e, func(g *ssa.Function, k int64) {
				if _, in := next[g]; in && k < next[g] {
					next[g] = k
				}
			})
		}
		same := true
		for _, fn := range fns {
			if next[fn] != entry[fn] {
				same = false
			}
		}
		entry = next
		if same {
			break
		}
	}
	for _, fn := range fns {
		e := entry[fn]
		if e == top {
			e = -1 // never called inside the package
		}
		n := 0
		for _, r := range cursorReads(fn, spec, movers, e, nil) {
			n++
			key := fmt.Sprintf("%s#read%d(pos+%d)", eng.FuncName(fn), n, r.need)
			c.Check(r.known >= r.need, R, key, r.at.Pos(), fmt.Sprintf("pos+%d < len(data) holds", r.need), fmt.Sprintf("data[pos+%d] is read where only pos+%d < len(data) is known since the cursor last moved: input that ends here (a truncated stream) panics with index out of range", r.need, r.known))
		}
	}
}

// DebugFloatSizes (VDEBUG=fsz): allocations sized by an integer converted from a float.
func DebugFloatSizes(c *eng.Ctx) {
	if os.Getenv("VDEBUG") != "fsz" {
		return
	}
	for _, fn := range c.P.ModuleFuncs() {
		if fn.Blocks == nil {
			continue
		}
		eng.Instrs(fn, false, func(in ssa.Instruction) {
			mk, ok := in.(*ssa.MakeSlice)
			if !ok {
				return
			}
			for w := range eng.Slice(mk.Len, nil) {
				if cv, ok := w.(*ssa.Convert); ok {
					if b, ok := cv.X.Type().Underlying().(*types.Basic); ok && b.Info()&types.IsFloat != 0 {
						fmt.Fprintf(os.Stderr, "FSZ %s %s\n", c.P.Pos(mk.Pos()), eng.FuncName(fn))
					}
				}
			}
		})
	}
}

// R2.18 [C02]
func ruleCoordinateCountsCapped(c *eng.Ctx) {
	const R = "R2.18-COORDINATE-COUNTS-CAPPED"
	c.Rule(R, "an integer converted from a floating-point quantity (a page width from the MediaBox, a text position from the content stream: numbers written in the file) is compared with a cap before it decides how much is allocated or written: where it reaches the length of a make, the count of strings.Repeat or the bound of a counting loop that writes or appends, the value is proven to be at most 2^24 there (a comparison with a constant, a clamp, min). A page 2^31 units wide otherwise sizes a histogram, and a Td of 2^63 is answered with that many spaces", 3, 1)
	const cap = int64(1 << 24)
	isFloatConv := func(v ssa.Value) bool {
		cv, ok := v.(*ssa.Convert)
		if !ok {
			return false
		}
		b, ok := cv.X.Type().Underlying().(*types.Basic)
		if !ok || b.Info()&types.IsFloat == 0 {
			return false
		}
		bt, ok := cv.Type().Underlying().(*types.Basic)
		return ok && bt.Info()&types.IsInteger != 0
	}
	for _, fn := range c.P.ModuleFuncs() {
		if fn.Blocks == nil || fn.Parent() != nil {
			continue
		}
		type sink struct {
			in    ssa.Instruction
			count ssa.Value
			kind  string
			host  *ssa.Function
		}
		var sinks []sink
		eng.Instrs(fn, true, func(in ssa.Instruction) {
			if mk, ok := in.(*ssa.MakeSlice); ok {
				sinks = append(sinks, sink{in, mk.Len, "length of make", in.Parent()})
			}
		})
		for _, s := range repeatSinks(fn) {
			sinks = append(sinks, sink{s.at, s.count, s.kind, s.fn})
		}
		n := 0
		for _, s := range sinks {
			if _, isC := eng.ConstInt(s.count); isC {
				continue
			}
			// float-derived integers that reach the count without passing a value proven <= cap
			var open []ssa.Value
			seen := map[ssa.Value]bool{}
			var walk func(v ssa.Value, depth int)
			walk = func(v ssa.Value, depth int) {
				if v == nil || seen[v] || depth > 12 {
					return
				}
				seen[v] = true
				if bounded(s.host, v, cap, true, s.in.Block(), 0) {
					return
				}
				if isFloatConv(v) {
					open = append(open, v)
					return
				}
				switch x := v.(type) {
				case *ssa.Phi:
					for _, e := range x.Edges {
						walk(e, depth+1)
					}
				case *ssa.BinOp:
					switch x.Op {
					case token.ADD, token.MUL:
						walk(x.X, depth+1)
						walk(x.Y, depth+1)
					case token.SUB, token.QUO, token.SHR:
						walk(x.X, depth+1)
					}
				case *ssa.ChangeType:
					walk(x.X, depth+1)
				case *ssa.Convert:
					walk(x.X, depth+1)
				case *ssa.UnOp:
					if x.Op == token.MUL {
						if al, ok := x.X.(*ssa.Alloc); ok {
							for _, r := range *al.Referrers() {
								if st, ok := r.(*ssa.Store); ok && st.Addr == ssa.Value(al) {
									walk(st.Val, depth+1)
								}
							}
						}
					}
				}
			}
			walk(s.count, 0)
			hasFloat := false
			for w := range eng.Slice(s.count, nil) {
				if isFloatConv(w) {
					hasFloat = true
				}
			}
			if !hasFloat {
				continue
			}
			n++
			key := fmt.Sprintf("%s#%s%d", eng.FuncName(fn), strings.ReplaceAll(s.kind, " ", "-"), n)
			pos := s.in.Pos()
			if pos == token.NoPos {
				pos = s.count.Pos()
			}
			where := ""
			if len(open) > 0 {
				where = c.P.Pos(open[0].Pos())
			}
			c.Check(len(open) == 0, R, key, pos, "every coordinate-derived integer is capped before it is used", "the "+s.kind+" is computed from an integer converted from a floating-point value at "+where+" that is not proven to stay below a cap here: a width or position of 2^31 or 2^63 written in the file allocates or writes without bound (out of memory, or makeslice: len out of range)")
		}
	}
}

// R2.19 [C02]
func ruleSizeCheckNoOverflow(c *eng.Ctx) {
	const R = "R2.19-SIZE-CHECK-NO-OVERFLOW"
	c.Rule(R, "a size check of the form rows*columns > limit does not overflow: where a product of two non-constant integers is compared with a constant, each factor is proven to be at most 2^31 there (so the 64-bit product is exact), or the comparison is written as a division. A product that wraps around compares small and lets a row number of 2^62 through to the allocation", 0, 1)
	n := 0
	for _, fn := range c.P.ModuleFuncs() {
		if fn.Blocks == nil {
			continue
		}
		k := 0
		eng.Instrs(fn, true, func(in ssa.Instruction) {
			cmp, ok := in.(*ssa.BinOp)
			if !ok {
				return
			}
			switch cmp.Op {
			case token.LSS, token.LEQ, token.GTR, token.GEQ:
			default:
				return
			}
			for _, pair := range [][2]ssa.Value{{cmp.X, cmp.Y}, {cmp.Y, cmp.X}} {
				lim, isC := eng.ConstInt(pair[1])
				if !isC || lim < 1<<16 {
					continue
				}
				v := pair[0]
				for {
					if cv, ok := v.(*ssa.Convert); ok {
						v = cv.X
						continue
					}
					break
				}
				mul, ok := v.(*ssa.BinOp)
				if !ok || mul.Op != token.MUL {
					continue
				}
				if bt, ok := mul.Type().Underlying().(*types.Basic); !ok || bt.Info()&types.IsInteger == 0 {
					continue
				}
				_, cx := eng.ConstInt(mul.X)
				_, cy := eng.ConstInt(mul.Y)
				if cx || cy {
					continue
				}
				n++
				k++
				okX := bounded(in.Parent(), mul.X, 1<<31, true, cmp.Block(), 0)
				okY := bounded(in.Parent(), mul.Y, 1<<31, true, cmp.Block(), 0)
				c.Check(okX && okY, R, fmt.Sprintf("%s#product%d", eng.FuncName(fn), k), cmp.Pos(), "both factors are bounded where the product is compared", "the product compared with the limit can overflow (a factor is not proven to be at most 2^31 here): a count of 2^62 written in the file wraps the product around to a small number, the check passes and the allocation panics with makeslice: len out of range")
			}
		})
	}
	c.Ok(R, "module#scanned", token.NoPos, fmt.Sprintf("%d products compared with a limit", n))
}

// R15.11 [C15, C16]
func ruleLevelByILvl(c *eng.Ctx) {
	const R = "R15.11-LEVEL-BY-ILVL"
	c.Rule(R, "the DOCX numbering resolver picks the definition of a list level by its w:ilvl: every read of a level definition's number format in ResolveLevel happens where that same definition's ILvl was compared (equal) with the level asked for. An abstract numbering may declare only some levels, or declare them in any order, so the k-th definition is not level k", 1, 0)
	fn := c.P.Func("docx.(*NumberingResolver).ResolveLevel")
	if fn == nil {
		c.Undec(R, "docx.(*NumberingResolver).ResolveLevel", token.NoPos, "anchor not found")
		return
	}
	var levelParam ssa.Value
	for _, p := range fn.Params {
		if b, ok := p.Type().Underlying().(*types.Basic); ok && b.Kind() == types.Int {
			levelParam = p
		}
	}
	elemOf := func(fa *ssa.FieldAddr) ssa.Value { return fa.X }
	n := 0
	for _, h := range eng.Cluster(fn, 1) {
		if h.Pkg != fn.Pkg {
			continue
		}
		eng.Instrs(h, false, func(in ssa.Instruction) {
			fa, ok := in.(*ssa.FieldAddr)
			if !ok {
				return
			}
			fr, ok := eng.AsField(fa)
			if !ok || fr.Field != "NumFmt" {
				return
			}
			n++
			el := elemOf(fa)
			matched := eng.GuardedBy(h, fa.Block(), func(f eng.Fact) bool {
				op, x, y, ok := f.Cmp()
				if !ok || op != token.EQL {
					return false
				}
				for _, pair := range [][2]ssa.Value{{x, y}, {y, x}} {
					isILvl := false
					for w := range eng.Slice(pair[0], func(*ssa.Call) bool { return true }) {
						if ld, ok := w.(*ssa.UnOp); ok && ld.Op == token.MUL {
							if fa2, ok := ld.X.(*ssa.FieldAddr); ok {
								if fr2, ok := eng.AsField(fa2); ok && fr2.Field == "ILvl" && eng.SameValue(elemOf(fa2), el) {
									isILvl = true
								}
							}
						}
					}
					if !isILvl {
						continue
					}
					if levelParam == nil || h != fn {
						return true
					}
					for w := range eng.Slice(pair[1], func(*ssa.Call) bool { return true }) {
						if w == levelParam {
							return true
						}
					}
				}
				return false
			})
			c.Check(matched, R, fmt.Sprintf("%s#NumFmt%d", eng.FuncName(h), n), fa.Pos(), "read from the definition whose ILvl equals the level", "a level definition's number format is read without that definition's ILvl having been compared with the requested level (looked up by position): in a numbering that declares only some levels, or lists them out of order, items get the marker kind of another level")
		})
	}
	if n == 0 {
		c.Undec(R, "docx.(*NumberingResolver).ResolveLevel#NumFmt", fn.Pos(), "no read of a level's number format found")
	}
}

// elemFieldsOfSliceField: which fields of the elements of a slice held in a struct field the function fn reads,
// keyed by the name of that struct field (cm.rangeMappings[i].StartCode -> {"rangeMappings": {"StartCode"}}).
func elemFieldsOfSliceField(fn *ssa.Function) map[string]map[string]bool {
	out := map[string]map[string]bool{}
	eng.Instrs(fn, true, func(in ssa.Instruction) {
		var base ssa.Value
		var field string
		switch x := in.(type) {
		case *ssa.FieldAddr:
			if fr, ok := eng.AsField(x); ok {
				base, field = x.X, fr.Field
			}
		case *ssa.Field:
			if fr, ok := eng.AsField(x); ok {
				base, field = x.X, fr.Field
			}
		}
		if base == nil {
			return
		}
		for w := range eng.Slice(base, nil) {
			var sl ssa.Value
			switch y := w.(type) {
			case *ssa.IndexAddr:
				sl = y.X
			case *ssa.Index:
				sl = y.X
			}
			if sl == nil {
				continue
			}
			if fr, ok := eng.LoadOfField(sl); ok {
				if out[fr.Field] == nil {
					out[fr.Field] = map[string]bool{}
				}
				out[fr.Field][field] = true
			}
		}
	})
	return out
}

// R7.5 [C07]
func ruleSearchKeyIsSortKey(c *eng.Ctx) {
	const R = "R7.5-SEARCH-KEY-IS-SORT-KEY"
	c.Rule(R, "a binary search over a list kept in a struct field looks at the field the list is sorted by: where sort.Search's predicate reads field F of the elements of a list and the module sorts that list with sort.Slice, the less function compares F too. A list ordered by another field (the targets of a bfrange instead of its source codes) makes the search land on the wrong entry whenever the two orders differ", 0, 1)
	type use struct {
		fn     *ssa.Function
		pos    token.Pos
		fields map[string]map[string]bool
	}
	var searches, sorts []use
	for _, fn := range c.P.ModuleFuncs() {
		if fn.Blocks == nil {
			continue
		}
		eng.Instrs(fn, false, func(in ssa.Instruction) {
			ci, ok := in.(ssa.CallInstruction)
			if !ok {
				return
			}
			name := eng.CalleeName(ci)
			args := ci.Common().Args
			closure := func(v ssa.Value) *ssa.Function {
				if mc, ok := v.(*ssa.MakeClosure); ok {
					f, _ := mc.Fn.(*ssa.Function)
					return f
				}
				f, _ := v.(*ssa.Function)
				return f
			}
			switch name {
			case "sort.Search":
				if len(args) == 2 {
					if g := closure(args[1]); g != nil {
						searches = append(searches, use{fn, ci.Pos(), elemFieldsOfSliceField(g)})
					}
				}
			case "sort.Slice", "sort.SliceStable":
				if len(args) == 2 {
					if g := closure(args[1]); g != nil {
						sorts = append(sorts, use{fn, ci.Pos(), elemFieldsOfSliceField(g)})
					}
				}
			}
		})
	}
	n := 0
	for _, s := range searches {
		var lists []string
		for l := range s.fields {
			lists = append(lists, l)
		}
		sort.Strings(lists)
		for _, l := range lists {
			for _, so := range sorts {
				sf, ok := so.fields[l]
				if !ok {
					continue
				}
				n++
				common := false
				for f := range s.fields[l] {
					if sf[f] {
						common = true
					}
				}
				c.Check(common, R, fmt.Sprintf("%s#search(%s)", eng.FuncName(s.fn), l), s.pos, "searched by the field it is sorted by", fmt.Sprintf("the list %s is searched by %v but sorted (at %s) by %v: the binary search assumes an order the list does not have", l, keysOf(s.fields[l]), c.P.Pos(so.pos), keysOf(sf)))
			}
		}
	}
	c.Ok(R, "module#scanned", token.NoPos, fmt.Sprintf("%d binary searches, %d checked against a sort of the same list", len(searches), n))
}

// R13.8 [C12, C13]
func ruleIndexUnits(c *eng.Ctx) {
	const R = "R13.8-INDEX-UNITS"
	c.Rule(R, "positions counted in code points are not used as byte offsets: a struct field of the rag package that is assigned an index into a []rune (the loop variable that walks the runes, len(runes)) is never — directly, through a local, or through the parameters of a closure — the bound of a slice expression on a string, or an index into one. For text with multi-byte characters such a cut lands inside a character and leaves out the end of the text", 2, 1)
	isRuneSlice := func(t types.Type) bool {
		sl, ok := t.Underlying().(*types.Slice)
		if !ok {
			return false
		}
		b, ok := sl.Elem().Underlying().(*types.Basic)
		return ok && b.Kind() == types.Int32
	}
	isStringT := func(t types.Type) bool {
		b, ok := t.Underlying().(*types.Basic)
		return ok && b.Info()&types.IsString != 0
	}
	// a value counted in runes: len of a []rune, or a value used as index into a []rune
	runeIdx := map[ssa.Value]bool{}
	var fns []*ssa.Function
	for _, fn := range c.P.ModuleFuncs() {
		if fn.Pkg == nil || fn.Blocks == nil {
			continue
		}
		sp := eng.ShortPath(fn.Pkg.Pkg.Path())
		if sp != "rag" && !strings.Contains(sp, eng.PositivePkg) {
			continue
		}
		fns = append(fns, fn)
		eng.Instrs(fn, false, func(in ssa.Instruction) {
			switch x := in.(type) {
			case *ssa.IndexAddr:
				if isRuneSlice(x.X.Type()) {
					runeIdx[x.Index] = true
				}
			case *ssa.Index:
				if isRuneSlice(x.X.Type()) {
					runeIdx[x.Index] = true
				}
			case *ssa.Call:
				if eng.CalleeName(x) == "builtin:len" && isRuneSlice(x.Call.Args[0].Type()) {
					runeIdx[x] = true
				}
			}
		})
	}
	type fkey struct {
		st  string
		idx int
	}
	runeField := map[fkey]string{}
	runeParam := map[*ssa.Parameter]bool{}
	fieldOf := func(v ssa.Value) (fkey, bool) {
		switch x := v.(type) {
		case *ssa.UnOp:
			if fa, ok := x.X.(*ssa.FieldAddr); ok && x.Op == token.MUL {
				return fkey{strings.TrimPrefix(eng.TypeName(fa.X.Type()), "*"), fa.Field}, true
			}
		case *ssa.Field:
			return fkey{strings.TrimPrefix(eng.TypeName(x.X.Type()), "*"), x.Field}, true
		}
		return fkey{}, false
	}
	derivesFromRune := func(v ssa.Value) bool {
		for w := range eng.Slice(v, nil) {
			if runeIdx[w] {
				return true
			}
			// i+1 where i walks the runes: the induction phi behind the index
			if b, ok := w.(*ssa.BinOp); ok && (runeIdx[b.X] || runeIdx[b.Y]) {
				return true
			}
			// a position handed on through a parameter or kept in a field that counts code points
			if p, ok := w.(*ssa.Parameter); ok && runeParam[p] {
				return true
			}
			if fk, ok := fieldOf(w); ok {
				if _, is := runeField[fk]; is {
					return true
				}
			}
		}
		return false
	}
	for changed, round := true, 0; changed && round < 4; round++ {
		changed = false
		for _, fn := range fns {
			eng.Instrs(fn, false, func(in ssa.Instruction) {
				switch x := in.(type) {
				case *ssa.Store:
					fa, ok := x.Addr.(*ssa.FieldAddr)
					if !ok {
						return
					}
					if b, ok := x.Val.Type().Underlying().(*types.Basic); !ok || b.Kind() != types.Int {
						return
					}
					k := fkey{strings.TrimPrefix(eng.TypeName(fa.X.Type()), "*"), fa.Field}
					if _, had := runeField[k]; !had && derivesFromRune(x.Val) {
						if fr, ok := eng.AsField(fa); ok {
							runeField[k] = fr.Struct + "." + fr.Field
							changed = true
						}
					}
				case ssa.CallInstruction:
					g := eng.StaticCallee(x)
					if g == nil || g.Pkg != fn.Pkg || g.Blocks == nil {
						return
					}
					for i, a := range eng.ArgsWithRecv(x) {
						if i >= len(g.Params) || runeParam[g.Params[i]] {
							continue
						}
						if b, ok := a.Type().Underlying().(*types.Basic); !ok || b.Kind() != types.Int {
							continue
						}
						if derivesFromRune(a) {
							runeParam[g.Params[i]] = true
							changed = true
						}
					}
				}
			})
		}
	}
	var names []string
	for _, v := range runeField {
		names = append(names, v)
	}
	sort.Strings(names)
	for _, nm := range dedupStr(names) {
		c.Ok(R, "field "+nm, token.NoPos, "counted in code points")
	}
	for _, fn := range fns {
		if fn.Parent() != nil {
			continue
		}
		cluster := append([]*ssa.Function{fn}, fn.AnonFuncs...)
		n := 0
		for _, h := range cluster {
			eng.Instrs(h, false, func(in ssa.Instruction) {
				var bounds []ssa.Value
				switch x := in.(type) {
				case *ssa.Slice:
					if isStringT(x.X.Type()) {
						bounds = []ssa.Value{x.Low, x.High}
					}
				case *ssa.Index:
					if isStringT(x.X.Type()) {
						bounds = []ssa.Value{x.Index}
					}
				}
				for _, b := range bounds {
					if b == nil {
						continue
					}
					if _, isC := eng.ConstInt(b); isC {
						continue
					}
					bad := ""
					for w := range eng.SliceInter(b, nil, cluster) {
						if fk, ok := fieldOf(w); ok {
							if nm, is := runeField[fk]; is {
								bad = nm
							}
						}
						if runeIdx[w] {
							bad = "an index into a []rune"
						}
						if p, ok := w.(*ssa.Parameter); ok && runeParam[p] {
							bad = "the parameter " + p.Name() + ", which callers fill with a position counted in code points,"
						}
					}
					if bad != "" {
						n++
						c.Viol(R, fmt.Sprintf("%s#string-cut%d", eng.FuncName(fn), n), in.Pos(), "a string is cut at a position that comes from "+bad+", which counts code points, not bytes: with multi-byte characters the cut falls inside a character and the text after the last cut is lost")
					}
				}
			})
		}
	}
}

// consumesIntoChunkText: g stores a value that derives from its k-th parameter into the Text of a rag.Chunk, itself or
// through a module function it hands the value to.
func consumesIntoChunkText(g *ssa.Function, k int, depth int) bool {
	if g == nil || g.Blocks == nil || k >= len(g.Params) || depth > 3 {
		return false
	}
	p := ssa.Value(g.Params[k])
	found := false
	eng.Instrs(g, false, func(in ssa.Instruction) {
		if found {
			return
		}
		switch x := in.(type) {
		case *ssa.Store:
			if fr, ok := eng.AsField(x.Addr); ok && fr.Field == "Text" && strings.HasSuffix(fr.Struct, "rag.Chunk") {
				for w := range eng.Slice(x.Val, func(*ssa.Call) bool { return true }) {
					if w == p {
						found = true
					}
				}
			}
		case ssa.CallInstruction:
			h := eng.StaticCallee(x)
			if h == nil || !eng.InModule(h) || h == g {
				return
			}
			for j, a := range eng.ArgsWithRecv(x) {
				for w := range eng.Slice(a, func(*ssa.Call) bool { return true }) {
					if w == p && consumesIntoChunkText(h, j, depth+1) {
						found = true
					}
				}
			}
		}
	})
	return found
}

// R13.9 [C13, C12]
func ruleFlushConsumesPending(c *eng.Ctx) {
	const R = "R13.9-FLUSH-CONSUMES-PENDING"
	c.Rule(R, "in the paragraph chunker's flush, once the pending text has gone into a chunk (stored into a chunk's Text, or handed to a function that does so) every way out of the flush passes a Reset of the pending buffer, directly or through a helper that resets it. A return that leaves the buffer as it was puts the same text into the next chunk again", 1, 0)
	host := c.P.Func("rag.(*Chunker).splitSectionByParagraphs")
	if host == nil {
		c.Undec(R, "rag.(*Chunker).splitSectionByParagraphs", token.NoPos, "anchor not found")
		return
	}
	isBuilderCall := func(ci ssa.CallInstruction, method string) bool {
		n := eng.CalleeName(ci)
		return n == "strings.(*Builder)."+method || n == "bytes.(*Buffer)."+method
	}
	resets := func(f *ssa.Function) bool {
		r := false
		eng.Instrs(f, false, func(in ssa.Instruction) {
			if ci, ok := in.(ssa.CallInstruction); ok && isBuilderCall(ci, "Reset") {
				r = true
			}
		})
		return r
	}
	n := 0
	for _, fl := range host.AnonFuncs {
		// the flush: a closure that takes the content of a builder and resets it
		var taken []*ssa.Call
		eng.Instrs(fl, false, func(in ssa.Instruction) {
			if call, ok := in.(*ssa.Call); ok && isBuilderCall(call, "String") {
				taken = append(taken, call)
			}
		})
		if len(taken) == 0 || !resets(fl) && func() bool {
			for _, ci := range eng.Calls(fl, false, func(string, ssa.CallInstruction) bool { return true }) {
				if gs, _ := eng.DynCallees(ci); len(gs) > 0 {
					for _, g := range gs {
						if resets(g) {
							return false
						}
					}
				}
			}
			return true
		}() {
			continue
		}
		n++
		fromPending := func(v ssa.Value) bool {
			for w := range eng.Slice(v, func(*ssa.Call) bool { return true }) {
				for _, t := range taken {
					if w == ssa.Value(t) {
						return true
					}
				}
			}
			return false
		}
		isReset := func(in ssa.Instruction) bool {
			ci, ok := in.(ssa.CallInstruction)
			if !ok {
				return false
			}
			if isBuilderCall(ci, "Reset") {
				return true
			}
			if g := eng.StaticCallee(ci); g != nil && eng.InModule(g) && resets(g) {
				return true
			}
			if eng.StaticCallee(ci) == nil {
				if gs, _ := eng.DynCallees(ci); len(gs) > 0 {
					for _, g := range gs {
						if resets(g) {
							return true
						}
					}
				}
			}
			return false
		}
		isConsume := func(in ssa.Instruction) bool {
			switch x := in.(type) {
			case *ssa.Store:
				if fr, ok := eng.AsField(x.Addr); ok && fr.Field == "Text" && strings.HasSuffix(fr.Struct, "rag.Chunk") && fromPending(x.Val) {
					return true
				}
			case ssa.CallInstruction:
				g := eng.StaticCallee(x)
				if g == nil || !eng.InModule(g) {
					return false
				}
				for j, a := range eng.ArgsWithRecv(x) {
					if fromPending(a) && consumesIntoChunkText(g, j, 0) {
						return true
					}
				}
			}
			return false
		}
		// blocks that end with the pending text consumed and not yet reset
		dirty := map[*ssa.BasicBlock]token.Pos{}
		hasReset := map[*ssa.BasicBlock]bool{}
		for _, b := range fl.Blocks {
			d := token.NoPos
			isDirty := false
			for _, in := range b.Instrs {
				if isConsume(in) {
					isDirty, d = true, in.Pos()
				}
				if isReset(in) {
					isDirty = false
					hasReset[b] = true
				}
			}
			if isDirty {
				dirty[b] = d
			}
		}
		bad := ""
		for b, pos := range dirty {
			reach := eng.ReachableBlocks(b.Succs, func(x *ssa.BasicBlock) bool { return hasReset[x] })
			if len(b.Succs) == 0 {
				reach[b] = true
			}
			for x := range reach {
				if len(x.Instrs) > 0 {
					if _, isRet := x.Instrs[len(x.Instrs)-1].(*ssa.Return); isRet {
						bad = c.P.Pos(pos)
					}
				}
			}
		}
		c.Check(bad == "", R, fmt.Sprintf("%s#consume-then-reset", eng.FuncName(fl)), fl.Pos(), "every way out after the text was used resets the buffer", "the pending text goes into a chunk at "+bad+" and the flush can return from there without resetting the buffer: the same text is emitted again with the next chunk (duplicated content)")
	}
	if n == 0 {
		c.Undec(R, "rag.(*Chunker).splitSectionByParagraphs#flush", host.Pos(), "no flush closure found (one that takes the builder's content and resets it)")
	}
}

// R2.20 [C02, C07]
func ruleUnitDecoderReads(c *eng.Ctx) {
	const R = "R2.20-UNIT-DECODER-READS"
	c.Rule(R, "the two-byte decoders of the font package (DecodeUTF16BE, DecodeUTF16LE and their siblings that walk a byte slice in steps of two) read data[i+k] only where i+k < len(data) follows from the conditions on the way: from a test i+c < len(data) with c >= k, or — the cursor being even — from such a test with c = k-1 together with the input having been brought to an even length before the loop. A surrogate pair read as data[i+3] behind i+2 < len(data) is a read past the end for input of odd length unless the padding is there", 1, 0)
	for _, fn := range c.P.ModuleFuncs() {
		if fn.Pkg == nil || fn.Blocks == nil || fn.Parent() != nil || eng.ShortPath(fn.Pkg.Pkg.Path()) != "font" {
			continue
		}
		// a byte-slice parameter walked by an induction variable in steps of two
		var data *ssa.Parameter
		for _, p := range fn.Params {
			if sl, ok := p.Type().Underlying().(*types.Slice); ok {
				if b, ok := sl.Elem().Underlying().(*types.Basic); ok && b.Kind() == types.Uint8 {
					data = p
				}
			}
		}
		if data == nil {
			continue
		}
		isData := func(v ssa.Value) bool {
			seen := map[ssa.Value]bool{}
			var walk func(v ssa.Value) bool
			walk = func(v ssa.Value) bool {
				if v == nil || seen[v] {
					return false
				}
				seen[v] = true
				switch x := v.(type) {
				case *ssa.Parameter:
					return x == data
				case *ssa.Phi:
					for _, e := range x.Edges {
						if walk(e) {
							return true
						}
					}
				case *ssa.Call:
					if eng.CalleeName(x) == "builtin:append" {
						return walk(x.Call.Args[0])
					}
				}
				return false
			}
			return walk(v)
		}
		var cursor *ssa.Phi
		evenSteps := true
		eng.Instrs(fn, false, func(in ssa.Instruction) {
			ph, ok := in.(*ssa.Phi)
			if !ok || !isLoopCarried(ph) {
				return
			}
			if b, ok := ph.Type().Underlying().(*types.Basic); !ok || b.Kind() != types.Int {
				return
			}
			two := false
			// the amounts the variable grows by per trip, through the joins of the loop body
			var steps func(v ssa.Value, add int64, depth int)
			seenStep := map[ssa.Value]bool{}
			steps = func(v ssa.Value, add int64, depth int) {
				if depth > 8 {
					evenSteps = false
					return
				}
				if v == ssa.Value(ph) {
					if add == 2 {
						two = true
					}
					if add%2 != 0 {
						evenSteps = false
					}
					return
				}
				switch x := v.(type) {
				case *ssa.BinOp:
					if k, isC := eng.ConstInt(x.Y); isC && x.Op == token.ADD {
						steps(x.X, add+k, depth+1)
						return
					}
				case *ssa.Phi:
					if seenStep[x] {
						return
					}
					seenStep[x] = true
					for _, e := range x.Edges {
						steps(e, add, depth+1)
					}
					return
				case *ssa.Const:
					return // the initial value
				}
				evenSteps = false
			}
			for _, e := range ph.Edges {
				steps(e, 0, 0)
			}
			if two && cursor == nil {
				cursor = ph
			}
		})
		if cursor == nil {
			continue
		}
		startsEven := false
		for i, e := range cursor.Edges {
			_ = i
			if k, isC := eng.ConstInt(e); isC && k%2 == 0 {
				startsEven = true
			}
		}
		// the input was brought to an even length: a test of len(data)%2 whose odd side grows or cuts the slice
		evenLen := false
		eng.Instrs(fn, false, func(in ssa.Instruction) {
			b, ok := in.(*ssa.BinOp)
			if !ok || b.Op != token.REM {
				return
			}
			if k, isC := eng.ConstInt(b.Y); !isC || k != 2 {
				return
			}
			if call, ok := b.X.(*ssa.Call); ok && eng.CalleeName(call) == "builtin:len" && isData(call.Call.Args[0]) {
				// some value of the slice other than the parameter itself is in use (the padded or cut one)
				eng.Instrs(fn, false, func(i2 ssa.Instruction) {
					switch y := i2.(type) {
					case *ssa.Call:
						if eng.CalleeName(y) == "builtin:append" && y.Call.Args[0] == ssa.Value(data) {
							evenLen = true
						}
					case *ssa.Slice:
						if y.X == ssa.Value(data) && y.High != nil {
							evenLen = true
						}
					}
				})
			}
		})
		leaf := func(v ssa.Value) (*eng.Poly, bool) {
			if v == ssa.Value(cursor) {
				return eng.PSym("i"), true
			}
			if call, ok := v.(*ssa.Call); ok && eng.CalleeName(call) == "builtin:len" && isData(call.Call.Args[0]) {
				return eng.PSym("len"), true
			}
			return nil, false
		}
		n := 0
		eng.Instrs(fn, false, func(in ssa.Instruction) {
			ia, ok := in.(*ssa.IndexAddr)
			if !ok || !isData(ia.X) {
				return
			}
			p, ok := eng.IntPoly(ia.Index, leaf)
			if !ok {
				return
			}
			r, isC := p.Sub(eng.PSym("i")).IsConst()
			if !isC || !r.IsInt() {
				return
			}
			k := r.Num().Int64()
			n++
			// the strongest i+c < len on every path here
			best := int64(-1)
			for cand := int64(8); cand >= 0; cand-- {
				cc := cand
				if eng.GuardedBy(fn, ia.Block(), func(f eng.Fact) bool {
					op, x, y, ok := f.Cmp()
					if !ok {
						return false
					}
					px, okx := eng.IntPoly(x, leaf)
					py, oky := eng.IntPoly(y, leaf)
					if !okx || !oky {
						return false
					}
					d := px.Sub(py).Sub(eng.PSym("i")).Add(eng.PSym("len"))
					rr, isC := d.IsConst()
					flip := false
					if !isC {
						d = px.Sub(py).Add(eng.PSym("i")).Sub(eng.PSym("len"))
						rr, isC = d.IsConst()
						flip = true
					}
					if !isC || !rr.IsInt() {
						return false
					}
					ab := rr.Num().Int64()
					if flip {
						ab = -ab
						op = eng.Swap(op)
					}
					switch op {
					case token.LSS:
						return ab >= cc
					case token.LEQ:
						return ab-1 >= cc
					}
					return false
				}) {
					best = cand
					break
				}
			}
			// odd lengths may also have been refused: the read sits behind len(data)%2 == 0
			evenHere := evenLen || eng.GuardedBy(fn, ia.Block(), func(f eng.Fact) bool {
				op, x, y, ok := f.Cmp()
				if !ok || op != token.EQL {
					return false
				}
				for _, pair := range [][2]ssa.Value{{x, y}, {y, x}} {
					if k0, isC := eng.ConstInt(pair[1]); !isC || k0 != 0 {
						continue
					}
					if b, ok := pair[0].(*ssa.BinOp); ok && b.Op == token.REM {
						if k2, isC := eng.ConstInt(b.Y); isC && k2 == 2 {
							if call, ok := b.X.(*ssa.Call); ok && eng.CalleeName(call) == "builtin:len" && isData(call.Call.Args[0]) {
								return true
							}
						}
					}
				}
				return false
			})
			ok2 := best >= k || (evenHere && evenSteps && startsEven && k%2 == 1 && best >= k-1 && best%2 == 0)
			c.Check(ok2, R, fmt.Sprintf("%s#data[i+%d]#%d", eng.FuncName(fn), k, n), ia.Pos(), fmt.Sprintf("i+%d < len(data) follows (tested: i+%d, even length: %v)", k, best, evenHere), fmt.Sprintf("data[i+%d] is read where only i+%d < len(data) is established and the input is not known to have even length: input that ends in the middle of a code unit (odd length) is read past the end (index out of range)", k, best))
		})
	}
}

// R2.21 [C02]
func ruleIndexPairOrdered(c *eng.Ctx) {
	const R = "R2.21-INDEX-PAIR-ORDERED"
	c.Rule(R, "a string is cut between two positions found by two searches (s[i+1:j] with i and j from strings.Index and its relatives) only where j cannot lie before i: the second search ran on the part of the string after i, or the two positions were compared on the way. A closing bracket that happens to stand before the opening one otherwise makes the slice expression panic (slice bounds out of range)", 5, 1)
	isSearch := func(v ssa.Value) (*ssa.Call, bool) {
		call, ok := v.(*ssa.Call)
		if !ok {
			return nil, false
		}
		switch eng.CalleeName(call) {
		case "strings.Index", "strings.IndexByte", "strings.IndexRune", "strings.IndexAny", "strings.LastIndex", "strings.LastIndexByte", "strings.LastIndexAny", "bytes.Index", "bytes.IndexByte", "bytes.LastIndex", "bytes.LastIndexByte", "bytes.IndexAny":
			return call, true
		}
		return nil, false
	}
	// the searches a position derives from (through +c and phis)
	var searchesOf func(v ssa.Value, seen map[ssa.Value]bool, out map[*ssa.Call]bool)
	searchesOf = func(v ssa.Value, seen map[ssa.Value]bool, out map[*ssa.Call]bool) {
		if v == nil || seen[v] {
			return
		}
		seen[v] = true
		if call, ok := isSearch(v); ok {
			out[call] = true
			return
		}
		switch x := v.(type) {
		case *ssa.BinOp:
			if x.Op == token.ADD || x.Op == token.SUB {
				searchesOf(x.X, seen, out)
				searchesOf(x.Y, seen, out)
			}
		case *ssa.Phi:
			for _, e := range x.Edges {
				searchesOf(e, seen, out)
			}
		}
	}
	for _, fn := range c.P.ModuleFuncs() {
		if fn.Blocks == nil {
			continue
		}
		n := 0
		eng.Instrs(fn, false, func(in ssa.Instruction) {
			sl, ok := in.(*ssa.Slice)
			if !ok || sl.Low == nil || sl.High == nil {
				return
			}
			if _, isC := eng.ConstInt(sl.Low); isC {
				return
			}
			lo, hi := map[*ssa.Call]bool{}, map[*ssa.Call]bool{}
			searchesOf(sl.Low, map[ssa.Value]bool{}, lo)
			searchesOf(sl.High, map[ssa.Value]bool{}, hi)
			if len(lo) == 0 || len(hi) == 0 {
				return
			}
			n++
			key := fmt.Sprintf("%s#cut%d", eng.FuncName(fn), n)
			// (1) every search behind the upper bound ran on a part of the string that starts at the lower position
			after := true
			for h := range hi {
				arg, ok := h.Call.Args[0].(*ssa.Slice)
				okH := false
				if ok && arg.Low != nil {
					from := map[*ssa.Call]bool{}
					searchesOf(arg.Low, map[ssa.Value]bool{}, from)
					all := len(from) > 0
					for l := range lo {
						if !from[l] {
							all = false
						}
					}
					okH = all
				}
				if lo[h] { // the same search on both sides (s[i:i+k])
					okH = true
				}
				if !okH {
					after = false
				}
			}
			// (2) or the two bounds were compared on the way here
			compared := eng.GuardedBy(fn, sl.Block(), func(f eng.Fact) bool {
				op, x, y, ok := f.Cmp()
				if !ok || op == token.EQL || op == token.NEQ {
					return false
				}
				sx, sy := map[*ssa.Call]bool{}, map[*ssa.Call]bool{}
				searchesOf(x, map[ssa.Value]bool{}, sx)
				searchesOf(y, map[ssa.Value]bool{}, sy)
				inter := func(a, b map[*ssa.Call]bool) bool {
					for k := range a {
						if b[k] {
							return true
						}
					}
					return false
				}
				return (inter(sx, lo) && inter(sy, hi)) || (inter(sx, hi) && inter(sy, lo))
			})
			c.Check(after || compared, R, key, sl.Pos(), "the upper position cannot lie before the lower one", "the string is cut from one search result to another without anything that orders them (the second search ran on the whole string and the positions are never compared): input in which the second mark stands before the first panics with slice bounds out of range")
		})
	}
}

// R2.22 [C02]
func ruleTailIndexGuarded(c *eng.Ctx) {
	const R = "R2.22-TAIL-INDEX-GUARDED"
	c.Rule(R, "an element further back than the last one, x[len(x)-k] with k >= 2, is read only where len(x) >= k is established on the way (a comparison of len(x) with a constant, or of the position itself with 0): text that is shorter than the look-behind — a one-letter sentence after a reset of the buffer — otherwise indexes at -1 and panics", 1, 1)
	for _, fn := range c.P.ModuleFuncs() {
		if fn.Blocks == nil {
			continue
		}
		n := 0
		eng.Instrs(fn, true, func(in ssa.Instruction) {
			var base, index ssa.Value
			switch x := in.(type) {
			case *ssa.IndexAddr:
				base, index = x.X, x.Index
			case *ssa.Index:
				base, index = x.X, x.Index
			default:
				return
			}
			sub, ok := index.(*ssa.BinOp)
			if !ok || sub.Op != token.SUB {
				return
			}
			k, isC := eng.ConstInt(sub.Y)
			if !isC || k < 2 {
				return // x[len(x)-1] is the "last element" idiom: whether x is non-empty is an invariant of how it was built
			}
			ln, ok := sub.X.(*ssa.Call)
			if !ok || eng.CalleeName(ln) != "builtin:len" || !eng.SameValue(ln.Call.Args[0], base) {
				return
			}
			n++
			host := in.Parent()
			isLen := func(v ssa.Value) bool {
				call, ok := v.(*ssa.Call)
				return ok && eng.CalleeName(call) == "builtin:len" && eng.SameValue(call.Call.Args[0], base)
			}
			guarded := eng.GuardedBy(host, in.Block(), func(f eng.Fact) bool {
				op, x, y, ok := f.Cmp()
				if !ok {
					return false
				}
				if cst, isC := eng.ConstInt(y); isC && isLen(x) {
					return (op == token.GEQ && cst >= k) || (op == token.GTR && cst >= k-1) || (op == token.EQL && cst >= k) || (op == token.NEQ && cst == 0 && k == 1)
				}
				if cst, isC := eng.ConstInt(x); isC && isLen(y) {
					return (op == token.LEQ && cst >= k) || (op == token.LSS && cst >= k-1) || (op == token.NEQ && cst == 0 && k == 1)
				}
				// len(x)-k >= 0 spelled on the position
				if cst, isC := eng.ConstInt(y); isC && eng.SameValue(x, index) {
					return (op == token.GEQ && cst >= 0) || (op == token.GTR && cst >= -1)
				}
				return false
			})
			if !guarded {
				// the slice was just extended in this block (append(x, e)[len-1]) or is a non-empty literal
				if call, ok := base.(*ssa.Call); ok && eng.CalleeName(call) == "builtin:append" && k == 1 {
					guarded = true
				}
			}
			c.Check(guarded, R, fmt.Sprintf("%s#tail%d(len-%d)", eng.FuncName(fn), n, k), in.Pos(), fmt.Sprintf("len >= %d holds", k), fmt.Sprintf("x[len(x)-%d] is read without len(x) >= %d being established: a value shorter than that indexes below 0 (index out of range)", k, k))
		})
	}
}

// ---------------------------------------------------------------------------------------------------------------
// guards established by an earlier stage of a pipeline

// okExitsGuarded: every way h returns without an error (last result a nil error; for a function without an error
// result: every return) crossed an edge satisfying pred inside h.
func okExitsGuarded(h *ssa.Function, pred func(eng.Fact) bool) bool {
	if h == nil || h.Blocks == nil {
		return false
	}
	n := 0
	for _, e := range eng.Exits(h) {
		if k := len(e.Results); k > 0 {
			if _, isErr := e.Results[k-1].Type().Underlying().(*types.Interface); isErr && !eng.IsNilConst(e.Results[k-1]) {
				maybeNil := false
				switch e.Results[k-1].(type) {
				case *ssa.Extract, *ssa.Phi, *ssa.Parameter:
					maybeNil = true // an error passed on from a callee: nil unless it was tested
				}
				if !maybeNil {
					continue // a freshly made error (fmt.Errorf, a sentinel): an error exit
				}
				if _, isC := e.Results[k-1].(*ssa.Const); !isC {
					// a non-constant error: returned as err after `if err != nil`, or possibly nil — treat a value
					// that is tested non-nil on the way as an error exit
					errv := e.Results[k-1]
					if eng.ExitGuarded(h, e, func(f eng.Fact) bool {
						op, x, y, ok := f.Cmp()
						return ok && op == token.NEQ && ((x == errv && eng.IsNilConst(y)) || (y == errv && eng.IsNilConst(x)))
					}) {
						continue
					}
				} else {
					continue
				}
			}
		}
		n++
		if !eng.ExitGuarded(h, e, pred) {
			return false
		}
	}
	return n > 0
}

// pipelineGuarded: block b of fn is reached only after a fact satisfying pred — established in fn itself, or by an
// earlier stage: a call in fn to a function of the package whose error result is tested nil on the way to b and
// which returns without error only where pred held inside it.
func pipelineGuarded(fn *ssa.Function, b *ssa.BasicBlock, pred func(eng.Fact) bool) bool {
	if eng.GuardedBy(fn, b, pred) {
		return true
	}
	found := false
	eng.Instrs(fn, false, func(in ssa.Instruction) {
		call, ok := in.(*ssa.Call)
		if !ok || found {
			return
		}
		h := eng.StaticCallee(call)
		if h == nil || h.Pkg != fn.Pkg || h == fn || h.Blocks == nil {
			return
		}
		var errv ssa.Value
		if refs := call.Referrers(); refs != nil {
			for _, r := range *refs {
				if ex, ok := r.(*ssa.Extract); ok {
					if _, isErr := ex.Type().Underlying().(*types.Interface); isErr && ex.Type().String() == "error" {
						errv = ex
					}
				}
			}
		}
		if _, isErr := call.Type().Underlying().(*types.Interface); isErr && call.Type().String() == "error" {
			errv = call
		}
		if errv == nil || !eng.GuardedBy(fn, b, errIsNilFact(errv)) {
			return
		}
		if okExitsGuarded(h, pred) {
			found = true
		}
	})
	return found
}

// stageGuarded: an instruction in stage function host (fn itself, or a function of fn's package that fn calls from one
// site) is reached only after pred: inside host, or on the way to host's call site in fn (pipeline stages included).
func stageGuarded(fn, host *ssa.Function, at *ssa.BasicBlock, pred func(eng.Fact) bool) bool {
	if host == fn {
		return pipelineGuarded(fn, at, pred)
	}
	if pipelineGuarded(host, at, pred) {
		return true
	}
	var sites []ssa.CallInstruction
	for _, ci := range eng.Calls(fn, true, func(_ string, ci ssa.CallInstruction) bool { return eng.StaticCallee(ci) == host }) {
		sites = append(sites, ci)
	}
	if len(sites) == 0 {
		return false
	}
	for _, s := range sites {
		if s.Parent() != fn || !pipelineGuarded(fn, s.Block(), pred) {
			return false
		}
	}
	return true
}

// R8.7 [C08]
func ruleFontSizeUnderRotation(c *eng.Ctx) {
	const R = "R8.7-FONT-SIZE-UNDER-ROTATION"
	c.Rule(R, "the scale GetEffectiveFontSize takes from the text matrix is the length of a transformed unit vector: the value it returns is computed from both components of the image of the baseline direction (a and b) or both components of the image of the perpendicular (c and d). A scale read off the diagonal (a and d alone) is cos(angle) times too small for rotated text and 0 at a right angle", 1, 0)
	fn := c.P.Func("graphicsstate.(*GraphicsState).GetEffectiveFontSize")
	if fn == nil {
		c.Undec(R, "graphicsstate.(*GraphicsState).GetEffectiveFontSize", token.NoPos, "anchor not found")
		return
	}
	used := map[int64]bool{}
	for _, r := range eng.Returns(fn) {
		for _, res := range r.Results {
			for w := range eng.SliceInter(res, func(*ssa.Call) bool { return true }, eng.Cluster(fn, 1)) {
				var base, index ssa.Value
				switch x := w.(type) {
				case *ssa.IndexAddr:
					base, index = x.X, x.Index
				case *ssa.Index:
					base, index = x.X, x.Index
				default:
					continue
				}
				k, isC := eng.ConstInt(index)
				if !isC {
					continue
				}
				for v := range eng.Slice(base, nil) {
					if fr, ok := eng.AsField(v); ok && fr.Field == "TextMatrix" {
						used[k] = true
					}
				}
			}
		}
	}
	var ks []string
	for k := range used {
		ks = append(ks, fmt.Sprint(k))
	}
	sort.Strings(ks)
	ok := (used[0] && used[1]) || (used[2] && used[3])
	c.Check(ok, R, "graphicsstate.(*GraphicsState).GetEffectiveFontSize#components", fn.Pos(), "uses components "+strings.Join(ks, ",")+" of the text matrix", "the font size is scaled by components "+strings.Join(ks, ",")+" of the text matrix only: neither (a,b) nor (c,d) is complete, so text under a rotated text matrix is reported too small (0 at 90 degrees)")
}

// R8.8 [C08]
func ruleFormStateIsolated(c *eng.Ctx) {
	const R = "R8.8-FORM-STATE-ISOLATED"
	c.Rule(R, "painting a form XObject behaves as if its content stood between q and Q, with the form's /Matrix applied: (a) the /Matrix entry is resolved before it is taken for an array (it may be an indirect reference); (b) after the form's operations the q/Q stack is brought back to the depth it had when the form was entered (states the form saved and never restored are dropped there, not left for the caller's next Q); (c) a Q inside a form is carried out only while the stack is deeper than it was on entry (a stray Q does not pop a state the caller saved)", 3, 0)
	fn := c.P.Func("text.(*Extractor).invokeXObject")
	po := c.P.Func("text.(*Extractor).processOperation")
	if fn == nil || po == nil {
		c.Undec(R, "text.(*Extractor).invokeXObject", token.NoPos, "anchor not found")
		return
	}
	cluster := eng.Cluster(fn, 1)
	// (a)
	okMatrix, nMatrix := true, 0
	for _, h := range cluster {
		if h.Pkg != fn.Pkg {
			continue
		}
		eng.Instrs(h, false, func(in ssa.Instruction) {
			ta, ok := in.(*ssa.TypeAssert)
			if !ok || !strings.HasSuffix(eng.TypeName(ta.AssertedType), "core.Array") {
				return
			}
			fromMatrix, resolved := false, false
			for w := range eng.Slice(ta.X, func(*ssa.Call) bool { return true }) {
				call, ok := w.(*ssa.Call)
				if !ok {
					continue
				}
				n := eng.CalleeName(call)
				if strings.HasSuffix(n, "core.Dict.Get") && len(call.Call.Args) == 2 {
					if s, ok := eng.ConstString(call.Call.Args[1]); ok && s == "Matrix" {
						fromMatrix = true
					}
				}
				if strings.Contains(strings.ToLower(n), "resolve") {
					// the resolver must be handed the entry itself (the stream the entry is read from was resolved too)
					for _, a := range eng.ArgsWithRecv(call) {
						for u := range eng.Slice(a, func(*ssa.Call) bool { return true }) {
							if g, ok := u.(*ssa.Call); ok && strings.HasSuffix(eng.CalleeName(g), "core.Dict.Get") && len(g.Call.Args) == 2 {
								if s, ok := eng.ConstString(g.Call.Args[1]); ok && s == "Matrix" {
									resolved = true
								}
							}
						}
					}
				}
			}
			if fromMatrix {
				nMatrix++
				if !resolved {
					okMatrix = false
				}
			}
		})
	}
	if nMatrix == 0 {
		c.Viol(R, "text.(*Extractor).invokeXObject#matrix-resolved", fn.Pos(), "the form's /Matrix is not read at all")
	} else {
		c.Check(okMatrix, R, "text.(*Extractor).invokeXObject#matrix-resolved", fn.Pos(), "the /Matrix entry goes through the resolver", "the /Matrix entry of a form is asserted to an array without being resolved: a matrix written as an indirect reference is ignored and the form's text is reported at the wrong origin")
	}
	// (b) a loop whose condition reads the stack depth and whose body restores
	depthCall := func(v ssa.Value) bool {
		for w := range eng.Slice(v, func(*ssa.Call) bool { return true }) {
			if call, ok := w.(*ssa.Call); ok && strings.HasSuffix(eng.CalleeName(call), ").StackDepth") {
				return true
			}
			if call, ok := w.(*ssa.Call); ok && eng.CalleeName(call) == "builtin:len" {
				if fr, ok := eng.LoadOfField(call.Call.Args[0]); ok && fr.Field == "stack" {
					return true
				}
			}
		}
		return false
	}
	okDrain := false
	for _, h := range cluster {
		if h.Pkg != fn.Pkg && eng.ShortPath(h.Pkg.Pkg.Path()) != "graphicsstate" {
			continue
		}
		for _, b := range h.Blocks {
			iff, ok := lastIf(b)
			if !ok || !eng.InLoop(b) || !depthCall(iff.Cond) {
				continue
			}
			for x := range eng.ReachableBlocks([]*ssa.BasicBlock{b.Succs[0]}, func(y *ssa.BasicBlock) bool { return y == b }) {
				for _, in := range x.Instrs {
					if ci, ok := in.(ssa.CallInstruction); ok && strings.HasSuffix(eng.CalleeName(ci), ").Restore") {
						okDrain = true
					}
				}
			}
		}
	}
	c.Check(okDrain, R, "text.(*Extractor).invokeXObject#stack-restored", fn.Pos(), "states left on the stack by the form are dropped when it ends", "after a form's operations the q/Q stack is not brought back to its depth at entry: a q the form never closed makes the caller's next Q restore the form's state (its /Matrix included) instead of the caller's own")
	// (c) the Q handler's Restore is conditioned on the depth
	okFloor, nQ := true, 0
	for _, ci := range eng.Calls(po, false, func(n string, _ ssa.CallInstruction) bool { return strings.HasSuffix(n, ").Restore") }) {
		nQ++
		dep := false
		for _, iff := range controllingAll(ci.Block()) {
			if depthCall(iff.Cond) {
				dep = true
			}
		}
		// the depth test as one operand of a condition (inForm && depth <= floor): a branch on the depth of which
		// one side cannot reach the Restore
		for _, b := range po.Blocks {
			iff, ok := lastIf(b)
			if !ok || !depthCall(iff.Cond) || len(b.Succs) != 2 {
				continue
			}
			r0 := b.Succs[0] == ci.Block() || eng.ReachableBlocks([]*ssa.BasicBlock{b.Succs[0]}, nil)[ci.Block()]
			r1 := b.Succs[1] == ci.Block() || eng.ReachableBlocks([]*ssa.BasicBlock{b.Succs[1]}, nil)[ci.Block()]
			if r0 != r1 {
				dep = true
			}
		}
		if !dep {
			okFloor = false
		}
	}
	c.Check(nQ > 0 && okFloor, R, "text.(*Extractor).processOperation#Q-floor", po.Pos(), "Q is carried out only above the depth the form started with", "the Q operator pops the stack whatever its depth: a stray Q inside a form pops a state its caller saved, and the caller's own Q then fails with a stack underflow or restores the wrong state")
}

// controllingAll: the conditional branches whose outcome decides whether blk runs (its dominators that end in an If of
// which not both successors lead to blk).
func controllingAll(blk *ssa.BasicBlock) []*ssa.If {
	var out []*ssa.If
	for d := blk.Idom(); d != nil; d = d.Idom() {
		iff, ok := lastIf(d)
		if !ok {
			continue
		}
		reach := 0
		for _, sx := range d.Succs {
			if sx == blk || sx.Dominates(blk) {
				reach++
			}
		}
		if reach == 1 {
			out = append(out, iff)
		}
	}
	return out
}
