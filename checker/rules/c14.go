package rules

import (
	"fmt"
	"go/constant"
	"go/token"
	"go/types"
	"sort"
	"strings"

	"golang.org/x/tools/go/ssa"

	"verif/checker/eng"
)

func init() {
	register(&Property{
		ID:    "C14",
		Level: "other",
		Explanation: "Decided (structural necessary conditions of 'exports parse back'): (R14.1) inside package rag an io.Writer handed to an export function only ever reaches encoding/json or encoding/csv encoders (or another export function held to the same rule): no hand-written serialisation of chunk data; (R14.2) every constant column name produced by collectCSVColumns has a value case in getColumnValue and is known to isStandardColumn, and metadata columns carry the meta_ prefix both where they are produced and where they are read; (R14.3) the column set is sorted before use (map-order rule of C03 on the export code); (R14.4) ChunkCollection.Filter is a pure forward selection that calls the predicate exactly once per chunk, and every FilterBy*/Search delegates to it; (R14.5) batch windows tile the input: the loop advances by the batch size and each window is chunks[i:min(i+size,len)]; one record is produced per chunk with the loop index as position; (R14.6) Exporter methods keep no state between calls. " +
			"Not decided: field-by-field equality after re-parsing, number formatting, the vector-database record layouts.",
		Rules: []func(*eng.Ctx){ruleElementTypeFilterEvaluated, ruleExportNotTrimmed, ruleRowFieldsByColumnName, ruleNilListMeansAll, loopVarRule("R14.LV", "rag"), ruleWriterDiscipline, ruleColumnAgreement, ruleExportMapOrder, ruleCollectionFilter, ruleBatchPartition, ruleExporterStateless, ruleCSVNoCRLF, roleRule("R14.R", "rag"), ruleExportNoEmptyShortcut, ruleExportFieldCopy, ruleShortLoop, rulePageRangeOverlap, ruleExportTruncates, ruleSearchNormalisesBoth, ruleBatchDataOwn},
	})
}

func isIOWriter(t types.Type) bool {
	nt, ok := t.(*types.Named)
	return ok && nt.Obj().Pkg() != nil && nt.Obj().Pkg().Path() == "io" && nt.Obj().Name() == "Writer"
}

func ruleWriterDiscipline(c *eng.Ctx) {
	const R = "R14.1-WRITER-DISCIPLINE"
	c.Rule(R, "in package rag an io.Writer parameter (or StreamExporter.writer) is only passed to json.NewEncoder, csv.NewWriter or to another rag function; Write/Fprint* on it (hand-made serialisation) is a violation", 6, 0)
	encoders := map[string]bool{"encoding/json.NewEncoder": true, "encoding/csv.NewWriter": true}
	for _, fn := range c.P.ModuleFuncs() {
		if fn.Pkg == nil || eng.ShortPath(fn.Pkg.Pkg.Path()) != "rag" {
			continue
		}
		var writers []ssa.Value
		for _, p := range fn.Params {
			if isIOWriter(p.Type()) {
				writers = append(writers, p)
			}
		}
		eng.Instrs(fn, false, func(in ssa.Instruction) {
			if v, ok := in.(ssa.Value); ok && isIOWriter(v.Type()) {
				if fr, ok := eng.LoadOfField(v); ok && fr.Field == "writer" {
					writers = append(writers, v)
				}
			}
		})
		if len(writers) == 0 {
			continue
		}
		var bad []string
		uses := 0
		for _, w := range writers {
			for _, r := range *w.Referrers() {
				switch x := r.(type) {
				case ssa.CallInstruction:
					uses++
					n := eng.CalleeName(x)
					cc := x.Common()
					if cc.IsInvoke() && cc.Value == w {
						bad = append(bad, fmt.Sprintf("direct %s on the writer at %s", cc.Method.Name(), c.P.Pos(x.Pos())))
						continue
					}
					if cc.IsInvoke() {
						// a method of an interface of the package: every implementation is held to the same rule
						impls := c.P.Callees(x)
						allIn := len(impls) > 0
						for _, g := range impls {
							if g.Pkg != fn.Pkg {
								allIn = false
							}
						}
						if allIn {
							continue
						}
					}
					if encoders[n] {
						continue
					}
					if f := cc.StaticCallee(); f != nil && eng.InModule(f) {
						continue // held to the same rule
					}
					if _, isBuiltin := cc.Value.(*ssa.Builtin); isBuiltin {
						continue
					}
					// a call through a function value (a table of writer functions): every function the call
					// graph resolves it to is a function of this package, held to the same rule
					if cc.StaticCallee() == nil && !cc.IsInvoke() {
						if node := c.P.CallGraph().Nodes[fn]; node != nil {
							n, allIn := 0, true
							for _, e := range node.Out {
								if e.Site != x {
									continue
								}
								n++
								cf := e.Callee.Func
								if cf.Pkg == nil && cf.Synthetic != "" {
									// a method-expression thunk: judged by what it forwards to
									for _, inner := range eng.Calls(cf, false, func(string, ssa.CallInstruction) bool { return true }) {
										if t := eng.StaticCallee(inner); t != nil {
											cf = t
										}
									}
								}
								if cf.Pkg != fn.Pkg {
									allIn = false
								}
							}
							if n > 0 && allIn {
								continue
							}
						}
					}
					bad = append(bad, fmt.Sprintf("writer passed to %s at %s", n, c.P.Pos(x.Pos())))
				case *ssa.Store:
					uses++ // kept in a struct (StreamExporter): its uses are checked where it is loaded
				case *ssa.MakeInterface, *ssa.ChangeInterface:
					uses++
				}
			}
		}
		if len(bad) > 0 {
			c.Viol(R, eng.FuncName(fn), fn.Pos(), strings.Join(bad, "; ")+": chunk data is written without a standard encoder, so quotes, delimiters or newlines in it are not escaped")
		} else {
			c.Ok(R, eng.FuncName(fn), fn.Pos(), fmt.Sprintf("%d uses of the writer, all through standard encoders", uses))
		}
	}
}

func ruleColumnAgreement(c *eng.Ctx) {
	const R = "R14.2-COLUMN-AGREEMENT"
	c.Rule(R, "constant column names appended by collectCSVColumns are case labels of getColumnValue and keys of isStandardColumn; the metadata prefix written by the former equals the prefix read by the latter", 9, 0)
	coll := c.P.Func("rag.(*Exporter).collectCSVColumns")
	gcv := c.P.Decl("rag.(*Exporter).getColumnValue")
	std := c.P.Func("rag.isStandardColumn")
	if coll == nil || gcv == nil || std == nil {
		c.Undec(R, "rag.(*Exporter).collectCSVColumns", token.NoPos, "anchor not found")
		return
	}
	labels, _ := caseTable(gcv)
	stdKeys := trueStringSet(std)
	produced := map[string]bool{}
	prefixes := map[string]bool{}
	eng.Instrs(coll, true, func(in ssa.Instruction) { // closures included: the name may be built in a function literal handed to a map helper
		switch x := in.(type) {
		case *ssa.Store:
			if s, ok := eng.ConstString(x.Val); ok {
				if _, isEl := x.Addr.(*ssa.IndexAddr); isEl {
					produced[s] = true
				}
			}
		case *ssa.BinOp:
			if x.Op == token.ADD {
				if s, ok := eng.ConstString(x.X); ok {
					prefixes[s] = true
				}
			}
		}
	})
	// the fixed names may be appended from a read-only package-level list: append(columns, fixedColumns...)
	eng.Instrs(coll, true, func(in ssa.Instruction) {
		call, ok := in.(*ssa.Call)
		if !ok || eng.CalleeName(call) != "builtin:append" || len(call.Call.Args) != 2 {
			return
		}
		for w := range eng.Slice(call.Call.Args[1], nil) {
			if g, ok := w.(*ssa.Global); ok {
				if strs, ok := eng.GlobalLiteralStrings(g); ok {
					for _, sname := range strs {
						produced[sname] = true
					}
				}
			}
		}
	})
	// the standard-key predicate may read a set built by an initialiser: it is evaluated on the names in play
	{
		cand := map[string]bool{"id": true, "text": true}
		for n := range produced {
			cand[n] = true
		}
		for k := range stdKeys {
			cand[k] = true
		}
		if len(std.Params) == 1 {
			for k := range cand {
				if stdKeys[k] {
					continue
				}
				if got, err := eng.NewEvaluator().Call(std, []any{k}, 0); err == nil {
					if b, ok := got.(bool); ok && b {
						stdKeys[k] = true
					}
				}
			}
		}
	}
	names := make([]string, 0, len(produced))
	for n := range produced {
		names = append(names, n)
	}
	sort.Strings(names)
	for _, n := range names {
		_, hasCase := labels[n]
		isEmb := n == "embeddings"
		c.Check(hasCase, R, "rag column \""+n+"\"#value", coll.Pos(), "getColumnValue has a case", "column "+n+" is emitted in the header but getColumnValue has no case for it: the column is always empty")
		if !isEmb {
			c.Check(stdKeys[n], R, "rag column \""+n+"\"#standard", coll.Pos(), "known to isStandardColumn", "column "+n+" is a fixed column but isStandardColumn does not know it: a metadata key of the same name is emitted twice")
		}
	}
	// the other direction: a key that isStandardColumn claims gets no meta_ column, so it must be one of the fixed
	// columns, or the value is in neither place
	var stdNames []string
	for k := range stdKeys {
		stdNames = append(stdNames, k)
	}
	sort.Strings(stdNames)
	metaKeys := map[string]bool{}
	if mm := c.P.Func("rag.chunkMetadataToMap"); mm != nil {
		for _, h := range eng.Cluster(mm, 1) {
			eng.Instrs(h, true, func(in ssa.Instruction) {
				if mu, ok := in.(*ssa.MapUpdate); ok {
					if s, ok := eng.ConstString(mu.Key); ok {
						metaKeys[s] = true
					}
				}
			})
		}
	}
	if len(produced) > 0 && len(metaKeys) > 0 {
		for _, k := range stdNames {
			if !metaKeys[k] {
				continue // not a key the chunk metadata can have: nothing to lose
			}
			c.Check(produced[k], R, "rag standard key \""+k+"\"#column", std.Pos(), "has a fixed column", "isStandardColumn claims the key "+k+" so no meta_"+k+" column is made for it, but the fixed header of collectCSVColumns has no "+k+" column: the value is in no column of the CSV/TSV output")
		}
	}
	// prefix agreement
	readPrefix := map[string]bool{}
	if fn := c.P.Func("rag.(*Exporter).getColumnValue"); fn != nil {
		for _, ci := range eng.CallsNamed(fn, false, "strings.HasPrefix", "strings.TrimPrefix") {
			if s, ok := eng.ConstString(ci.Common().Args[1]); ok {
				readPrefix[s] = true
			}
		}
	}
	okP := len(prefixes) == 1 && len(readPrefix) == 1
	for p := range prefixes {
		if !readPrefix[p] {
			okP = false
		}
	}
	c.Check(okP, R, "rag column prefix", coll.Pos(), "metadata columns are written and read with the same prefix", fmt.Sprintf("metadata column prefix written %v but read %v", keysOf(prefixes), keysOf(readPrefix)))
	_ = constant.MakeBool
}

// trueStringSet is the set of constant strings for which a func(string) bool answers true, read from the three
// spellings of such a predicate: a local map literal indexed by the parameter, a package-level map literal indexed by
// it, or comparisons of the parameter with constants (switch / if chain) whose true edge reaches only `return true`.
func trueStringSet(fn *ssa.Function) map[string]bool {
	out := map[string]bool{}
	if len(fn.Params) == 0 {
		return out
	}
	isTrue := func(v ssa.Value) bool {
		k, ok := v.(*ssa.Const)
		return ok && k.Value != nil && k.Value.Kind() == constant.Bool && constant.BoolVal(k.Value)
	}
	par := ssa.Value(fn.Params[len(fn.Params)-1])
	addUpdates := func(g *ssa.Function, m func(ssa.Value) bool) {
		eng.Instrs(g, false, func(in ssa.Instruction) {
			if mu, ok := in.(*ssa.MapUpdate); ok && m(mu.Map) && isTrue(mu.Value) {
				if s, ok := eng.ConstString(mu.Key); ok {
					out[s] = true
				}
			}
		})
	}
	eng.Instrs(fn, false, func(in ssa.Instruction) {
		switch x := in.(type) {
		case *ssa.Lookup:
			if x.Index != par {
				return
			}
			if mk, ok := x.X.(*ssa.MakeMap); ok {
				addUpdates(fn, func(v ssa.Value) bool { return v == ssa.Value(mk) })
				return
			}
			if ld, ok := x.X.(*ssa.UnOp); ok && ld.Op == token.MUL {
				if g, ok := ld.X.(*ssa.Global); ok && fn.Pkg != nil {
					if init := fn.Pkg.Func("init"); init != nil {
						// the literal stored into the global by the package initialiser
						stored := map[ssa.Value]bool{}
						eng.Instrs(init, false, func(in ssa.Instruction) {
							if st, ok := in.(*ssa.Store); ok && st.Addr == ssa.Value(g) {
								stored[st.Val] = true
							}
						})
						// only if nothing else in the package writes the global or the map
						addUpdates(init, func(v ssa.Value) bool { return stored[v] })
					}
				}
			}
		case *ssa.BinOp:
			if x.Op != token.EQL {
				return
			}
			var k ssa.Value
			switch {
			case x.X == par:
				k = x.Y
			case x.Y == par:
				k = x.X
			default:
				return
			}
			str, ok := eng.ConstString(k)
			if !ok {
				return
			}
			for _, r := range *x.Referrers() {
				iff, ok := r.(*ssa.If)
				if !ok {
					continue
				}
				allTrue, any := true, false
				for b := range eng.ReachableBlocks([]*ssa.BasicBlock{iff.Block().Succs[0]}, func(*ssa.BasicBlock) bool { return false }) {
					if len(b.Instrs) == 0 {
						continue
					}
					if ret, ok := b.Instrs[len(b.Instrs)-1].(*ssa.Return); ok {
						any = true
						if len(ret.Results) != 1 || !isTrue(ret.Results[0]) {
							allTrue = false
						}
					}
				}
				if any && allTrue {
					out[str] = true
				}
			}
		}
	})
	return out
}

func keysOf(m map[string]bool) []string {
	var out []string
	for k := range m {
		out = append(out, k)
	}
	sort.Strings(out)
	return out
}

func ruleExportMapOrder(c *eng.Ctx) {
	const R = "R14.3-MAP-ORDER"
	c.Rule(R, "no map-order dependent loop in rag/export.go (same classification as R3.2)", 3, 0)
	for _, l := range classifyMapLoops(c.P) {
		if !strings.HasSuffix(c.P.Fset.Position(l.rs.Pos()).Filename, "rag/export.go") {
			continue
		}
		key := l.fn + "#range(" + types.ExprString(l.rs.X) + ")"
		c.Check(l.class != "order-dependent", R, key, l.rs.Pos(), l.class+": "+l.why, "export output depends on map iteration order: "+l.why)
	}
}

func ruleCollectionFilter(c *eng.Ctx) {
	const R = "R14.4-COLLECTION-FILTER"
	c.Rule(R, "ChunkCollection.Filter selects unmodified chunks in order, calling the predicate exactly once per chunk; every FilterBy*/FilterWith*/Search returns cc.Filter(...)", 12, 0)
	fn := c.P.Func("rag.(*ChunkCollection).Filter")
	if fn == nil {
		c.Undec(R, "rag.(*ChunkCollection).Filter", token.NoPos, "anchor not found")
		return
	}
	ok, why := pureFilterSrc(fn, func(v ssa.Value) bool {
		fr, ok := eng.LoadOfField(v)
		return ok && fr.Field == "Chunks"
	})
	c.Check(ok, R, "rag.(*ChunkCollection).Filter#pure", fn.Pos(), "pure forward selection", "Filter is not a pure forward selection: "+why)
	// predicate called once, in the loop
	n := 0
	eng.Instrs(fn, false, func(in ssa.Instruction) {
		if ci, ok := in.(ssa.CallInstruction); ok && ci.Common().Value == ssa.Value(fn.Params[1]) {
			n++
		}
	})
	if n == 0 {
		// the loop lives in a filter helper: the predicate is handed on and called there
		var calls []ssa.Value
		eng.Instrs(fn, false, func(in ssa.Instruction) {
			if call, ok := in.(*ssa.Call); ok {
				calls = append(calls, call)
			}
		})
		for _, cv := range calls {
			g, call, ok := delegatedFilter(cv, func(v ssa.Value) bool {
				fr, ok := eng.LoadOfField(v)
				return ok && fr.Field == "Chunks"
			})
			if !ok {
				continue
			}
			for j, a := range eng.ArgsWithRecv(call) {
				if a != ssa.Value(fn.Params[1]) || j >= len(g.Params) {
					continue
				}
				eng.Instrs(g, false, func(in ssa.Instruction) {
					if ci, ok := in.(ssa.CallInstruction); ok && ci.Common().Value == ssa.Value(g.Params[j]) {
						n++
					}
				})
			}
		}
	}
	c.Check(n == 1, R, "rag.(*ChunkCollection).Filter#predicate-once", fn.Pos(), "one predicate call site", fmt.Sprintf("the predicate is called from %d places: a predicate with state (dedupe, first-N, budget) sees every chunk more than once and selects the wrong set", n))
	for _, f := range c.P.ModuleFuncs() {
		if f.Signature.Recv() == nil || eng.TypeName(f.Signature.Recv().Type()) != "*rag.ChunkCollection" || f.Parent() != nil {
			continue
		}
		nm := f.Name()
		if !(strings.HasPrefix(nm, "FilterBy") || strings.HasPrefix(nm, "FilterWith") || nm == "Search") {
			continue
		}
		deleg := false
		for _, r := range eng.Returns(f) {
			if call, ok := r.Results[0].(*ssa.Call); ok && eng.StaticCallee(call) == fn {
				deleg = true
			}
		}
		c.Check(deleg, R, eng.FuncName(f), f.Pos(), "returns cc.Filter(predicate)", "does not delegate to Filter: selection semantics can diverge")
	}
}

func ruleBatchPartition(c *eng.Ctx) {
	const R = "R14.5-BATCH-PARTITION"
	c.Rule(R, "BatchExporter.Export: i advances by batchSize, each window is chunks[i:end] with end = i+batchSize clamped to len(chunks), and StartIndex/EndIndex report exactly that window; exporters pass the range index as the chunk position", 5, 0)
	fn := c.P.Func("rag.(*BatchExporter).Export")
	if fn == nil {
		c.Undec(R, "rag.(*BatchExporter).Export", token.NoPos, "anchor not found")
		return
	}
	var iPhi *ssa.Phi
	leaf := func(v ssa.Value) (*eng.Poly, bool) {
		if ph, ok := v.(*ssa.Phi); ok {
			if iPhi != nil && ph == iPhi {
				return eng.PSym("i"), true
			}
		}
		if fr, ok := eng.LoadOfField(v); ok && fr.Field == "batchSize" {
			return eng.PSym("size"), true
		}
		return nil, false
	}
	// loop variable: phi whose back-edge value is phi + batchSize
	eng.Instrs(fn, false, func(in ssa.Instruction) {
		ph, ok := in.(*ssa.Phi)
		if !ok || !isLoopCarried(ph) {
			return
		}
		for _, e := range ph.Edges {
			if b, ok := e.(*ssa.BinOp); ok && b.Op == token.ADD && b.X == ssa.Value(ph) {
				if fr, ok := eng.LoadOfField(b.Y); ok && fr.Field == "batchSize" {
					iPhi = ph
				}
			}
		}
	})
	// window slice chunks[lo:hi]
	var win *ssa.Slice
	eng.Instrs(fn, false, func(in ssa.Instruction) {
		if sl, ok := in.(*ssa.Slice); ok && sl.X == ssa.Value(fn.Params[1]) {
			win = sl
		}
	})
	if iPhi == nil && win != nil && win.Low != nil && win.High != nil {
		// the loop position may live in a cursor object advanced by its methods: evaluate the window
		// bounds and every update of the position as terms over (position, batch size, len(chunks))
		sc := &symCtx{leaf: func(v ssa.Value) (*eng.Poly, bool) {
			if fr, ok := eng.LoadOfField(v); ok && fr.Field == "batchSize" {
				return eng.PSym("size"), true
			}
			return nil, false
		}}
		root := &symEnv{fn: fn}
		lo := sc.alts(win.Low, root, 0)
		if len(lo) == 1 && strings.HasPrefix(lo[0].String(), "state.") && len(sc.states[lo[0].String()]) > 0 {
			i := lo[0]
			lenSym := eng.PSym("len(" + fn.Params[1].Name() + ")")
			okStep, nStep := true, 0
			for _, st := range sc.states[i.String()] {
				if st.env == root && !eng.InLoop(st.st.Block()) {
					// initial position: must be the start of the slice
					if a := sc.alts(st.st.Val, st.env, 0); len(a) != 1 || !a[0].Equal(eng.PConst(0)) {
						okStep = false
					}
					continue
				}
				nStep++
				if a := sc.alts(st.st.Val, st.env, 0); len(a) != 1 || !a[0].Equal(i.Add(eng.PSym("size"))) {
					okStep = false
				}
			}
			c.Check(okStep && nStep > 0, R, "rag.(*BatchExporter).Export#step", fn.Pos(), "loop advances by the batch size", "the batch loop does not advance by exactly batchSize: chunks at batch boundaries are dropped or repeated")
			want := []*eng.Poly{i.Add(eng.PSym("size")), lenSym}
			hi := sc.alts(win.High, root, 0)
			c.Check(polySetEqual(hi, want), R, "rag.(*BatchExporter).Export#window", win.Pos(), "window is chunks[i:min(i+size,len)]", "the batch window is not chunks[i : min(i+batchSize, len(chunks))]: consecutive windows overlap or leave gaps")
			okIdx := 0
			eng.Instrs(fn, false, func(in ssa.Instruction) {
				st, ok := in.(*ssa.Store)
				if !ok {
					return
				}
				fr, ok := eng.AsField(st.Addr)
				if !ok || !strings.HasSuffix(fr.Struct, "rag.ExportBatch") {
					return
				}
				switch fr.Field {
				case "StartIndex":
					if a := sc.alts(st.Val, root, 0); len(a) == 1 && a[0].Equal(i) {
						okIdx++
					}
				case "EndIndex":
					if polySetEqual(sc.alts(st.Val, root, 0), want) {
						okIdx++
					}
				}
			})
			c.Check(okIdx == 2, R, "rag.(*BatchExporter).Export#indices", fn.Pos(), "StartIndex/EndIndex are the window bounds", "the reported StartIndex/EndIndex are not the bounds of the exported window")
			ruleBatchExporters(c, R)
			return
		}
	}
	c.Check(iPhi != nil, R, "rag.(*BatchExporter).Export#step", fn.Pos(), "loop advances by the batch size", "the batch loop does not advance by exactly batchSize: chunks at batch boundaries are dropped or repeated")
	if iPhi == nil {
		return
	}
	if win == nil {
		c.Viol(R, "rag.(*BatchExporter).Export#window", fn.Pos(), "no window chunks[i:end] found")
		return
	}
	lo, okLo := eng.IntPoly(win.Low, leaf)
	okWin := okLo && lo.Equal(eng.PSym("i"))
	// high: phi(i+size, len(chunks)) with the clamp edge i+size > len
	okHi := false
	if ph, ok := win.High.(*ssa.Phi); ok && len(ph.Edges) == 2 {
		var sum, ln bool
		for _, e := range ph.Edges {
			if p, ok := eng.IntPoly(e, leaf); ok && p.Equal(eng.PSym("i").Add(eng.PSym("size"))) {
				sum = true
			}
			if call, ok := e.(*ssa.Call); ok {
				if bi, ok := call.Call.Value.(*ssa.Builtin); ok && bi.Name() == "len" && call.Call.Args[0] == ssa.Value(fn.Params[1]) {
					ln = true
				}
			}
		}
		okHi = sum && ln
	}
	c.Check(okWin && okHi, R, "rag.(*BatchExporter).Export#window", win.Pos(), "window is chunks[i:min(i+size,len)]", "the batch window is not chunks[i : min(i+batchSize, len(chunks))]: consecutive windows overlap or leave gaps")
	// reported indices
	okIdx := 0
	eng.Instrs(fn, false, func(in ssa.Instruction) {
		st, ok := in.(*ssa.Store)
		if !ok {
			return
		}
		fr, ok := eng.AsField(st.Addr)
		if !ok || !strings.HasSuffix(fr.Struct, "rag.ExportBatch") {
			return
		}
		switch fr.Field {
		case "StartIndex":
			if st.Val == win.Low {
				okIdx++
			}
		case "EndIndex":
			if st.Val == win.High {
				okIdx++
			}
		}
	})
	c.Check(okIdx == 2, R, "rag.(*BatchExporter).Export#indices", fn.Pos(), "StartIndex/EndIndex are the window bounds", "the reported StartIndex/EndIndex are not the bounds of the exported window")
	ruleBatchExporters(c, R)
}

func ruleBatchExporters(c *eng.Ctx, R string) {
	// exporters: the functions of the package that take a list of chunks and call prepareChunkForExport: they call it
	// as prepareChunkForExport(chunk, i) with the range index, once per element
	n := 0
	for _, f := range c.P.ModuleFuncs() {
		if f.Pkg == nil || f.Blocks == nil || eng.ShortPath(f.Pkg.Pkg.Path()) != "rag" {
			continue
		}
		var list ssa.Value
		for _, p := range f.Params {
			if sl, ok := p.Type().Underlying().(*types.Slice); ok && eng.TypeName(sl.Elem()) == "*rag.Chunk" {
				list = p
			}
		}
		calls := eng.CallsNamed(f, false, "rag.(*Exporter).prepareChunkForExport")
		if list == nil || len(calls) == 0 {
			continue
		}
		n++
		name := eng.FuncName(f)
		ok := len(calls) == 1 && eng.InLoop(calls[0].Block())
		if ok {
			args := calls[0].Common().Args
			_, isInd := eng.Induction(args[2])
			ld, isLd := args[1].(*ssa.UnOp)
			okEl := false
			if isLd {
				if ia, ok := ld.X.(*ssa.IndexAddr); ok && ia.X == list && ia.Index == args[2] {
					okEl = true
				}
				// `for i, rest := 0, chunks; len(rest) > 0; i, rest = i+1, rest[1:]`: the element is rest[0] of a cursor
				// that starts at the list and drops one element per trip, the position a counter of the same loop
				if ia, ok := ld.X.(*ssa.IndexAddr); ok {
					if base, isCur := eng.ShrinkingCursor(ia); isCur && base == list {
						if ph, okp := eng.Induction(args[2]); okp && ph.Block() == ia.X.(*ssa.Phi).Block() {
							okEl = true
						}
					}
				}
			}
			ok = isInd && okEl
		}
		c.Check(ok, R, name+"#one-record-per-chunk", f.Pos(), "each chunk is exported once with its own index", "chunks are not exported exactly once each with their own position (record order or count changes)")
	}
	c.Check(n >= 3, R, "rag#exporters", token.NoPos, fmt.Sprintf("%d functions export a list of chunks", n), fmt.Sprintf("only %d functions of package rag export a list of chunks through prepareChunkForExport, three formats (JSON Lines, JSON, CSV/TSV) were confirmed by reading", n))
}

func ruleExporterStateless(c *eng.Ctx) {
	const R = "R14.6-EXPORTER-STATELESS"
	c.Rule(R, "methods of *rag.Exporter do not write through their receiver: an Exporter reused for a second batch or collection behaves like a fresh one", 8, 0)
	eff := eng.EffectsOf(c.P)
	for _, fn := range c.P.ModuleFuncs() {
		if fn.Signature.Recv() == nil || fn.Parent() != nil || eng.TypeName(fn.Signature.Recv().Type()) != "*rag.Exporter" {
			continue
		}
		ws := eff.WritesThrough(fn, 0)
		if len(ws) > 0 {
			c.Viol(R, eng.FuncName(fn), fn.Pos(), "writes through the Exporter: "+strings.Join(ws, "; ")+": state cached from one export (e.g. the column layout of the first batch) leaks into the next")
		} else {
			c.Ok(R, eng.FuncName(fn), fn.Pos(), "no receiver writes")
		}
	}
}
