package rules

import (
	"fmt"
	"go/token"
	"go/types"
	"strings"

	"golang.org/x/tools/go/ssa"

	"verif/checker/eng"
)

func init() {
	register(&Property{
		ID:    "C18",
		Level: "other",
		Explanation: "Decided (structural necessary conditions of 'parts in declared order'): (R18.1) the loops that build the sheet, slide and chapter lists range forward over the declared list (workbook sheets, p:sldIdLst through the presentation relationships, OPF spine through the manifest), append in that loop, and neither sort the result nor derive it from archive order; for PPTX the declared list is used whenever it is non-empty (nothing else may veto it) and file-name order is only the fallback; (R18.2) EPUB hrefs are percent-decoded as paths (url.PathUnescape, never QueryUnescape) and joined to the package directory; (R18.3) the reported page count is the length of that same list. " +
			"Not decided: that every declared part is readable, nested/renamed paths at run time, that a part's text appears only in its own page.",
		Rules: []func(*eng.Ctx){ruleContainersInDeclaredOrderEvaluated, ruleWorkbooksEvaluated, deleteInRangeRule("R18.DR", "epubdoc", "pptx", "xlsx"), ruleAbsoluteTargetsRecognised, ruleDecodedOnce, ruleResolvedHrefCleaned, ruleSlidePartsByDeclaration, ruleFreshDecodeTargetParts, ruleRenderLeavesReader, loopVarRule("R18.LV", "pptx", "epubdoc", "xlsx", "docx", "odt"), ruleDeclaredOrder, ruleHrefDecode, rulePartCount, ruleOPFBaseDir, roleRule("R18.R", "xlsx", "pptx", "epubdoc"), ruleParallelIndex, ruleRelMapTotal, ruleShapeContentModel, ruleDeclaredChildReadPptx, rulePathTrimCutset, rulePositionalDefaultOnlyWhenUndeclared, ruleChaptersInSpineOrder, ruleRelIDAttrQualified, ruleMemberNameExact, ruleSheetAccessorsAgree, ruleFirstRootfile},
	})
}

// rangedOver reports whether fn has a forward (+1 induction) index over a slice whose value
// derives from a field path containing all the given field names.
func rangedFields(fn *ssa.Function) map[string]bool {
	out := map[string]bool{}
	eng.Instrs(fn, false, func(in ssa.Instruction) {
		ia, ok := in.(*ssa.IndexAddr)
		if !ok {
			return
		}
		if _, isInd := eng.Induction(ia.Index); !isInd {
			return
		}
		var path []string
		for v := range eng.Slice(ia.X, nil) {
			if fr, ok := eng.AsField(v); ok {
				path = append(path, fr.Field)
			}
		}
		for _, f := range path {
			out[f] = true
		}
	})
	return out
}

func appendsTo(fn *ssa.Function, field string) []ssa.CallInstruction {
	var out []ssa.CallInstruction
	for _, ci := range eng.Calls(fn, false, func(n string, _ ssa.CallInstruction) bool { return n == "builtin:append" }) {
		if fr, ok := eng.LoadOfField(ci.Common().Args[0]); ok && fr.Field == field {
			out = append(out, ci)
			continue
		}
		// accumulation into a local that is assigned to the field afterwards
		if v := ci.Value(); v != nil && flowsToFieldStore(v, field) {
			out = append(out, ci)
		}
	}
	return out
}

// flowsToFieldStore reports whether v reaches, through phis, further appends and
// re-slicing, a store into a struct field of that name.
func flowsToFieldStore(v ssa.Value, field string) bool {
	seen := map[ssa.Value]bool{}
	work := []ssa.Value{v}
	for len(work) > 0 {
		x := work[len(work)-1]
		work = work[:len(work)-1]
		if seen[x] || x.Referrers() == nil {
			continue
		}
		seen[x] = true
		for _, r := range *x.Referrers() {
			switch u := r.(type) {
			case *ssa.Phi:
				work = append(work, u)
			case *ssa.Slice:
				work = append(work, u)
			case *ssa.Call:
				if b, ok := u.Call.Value.(*ssa.Builtin); ok && b.Name() == "append" && len(u.Call.Args) > 0 && u.Call.Args[0] == x {
					work = append(work, u)
				}
			case *ssa.Store:
				if u.Val == x {
					if fr, ok := eng.AsField(u.Addr); ok && fr.Field == field {
						return true
					}
				}
			}
		}
	}
	return false
}

func sortsIn(fn *ssa.Function) []string {
	var out []string
	for _, ci := range eng.Calls(fn, false, func(n string, _ ssa.CallInstruction) bool {
		return strings.HasPrefix(n, "sort.") || strings.HasPrefix(n, "slices.Sort")
	}) {
		out = append(out, eng.CalleeName(ci))
	}
	return out
}

func ruleDeclaredOrder(c *eng.Ctx) {
	const R = "R18.1-DECLARED-ORDER"
	c.Rule(R, "sheets/slides/chapters are appended inside a forward range over the declared list; no sort on the result; archive order is not the source", 9, 0)
	p := c.P
	// XLSX
	if fn := p.Func("xlsx.(*Reader).parseWorksheets"); fn == nil {
		c.Undec(R, "xlsx.(*Reader).parseWorksheets", token.NoPos, "anchor not found")
	} else {
		rf := rangedFields(fn)
		apps := appendsTo(fn, "sheets")
		okLoop := rf["workbook"] && rf["Sheets"] && rf["Sheet"] && len(apps) > 0
		for _, a := range apps {
			if !eng.InLoop(a.Block()) {
				okLoop = false
			}
		}
		c.Check(okLoop, R, "xlsx.(*Reader).parseWorksheets#workbook-order", fn.Pos(), "sheets appended while ranging over workbook.Sheets.Sheet", "sheets are not appended in a forward range over the workbook's declared sheet list")
		c.Check(!rf["File"] && len(sortsIn(fn)) == 0, R, "xlsx.(*Reader).parseWorksheets#no-archive-order", fn.Pos(), "neither archive order nor a sort decides the sheet order", "sheet order depends on the ZIP member list or on a sort")
		// the part is found through the relationship id of the ranged sheet
		okRel := false
		// the lookup may sit in a helper that receives the r:id as a parameter
		cluster := eng.Cluster(fn, 2)
		for _, h := range cluster {
			eng.Instrs(h, false, func(in ssa.Instruction) {
				if lk, ok := in.(*ssa.Lookup); ok {
					if fr, ok := eng.LoadOfField(lk.X); ok && fr.Field == "sheetRels" {
						for v := range eng.SliceInter(lk.Index, nil, cluster) {
							if f, ok := eng.AsField(v); ok && f.Field == "RID" {
								okRel = true
							}
						}
					}
				}
			})
		}
		if !okRel {
			// the table kept as a list of (id, target) pairs and searched: some comparison sets an entry of the
			// table against the sheet's r:id
			for _, h := range cluster {
				eng.Instrs(h, false, func(in ssa.Instruction) {
					cmp, ok := in.(*ssa.BinOp)
					if !ok || cmp.Op != token.EQL {
						return
					}
					for _, pair := range [][2]ssa.Value{{cmp.X, cmp.Y}, {cmp.Y, cmp.X}} {
						fromTable := false
						for v := range eng.Slice(pair[0], nil) {
							if ia, ok := v.(*ssa.IndexAddr); ok {
								if fr, ok := eng.LoadOfField(ia.X); ok && fr.Field == "sheetRels" {
									fromTable = true
								}
							}
						}
						if !fromTable {
							continue
						}
						for v := range eng.SliceInter(pair[1], nil, cluster) {
							if f, ok := eng.AsField(v); ok && f.Field == "RID" {
								okRel = true
							}
						}
					}
				})
			}
		}
		c.Check(okRel, R, "xlsx.(*Reader).parseWorksheets#relationship", fn.Pos(), "part path resolved through the sheet's relationship id", "the worksheet part is not looked up through the declared sheet's r:id")
	}
	// PPTX
	if fn := p.Func("pptx.(*Reader).parseSlides"); fn == nil {
		c.Undec(R, "pptx.(*Reader).parseSlides", token.NoPos, "anchor not found")
	} else {
		decl := p.Func("pptx.(*Reader).declaredSlideFiles")
		var dcall *ssa.Call
		// sel: the function that chooses between the declared list and the fallback; parseSlides itself or a
		// helper of it (orderedSlideFiles) whose result parseSlides iterates
		sel := fn
		if decl != nil {
			for _, h := range eng.Cluster(fn, 2) {
				for _, ci := range eng.Calls(h, false, func(string, ssa.CallInstruction) bool { return true }) {
					if call, ok := ci.(*ssa.Call); ok && eng.StaticCallee(call) == decl && dcall == nil {
						dcall = call
						sel = h
					}
				}
			}
		}
		if dcall == nil {
			c.Viol(R, "pptx.(*Reader).parseSlides#declared", fn.Pos(), "slides are not taken from the presentation's slide list: order follows the archive or the file names")
		} else {
			// the list that is iterated when appending to r.slides is phi(declared, fallback)
			usesDeclared := false
			var veto []string
			checkEdge := func(pred *ssa.BasicBlock) {
				usesDeclared = true
				// conditions between the call and the point where the declared list is chosen
				for _, b := range sel.Blocks {
					if len(b.Instrs) == 0 || !dcall.Block().Dominates(b) || !(b.Dominates(pred)) || b == pred && false {
						continue
					}
					ifi, ok := b.Instrs[len(b.Instrs)-1].(*ssa.If)
					if !ok || b == pred {
						continue
					}
					onlyDeclared := true
					for v := range eng.Slice(ifi.Cond, nil) {
						switch x := v.(type) {
						case *ssa.Call:
							if bi, ok := x.Call.Value.(*ssa.Builtin); ok && bi.Name() == "len" {
								if x.Call.Args[0] != ssa.Value(dcall) {
									onlyDeclared = false
								}
							} else if x != dcall {
								onlyDeclared = false
							}
						case *ssa.Phi, *ssa.Parameter, *ssa.UnOp:
							onlyDeclared = false
						}
					}
					if !onlyDeclared {
						veto = append(veto, c.P.Pos(ifi.Pos()))
					}
				}
			}
			eng.Instrs(sel, false, func(in ssa.Instruction) {
				switch x := in.(type) {
				case *ssa.Return:
					// helper form: `return declared` under the non-empty test
					if sel != fn && len(x.Results) > 0 && x.Results[0] == ssa.Value(dcall) {
						checkEdge(x.Block())
					}
				case *ssa.Phi:
					for i, e := range x.Edges {
						if e == ssa.Value(dcall) {
							checkEdge(x.Block().Preds[i])
						}
					}
				case *ssa.Store:
					// the list variable is captured by the fallback's sort closure, so it lives in an alloc
					if x.Val == ssa.Value(dcall) {
						if _, isAlloc := x.Addr.(*ssa.Alloc); isAlloc {
							checkEdge(x.Block())
						}
						// kept in a small ordering object whose method hands the list back (chosen once, asked later)
						if fr, ok := eng.AsField(x.Addr); ok {
							handsBack := false
							for _, g := range c.P.ModuleFuncs() {
								if g.Pkg != sel.Pkg || g.Blocks == nil {
									continue
								}
								for _, r := range eng.Returns(g) {
									for _, res := range r.Results {
										if f2, ok := eng.LoadOfField(res); ok && f2.Field == fr.Field && f2.Struct == fr.Struct {
											handsBack = true
										}
										if fv, ok := res.(*ssa.Field); ok {
											if f2, ok := eng.AsField(fv); ok && f2.Field == fr.Field && f2.Struct == fr.Struct {
												handsBack = true
											}
										}
									}
								}
							}
							if handsBack {
								checkEdge(x.Block())
							}
						}
					}
				}
			})
			c.Check(usesDeclared, R, "pptx.(*Reader).parseSlides#declared", dcall.Pos(), "the declared slide list feeds the slide loop", "the result of declaredSlideFiles does not reach the slide loop")
			c.Check(len(veto) == 0, R, "pptx.(*Reader).parseSlides#declared-wins", dcall.Pos(), "a non-empty declared list is always used", "the declared slide list can be overruled by another condition ("+strings.Join(veto, ",")+"): file-name order and unlisted slide files come back")
		}
		apps := appendsTo(fn, "slides")
		okApp := len(apps) > 0
		for _, a := range apps {
			if !eng.InLoop(a.Block()) {
				okApp = false
			}
		}
		c.Check(okApp, R, "pptx.(*Reader).parseSlides#append", fn.Pos(), "slides appended in list order", "slides are not appended in the loop over the slide list")
		if decl != nil {
			rf := rangedFields(decl)
			okD := rf["SlideIdList"] && rf["SlideId"] && len(sortsIn(decl)) == 0 && !rf["File"]
			// target looked up by RID
			okRid := false
			eng.Instrs(decl, false, func(in ssa.Instruction) {
				if lk, ok := in.(*ssa.Lookup); ok {
					for v := range eng.Slice(lk.Index, nil) {
						if f, ok := eng.AsField(v); ok && f.Field == "RID" {
							okRid = true
						}
					}
				}
			})
			c.Check(okD && okRid, R, "pptx.(*Reader).declaredSlideFiles#sldIdLst", decl.Pos(), "forward range over p:sldIdLst, targets resolved by r:id", "the declared slide list is not built by a forward range over p:sldIdLst resolving each r:id")
		}
	}
	// EPUB
	if fn := p.Func("epubdoc.(*Reader).loadChapters"); fn == nil {
		c.Undec(R, "epubdoc.(*Reader).loadChapters", token.NoPos, "anchor not found")
	} else {
		rf := rangedFields(fn)
		apps := appendsTo(fn, "chapters")
		okLoop := rf["Spine"] && len(apps) > 0
		for _, a := range apps {
			if !eng.InLoop(a.Block()) {
				okLoop = false
			}
		}
		c.Check(okLoop && len(sortsIn(fn)) == 0, R, "epubdoc.(*Reader).loadChapters#spine-order", fn.Pos(), "chapters appended while ranging over the spine", "chapters are not appended in a forward range over the OPF spine (or are sorted afterwards)")
		okMan := false
		eng.Instrs(fn, false, func(in ssa.Instruction) {
			if lk, ok := in.(*ssa.Lookup); ok {
				if fr, ok := eng.LoadOfField(lk.X); ok && fr.Field == "Manifest" {
					for v := range eng.Slice(lk.Index, nil) {
						if f, ok := eng.AsField(v); ok && f.Field == "IDRef" {
							okMan = true
						}
					}
				}
			}
		})
		c.Check(okMan, R, "epubdoc.(*Reader).loadChapters#manifest", fn.Pos(), "manifest item found by the spine item's idref", "the manifest is not looked up with the spine item's idref")
		okHref := false
		resSet := map[*ssa.Function]bool{}
		for _, r := range epubHrefResolvers(p) {
			resSet[r] = true
		}
		if res := epubHrefResolver(p); res != nil {
			resSet[res] = true
		}
		for _, ci := range eng.Calls(fn, false, func(string, ssa.CallInstruction) bool { return true }) {
			cands, ok := eng.DynCallees(ci)
			if !ok {
				continue
			}
			all := len(cands) > 0
			for _, cal := range cands {
				if !resSet[cal] {
					all = false
				}
			}
			if !all {
				continue
			}
			for _, a := range ci.Common().Args {
				for v := range eng.Slice(a, nil) {
					if f, ok := eng.AsField(v); ok && f.Field == "Href" {
						okHref = true
					}
				}
			}
		}
		if resSet[fn] {
			okHref = true // resolved in place; R18.2 reads the decoding here
		}
		c.Check(okHref, R, "epubdoc.(*Reader).loadChapters#href", fn.Pos(), "content file located through resolveHref(item.Href)", "the chapter file is not located through resolveHref(item.Href)")
	}
	if fn := p.Func("epubdoc.convertSpine"); fn != nil {
		rf := rangedFields(fn)
		c.Check(rf["ItemRefs"] && len(sortsIn(fn)) == 0, R, "epubdoc.convertSpine#order", fn.Pos(), "spine converted in document order", "the spine is not converted by a forward range over its itemrefs")
	}
}

// epubHrefResolver finds the function that turns a manifest href into an archive path: the anchored method when it
// exists under its name, otherwise the package function loadChapters hands the item's Href to and gets a string back
// from (the role, whatever it is called and whether or not it is a method), otherwise the host it was inlined into.
func epubHrefResolver(p *eng.Prog) *ssa.Function {
	if f := p.FuncExact("epubdoc.(*Reader).resolveHref"); f != nil {
		return f
	}
	if lc := p.Func("epubdoc.(*Reader).loadChapters"); lc != nil {
		var found []*ssa.Function
		for _, ci := range eng.Calls(lc, false, func(string, ssa.CallInstruction) bool { return true }) {
			cal := eng.StaticCallee(ci)
			if cal == nil || cal.Pkg != lc.Pkg || cal.Blocks == nil {
				continue
			}
			res := cal.Signature.Results()
			if res.Len() != 1 {
				continue
			}
			if b, ok := res.At(0).Type().Underlying().(*types.Basic); !ok || b.Kind() != types.String {
				continue
			}
			fromHref := false
			for _, a := range ci.Common().Args {
				for v := range eng.Slice(a, nil) {
					if f, ok := eng.AsField(v); ok && f.Field == "Href" {
						fromHref = true
					}
				}
			}
			if fromHref {
				found = append(found, cal)
			}
		}
		if len(found) == 1 {
			return found[0]
		}
	}
	return p.Func("epubdoc.(*Reader).resolveHref")
}

// epubHrefResolvers: every function loadChapters can hand the item's Href to and get a string back from, including
// functions reached through a function value (a resolution strategy chosen once by a factory).
func epubHrefResolvers(p *eng.Prog) []*ssa.Function {
	lc := p.Func("epubdoc.(*Reader).loadChapters")
	if lc == nil {
		return nil
	}
	var out []*ssa.Function
	seen := map[*ssa.Function]bool{}
	for _, ci := range eng.Calls(lc, false, func(string, ssa.CallInstruction) bool { return true }) {
		fromHref := false
		for _, a := range ci.Common().Args {
			for v := range eng.Slice(a, nil) {
				if f, ok := eng.AsField(v); ok && f.Field == "Href" {
					fromHref = true
				}
			}
		}
		if !fromHref {
			continue
		}
		cands, ok := eng.DynCallees(ci)
		if !ok {
			continue
		}
		for _, cal := range cands {
			if cal.Pkg != lc.Pkg || cal.Blocks == nil || seen[cal] {
				continue
			}
			res := cal.Signature.Results()
			if res.Len() != 1 {
				continue
			}
			if b, ok := res.At(0).Type().Underlying().(*types.Basic); !ok || b.Kind() != types.String {
				continue
			}
			seen[cal] = true
			out = append(out, cal)
		}
	}
	return out
}

func ruleHrefDecode(c *eng.Ctx) {
	const R = "R18.2-HREF-DECODE"
	c.Rule(R, "resolveHref percent-decodes with url.PathUnescape (QueryUnescape would turn '+' into a space) and joins the result to the OPF directory", 2, 0)
	fn := epubHrefResolver(c.P)
	if fn == nil {
		c.Undec(R, "epubdoc.(*Reader).resolveHref", token.NoPos, "anchor not found")
		return
	}
	// the base directory may arrive as a parameter: follow it to the call sites
	cl := []*ssa.Function{fn}
	for _, h := range []string{"epubdoc.(*Reader).loadChapters", "epubdoc.(*Reader).parseNavigation"} {
		if g := c.P.Func(h); g != nil && g != fn {
			cl = append(cl, g)
		}
	}
	// every function the href can be handed to decodes it (itself or in the helper it calls); with several
	// strategies (one per case of the base directory) at least one joins the base directory
	resolvers := epubHrefResolvers(c.P)
	if len(resolvers) == 0 {
		resolvers = []*ssa.Function{fn}
	}
	q, pth, join := false, true, false
	for _, rf := range resolvers {
		group := []*ssa.Function{rf}
		for _, ci := range eng.Calls(rf, false, func(string, ssa.CallInstruction) bool { return true }) {
			if g := eng.StaticCallee(ci); g != nil && g.Pkg == rf.Pkg && g.Blocks != nil {
				group = append(group, g)
			}
		}
		hasP := false
		for _, g := range group {
			if len(eng.CallsNamed(g, false, "net/url.QueryUnescape")) > 0 {
				q = true
			}
			if len(eng.CallsNamed(g, false, "net/url.PathUnescape")) > 0 {
				hasP = true
			}
			for _, ci := range eng.CallsNamed(g, false, "path.Join") {
				for v := range sliceWithFreeVars(ci.Common().Args[0], append(cl, g)) {
					if f, ok := eng.AsField(v); ok && f.Field == "baseDir" {
						join = true
					}
				}
			}
		}
		if !hasP {
			pth = false
		}
	}
	c.Check(pth && !q, R, "epubdoc.(*Reader).resolveHref", fn.Pos(), "url.PathUnescape", "hrefs are not decoded with url.PathUnescape: a '+' in a file name becomes a space and the chapter is silently dropped")
	c.Check(join, R, "epubdoc.(*Reader).resolveHref#base", fn.Pos(), "joined to the package directory", "the href is no longer resolved relative to the OPF file's directory")
	// module-wide: QueryUnescape must not be used on hrefs anywhere in epubdoc
	for _, f := range c.P.ModuleFuncs() {
		if f.Pkg != nil && eng.ShortPath(f.Pkg.Pkg.Path()) == "epubdoc" && f != fn {
			if n := len(eng.CallsNamed(f, false, "net/url.QueryUnescape")); n > 0 {
				c.Viol(R, eng.FuncName(f)+"#QueryUnescape", f.Pos(), "url.QueryUnescape used in the EPUB reader")
			}
		}
	}
}

func rulePartCount(c *eng.Ctx) {
	const R = "R18.3-PART-COUNT"
	c.Rule(R, "PageCount/ChapterCount return the length of the list of parts that was built in declared order", 3, 0)
	for _, sp := range []struct{ fn, field string }{
		{"xlsx.(*Reader).PageCount", "sheets"}, {"pptx.(*Reader).PageCount", "slides"}, {"epubdoc.(*Reader).ChapterCount", "chapters"},
	} {
		fn := c.P.Func(sp.fn)
		if fn == nil {
			c.Undec(R, sp.fn, token.NoPos, "anchor not found")
			continue
		}
		ok := false
		for _, r := range eng.Returns(fn) {
			if call, isCall := r.Results[0].(*ssa.Call); isCall {
				if bi, isB := call.Call.Value.(*ssa.Builtin); isB && bi.Name() == "len" {
					if fr, isF := eng.LoadOfField(call.Call.Args[0]); isF && fr.Field == sp.field {
						ok = true
					}
				}
			}
		}
		c.Check(ok, R, sp.fn, fn.Pos(), "len("+sp.field+")", fmt.Sprintf("the page count is no longer len(%s)", sp.field))
	}
}
