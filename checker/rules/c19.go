package rules

import (
	"fmt"
	"go/ast"
	"go/constant"
	"go/token"
	"go/types"
	"sort"
	"strings"

	"golang.org/x/tools/go/ssa"

	"verif/checker/eng"
)

func init() {
	register(&Property{
		ID:    "C19",
		Level: "other",
		Explanation: "Decided (structural necessary conditions): (R19.1) the exclusion decision of shouldExclude, evaluated over the 4 modes x 8 outcomes of its three opaque sub-predicates by interpreting its control-flow graph, is constantly false for mode None and monotone in the mode order (an element excluded by a weaker mode is excluded by every stronger one); (R19.2) the mode is read only there, so no other part of the traversal depends on it; (R19.3) the per-mode element cache is filled and looked up under the mode that was requested and with elements produced for that mode; (R19.4) script and style are skipped; (R19.5) a list that was emitted is never reused as the accumulator's backing array; (R19.6) the filtered and the unfiltered DOM traversal agree case by case except for the exclusion test. " +
			"Not decided: completeness of content extraction, entity decoding (delegated to x/net/html), span geometry of tables.",
		Rules: []func(*eng.Ctx){ruleHTMLDocumentsEvaluated, truncateAfterHandOutRule("R19.TR", "htmldoc", "epubdoc"), ruleNoGuessedTranscoding, ruleTextlessItemKeepsNestedLists, ruleHeaderRowNotRepeated, ruleListStateEndsWithList, ruleDepthCountersBalanced, ruleSetAsideChildrenAllKept, ruleRenderLeavesReader, loopVarRule("R19.LV", "htmldoc", "epubdoc"), ruleModeMonotone, ruleModeReads, ruleCacheKey, ruleSkipTable, ruleEmitNoReuse, ruleSiblingTraversals, ruleExcludeCallers, ruleTraversalStateless, roleRule("R19.R", "htmldoc", "epubdoc"), ruleCheckerPerPass, ruleListItemChildCoverage, ruleTableSections, ruleEpubModePassthrough, ruleNoDoubleDecode, ruleTextCollectorSkipsHidden, ruleRowCellsComplete, ruleBytesNotRunes},
	})
}

// evalDecision interprets fn's CFG with concrete mode and concrete outcomes of the opaque predicate calls.
// It returns the boolean result, or an error string if the function leaves the interpreted fragment.
// decisionFunc is a function value met while evaluating the decision: the function and, for a closure, what it
// captured.
type decisionFunc struct {
	fn   *ssa.Function
	bind []ssa.Value
	env  *decisionFrame // the frame that made the closure (to evaluate the captured values)
}

type decisionFrame struct {
	fn   *ssa.Function
	args []any
	free []any
}

// evalDecision evaluates the boolean decision function fn for one exclusion mode and one outcome of the three
// predicates, on the SSA form: integers, booleans, the node-type test and function values (a strategy chosen once per
// mode by a factory and kept in a field or a local) are interpreted, module functions are entered, anything else is
// outside the fragment.
func evalDecision(fn *ssa.Function, mode int64, preds map[string]bool) (bool, string) {
	isModeType := func(t types.Type) bool {
		nt, ok := t.(*types.Named)
		return ok && nt.Obj().Name() == "NavigationExclusionMode"
	}
	var run func(fr *decisionFrame, depth int) (any, string)
	run = func(fr *decisionFrame, depth int) (any, string) {
		if depth > 6 || len(fr.fn.Blocks) == 0 {
			return nil, "call depth"
		}
		var prev *ssa.BasicBlock
		b := fr.fn.Blocks[0]
		env := map[ssa.Value]any{}
		var eval func(v ssa.Value) (any, string)
		call := func(df decisionFunc, args []ssa.Value) (any, string) {
			n := eng.FuncName(df.fn)
			for k, val := range preds {
				if strings.HasSuffix(n, k) {
					return val, ""
				}
			}
			if df.fn.Blocks == nil || !eng.InModule(df.fn) {
				return nil, "call to " + n
			}
			nf := &decisionFrame{fn: df.fn}
			for _, a := range args {
				v, _ := eval(a) // unknown arguments stay nil; they fail only if the callee needs them
				nf.args = append(nf.args, v)
			}
			for _, bv := range df.bind {
				var v any
				if df.env != nil {
					// evaluated lazily in the frame that made the closure: only mode-typed captures matter
					if isModeType(bv.Type()) {
						v = mode
					}
				}
				nf.free = append(nf.free, v)
			}
			return run(nf, depth+1)
		}
		eval = func(v ssa.Value) (any, string) {
			if x, ok := env[v]; ok {
				return x, ""
			}
			switch t := v.(type) {
			case *ssa.Const:
				if t.Value == nil {
					return nil, "nil constant"
				}
				switch t.Value.Kind() {
				case constant.Bool:
					return constant.BoolVal(t.Value), ""
				case constant.Int:
					k, _ := constant.Int64Val(t.Value)
					return k, ""
				}
				return nil, "constant kind"
			case *ssa.Parameter:
				if isModeType(t.Type()) {
					return mode, ""
				}
				for i, p := range fr.fn.Params {
					if p == t && i < len(fr.args) && fr.args[i] != nil {
						return fr.args[i], ""
					}
				}
				return nil, "parameter " + t.Name()
			case *ssa.FreeVar:
				if isModeType(t.Type()) {
					return mode, ""
				}
				return nil, "captured " + t.Name()
			case *ssa.Function:
				return decisionFunc{fn: t}, ""
			case *ssa.MakeClosure:
				f, _ := t.Fn.(*ssa.Function)
				return decisionFunc{fn: f, bind: t.Bindings, env: fr}, ""
			case *ssa.ChangeType:
				return eval(t.X)
			case *ssa.UnOp:
				if t.Op == token.MUL {
					if f, ok := eng.AsField(t.X); ok {
						switch f.Field {
						case "mode":
							return mode, ""
						case "Type":
							return "elementnode", ""
						}
						// a function-typed field set once by the constructor: the value stored there, evaluated
						// for this mode
						if _, isSig := t.Type().Underlying().(*types.Signature); isSig {
							if fa, ok := t.X.(*ssa.FieldAddr); ok {
								sts := eng.FieldStoresInPkg(fa)
								if len(sts) == 1 {
									sf := &decisionFrame{fn: sts[0].Parent()}
									sub := fr
									fr = sf
									x, e := eval(sts[0].Val)
									fr = sub
									return x, e
								}
							}
						}
					}
					if fv, ok := t.X.(*ssa.FreeVar); ok && isModeType(t.Type()) {
						_ = fv
						return mode, ""
					}
					return nil, "load of " + t.X.String()
				}
				if t.Op == token.NOT {
					x, e := eval(t.X)
					if e != "" {
						return nil, e
					}
					bv, ok := x.(bool)
					if !ok {
						return nil, "! on a non-boolean"
					}
					return !bv, ""
				}
			case *ssa.BinOp:
				x, e := eval(t.X)
				if e != "" {
					return nil, e
				}
				y, e := eval(t.Y)
				if e != "" {
					return nil, e
				}
				if x == "elementnode" || y == "elementnode" {
					// n.Type compared with html.ElementNode: the node is an element
					return t.Op == token.EQL, ""
				}
				xi, ok1 := x.(int64)
				yi, ok2 := y.(int64)
				if !ok1 || !ok2 {
					return nil, "non-integer comparison"
				}
				switch t.Op {
				case token.EQL:
					return xi == yi, ""
				case token.NEQ:
					return xi != yi, ""
				case token.LSS:
					return xi < yi, ""
				case token.LEQ:
					return xi <= yi, ""
				case token.GTR:
					return xi > yi, ""
				case token.GEQ:
					return xi >= yi, ""
				}
				return nil, "operator " + t.Op.String()
			case *ssa.Call:
				if g := eng.StaticCallee(t); g != nil {
					return call(decisionFunc{fn: g}, t.Call.Args)
				}
				if t.Call.IsInvoke() {
					return nil, "call to " + eng.CalleeName(t)
				}
				fv, e := eval(t.Call.Value)
				if e != "" {
					return nil, "call to dynamic (" + e + ")"
				}
				df, ok := fv.(decisionFunc)
				if !ok || df.fn == nil {
					return nil, "call to dynamic"
				}
				return call(df, t.Call.Args)
			case *ssa.Phi:
				for i, p := range t.Block().Preds {
					if p == prev {
						return eval(t.Edges[i])
					}
				}
				return nil, "phi without predecessor"
			}
			return nil, fmt.Sprintf("%T", v)
		}
		for steps := 0; steps < 200; steps++ {
			// phis first (they depend on prev)
			for _, in := range b.Instrs {
				if ph, ok := in.(*ssa.Phi); ok {
					v, e := eval(ph)
					if e != "" {
						return nil, e
					}
					env[ph] = v
				}
			}
			last := b.Instrs[len(b.Instrs)-1]
			switch t := last.(type) {
			case *ssa.Return:
				if len(t.Results) != 1 {
					return nil, "result count"
				}
				return eval(t.Results[0])
			case *ssa.If:
				v, e := eval(t.Cond)
				if e != "" {
					return nil, e
				}
				bv, ok := v.(bool)
				if !ok {
					return nil, "non-boolean condition"
				}
				prev = b
				if bv {
					b = b.Succs[0]
				} else {
					b = b.Succs[1]
				}
			case *ssa.Jump:
				prev = b
				b = b.Succs[0]
			default:
				return nil, fmt.Sprintf("terminator %T", last)
			}
			// values computed in a block are re-evaluated lazily; clear non-phi cache so loops/phis re-evaluate
			for k := range env {
				if _, isPhi := k.(*ssa.Phi); !isPhi {
					delete(env, k)
				}
			}
		}
		return nil, "did not terminate"
	}
	v, e := run(&decisionFrame{fn: fn}, 0)
	if e != "" {
		return false, e
	}
	bv, ok := v.(bool)
	if !ok {
		return false, "the decision is not a boolean"
	}
	return bv, ""
}

func ruleModeMonotone(c *eng.Ctx) {
	const R = "R19.1-MODE-MONOTONE"
	c.Rule(R, "decision table of exclusionChecker.shouldExclude over modes {None, Explicit, Standard, Aggressive} x outcomes of (explicit, pattern, link-density): None never excludes; excluded(m) implies excluded(m') for every stronger m'", 32, 0)
	fn := c.P.Func("htmldoc.(*exclusionChecker).shouldExclude")
	pk := c.P.ByPath["htmldoc"]
	if fn == nil || pk == nil {
		c.Undec(R, "htmldoc.(*exclusionChecker).shouldExclude", token.NoPos, "anchor not found")
		return
	}
	mt := c.P.NamedType("htmldoc", "NavigationExclusionMode")
	type mc struct {
		name string
		val  int64
	}
	var modes []mc
	for _, n := range pk.Types.Scope().Names() {
		if cn, ok := pk.Types.Scope().Lookup(n).(*types.Const); ok && mt != nil && types.Identical(cn.Type(), mt) {
			v, _ := constant.Int64Val(cn.Val())
			modes = append(modes, mc{n, v})
		}
	}
	sort.Slice(modes, func(i, j int) bool { return modes[i].val < modes[j].val })
	if len(modes) != 4 || !strings.HasSuffix(modes[0].name, "None") {
		c.Undec(R, "htmldoc.NavigationExclusionMode", fn.Pos(), fmt.Sprintf("expected four modes starting with None, found %v", modes))
		return
	}
	for bits := 0; bits < 8; bits++ {
		preds := map[string]bool{"shouldExcludeExplicit": bits&1 != 0, "shouldExcludeByPattern": bits&2 != 0, "shouldExcludeByLinkDensity": bits&4 != 0}
		row := make([]bool, 4)
		okRow := true
		for i, m := range modes {
			v, e := evalDecision(fn, m.val, preds)
			if e != "" {
				c.Undec(R, fmt.Sprintf("shouldExclude[mode=%s,E=%v,P=%v,L=%v]", m.name, preds["shouldExcludeExplicit"], preds["shouldExcludeByPattern"], preds["shouldExcludeByLinkDensity"]), fn.Pos(), "decision structure is outside the interpreted fragment: "+e)
				okRow = false
				break
			}
			row[i] = v
		}
		if !okRow {
			continue
		}
		for i, m := range modes {
			key := fmt.Sprintf("shouldExclude[mode=%s,explicit=%v,pattern=%v,linkdense=%v]", m.name, preds["shouldExcludeExplicit"], preds["shouldExcludeByPattern"], preds["shouldExcludeByLinkDensity"])
			switch {
			case i == 0 && row[0]:
				c.Viol(R, key, fn.Pos(), "mode None excludes an element")
			case i > 0 && row[i-1] && !row[i]:
				c.Viol(R, key, fn.Pos(), fmt.Sprintf("an element excluded by mode %s is kept by the stricter mode %s: the stricter mode's output is not a subsequence of the weaker mode's", modes[i-1].name, m.name))
			default:
				c.Ok(R, key, fn.Pos(), fmt.Sprintf("excluded=%v", row[i]))
			}
		}
	}
}

func ruleModeReads(c *eng.Ctx) {
	const R = "R19.2-MODE-READS"
	c.Rule(R, "the exclusionChecker.mode field is read only in shouldExclude and written only by the constructor", 1, 0)
	for _, fn := range c.P.ModuleFuncs() {
		if fn.Pkg == nil || eng.ShortPath(fn.Pkg.Pkg.Path()) != "htmldoc" {
			continue
		}
		reads, writes := 0, 0
		eng.Instrs(fn, false, func(in ssa.Instruction) {
			switch x := in.(type) {
			case *ssa.UnOp:
				if fr, ok := eng.LoadOfField(x); ok && fr.Field == "mode" && strings.HasSuffix(fr.Struct, "exclusionChecker") {
					reads++
				}
			case *ssa.Store:
				if fr, ok := eng.AsField(x.Addr); ok && fr.Field == "mode" && strings.HasSuffix(fr.Struct, "exclusionChecker") {
					writes++
				}
			}
		})
		name := eng.FuncName(fn)
		if reads > 0 {
			c.Check(name == "htmldoc.(*exclusionChecker).shouldExclude", R, name+"#reads-mode", fn.Pos(), "mode is read in the decision function", "the exclusion mode is read outside shouldExclude: traversal behaviour depends on the mode in a second place, so unexcluded content can differ between modes")
		}
		if writes > 0 {
			c.Check(name == "htmldoc.newExclusionChecker", R, name+"#writes-mode", fn.Pos(), "mode is set by the constructor", "the exclusion mode is changed after construction")
		}
	}
}

func ruleCacheKey(c *eng.Ctx) {
	const R = "R19.3-CACHE-KEY"
	c.Rule(R, "Reader.getElements looks filteredCache up and fills it under its mode parameter, with elements computed for that same mode; mode None returns the unfiltered elements", 3, 0)
	fn := c.P.Func("htmldoc.(*Reader).getElements")
	if fn == nil {
		c.Undec(R, "htmldoc.(*Reader).getElements", token.NoPos, "anchor not found")
		return
	}
	mode := ssa.Value(fn.Params[1])
	okLook, okStore, okCompute := true, false, false
	nLook := 0
	eng.Instrs(fn, false, func(in ssa.Instruction) {
		switch x := in.(type) {
		case *ssa.Lookup:
			if fr, ok := eng.LoadOfField(x.X); ok && fr.Field == "filteredCache" {
				nLook++
				if x.Index != mode {
					okLook = false
				}
			}
		case *ssa.MapUpdate:
			if fr, ok := eng.LoadOfField(x.Map); ok && fr.Field == "filteredCache" {
				okStore = x.Key == mode
				if call, ok := x.Value.(*ssa.Call); ok {
					for _, a := range call.Call.Args {
						if a == mode {
							okCompute = true
						}
					}
				}
			}
		}
	})
	c.Check(okLook && nLook > 0, R, "htmldoc.(*Reader).getElements#lookup", fn.Pos(), "cache lookup keyed by the requested mode", "the element cache is looked up under a key other than the requested mode")
	c.Check(okStore && okCompute, R, "htmldoc.(*Reader).getElements#fill", fn.Pos(), "cache filled under the requested mode with elements computed for it", "the element cache is filled under another key, or with elements computed for another mode")
	// None -> r.elements
	okNone := false
	for _, r := range eng.Exits(fn) {
		if fr, ok := eng.LoadOfField(r.Results[0]); ok && fr.Field == "elements" {
			if eng.ExitGuarded(fn, r, func(f eng.Fact) bool {
				op, x, y, ok := f.Cmp()
				k, isC := eng.ConstInt(y)
				return ok && op == token.EQL && x == mode && isC && k == 0
			}) {
				okNone = true
			}
		}
	}
	c.Check(okNone, R, "htmldoc.(*Reader).getElements#none", fn.Pos(), "mode None returns the unfiltered elements", "mode None no longer returns the unfiltered element list")
}

func ruleSkipTable(c *eng.Ctx) {
	const R = "R19.4-SKIP-TABLE"
	c.Rule(R, "shouldSkipElement skips at least script and style and no content element", 1, 0)
	fd := c.P.Decl("htmldoc.shouldSkipElement")
	if fd == nil {
		c.Undec(R, "htmldoc.shouldSkipElement", token.NoPos, "anchor not found")
		return
	}
	labels, _ := caseTable(fd)
	// the same set spelled as a lookup table (local or package-level map literal) or as comparisons
	if fn := c.P.Func("htmldoc.shouldSkipElement"); fn != nil {
		for k := range trueStringSet(fn) {
			if _, ok := labels[k]; !ok {
				labels[k] = -1
			}
		}
	}
	var bad []string
	for _, w := range []string{"script", "style"} {
		if _, ok := labels[w]; !ok {
			bad = append(bad, w+" is not skipped")
		}
	}
	for _, content := range []string{"p", "h1", "h2", "h3", "h4", "h5", "h6", "li", "ul", "ol", "td", "th", "tr", "table", "pre", "code", "blockquote", "div", "span", "a", "body", "main", "article", "section"} {
		if _, ok := labels[content]; ok {
			bad = append(bad, "content element <"+content+"> is skipped")
		}
	}
	c.Check(len(bad) == 0, R, "htmldoc.shouldSkipElement", fd.Decl.Pos(), "script/style skipped, content elements kept", strings.Join(bad, "; "))
}

// R19.5: x.listItems = x.listItems[:0] after x.listItems was stored into an emitted element.
func ruleEmitNoReuse(c *eng.Ctx) {
	const R = "R19.5-EMIT-NO-REUSE"
	c.Rule(R, "in package htmldoc a slice field whose value is stored into an emitted element is reset with nil or a fresh make, never by re-slicing it to length zero (which keeps the emitted backing array and lets later appends overwrite it)", 2, 0)
	for _, fn := range c.P.ModuleFuncs() {
		if fn.Pkg == nil || eng.ShortPath(fn.Pkg.Pkg.Path()) != "htmldoc" {
			continue
		}
		// fields whose loaded value is stored into another struct's field in this function (escape)
		escaped := map[string]bool{}
		eng.Instrs(fn, false, func(in ssa.Instruction) {
			st, ok := in.(*ssa.Store)
			if !ok {
				return
			}
			dst, ok := eng.AsField(st.Addr)
			if !ok {
				return
			}
			if src, ok := eng.LoadOfField(st.Val); ok && src.Field != dst.Field {
				if _, isSlice := st.Val.Type().Underlying().(*types.Slice); isSlice {
					escaped[src.Field] = true
				}
			}
		})
		if len(escaped) == 0 {
			continue
		}
		bad := ""
		var pos token.Pos = fn.Pos()
		eng.Instrs(fn, false, func(in ssa.Instruction) {
			st, ok := in.(*ssa.Store)
			if !ok {
				return
			}
			dst, ok := eng.AsField(st.Addr)
			if !ok || !escaped[dst.Field] {
				return
			}
			if sl, ok := st.Val.(*ssa.Slice); ok {
				if src, ok := eng.LoadOfField(sl.X); ok && src.Field == dst.Field {
					bad = dst.Field
					pos = st.Pos()
				}
			}
		})
		if bad != "" {
			c.Viol(R, eng.FuncName(fn)+"#"+bad, pos, "field "+bad+" is re-sliced in place after its contents were emitted: the emitted element and the accumulator share memory, so later items overwrite earlier output")
		} else {
			c.Ok(R, eng.FuncName(fn), fn.Pos(), "emitted slices are not reused")
		}
	}
}

// caseSignature: for each case label of the main `switch n.Data` of a traversal function, the
// ordered list of callee names and assigned field names in the clause.
func caseSignature(fd *eng.FuncDecl, selfNames map[string]bool, spliceable map[string]bool) map[string][]string {
	out := map[string][]string{}
	info := fd.Pkg.TypesInfo
	var main *ast.SwitchStmt
	nCases := 0
	ast.Inspect(fd.Decl.Body, func(n ast.Node) bool {
		if sw, ok := n.(*ast.SwitchStmt); ok && len(sw.Body.List) > nCases {
			main, nCases = sw, len(sw.Body.List)
		}
		return true
	})
	if main == nil {
		return out
	}
	// helperBody resolves a call to an unexported function or method declared in the
	// same package (a block one sibling may have extracted): its body is spliced in.
	helperBody := func(x *ast.CallExpr) *ast.BlockStmt {
		var id *ast.Ident
		switch f := x.Fun.(type) {
		case *ast.Ident:
			id = f
		case *ast.SelectorExpr:
			id = f.Sel
		}
		if id == nil || ast.IsExported(id.Name) || selfNames[id.Name] || !spliceable[id.Name] {
			return nil
		}
		// a local closure (emit := func(...) {...}) is a block extracted in place
		if v, ok := info.Uses[id].(*types.Var); ok && v.Parent() != nil && v.Parent() != fd.Pkg.Types.Scope() {
			var lit *ast.FuncLit
			ast.Inspect(fd.Decl.Body, func(n ast.Node) bool {
				as, ok := n.(*ast.AssignStmt)
				if !ok || len(as.Lhs) != len(as.Rhs) {
					return true
				}
				for i, l := range as.Lhs {
					if lid, ok := l.(*ast.Ident); ok && (info.Defs[lid] == types.Object(v) || info.Uses[lid] == types.Object(v)) {
						if fl, ok := as.Rhs[i].(*ast.FuncLit); ok {
							lit = fl
						}
					}
				}
				return true
			})
			if lit != nil {
				return lit.Body
			}
			return nil
		}
		fobj, ok := info.Uses[id].(*types.Func)
		if !ok || fobj.Pkg() != fd.Pkg.Types {
			return nil
		}
		for _, f := range fd.Pkg.Syntax {
			for _, d := range f.Decls {
				if d2, ok := d.(*ast.FuncDecl); ok && d2.Body != nil && info.Defs[d2.Name] == types.Object(fobj) {
					return d2.Body
				}
			}
		}
		return nil
	}
	for _, st := range main.Body.List {
		cc := st.(*ast.CaseClause)
		var sig []string
		var visit func(n ast.Node, depth int)
		visit = func(root ast.Node, depth int) {
			ast.Inspect(root, func(n ast.Node) bool {
				switch x := n.(type) {
				case *ast.CallExpr:
					name := types.ExprString(x.Fun)
					if i := strings.LastIndex(name, "."); i >= 0 {
						name = name[i+1:]
					}
					if selfNames[name] {
						name = "<self>"
					}
					if body := helperBody(x); body != nil && depth < 2 && len(body.List) <= 30 {
						// a small local helper: what it does counts, not its name
						visit(body, depth+1)
						for _, a := range x.Args {
							visit(a, depth)
						}
						return false
					}
					sig = append(sig, "call:"+name)
				case *ast.AssignStmt:
					for _, l := range x.Lhs {
						switch t := l.(type) {
						case *ast.SelectorExpr:
							sig = append(sig, "set:"+t.Sel.Name)
						case *ast.StarExpr:
							if id, ok := t.X.(*ast.Ident); ok {
								sig = append(sig, "set:"+id.Name)
							}
						}
					}
				case *ast.BasicLit:
					sig = append(sig, "lit:"+x.Value)
				case *ast.ReturnStmt:
					if depth == 0 {
						sig = append(sig, "return")
					}
				}
				return true
			})
		}
		for _, bs := range cc.Body {
			visit(bs, 0)
		}
		labels := []string{}
		for _, e := range cc.List {
			if tv, ok := info.Types[e]; ok && tv.Value != nil && tv.Value.Kind() == constant.String {
				labels = append(labels, constant.StringVal(tv.Value))
			}
		}
		if cc.List == nil {
			labels = []string{"<default>"}
		}
		sort.Strings(labels)
		out[strings.Join(labels, ",")] = sig
	}
	return out
}

func ruleSiblingTraversals(c *eng.Ctx) {
	const R = "R19.6-SIBLING-TRAVERSALS"
	c.Rule(R, "traverseNode (mode None) and traverseNodeFiltered (other modes) have the same element cases, and each case performs the same sequence of calls, field updates and literals, apart from the exclusion test", 10, 0)
	a := c.P.Decl("htmldoc.(*Reader).traverseNode")
	b := c.P.Decl("htmldoc.(*Reader).traverseNodeFiltered")
	if a == nil || b == nil {
		c.Undec(R, "htmldoc.(*Reader).traverseNodeFiltered", token.NoPos, "anchor not found")
		return
	}
	self := map[string]bool{"traverseNode": true, "traverseNodeFiltered": true}
	// helpers called by only one of the siblings are blocks that sibling extracted: they are spliced;
	// helpers both call stay opaque steps
	ca, cb := calledNames(a), calledNames(b)
	spliceable := map[string]bool{}
	for n := range ca {
		if !cb[n] {
			spliceable[n] = true
		}
	}
	for n := range cb {
		if !ca[n] {
			spliceable[n] = true
		}
	}
	sa, sb := caseSignature(a, self, spliceable), caseSignature(b, self, spliceable)
	keys := map[string]bool{}
	for k := range sa {
		keys[k] = true
	}
	for k := range sb {
		keys[k] = true
	}
	ks := make([]string, 0, len(keys))
	for k := range keys {
		ks = append(ks, k)
	}
	sort.Strings(ks)
	strip := func(sig []string) []string {
		var out []string
		for _, s := range sig {
			if s == "call:shouldExclude" {
				continue
			}
			out = append(out, s)
		}
		return out
	}
	for _, k := range ks {
		x, okA := sa[k]
		y, okB := sb[k]
		key := "htmldoc traversal case [" + k + "]"
		switch {
		case !okA || !okB:
			c.Viol(R, key, b.Decl.Pos(), "element case exists in only one of the two traversals: content handled in mode None is handled differently (or not at all) in the filtering modes")
		case multiset(strip(x)) != multiset(strip(y)):
			c.Viol(R, key, b.Decl.Pos(), "the two traversals handle this element differently (calls/updates differ: "+stepDiff(strip(x), strip(y))+"): unexcluded content is no longer identical across modes")
		default:
			c.Ok(R, key, b.Decl.Pos(), fmt.Sprintf("%d steps agree", len(strip(x))))
		}
	}
}

// multiset renders a step list independent of statement order (reordering
// independent statements in one sibling is not a difference in handling).
func multiset(sig []string) string {
	c := append([]string(nil), sig...)
	sort.Strings(c)
	return strings.Join(c, " ")
}

// stepDiff lists the steps present in only one of two step lists.
func stepDiff(a, b []string) string {
	cnt := map[string]int{}
	for _, s := range a {
		cnt[s]++
	}
	for _, s := range b {
		cnt[s]--
	}
	var only []string
	for s, n := range cnt {
		if n > 0 {
			only = append(only, fmt.Sprintf("%s only in traverseNode x%d", s, n))
		} else if n < 0 {
			only = append(only, fmt.Sprintf("%s only in traverseNodeFiltered x%d", s, -n))
		}
	}
	sort.Strings(only)
	return strings.Join(only, ", ")
}

// calledNames: names of the functions/methods called directly in the body of fd.
func calledNames(fd *eng.FuncDecl) map[string]bool {
	out := map[string]bool{}
	ast.Inspect(fd.Decl.Body, func(n ast.Node) bool {
		if x, ok := n.(*ast.CallExpr); ok {
			switch f := x.Fun.(type) {
			case *ast.Ident:
				out[f.Name] = true
			case *ast.SelectorExpr:
				out[f.Sel.Name] = true
			}
		}
		return true
	})
	return out
}
