package rules

import (
	"fmt"
	"go/ast"
	"go/token"
	"go/types"
	"os"
	"sort"
	"strings"

	"golang.org/x/tools/go/ssa"
	"golang.org/x/tools/go/types/typeutil"

	"verif/checker/eng"
)

func init() {
	register(&Property{
		ID:    "C03",
		Level: "other",
		Explanation: "Decided (structural necessary conditions of determinism / non-interference): (R3.1) no module function reachable from the exported API writes package-level memory after initialisation and no goroutine is started, so extractions on distinct values share no mutable memory; (R3.2) every range-over-map loop is commutative, sorted before use, or explicitly justified, so no output depends on Go's randomised map order; (R3.3) option chaining copies every configuration field (clone completeness, shared with C10). " +
			"Not decided: byte equality of outputs itself, determinism of the standard library, races inside one Extractor shared by two goroutines.",
		Rules: []func(*eng.Ctx){ruleOverlapAskedTwiceEvaluated, ruleGraphicsExtractorReuseEvaluated, ruleExtractorTextKeepsCharactersEvaluated, rulePoolPutCarriesNoState, ruleDecodersLeaveInput, ruleCloseClearsOnlyOwned, ruleSelectionReadonly, rulePooledObjectsStayInside, ruleRenderLeavesReader, ruleNoPkgState, ruleMapOrder, ruleCloneComplete, ruleGlobalTableAlias, ruleCheckerPerPass, ruleMemoOnSuccess, ruleParsedDictsReadOnly, ruleCacheKeyAgreement, ruleInputReadonly, ruleReadOnlyExports},
	})
}

// ---------------------------------------------------------------------------
// R3.1 NO-PKG-STATE
// ---------------------------------------------------------------------------

// registrationAPI lists the explicit, documented registration entry points whose
// purpose is to mutate package state. They are accepted only while no other
// module package can reach them (checked below on the call graph).
var registrationAPI = map[string]string{
	"tables.RegisterDetector": "explicit detector registration API of package tables; not called from any extraction path (checked: only callers are tables.init and tests)",
}

func ruleNoPkgState(c *eng.Ctx) {
	const R = "R3.1-NO-PKG-STATE"
	c.Rule(R, "no function other than package initialisers writes memory rooted at a package-level variable (directly, through a callee that writes through a parameter, or through a value a callee returns from a global) or hands the address of package-level storage to code outside the module; no go statement in non-test code (sync.Pool Get/Put are judged by R3.13)", 1000, 3)
	p := c.P
	funcs := p.ModuleFuncs()

	eff := eng.EffectsOf(p)
	writesParam, returnsGlobal := eff.WritesParam, eff.ReturnsGlobal
	writes := eff.Writes
	isInit := func(fn *ssa.Function) bool {
		for f := fn; f != nil; f = f.Parent() {
			if f.Name() == "init" || strings.HasPrefix(f.Name(), "init#") || strings.HasPrefix(f.Synthetic, "package init") {
				return true
			}
		}
		return false
	}

	// reachability of a registration API from other packages
	cg := p.CallGraph()
	for name, reason := range registrationAPI {
		fn := p.Func(name)
		if fn == nil {
			continue
		}
		bad := ""
		if n := cg.Nodes[fn]; n != nil {
			for _, e := range n.In {
				caller := e.Caller.Func
				if eng.InModule(caller) && !isInit(caller) {
					bad = eng.FuncName(caller)
				}
			}
		}
		if bad != "" {
			c.Viol(R, name+"<-"+bad, fn.Pos(), "registration API that writes package state is now called from "+bad+": extraction results can depend on earlier calls")
		} else {
			c.Ok(R, name, fn.Pos(), "accepted: "+reason)
		}
	}

	seenFn := map[*ssa.Function]bool{}
	reported := map[string]bool{}
	for _, w := range writes {
		if isInit(w.Fn) {
			continue
		}
		name := eng.FuncName(w.Fn)
		if _, ok := registrationAPI[name]; ok {
			continue
		}
		key := name + "->" + w.Glob.Pkg.Pkg.Name() + "." + w.Glob.Name()
		if reported[key] {
			continue
		}
		reported[key] = true
		seenFn[w.Fn] = true
		c.Viol(R, key, w.Pos, fmt.Sprintf("%s of package-level variable %s outside initialisation (%s): state outlives the call and is shared between goroutines", w.How, w.Glob.Name(), name))
	}
	goCount := 0
	for _, fn := range funcs {
		for _, b := range fn.Blocks {
			for _, in := range b.Instrs {
				if g, ok := in.(*ssa.Go); ok {
					goCount++
					c.Viol(R, eng.FuncName(fn)+"#go", g.Pos(), "go statement in non-test code: the no-shared-state argument assumes the module starts no goroutine")
				}
			}
		}
		if !seenFn[fn] && !isInit(fn) {
			c.Ok(R, eng.FuncName(fn), fn.Pos(), "writes no package-level memory, starts no goroutine")
		}
	}
	c.Note("R3.1: %d module functions scanned, %d go statements, %d functions write through a parameter (summaries), %d return a global-rooted reference", len(funcs), goCount, len(writesParam), len(returnsGlobal))
}

func isRefType(t types.Type) bool {
	switch t.Underlying().(type) {
	case *types.Pointer, *types.Slice, *types.Map, *types.Interface, *types.Chan, *types.Signature:
		return true
	}
	return false
}

// ---------------------------------------------------------------------------
// R3.2 MAP-ORDER
// ---------------------------------------------------------------------------

// keyedSetters are module functions that behave like m[arg0] = … (confirmed by reading).
var keyedSetters = map[string]string{
	"core.(*XRefTable).Set":                "x.Entries[objNum] = entry",
	"text.(*Extractor).RegisterParsedFont": "e.fonts[name] = font",
}

// mapOrderAccepted lists order-dependent loops that were read and accepted, one
// reason each. Key: function + "#range(" + ranged expression + ")".
var mapOrderAccepted = map[string]string{
	"core.Dict.Keys#range(d)": "documented as 'arbitrary order'; the rule additionally requires that no module function calls it (checked on the call graph)",
}

type mapLoop struct {
	fn    string
	decl  *eng.FuncDecl
	rs    *ast.RangeStmt
	class string // commutative | sorted-after | order-dependent
	why   string
}

func ruleMapOrder(c *eng.Ctx) {
	const R = "R3.2-MAP-ORDER"
	c.Rule(R, "every range over a map is commutative (keyed map updates, integer accumulation, idempotent flags, deletes, existence tests), or its accumulated slice is sorted by a total order before any other use; anything else makes output depend on Go's randomised iteration order", 25, 2)
	loops := classifyMapLoops(c.P)
	for _, l := range loops {
		key := l.fn + "#range(" + types.ExprString(l.rs.X) + ")"
		switch l.class {
		case "commutative", "sorted-after":
			c.Ok(R, key, l.rs.Pos(), l.class+": "+l.why)
		default:
			if reason, ok := mapOrderAccepted[key]; ok {
				if l.fn == "core.Dict.Keys" {
					fn := c.P.Func("core.Dict.Keys")
					callers := 0
					if fn != nil {
						if n := c.P.CallGraph().Nodes[fn]; n != nil {
							for _, e := range n.In {
								if eng.InModule(e.Caller.Func) && e.Caller.Func.Synthetic == "" {
									callers++
								}
							}
						}
					}
					if callers > 0 {
						c.Viol(R, key, l.rs.Pos(), fmt.Sprintf("Dict.Keys returns keys in map order and now has %d callers inside the module", callers))
						continue
					}
				}
				c.Ok(R, key, l.rs.Pos(), "accepted order-dependent loop: "+reason)
				continue
			}
			c.Viol(R, key, l.rs.Pos(), "order-dependent map iteration: "+l.why)
		}
	}
}

func classifyMapLoops(p *eng.Prog) []mapLoop {
	var out []mapLoop
	decls := p.AllDecls()
	names := make([]string, 0, len(decls))
	for n := range decls {
		names = append(names, n)
	}
	sort.Strings(names)
	for _, name := range names {
		fd := decls[name]
		if fd.Decl.Body == nil {
			continue
		}
		info := fd.Pkg.TypesInfo
		// find range-over-map statements with their enclosing statement lists
		var visit func(list []ast.Stmt)
		var visitStmt func(s ast.Stmt, list []ast.Stmt, idx int)
		visit = func(list []ast.Stmt) {
			for i, s := range list {
				visitStmt(s, list, i)
			}
		}
		visitStmt = func(s ast.Stmt, list []ast.Stmt, idx int) {
			switch x := s.(type) {
			case *ast.RangeStmt:
				if t := info.TypeOf(x.X); t != nil {
					if _, ok := t.Underlying().(*types.Map); ok {
						mapOrderProg, mapOrderFn = p, name
						cl, why := classifyLoop(info, fd, x, list[idx+1:])
						out = append(out, mapLoop{fn: name, decl: fd, rs: x, class: cl, why: why})
					}
				}
				visit(x.Body.List)
			case *ast.BlockStmt:
				visit(x.List)
			case *ast.IfStmt:
				visit(x.Body.List)
				if x.Else != nil {
					visitStmt(x.Else, nil, 0)
				}
			case *ast.ForStmt:
				visit(x.Body.List)
			case *ast.SwitchStmt:
				for _, cc := range x.Body.List {
					visit(cc.(*ast.CaseClause).Body)
				}
			case *ast.TypeSwitchStmt:
				for _, cc := range x.Body.List {
					visit(cc.(*ast.CaseClause).Body)
				}
			case *ast.SelectStmt:
				for _, cc := range x.Body.List {
					visit(cc.(*ast.CommClause).Body)
				}
			case *ast.LabeledStmt:
				visitStmt(x.Stmt, list, idx)
			}
			// function literals inside expressions
			ast.Inspect(s, func(n ast.Node) bool {
				if fl, ok := n.(*ast.FuncLit); ok {
					visit(fl.Body.List)
					return false
				}
				switch n.(type) {
				case *ast.BlockStmt:
					return n == s // do not descend into nested statement blocks twice
				}
				return true
			})
		}
		visit(fd.Decl.Body.List)
	}
	return out
}

// classifyLoop inspects the body of one range-over-map statement.
func classifyLoop(info *types.Info, fd *eng.FuncDecl, rs *ast.RangeStmt, after []ast.Stmt) (string, string) {
	tainted := map[types.Object]bool{} // objects whose value depends on the iteration element
	local := map[types.Object]bool{}   // objects declared inside the loop body
	var keyObj types.Object
	addDef := func(e ast.Expr, taint bool) {
		if id, ok := e.(*ast.Ident); ok && id.Name != "_" {
			if o := info.Defs[id]; o != nil {
				local[o] = true
				if taint {
					tainted[o] = true
				}
			} else if o := info.Uses[id]; o != nil && taint {
				tainted[o] = true
			}
		}
	}
	if rs.Key != nil {
		addDef(rs.Key, true)
		if id, ok := rs.Key.(*ast.Ident); ok {
			keyObj = info.Defs[id]
			if keyObj == nil {
				keyObj = info.Uses[id]
			}
		}
	}
	if rs.Value != nil {
		addDef(rs.Value, true)
	}
	mentions := func(e ast.Node, set map[types.Object]bool) bool {
		found := false
		if e == nil {
			return false
		}
		ast.Inspect(e, func(n ast.Node) bool {
			if id, ok := n.(*ast.Ident); ok {
				if o := info.Uses[id]; o != nil && set[o] {
					found = true
				}
			}
			return !found
		})
		return found
	}
	isTainted := func(e ast.Node) bool { return mentions(e, tainted) }
	mentionsKey := func(e ast.Node) bool {
		if keyObj == nil {
			return false
		}
		return mentions(e, map[types.Object]bool{keyObj: true})
	}
	// key-derived: tainted through the key only is approximated by "mentions a tainted object"
	rootObj := func(e ast.Expr) types.Object {
		for {
			switch x := e.(type) {
			case *ast.Ident:
				if o := info.Uses[x]; o != nil {
					return o
				}
				return info.Defs[x]
			case *ast.SelectorExpr:
				e = x.X
			case *ast.IndexExpr:
				e = x.X
			case *ast.StarExpr:
				e = x.X
			case *ast.ParenExpr:
				e = x.X
			default:
				return nil
			}
		}
	}
	isConst := func(e ast.Expr) bool {
		if tv, ok := info.Types[e]; ok && tv.Value != nil {
			return true
		}
		if id, ok := e.(*ast.Ident); ok && (id.Name == "nil" || id.Name == "true" || id.Name == "false") {
			return true
		}
		return false
	}
	isInt := func(e ast.Expr) bool {
		t := info.TypeOf(e)
		if t == nil {
			return false
		}
		b, ok := t.Underlying().(*types.Basic)
		return ok && b.Info()&types.IsInteger != 0
	}

	var problems []string
	appended := map[types.Object]bool{} // outer slices appended to
	var notes []string
	bad := func(pos token.Pos, f string, a ...any) {
		problems = append(problems, fmt.Sprintf(f, a...))
	}

	var walk func(list []ast.Stmt, guard ast.Expr)
	var stmt func(s ast.Stmt, guard ast.Expr)
	walk = func(list []ast.Stmt, guard ast.Expr) {
		for _, s := range list {
			stmt(s, guard)
		}
	}
	stmt = func(s ast.Stmt, guard ast.Expr) {
		switch x := s.(type) {
		case *ast.BlockStmt:
			walk(x.List, guard)
		case *ast.EmptyStmt:
		case *ast.BranchStmt:
			if x.Tok == token.BREAK || x.Tok == token.GOTO {
				notes = append(notes, "break (existence test)")
			}
		case *ast.DeclStmt:
			if gd, ok := x.Decl.(*ast.GenDecl); ok {
				for _, sp := range gd.Specs {
					if vs, ok := sp.(*ast.ValueSpec); ok {
						t := false
						for _, v := range vs.Values {
							if isTainted(v) {
								t = true
							}
						}
						for _, n := range vs.Names {
							addDef(n, t)
						}
					}
				}
			}
		case *ast.IfStmt:
			if x.Init != nil {
				stmt(x.Init, guard)
			}
			stmt(x.Body, x.Cond)
			if x.Else != nil {
				stmt(x.Else, x.Cond)
			}
		case *ast.SwitchStmt:
			if x.Init != nil {
				stmt(x.Init, guard)
			}
			for _, cc := range x.Body.List {
				walk(cc.(*ast.CaseClause).Body, guard)
			}
		case *ast.TypeSwitchStmt:
			if x.Init != nil {
				stmt(x.Init, guard)
			}
			// the bound variable of "switch v := x.(type)" is tainted if x is
			if as, ok := x.Assign.(*ast.AssignStmt); ok {
				t := isTainted(as.Rhs[0])
				for _, cc := range x.Body.List {
					if o := info.Implicits[cc]; o != nil {
						local[o] = true
						if t {
							tainted[o] = true
						}
					}
				}
			}
			for _, cc := range x.Body.List {
				walk(cc.(*ast.CaseClause).Body, guard)
			}
		case *ast.ForStmt:
			if x.Init != nil {
				stmt(x.Init, guard)
			}
			if x.Post != nil {
				stmt(x.Post, guard)
			}
			stmt(x.Body, guard)
		case *ast.RangeStmt:
			t := isTainted(x.X)
			if x.Tok == token.DEFINE {
				if x.Key != nil {
					addDef(x.Key, t)
				}
				if x.Value != nil {
					addDef(x.Value, t)
				}
			}
			stmt(x.Body, guard)
		case *ast.IncDecStmt:
			o := rootObj(x.X)
			if o != nil && local[o] {
				return
			}
			if !isInt(x.X) {
				bad(x.Pos(), "non-integer ++/-- on outer variable %s", types.ExprString(x.X))
			}
		case *ast.ReturnStmt:
			for _, r := range x.Results {
				if isConst(r) {
					continue
				}
				if t := info.TypeOf(r); t != nil && eng.IsErrorType(t) {
					continue // which of several errors is reported may vary; not an extraction result
				}
				if isTainted(r) {
					bad(x.Pos(), "returns the first matching element (%s): with several candidates the result depends on iteration order", types.ExprString(r))
				}
			}
		case *ast.ExprStmt:
			call, ok := x.X.(*ast.CallExpr)
			if !ok {
				return
			}
			if id, ok := call.Fun.(*ast.Ident); ok && id.Name == "delete" {
				return
			}
			callee := typeutil.Callee(info, call)
			name := ""
			if f, ok := callee.(*types.Func); ok {
				name = funcObjName(f)
			}
			if _, ok := keyedSetters[name]; ok && len(call.Args) > 0 && isTainted(call.Args[0]) {
				notes = append(notes, "keyed setter "+name)
				return
			}
			// receiver local to the loop or the element itself: effect confined to the element
			if sel, ok := call.Fun.(*ast.SelectorExpr); ok {
				if o := rootObj(sel.X); o != nil && (local[o] || tainted[o]) {
					return
				}
			}
			anyT := false
			for _, a := range call.Args {
				if isTainted(a) {
					anyT = true
				}
			}
			if anyT {
				bad(x.Pos(), "call %s with iteration-dependent arguments has an ordered effect on outer state", types.ExprString(call.Fun))
			}
		case *ast.AssignStmt:
			if x.Tok == token.DEFINE {
				t := false
				for _, r := range x.Rhs {
					if isTainted(r) {
						t = true
					}
				}
				for _, l := range x.Lhs {
					addDef(l, t)
				}
				return
			}
			for i, l := range x.Lhs {
				var r ast.Expr
				if len(x.Rhs) == len(x.Lhs) {
					r = x.Rhs[i]
				} else if len(x.Rhs) == 1 {
					r = x.Rhs[0]
				}
				if id, ok := l.(*ast.Ident); ok && id.Name == "_" {
					continue
				}
				o := rootObj(l)
				if o != nil && local[o] {
					if r != nil && isTainted(r) {
						tainted[o] = true
					}
					continue
				}
				// map element store
				if ix, ok := l.(*ast.IndexExpr); ok {
					if mt := info.TypeOf(ix.X); mt != nil {
						if _, isMap := mt.Underlying().(*types.Map); isMap {
							if isTainted(ix.Index) {
								continue // keyed update
							}
							if r != nil && isConst(r) {
								continue
							}
							bad(x.Pos(), "map store %s whose key does not depend on the iteration key: last writer wins", types.ExprString(l))
							continue
						}
					}
				}
				switch x.Tok {
				case token.ADD_ASSIGN, token.SUB_ASSIGN, token.OR_ASSIGN, token.AND_ASSIGN, token.XOR_ASSIGN, token.MUL_ASSIGN:
					if isInt(l) || isBool(info, l) {
						continue
					}
					bad(x.Pos(), "%s on non-integer outer variable %s (float/string accumulation is order-sensitive)", x.Tok, types.ExprString(l))
					continue
				}
				if r == nil {
					continue
				}
				if isConst(r) {
					continue // idempotent flag
				}
				// x = append(x, …)
				if call, ok := r.(*ast.CallExpr); ok {
					if id, ok := call.Fun.(*ast.Ident); ok && id.Name == "append" && len(call.Args) > 0 {
						if ro := rootObj(call.Args[0]); ro != nil && ro == o {
							if _, isField := l.(*ast.SelectorExpr); !isField {
								appended[o] = true
								continue
							}
						}
					}
				}
				if !isTainted(r) {
					continue
				}
				// x = insertSorted(x, key): a helper of the module that places the key by binary search keeps the slice
				// sorted and duplicate-free whatever order the keys arrive in
				if call, ok := r.(*ast.CallExpr); ok && len(call.Args) >= 1 && mapOrderProg != nil {
					if ro := rootObj(call.Args[0]); ro != nil && ro == o {
						var callee *types.Func
						switch f := call.Fun.(type) {
						case *ast.Ident:
							callee, _ = info.Uses[f].(*types.Func)
						case *ast.SelectorExpr:
							callee, _ = info.Uses[f.Sel].(*types.Func)
						}
						if callee != nil && sortedInsertHelper(mapOrderProg, callee) {
							notes = append(notes, "sorted insert")
							continue
						}
					}
				}
				// max/min without capturing the key: if a > b { b = a }
				if be, ok := guard.(*ast.BinaryExpr); ok && (be.Op == token.GTR || be.Op == token.LSS || be.Op == token.GEQ || be.Op == token.LEQ) {
					le, re := types.ExprString(be.X), types.ExprString(be.Y)
					ls, rsx := types.ExprString(l), types.ExprString(r)
					if (le == rsx && re == ls) || (le == ls && re == rsx) {
						notes = append(notes, "max/min of value")
						continue
					}
				}
				// arg-max capturing key: accepted only if the guard breaks ties on the key
				_ = mentionsKey
				if guard != nil && guardBreaksTies(guard, keyObj, info) {
					notes = append(notes, "arg-max with tie-break on key")
					continue
				}
				bad(x.Pos(), "assignment %s = %s selects an element by iteration order (no tie-break on the key)", types.ExprString(l), types.ExprString(r))
			}
		case *ast.DeferStmt, *ast.GoStmt:
			bad(s.Pos(), "defer/go inside map iteration")
		case *ast.LabeledStmt:
			stmt(x.Stmt, guard)
		}
	}
	walk(rs.Body.List, nil)

	// appended slices must be sorted by a total order before any other use
	for o := range appended {
		if sortedAfter(info, o, after) {
			continue
		}
		if mapOrderProg != nil && keysOnlyNameMapEntries(mapOrderProg, mapOrderFn, o.Name()) {
			notes = append(notes, "key list used only to address map entries")
			continue
		}
		bad(rs.Pos(), "slice %s is appended to in map order and not sorted (sort.Strings/Ints/Float64s, slices.Sort) before use", o.Name())
	}
	if len(problems) > 0 {
		return "order-dependent", strings.Join(problems, "; ")
	}
	if len(appended) > 0 {
		return "sorted-after", "appended slice is sorted by a total order before use"
	}
	why := "only keyed map updates, integer accumulation, idempotent flags, deletes or existence tests"
	if len(notes) > 0 {
		why += " (" + strings.Join(dedupStr(notes), ", ") + ")"
	}
	return "commutative", why
}

func isBool(info *types.Info, e ast.Expr) bool {
	t := info.TypeOf(e)
	if t == nil {
		return false
	}
	b, ok := t.Underlying().(*types.Basic)
	return ok && b.Info()&types.IsBoolean != 0
}

// guardBreaksTies recognises  a > b || (a == b && key < best)  style guards: the
// condition must contain an equality test and an ordering test on the key.
func guardBreaksTies(guard ast.Expr, key types.Object, info *types.Info) bool {
	if key == nil {
		return false
	}
	hasEq, keyOrd := false, false
	ast.Inspect(guard, func(n ast.Node) bool {
		be, ok := n.(*ast.BinaryExpr)
		if !ok {
			return true
		}
		if be.Op == token.EQL {
			hasEq = true
		}
		if be.Op == token.LSS || be.Op == token.GTR {
			for _, side := range []ast.Expr{be.X, be.Y} {
				if id, ok := side.(*ast.Ident); ok && info.Uses[id] == key {
					keyOrd = true
				}
			}
		}
		return true
	})
	return hasEq && keyOrd
}

// sortedAfter: the first statement after the loop that mentions the slice is a
// call to a total-order sort of exactly that slice.
func sortedAfter(info *types.Info, o types.Object, after []ast.Stmt) bool {
	for _, s := range after {
		uses := false
		ast.Inspect(s, func(n ast.Node) bool {
			if id, ok := n.(*ast.Ident); ok && info.Uses[id] == o {
				uses = true
			}
			return !uses
		})
		if !uses {
			continue
		}
		es, ok := s.(*ast.ExprStmt)
		if !ok {
			return false
		}
		call, ok := es.X.(*ast.CallExpr)
		if !ok || len(call.Args) < 1 {
			return false
		}
		f, ok := typeutil.Callee(info, call).(*types.Func)
		if !ok || f.Pkg() == nil {
			return false
		}
		full := f.Pkg().Path() + "." + f.Name()
		switch full {
		case "sort.Strings", "sort.Ints", "sort.Float64s", "slices.Sort":
			if id, ok := call.Args[0].(*ast.Ident); ok && info.Uses[id] == o {
				return true
			}
		case "sort.Sort", "sort.Stable":
			// sort.Sort(sort.StringSlice(s)): the standard library's own total orders, which sort.Strings is short for
			if conv, ok := call.Args[0].(*ast.CallExpr); ok && len(conv.Args) == 1 {
				if tv, ok := info.Types[conv.Fun]; ok && tv.IsType() {
					switch tv.Type.String() {
					case "sort.StringSlice", "sort.IntSlice", "sort.Float64Slice":
						if id, ok := conv.Args[0].(*ast.Ident); ok && info.Uses[id] == o {
							return true
						}
					}
				}
			}
		}
		return false
	}
	return false
}

func funcObjName(f *types.Func) string {
	pkg := ""
	if f.Pkg() != nil {
		pkg = f.Pkg().Path()
		if strings.HasPrefix(pkg, eng.ModPath) {
			pkg = eng.ShortPath(pkg)
			if pkg == "" {
				pkg = "tabula"
			}
		}
	}
	sig := f.Type().(*types.Signature)
	if r := sig.Recv(); r != nil {
		t := r.Type()
		star := false
		if pt, ok := t.(*types.Pointer); ok {
			t = pt.Elem()
			star = true
		}
		n := t.String()
		if nt, ok := t.(*types.Named); ok {
			n = nt.Obj().Name()
		}
		if star {
			return fmt.Sprintf("%s.(*%s).%s", pkg, n, f.Name())
		}
		return fmt.Sprintf("%s.%s.%s", pkg, n, f.Name())
	}
	return pkg + "." + f.Name()
}

func dedupStr(in []string) []string {
	seen := map[string]bool{}
	var out []string
	for _, s := range in {
		if !seen[s] {
			seen[s] = true
			out = append(out, s)
		}
	}
	return out
}

// ---------------------------------------------------------------------------
// R3.3 / R10.2 / R10.3 CLONE completeness (T-FIELDS)
// ---------------------------------------------------------------------------

type cloneSpec struct {
	fn       string
	pkg      string
	typ      string
	aliasOK  map[string]string // field -> reason a shared reference is intended
	optional bool              // the function may have been inlined into its caller
}

var cloneSpecs = []cloneSpec{
	{fn: "tabula.(*Extractor).clone", pkg: "tabula", typ: "Extractor", aliasOK: map[string]string{
		"reader": "shared open reader handle (by design: derived extractors read the same file)", "docxReader": "shared reader handle", "odtReader": "shared reader handle",
		"xlsxReader": "shared reader handle", "pptxReader": "shared reader handle", "htmlReader": "shared reader handle", "epubReader": "shared reader handle",
		"ocrClient": "shared lazily created OCR client", "err": "error values are immutable",
	}},
	{fn: "tabula.ExtractOptions.clone", pkg: "tabula", typ: "ExtractOptions", aliasOK: map[string]string{}, optional: true},
}

// resourceState: fields of Extractor that describe the open resource, not the configuration. Whether a derived
// extractor gets them is a question of ownership (R10.11), not of completeness of the copy.
var resourceState = map[string]string{
	"ownsReader":   "the duty to close the reader is not inherited (R10.11)",
	"readerOpened": "state of the reader; a copy without a reader opens its own",
	"reader":       "handle; shared only when nobody here owns it (R10.11)", "docxReader": "handle (R10.11)", "odtReader": "handle (R10.11)",
	"xlsxReader": "handle (R10.11)", "pptxReader": "handle (R10.11)", "htmlReader": "handle (R10.11)", "epubReader": "handle (R10.11)",
}

func ruleCloneComplete(c *eng.Ctx) {
	R := "R3.3-CLONE"
	if c.Prop == "C10" {
		R = "R10.2-CLONE"
	}
	c.Rule(R, "clone functions assign every field of the struct from the same field of the source; fields that contain references (slices, maps, nested structs with slices) are rebuilt, not aliased, unless allow-listed by name with a reason", 12, 0)
	for _, sp := range cloneSpecs {
		fn := c.P.FuncExact(sp.fn)
		if fn == nil {
			if r := c.P.RenamedTo(sp.fn); r != "" {
				fn = c.P.FuncExact(r)
			}
		}
		nt := c.P.NamedType(sp.pkg, sp.typ)
		if fn == nil && nt != nil && sp.optional {
			// the nested clone was inlined into its only caller: the caller's field is judged there
			c.Ok(R, sp.fn+"#inlined", token.NoPos, "no separate clone function: the copy is judged where the field is rebuilt")
			continue
		}
		if fn == nil || nt == nil {
			c.Undec(R, sp.fn, token.NoPos, "anchor not found: "+sp.fn)
			continue
		}
		fields, err := eng.AnalyseStructCopy(fn, nt, true)
		if err != nil {
			c.Undec(R, sp.fn, fn.Pos(), err.Error())
			continue
		}
		for _, name := range eng.SortedFields(fields) {
			fc := fields[name]
			key := sp.fn + "#" + name
			pos := fc.Pos
			if pos == token.NoPos {
				pos = fn.Pos()
			}
			switch {
			case !fc.Assigned && resourceState[name] != "":
				c.Ok(R, key, pos, "not a setting: "+resourceState[name])
			case !fc.Assigned:
				c.Viol(R, key, pos, "field "+name+" is not copied by "+sp.fn+": a derived value silently loses this setting")
			case !fc.FromSame && !fc.Fresh:
				c.Viol(R, key, pos, "field "+name+" is assigned, but not from the source's "+name)
			case fc.RefType && fc.Alias:
				if why, ok := sp.aliasOK[name]; ok {
					c.Ok(R, key, pos, "shared reference accepted: "+why)
				} else {
					c.Viol(R, key, pos, "field "+name+" holds references and is copied by plain assignment: the copy and the original share memory, so configuring one changes the other")
				}
			case fc.RefType && !fc.Fresh:
				if why, ok := sp.aliasOK[name]; ok {
					c.Ok(R, key, pos, "shared reference accepted: "+why)
				} else {
					c.Viol(R, key, pos, "field "+name+" holds references and is not rebuilt (make/append(nil,…)/clone call)")
				}
			default:
				c.Ok(R, key, pos, "copied")
			}
		}
		// a copy into a slice made with length 0 copies nothing: the field is fresh but empty
		nCopy := 0
		for _, ci := range eng.Calls(fn, false, func(n string, _ ssa.CallInstruction) bool { return n == "builtin:copy" }) {
			dst := ci.Common().Args[0]
			empty, other := false, false
			for w := range eng.Slice(dst, nil) {
				switch x := w.(type) {
				case *ssa.MakeSlice:
					if k, isC := eng.ConstInt(x.Len); isC && k == 0 {
						empty = true
					} else {
						other = true
					}
				case *ssa.Call:
					if eng.CalleeName(x) == "builtin:append" {
						other = true
					}
				case *ssa.Slice:
					if x.High != nil {
						other = true // re-sliced up to a length
					}
				}
			}
			// the destination read back from the field it was just stored in
			if ld, ok := dst.(*ssa.UnOp); ok && !empty {
				if fa, ok := ld.X.(*ssa.FieldAddr); ok {
					for _, r := range *fa.X.Referrers() {
						fa2, ok := r.(*ssa.FieldAddr)
						if !ok || fa2.Field != fa.Field {
							continue
						}
						for _, rr := range *fa2.Referrers() {
							if st, ok := rr.(*ssa.Store); ok && st.Addr == ssa.Value(fa2) {
								if mk, ok := st.Val.(*ssa.MakeSlice); ok {
									if k, isC := eng.ConstInt(mk.Len); isC && k == 0 {
										empty = true
									} else {
										other = true
									}
								} else {
									other = true
								}
							}
						}
					}
				}
			}
			nCopy++
			key := fmt.Sprintf("%s#copy%d", sp.fn, nCopy)
			if os.Getenv("VDEBUG") == "copy" {
				fmt.Fprintf(os.Stderr, "COPY %s empty=%v other=%v dst=%s\n", key, empty, other, dst)
			}
			c.Check(!(empty && !other), R, key, ci.Pos(), "the destination has room for the copied elements", "copy into a slice made with length 0 copies nothing: the derived value starts with an empty "+"selection although the source had one")
		}
	}
}

var (
	mapOrderProg *eng.Prog
	mapOrderFn   string
)

// keysOnlyNameMapEntries: the slice that function fnName fills in map order (local variable varName) is put into a
// struct field, and every element read out of that field anywhere in the module is used only to address map entries
// (as the key of a lookup or update, or as part of a string that is): the order of the slice then decides nothing.
func keysOnlyNameMapEntries(p *eng.Prog, fnName, varName string) bool {
	fn := p.Func(fnName)
	if fn == nil || fn.Blocks == nil {
		return false
	}
	// the appended slice and where it goes
	var field *eng.FieldRef
	escapes := false
	eng.Instrs(fn, false, func(in ssa.Instruction) {
		call, ok := in.(*ssa.Call)
		if !ok {
			return
		}
		bi, ok := call.Call.Value.(*ssa.Builtin)
		if !ok || bi.Name() != "append" {
			return
		}
		vals := []ssa.Value{call}
		seen := map[ssa.Value]bool{call: true}
		for i := 0; i < len(vals); i++ {
			if vals[i].Referrers() == nil {
				continue
			}
			for _, r := range *vals[i].Referrers() {
				switch x := r.(type) {
				case *ssa.Phi:
					if !seen[x] {
						seen[x] = true
						vals = append(vals, x)
					}
				case *ssa.Store:
					if x.Val != vals[i] {
						continue
					}
					if fr, ok := eng.AsField(x.Addr); ok {
						f := fr
						field = &f
					} else if _, isAlloc := x.Addr.(*ssa.Alloc); !isAlloc {
						escapes = true
					}
				case *ssa.Return, *ssa.MapUpdate, *ssa.Send:
					escapes = true
				case *ssa.Call:
					if b2, ok := x.Call.Value.(*ssa.Builtin); ok && (b2.Name() == "append" || b2.Name() == "len" || b2.Name() == "cap") {
						if b2.Name() == "append" && !seen[x] {
							seen[x] = true
							vals = append(vals, x)
						}
						continue
					}
					escapes = true
				}
			}
		}
	})
	_ = varName
	if field == nil || escapes {
		return false
	}
	// every element read from that field
	var keyOnly func(v ssa.Value, depth int, seen map[ssa.Value]bool) bool
	keyOnly = func(v ssa.Value, depth int, seen map[ssa.Value]bool) bool {
		if seen[v] {
			return true
		}
		seen[v] = true
		if depth > 6 || v.Referrers() == nil {
			return false
		}
		for _, r := range *v.Referrers() {
			switch x := r.(type) {
			case *ssa.DebugRef:
			case *ssa.Lookup:
				if x.Index != v {
					return false
				}
			case *ssa.MapUpdate:
				if x.Key != v {
					return false
				}
			case *ssa.BinOp:
				if x.Op == token.ADD {
					if !keyOnly(x, depth+1, seen) {
						return false
					}
				} // comparisons decide nothing about order
			case *ssa.Phi:
				if !keyOnly(x, depth+1, seen) {
					return false
				}
			case *ssa.Call:
				cal := eng.StaticCallee(x)
				if cal == nil || !eng.InModule(cal) || cal.Blocks == nil {
					return false
				}
				for ai, a := range eng.ArgsWithRecv(x) {
					if a == v && ai < len(cal.Params) {
						if !keyOnly(cal.Params[ai], depth+1, seen) {
							return false
						}
					}
				}
			case *ssa.Store:
				// parked in a field of the same kind of record (the prefix of the next level): its readers are held to the same
				fr, ok := eng.AsField(x.Addr)
				if !ok || x.Val != v {
					return false
				}
				okAll := true
				for _, g := range p.ModuleFuncs() {
					if g.Pkg != fn.Pkg {
						continue
					}
					eng.Instrs(g, true, func(i2 ssa.Instruction) {
						if u, ok := i2.(*ssa.UnOp); ok && u.Op == token.MUL {
							if f2, ok := eng.AsField(u.X); ok && f2.Field == fr.Field && f2.Struct == fr.Struct {
								if !keyOnly(u, depth+1, seen) {
									okAll = false
								}
							}
						}
					})
				}
				if !okAll {
					return false
				}
			default:
				return false
			}
		}
		return true
	}
	n, all := 0, true
	for _, g := range p.ModuleFuncs() {
		if g.Pkg != fn.Pkg {
			continue
		}
		eng.Instrs(g, true, func(in ssa.Instruction) {
			ia, ok := in.(*ssa.IndexAddr)
			if !ok {
				return
			}
			fr, ok := eng.LoadOfField(ia.X)
			if !ok || fr.Field != field.Field || fr.Struct != field.Struct {
				return
			}
			for _, r := range *ia.Referrers() {
				if u, ok := r.(*ssa.UnOp); ok && u.Op == token.MUL {
					n++
					if !keyOnly(u, 0, map[ssa.Value]bool{}) {
						all = false
					}
				} else {
					all = false
				}
			}
		})
	}
	return n > 0 && all
}

// sortedInsertHelper: a function of the module whose body looks the key up with sort.Search* in its first parameter
// (and so inserts at the sorted position).
func sortedInsertHelper(p *eng.Prog, f *types.Func) bool {
	for _, fn := range p.ModuleFuncs() {
		if fn.Object() != types.Object(f) || fn.Blocks == nil || len(fn.Params) < 2 {
			continue
		}
		found := false
		for _, ci := range eng.Calls(fn, false, func(nm string, _ ssa.CallInstruction) bool {
			return nm == "sort.SearchStrings" || nm == "sort.SearchInts" || nm == "sort.Search" || strings.HasPrefix(nm, "slices.BinarySearch")
		}) {
			args := ci.Common().Args
			if len(args) > 0 && args[0] == ssa.Value(fn.Params[0]) {
				found = true
			}
			if eng.CalleeName(ci) == "sort.Search" {
				found = true
			}
		}
		return found
	}
	return false
}
