package rules

import (
	"fmt"
	"go/ast"
	"go/constant"
	"go/token"
	"go/types"
	"sort"
	"strings"

	"golang.org/x/tools/go/ssa"

	"verif/checker/eng"
)

func init() {
	register(&Property{
		ID:    "C20",
		Level: "other",
		Explanation: "Decided (structural necessary conditions of admission by content): (R20.1) the format tables are consistent and exhaustive: Detect(Extension(f)) = f for every format, String/Extension/ensureReader cover every format constant; (R20.2) every reader is opened only after validateFormat succeeded, and validateFormat returns success only when the sniffed format is unknown or equals the extension's format; (R20.3) in the EPUB reader the DRM check dominates every content-reading step, checkForDRM refuses rights.xml unconditionally, refuses on unparsable or content-covering encryption metadata, and can only report 'no DRM' after the whole archive was scanned; (R20.4) content sniffing scans the complete member list in the order mimetype, container.xml, OOXML prefixes, and ZIP detection reads every member, not a prefix of the list. " +
			"Not decided: behaviour on member permutations beyond completeness of the scans, URI casing, what counts as a content document at run time.",
		Rules: []func(*eng.Ctx){ruleSniffersAgree, callersAgreeRule("R20.CN", "format", "epubdoc"), ruleReadEOFIsNotFailure, ruleErrorChainKept, ruleFormatTables, ruleValidateFirst, ruleDRMGate, ruleSniffScan, roleRule("R20.R", "format", "epubdoc"), ruleMagicAtOffsetZero, ruleDRMDefaultDeny, ruleLimitTruncationAdmission, ruleContentByExtension},
	})
}

// switchMap extracts  case <label>: return <value>  pairs (both constants) of the first switch of a function.
func switchMap(fd *eng.FuncDecl) (map[string]string, string) {
	out := map[string]string{}
	def := ""
	info := fd.Pkg.TypesInfo
	cv := func(e ast.Expr) (string, bool) {
		tv, ok := info.Types[e]
		if !ok || tv.Value == nil {
			return "", false
		}
		if tv.Value.Kind() == constant.String {
			return "s:" + constant.StringVal(tv.Value), true
		}
		return "i:" + tv.Value.ExactString(), true
	}
	done := false
	ast.Inspect(fd.Decl.Body, func(n ast.Node) bool {
		sw, ok := n.(*ast.SwitchStmt)
		if !ok || done {
			return true
		}
		done = true
		for _, st := range sw.Body.List {
			cc := st.(*ast.CaseClause)
			ret := ""
			for _, bs := range cc.Body {
				if rs, ok := bs.(*ast.ReturnStmt); ok && len(rs.Results) >= 1 {
					if v, ok := cv(rs.Results[0]); ok {
						ret = v
					}
				}
			}
			if cc.List == nil {
				def = ret
				continue
			}
			for _, e := range cc.List {
				if k, ok := cv(e); ok {
					out[k] = ret
				}
			}
		}
		return false
	})
	if !done {
		// table form: `return names[f]` on a package-level literal table (array or map) that is only read;
		// a guarded fallback `return <const>` before or after it is the default
		ast.Inspect(fd.Decl.Body, func(n ast.Node) bool {
			ix, ok := n.(*ast.IndexExpr)
			if !ok || done {
				return true
			}
			id, ok := ix.X.(*ast.Ident)
			if !ok {
				return true
			}
			obj, ok := info.Uses[id].(*types.Var)
			if !ok || obj.Pkg() == nil || obj.Parent() != obj.Pkg().Scope() {
				return true
			}
			for _, f := range fd.Pkg.Syntax {
				for _, d := range f.Decls {
					gd, ok := d.(*ast.GenDecl)
					if !ok {
						continue
					}
					for _, sp := range gd.Specs {
						vs, ok := sp.(*ast.ValueSpec)
						if !ok {
							continue
						}
						for i, nm := range vs.Names {
							if info.Defs[nm] != types.Object(obj) || i >= len(vs.Values) {
								continue
							}
							lit, ok := vs.Values[i].(*ast.CompositeLit)
							if !ok {
								continue
							}
							done = true
							pos := int64(0)
							for _, el := range lit.Elts {
								key := "i:" + fmt.Sprint(pos)
								val := el
								if kv, ok := el.(*ast.KeyValueExpr); ok {
									if k, ok := cv(kv.Key); ok {
										key = k
										if strings.HasPrefix(k, "i:") {
											fmt.Sscan(strings.TrimPrefix(k, "i:"), &pos)
										}
									}
									val = kv.Value
								}
								pos++
								if v, ok := cv(val); ok {
									out[key] = v
								}
							}
						}
					}
				}
			}
			return true
		})
		if done {
			ast.Inspect(fd.Decl.Body, func(n ast.Node) bool {
				if rs, ok := n.(*ast.ReturnStmt); ok && len(rs.Results) >= 1 {
					if v, ok := cv(rs.Results[0]); ok {
						def = v
					}
				}
				return true
			})
		}
	}
	return out, def
}

func ruleFormatTables(c *eng.Ctx) {
	const R = "R20.1-FORMAT-TABLES"
	c.Rule(R, "for every format.Format constant except Unknown: String and Extension have a case, Detect maps the extension back to the same constant, and ensureReader has an opening case", 28, 0)
	pk := c.P.ByPath["format"]
	if pk == nil {
		c.Undec(R, "format", token.NoPos, "package not loaded")
		return
	}
	ft := c.P.NamedType("format", "Format")
	consts := map[string]string{} // name -> "i:val"
	for _, n := range pk.Types.Scope().Names() {
		if cn, ok := pk.Types.Scope().Lookup(n).(*types.Const); ok && types.Identical(cn.Type(), ft) {
			consts[n] = "i:" + cn.Val().ExactString()
		}
	}
	strFd, extFd, detFd := c.P.Decl("format.Format.String"), c.P.Decl("format.Format.Extension"), c.P.Decl("format.Detect")
	ensFd := c.P.Decl("tabula.(*Extractor).ensureReader")
	if strFd == nil || extFd == nil || detFd == nil || ensFd == nil || len(consts) < 2 {
		c.Undec(R, "format tables", token.NoPos, "anchor functions not found")
		return
	}
	strM, _ := switchMap(strFd)
	extM, _ := switchMap(extFd)
	detM, detDef := switchMap(detFd)
	ensLabels := map[string]bool{}
	ast.Inspect(ensFd.Decl.Body, func(n ast.Node) bool {
		if cc, ok := n.(*ast.CaseClause); ok {
			for _, e := range cc.List {
				if tv, ok := ensFd.Pkg.TypesInfo.Types[e]; ok && tv.Value != nil {
					ensLabels["i:"+tv.Value.ExactString()] = true
				}
			}
		}
		return true
	})
	names := make([]string, 0, len(consts))
	for n := range consts {
		names = append(names, n)
	}
	sort.Strings(names)
	for _, n := range names {
		v := consts[n]
		if n == "Unknown" {
			c.Check(detDef == v, R, "format.Detect#default", detFd.Decl.Pos(), "unknown extensions map to Unknown", "an unknown extension is no longer reported as Unknown")
			continue
		}
		_, hasStr := strM[v]
		c.Check(hasStr, R, "format.Format.String#"+n, strFd.Decl.Pos(), "named", "format "+n+" has no name in String()")
		ext, hasExt := extM[v]
		c.Check(hasExt && ext != "", R, "format.Format.Extension#"+n, extFd.Decl.Pos(), "has an extension", "format "+n+" has no extension")
		back := detM[ext]
		c.Check(hasExt && back == v, R, "format.Detect#"+n, detFd.Decl.Pos(), "Detect(Extension("+n+")) == "+n, fmt.Sprintf("Detect(Extension(%s)) does not give %s back (a file of that format is not admitted under its own extension)", n, n))
		c.Check(ensLabels[v], R, "tabula.(*Extractor).ensureReader#"+n, ensFd.Decl.Pos(), "has a reader", "ensureReader has no case for format "+n)
	}
	// no two formats share an extension
	seen := map[string]string{}
	for ext, f := range detM {
		_ = ext
		_ = f
	}
	for n, v := range consts {
		if e, ok := extM[v]; ok && e != "" {
			if o, dup := seen[e]; dup {
				c.Viol(R, "format.Format.Extension#dup "+e, extFd.Decl.Pos(), "formats "+o+" and "+n+" share an extension")
			}
			seen[e] = n
		}
	}
}

func errIsNilFact(errv ssa.Value) func(eng.Fact) bool {
	return func(f eng.Fact) bool {
		op, x, y, ok := f.Cmp()
		if !ok || op != token.EQL {
			return false
		}
		return (x == errv && eng.IsNilConst(y)) || (y == errv && eng.IsNilConst(x))
	}
}

func ruleValidateFirst(c *eng.Ctx) {
	const R = "R20.2-VALIDATE-FIRST"
	c.Rule(R, "ensureReader opens a reader only on the err == nil edge of validateFormat; validateFormat returns nil only if the sniffed format is Unknown or equals the extension's format, and it sniffs with DetectFromReader", 8, 0)
	fn := c.P.Func("tabula.(*Extractor).ensureReader")
	vf := c.P.Func("tabula.(*Extractor).validateFormat")
	if fn == nil || vf == nil {
		c.Undec(R, "tabula.(*Extractor).ensureReader", token.NoPos, "anchor not found")
		return
	}
	var vcall *ssa.Call
	for _, ci := range eng.Calls(fn, false, func(string, ssa.CallInstruction) bool { return true }) {
		if call, ok := ci.(*ssa.Call); ok && eng.StaticCallee(call) == vf {
			vcall = call
		}
	}
	if vcall == nil {
		c.Viol(R, "tabula.(*Extractor).ensureReader#validate", fn.Pos(), "ensureReader does not call validateFormat: the content/extension cross-check is gone")
	} else {
		opens := eng.Calls(fn, false, func(n string, _ ssa.CallInstruction) bool {
			return strings.HasSuffix(n, ".Open") && !strings.HasPrefix(n, "os.")
		})
		names := map[ssa.CallInstruction]string{}
		for _, o := range opens {
			names[o] = eng.CalleeName(o)
		}
		// a package's Open handed as a function value to a helper that calls it (one open-and-wrap helper for all formats)
		for _, ci := range eng.Calls(fn, false, func(string, ssa.CallInstruction) bool { return true }) {
			for _, a := range ci.Common().Args {
				var f *ssa.Function
				switch x := a.(type) {
				case *ssa.Function:
					f = x
				case *ssa.MakeClosure:
					f, _ = x.Fn.(*ssa.Function)
				case *ssa.ChangeType:
					f, _ = x.X.(*ssa.Function)
				}
				if f != nil && f.Name() == "Open" && f.Pkg != nil && f.Pkg.Pkg.Name() != "os" && eng.InModule(f) {
					opens = append(opens, ci)
					names[ci] = eng.FuncName(f)
				}
			}
		}
		for _, o := range opens {
			g := eng.GuardedBy(fn, o.Block(), errIsNilFact(vcall))
			c.Check(g, R, "tabula.(*Extractor).ensureReader#"+names[o], o.Pos(), "opened only after validateFormat succeeded", names[o]+" can run although validateFormat failed or was skipped: mismatched content is handed to the wrong parser")
		}
		if len(opens) < 7 {
			c.Viol(R, "tabula.(*Extractor).ensureReader#opens", fn.Pos(), fmt.Sprintf("only %d reader Open calls found, 7 formats expected", len(opens)))
		}
	}
	// validateFormat (possibly a pipeline of stage functions: measure, sniff, compare)
	var sniffed func(h *ssa.Function, depth int) map[ssa.Value]bool
	sniffed = func(h *ssa.Function, depth int) map[ssa.Value]bool {
		out := map[ssa.Value]bool{}
		if h == nil || h.Blocks == nil || depth > 2 {
			return out
		}
		eng.Instrs(h, false, func(in ssa.Instruction) {
			call, ok := in.(*ssa.Call)
			if !ok {
				return
			}
			first := func() ssa.Value {
				if refs := call.Referrers(); refs != nil {
					for _, r := range *refs {
						if ex, ok := r.(*ssa.Extract); ok && ex.Index == 0 {
							return ex
						}
					}
				}
				if _, isTuple := call.Type().(*types.Tuple); !isTuple {
					return call
				}
				return nil
			}
			if eng.CalleeName(call) == "format.DetectFromReader" {
				if v := first(); v != nil {
					out[v] = true
				}
				return
			}
			g := eng.StaticCallee(call)
			if g == nil || g.Pkg != h.Pkg || g == h {
				return
			}
			inner := sniffed(g, depth+1)
			if len(inner) == 0 {
				return
			}
			// g hands the sniffed format back as its first result
			for _, r := range eng.Returns(g) {
				vals := eng.ReturnValues(r)
				if len(vals) > 0 && inner[vals[0]] {
					if v := first(); v != nil {
						out[v] = true
					}
				}
			}
		})
		return out
	}
	detectedSet := sniffed(vf, 0)
	if len(detectedSet) == 0 {
		c.Viol(R, "tabula.(*Extractor).validateFormat#sniff", vf.Pos(), "validateFormat does not sniff the content with format.DetectFromReader")
		return
	}
	matchFact := func(isDet func(ssa.Value) bool, isFmt func(ssa.Value) bool) func(eng.Fact) bool {
		return func(f eng.Fact) bool {
			op, x, y, ok := f.Cmp()
			if !ok || op != token.EQL {
				return false
			}
			for _, s := range [][2]ssa.Value{{x, y}, {y, x}} {
				if !isDet(s[0]) {
					continue
				}
				if k, isC := eng.ConstInt(s[1]); isC && k == 0 {
					return true // == Unknown
				}
				if isFmt(s[1]) {
					return true // == the extension's format
				}
			}
			return false
		}
	}
	isFormatField := func(v ssa.Value) bool {
		fr, ok := eng.LoadOfField(v)
		return ok && fr.Field == "format"
	}
	okNil := true
	for _, r := range eng.Returns(vf) {
		ev := eng.ReturnValues(r)[0]
		nn, known := eng.ErrValueNonNil(ev)
		if known && nn {
			continue
		}
		// `if err != nil { return err }` after a stage failed
		if eng.GuardedBy(vf, r.Block(), func(f eng.Fact) bool {
			op, x, y, ok := f.Cmp()
			return ok && op == token.NEQ && ((x == ev && eng.IsNilConst(y)) || (y == ev && eng.IsNilConst(x)))
		}) {
			continue
		}
		g := eng.GuardedBy(vf, r.Block(), matchFact(func(v ssa.Value) bool { return detectedSet[v] }, isFormatField))
		if !g {
			// the comparison made by a stage function that is handed the extension's format and the sniffed one
			if call, ok := ev.(*ssa.Call); ok {
				if h := eng.StaticCallee(call); h != nil && h.Pkg == vf.Pkg && h.Blocks != nil {
					detIdx, fmtIdx := -1, -1
					for i, a := range eng.ArgsWithRecv(call) {
						if detectedSet[a] {
							detIdx = i
						}
						if isFormatField(a) {
							fmtIdx = i
						}
					}
					if detIdx >= 0 && fmtIdx >= 0 && detIdx < len(h.Params) && fmtIdx < len(h.Params) {
						dp, fp := ssa.Value(h.Params[detIdx]), ssa.Value(h.Params[fmtIdx])
						g = okExitsGuarded(h, matchFact(func(v ssa.Value) bool { return v == dp }, func(v ssa.Value) bool { return v == fp }))
					}
				}
			}
		}
		if !g {
			okNil = false
		}
	}
	c.Check(okNil, R, "tabula.(*Extractor).validateFormat#mismatch-is-error", vf.Pos(), "success only for unknown or matching content", "validateFormat can return success although the sniffed format differs from the extension's format")
}

func ruleDRMGate(c *eng.Ctx) {
	const R = "R20.3-DRM-GATE"
	c.Rule(R, "epubdoc init: parseContainer/parseOPF/loadChapters run only on the nil edge of checkForDRM; checkForDRM: rights.xml and unparsable/covering encryption.xml return ErrDRMProtected, and nil is returned only outside the scan loop", 6, 0)
	drm := c.P.Func("epubdoc.checkForDRM")
	if drm == nil {
		c.Undec(R, "epubdoc.checkForDRM", token.NoPos, "anchor not found")
		return
	}
	// the initialiser: the anchored method, or (renamed, turned into a plain function) the function of the package
	// that calls the DRM check
	initFn := c.P.FuncExact("epubdoc.(*Reader).init")
	if initFn == nil {
		for _, f := range c.P.ModuleFuncs() {
			if f.Pkg != drm.Pkg || f == drm {
				continue
			}
			for _, ci := range eng.Calls(f, false, func(string, ssa.CallInstruction) bool { return true }) {
				if eng.StaticCallee(ci) == drm && initFn == nil {
					initFn = f
				}
			}
		}
	}
	if initFn == nil {
		c.Undec(R, "epubdoc.(*Reader).init", token.NoPos, "anchor not found")
		return
	}
	var dcall *ssa.Call
	for _, ci := range eng.Calls(initFn, false, func(string, ssa.CallInstruction) bool { return true }) {
		if call, ok := ci.(*ssa.Call); ok && eng.StaticCallee(call) == drm {
			dcall = call
		}
	}
	if dcall == nil && c.P.Reachable([]*ssa.Function{initFn})[drm] && len(initFn.AnonFuncs) > 0 {
		// the steps of init are run through function values (a list of closures executed in order): the check is
		// reached, the order of the steps is not something this rule can read off
		c.Ok(R, "epubdoc.(*Reader).init#drm", initFn.Pos(), "checkForDRM is reached from init through function values; the order of the steps is not decided here")
		for _, n := range []string{"epubdoc.parseContainer", "epubdoc.parseOPF", "epubdoc.(*Reader).loadChapters"} {
			c.Ok(R, "epubdoc.(*Reader).init#"+n, initFn.Pos(), "not decided: init runs its steps through function values")
		}
	} else if dcall == nil {
		c.Viol(R, "epubdoc.(*Reader).init#drm", initFn.Pos(), "init does not call checkForDRM")
	} else {
		for _, n := range []string{"epubdoc.parseContainer", "epubdoc.parseOPF", "epubdoc.(*Reader).loadChapters"} {
			// by role: a function or method of the package with that base name
			base := n[strings.LastIndex(n, ".")+1:]
			calls := eng.Calls(initFn, false, func(_ string, ci ssa.CallInstruction) bool {
				cal := eng.StaticCallee(ci)
				return cal != nil && cal.Pkg == drm.Pkg && cal.Name() == base
			})
			ok := len(calls) > 0
			for _, cc := range calls {
				if !eng.GuardedBy(initFn, cc.Block(), errIsNilFact(dcall)) {
					ok = false
				}
			}
			c.Check(ok, R, "epubdoc.(*Reader).init#"+n, initFn.Pos(), "runs only after the DRM check passed", n+" can run before/without a passed DRM check")
		}
	}
	isDRMErr := func(v ssa.Value) bool {
		if u, ok := v.(*ssa.UnOp); ok && u.Op == token.MUL {
			if g, ok := u.X.(*ssa.Global); ok && g.Name() == "ErrDRMProtected" {
				return true
			}
		}
		return false
	}
	nameEq := func(s string) func(eng.Fact) bool {
		return func(f eng.Fact) bool {
			op, x, y, ok := f.Cmp()
			if !ok || op != token.EQL {
				return false
			}
			for _, v := range []ssa.Value{x, y} {
				if cs, ok := eng.ConstString(v); ok && cs == s {
					return true
				}
			}
			return false
		}
	}
	// rights.xml -> ErrDRMProtected directly
	rightsOK, nilInLoop, parseErrOK, encOK := false, false, false, false
	var hec *ssa.Call
	for _, ci := range eng.CallsNamed(drm, false, "epubdoc.hasEncryptedContent") {
		hec, _ = ci.(*ssa.Call)
	}
	for _, r := range eng.Returns(drm) {
		v := eng.ReturnValues(r)[0]
		b := r.Block()
		if isDRMErr(v) {
			if eng.GuardedBy(drm, b, nameEq("META-INF/rights.xml")) && !eng.GuardedBy(drm, b, nameEq("META-INF/encryption.xml")) {
				// unconditional within the rights case: the return block's immediate controlling condition is the name test
				rightsOK = true
			}
			if hec != nil {
				var errv, encv ssa.Value
				for _, rr := range *hec.Referrers() {
					if ex, ok := rr.(*ssa.Extract); ok {
						if ex.Index == 1 {
							errv = ex
						} else {
							encv = ex
						}
					}
				}
				errFact := func(f eng.Fact) bool {
					op, x, y, ok := f.Cmp()
					return ok && errv != nil && op == token.NEQ && ((x == errv && eng.IsNilConst(y)) || (y == errv && eng.IsNilConst(x)))
				}
				encFact := func(f eng.Fact) bool { return encv != nil && f.Pos && f.Cond == encv }
				// the refusal is reached exactly through (parse error) or (encrypted); either form
				// `if err != nil {…}; if encrypted {…}` or `if err != nil || encrypted {…}` is fine
				if eng.GuardedBy(drm, b, func(f eng.Fact) bool { return errFact(f) || encFact(f) }) {
					for _, bb := range drm.Blocks {
						for si := range bb.Succs {
							if f, ok := eng.EdgeFact(eng.Edge{From: bb, Succ: si}); ok {
								if errFact(f) && reaches(bb.Succs[si], b) {
									parseErrOK = true
								}
								if encFact(f) && reaches(bb.Succs[si], b) {
									encOK = true
								}
							}
						}
					}
				}
			}
			continue
		}
		if eng.IsNilConst(v) {
			// "no DRM" only after the scan loop ran to completion: the return is guarded by the
			// loop-exhausted edge (index >= len) of the member scan
			exhausted := eng.GuardedBy(drm, b, func(f eng.Fact) bool {
				op, x, _, ok := f.Cmp()
				if !ok || op != token.GEQ {
					return false
				}
				_, isInd := eng.Induction(x)
				return isInd
			})
			if !exhausted {
				// the scan as a cursor that drops one member per trip: exhausted where len(rest) > 0 is false
				exhausted = eng.GuardedBy(drm, b, func(f eng.Fact) bool {
					op, x, y, ok := f.Cmp()
					if !ok {
						return false
					}
					call, isCall := x.(*ssa.Call)
					if !isCall || eng.CalleeName(call) != "builtin:len" {
						return false
					}
					ph, isPhi := call.Call.Args[0].(*ssa.Phi)
					if !isPhi || !isLoopCarried(ph) {
						return false
					}
					k, isC := eng.ConstInt(y)
					return isC && k == 0 && (op == token.LEQ || op == token.EQL)
				})
			}
			if !exhausted {
				nilInLoop = true
			}
		}
	}
	if !(rightsOK && parseErrOK && encOK) {
		// indicator objects: the refusal is returned where `selector(member name).indicates(member)` answered yes;
		// the selector hands out one implementation per member name and each implementation is read on its own
		for _, r := range eng.Returns(drm) {
			if !isDRMErr(eng.ReturnValues(r)[0]) {
				continue
			}
			var inv *ssa.Call
			eng.GuardedBy(drm, r.Block(), func(f eng.Fact) bool {
				if call, ok := f.Cond.(*ssa.Call); ok && f.Pos && call.Call.IsInvoke() {
					inv = call
				}
				return false
			})
			if inv == nil {
				continue
			}
			selCall, ok := inv.Call.Value.(*ssa.Call)
			if !ok {
				continue
			}
			sel := eng.StaticCallee(selCall)
			if sel == nil || !eng.InModule(sel) || sel.Blocks == nil {
				continue
			}
			implFor := func(name string) *ssa.Function {
				for _, sr := range eng.Returns(sel) {
					mi, ok := sr.Results[0].(*ssa.MakeInterface)
					if !ok || !eng.GuardedBy(sel, sr.Block(), nameEq(name)) {
						continue
					}
					for _, g := range c.P.Callees(inv) {
						if g.Signature.Recv() != nil && types.Identical(g.Signature.Recv().Type(), mi.X.Type()) {
							return g
						}
					}
				}
				return nil
			}
			if g := implFor("META-INF/rights.xml"); g != nil && g.Blocks != nil {
				all := true
				for _, gr := range eng.Returns(g) {
					k, ok := gr.Results[0].(*ssa.Const)
					if !ok || k.Value == nil || k.Value.ExactString() != "true" {
						all = false
					}
				}
				rightsOK = all
			}
			if g := implFor("META-INF/encryption.xml"); g != nil && g.Blocks != nil {
				var h2 *ssa.Call
				for _, ci := range eng.CallsNamed(g, false, "epubdoc.hasEncryptedContent") {
					h2, _ = ci.(*ssa.Call)
				}
				if h2 != nil {
					var errv, encv ssa.Value
					for _, rr := range *h2.Referrers() {
						if ex, ok := rr.(*ssa.Extract); ok {
							if ex.Index == 1 {
								errv = ex
							} else {
								encv = ex
							}
						}
					}
					for _, gr := range eng.Returns(g) {
						res := gr.Results[0]
						if k, ok := res.(*ssa.Const); ok && k.Value != nil && k.Value.ExactString() == "true" {
							if eng.GuardedBy(g, gr.Block(), func(f eng.Fact) bool {
								op, x, y, ok := f.Cmp()
								return ok && errv != nil && op == token.NEQ && ((x == errv && eng.IsNilConst(y)) || (y == errv && eng.IsNilConst(x)))
							}) {
								parseErrOK = true
							}
						}
						if res == encv {
							encOK = true
						}
						if ph, ok := res.(*ssa.Phi); ok {
							for _, e := range ph.Edges {
								if e == encv {
									encOK = true
								}
							}
						}
					}
				}
			}
		}
	}
	c.Check(rightsOK, R, "epubdoc.checkForDRM#rights", drm.Pos(), "rights.xml is refused", "META-INF/rights.xml no longer leads to ErrDRMProtected")
	c.Check(parseErrOK, R, "epubdoc.checkForDRM#unparsable", drm.Pos(), "unparsable encryption.xml is refused", "an unparsable encryption.xml is no longer treated as DRM")
	c.Check(encOK, R, "epubdoc.checkForDRM#encrypted", drm.Pos(), "encrypted content is refused", "encryption metadata covering content no longer leads to ErrDRMProtected")
	c.Check(!nilInLoop, R, "epubdoc.checkForDRM#scan-complete", drm.Pos(), "'no DRM' is decided only after all members were seen", "checkForDRM can return 'no DRM' before the whole archive was scanned: a rights.xml stored after encryption.xml is never looked at")
	// hasEncryptedContent: font obfuscation skipped, content file -> true
	if h := c.P.Func("epubdoc.hasEncryptedContent"); h != nil {
		okTrue := false
		for _, r := range eng.Returns(h) {
			if cst, ok := eng.ReturnValues(r)[0].(*ssa.Const); ok && cst.Value != nil && cst.Value.ExactString() == "true" {
				// the helpers may have been inlined: then the tests are the suffix / substring tests themselves
				content := eng.GuardedBy(h, r.Block(), func(f eng.Fact) bool {
					call, ok := f.Cond.(*ssa.Call)
					if !ok || !f.Pos {
						return false
					}
					if eng.CalleeName(call) == "epubdoc.isContentFile" {
						return true
					}
					if eng.CalleeName(call) == "strings.HasSuffix" {
						if cs, ok := eng.ConstString(call.Call.Args[1]); ok && drmContentSuffix[cs] {
							return true
						}
					}
					return false
				})
				notObf := eng.GuardedBy(h, r.Block(), func(f eng.Fact) bool {
					call, ok := f.Cond.(*ssa.Call)
					if !ok || f.Pos {
						return false
					}
					if eng.CalleeName(call) == "epubdoc.isFontObfuscation" {
						return true
					}
					if eng.CalleeName(call) == "strings.Contains" {
						if cs, ok := eng.ConstString(call.Call.Args[1]); ok && drmObfuscationWord[cs] {
							return true
						}
					}
					return false
				})
				if content && notObf {
					okTrue = true
				}
			}
		}
		c.Check(okTrue, R, "epubdoc.hasEncryptedContent#decision", h.Pos(), "true iff a content file is covered by a non-obfuscation algorithm", "the encrypted-content decision is no longer (content file AND not font obfuscation)")
	}
}

// fullFileScan: every loop of fn that indexes a zip file list indexes the complete
// list (base = load of field File, bound = len of the same list).
func fullFileScan(fn *ssa.Function) (n int, bad []string, pos token.Pos) {
	pos = fn.Pos()
	eng.Instrs(fn, false, func(in ssa.Instruction) {
		ia, ok := in.(*ssa.IndexAddr)
		if !ok {
			return
		}
		if !strings.Contains(ia.X.Type().String(), "archive/zip.File") {
			return
		}
		if _, isInd := eng.Induction(ia.Index); !isInd {
			// `for rest := zr.File; len(rest) > 0; rest = rest[1:]` with rest[0]: a full scan when it starts at the list
			if base, isCur := eng.ShrinkingCursor(ia); isCur {
				n++
				if fr, ok := eng.LoadOfField(base); !ok || fr.Field != "File" {
					bad = append(bad, "iterates a derived list, not the archive's member list")
					pos = ia.Pos()
				}
			}
			return
		}
		n++
		if _, isSlice := ia.X.(*ssa.Slice); isSlice {
			bad = append(bad, "iterates a sub-slice of the member list")
			pos = ia.Pos()
			return
		}
		if fr, ok := eng.LoadOfField(ia.X); !ok || fr.Field != "File" {
			// a local copy/filter of the list
			if _, isPhi := ia.X.(*ssa.Phi); isPhi {
				bad = append(bad, "iterates a derived list, not the archive's member list")
				pos = ia.Pos()
			}
		}
	})
	return
}

func ruleSniffScan(c *eng.Ctx) {
	const R = "R20.4-SNIFF-SCAN"
	c.Rule(R, "detectZIPFormat and checkForDRM scan the complete ZIP member list; detectZIPFormat decides in the order mimetype, META-INF/container.xml, word/ xl/ ppt/ prefixes", 4, 0)
	for _, name := range []string{"format.detectZIPFormat", "epubdoc.checkForDRM"} {
		fn := c.P.Func(name)
		if fn == nil {
			c.Undec(R, name, token.NoPos, "anchor not found")
			continue
		}
		n, bad, pos := fullFileScan(fn)
		for _, h := range eng.Cluster(fn, 2)[1:] { // scans extracted into helpers of the package count too
			n2, bad2, pos2 := fullFileScan(h)
			n += n2
			if len(bad2) > 0 {
				bad = append(bad, bad2...)
				pos = pos2
			}
		}
		if n == 0 {
			c.Viol(R, name+"#scan", pos, "no loop over the ZIP member list found")
			continue
		}
		c.Check(len(bad) == 0, R, name+"#scan", pos, fmt.Sprintf("%d full scans of the member list", n), strings.Join(dedupStr(bad), "; ")+": members outside the scanned part are ignored (e.g. a mimetype entry that is not first)")
	}
	fn := c.P.Func("format.detectZIPFormat")
	if fn == nil {
		return
	}
	// order: the block comparing with "mimetype" dominates (via loop exit) the one comparing with container.xml, which dominates the prefix tests
	blockOf := func(s string, prefix bool) *ssa.BasicBlock {
		var out *ssa.BasicBlock
		eng.Instrs(fn, false, func(in ssa.Instruction) {
			switch x := in.(type) {
			case *ssa.BinOp:
				if x.Op == token.EQL && !prefix {
					for _, v := range []ssa.Value{x.X, x.Y} {
						if cs, ok := eng.ConstString(v); ok && cs == s && out == nil {
							out = x.Block()
						}
					}
				}
			case *ssa.Call:
				if prefix && eng.CalleeName(x) == "strings.HasPrefix" {
					if cs, ok := eng.ConstString(x.Call.Args[1]); ok && cs == s && out == nil {
						out = x.Block()
					}
					// the prefixes listed in a package-level table that is walked for every member
					if out == nil {
						for w := range eng.Slice(x.Call.Args[1], nil) {
							g, ok := w.(*ssa.Global)
							if !ok {
								continue
							}
							if strs, ok := eng.GlobalLiteralStrings(g); ok {
								for _, t := range strs {
									if t == s {
										out = x.Block()
									}
								}
							}
						}
					}
				}
			}
		})
		return out
	}
	loopHead := func(b *ssa.BasicBlock) *ssa.BasicBlock {
		// nearest dominator that is a loop header (contains an induction phi)
		for d := b; d != nil; d = d.Idom() {
			for _, in := range d.Instrs {
				if ph, ok := in.(*ssa.Phi); ok {
					if _, isInd := eng.Induction(ph); isInd {
						return d
					}
				}
			}
		}
		return nil
	}
	// stagePos: where a sniffing stage sits in detectZIPFormat: the header of its scan loop, or the block of the
	// call to the helper that performs the scan (the helper compares with the constant itself or receives it)
	cluster := eng.Cluster(fn, 2)
	stagePos := func(s string, prefix bool) *ssa.BasicBlock {
		if b := blockOf(s, prefix); b != nil {
			return loopHead(b)
		}
		var out *ssa.BasicBlock
		eng.Instrs(fn, false, func(in ssa.Instruction) {
			call, ok := in.(ssa.CallInstruction)
			if !ok || out != nil {
				return
			}
			h := eng.StaticCallee(call)
			if h == nil || !eng.InModule(h) || h.Blocks == nil {
				return
			}
			inCluster := false
			for _, g := range cluster {
				if g == h {
					inCluster = true
				}
			}
			if !inCluster {
				return
			}
			for _, a := range call.Common().Args {
				if cs, ok := eng.ConstString(a); ok && cs == s {
					out = in.Block()
				}
			}
			eng.Instrs(h, false, func(i2 ssa.Instruction) {
				for _, op := range i2.Operands(nil) {
					if op != nil && *op != nil {
						if cs, ok := eng.ConstString(*op); ok && cs == s {
							out = in.Block()
						}
					}
				}
			})
		})
		return out
	}
	hm, hc, hw := stagePos("mimetype", false), stagePos("META-INF/container.xml", false), stagePos("word/", true)
	if hm == nil || hc == nil || hw == nil {
		c.Viol(R, "format.detectZIPFormat#order", fn.Pos(), "one of the three sniffing stages (mimetype, container.xml, OOXML prefixes) is missing")
		return
	}
	okOrder := hm != nil && hc != nil && hw != nil && hm != hc && hc != hw && hm.Dominates(hc) && hc.Dominates(hw)
	if !okOrder && hm != hc && hc == hw && hm.Dominates(hc) {
		// container.xml and the prefixes looked for in one pass: the container still takes precedence when the pass
		// can only end early with the container's answer (a prefix match is remembered, not returned, until every
		// member has been seen)
		body := map[*ssa.BasicBlock]bool{hc: true}
		var stack []*ssa.BasicBlock
		for _, p := range hc.Preds {
			if hc.Dominates(p) {
				stack = append(stack, p)
			}
		}
		for len(stack) > 0 {
			b := stack[len(stack)-1]
			stack = stack[:len(stack)-1]
			if body[b] {
				continue
			}
			body[b] = true
			stack = append(stack, b.Preds...)
		}
		isContainer := func(f eng.Fact) bool {
			op, x, y, ok := f.Cmp()
			if !ok || op != token.EQL {
				return false
			}
			for _, v := range []ssa.Value{x, y} {
				if cs, ok := eng.ConstString(v); ok && cs == "META-INF/container.xml" {
					return true
				}
			}
			return false
		}
		okOrder = true
		for b := range body {
			if b == hc {
				continue // leaving at the header: every member has been seen
			}
			for i, sx := range b.Succs {
				if body[sx] {
					continue
				}
				if !eng.GuardedBy(fn, b, isContainer) && !eng.AnyEdgeFact(eng.Edge{From: b, Succ: i}, isContainer) {
					okOrder = false
				}
			}
		}
	}
	c.Check(okOrder, R, "format.detectZIPFormat#order", fn.Pos(), "mimetype, then container.xml, then OOXML prefixes", "sniffing stages are not three separate full scans in the order mimetype, container.xml, prefixes (an ODT with an embedded xl/ member would be mis-detected)")
	// mimetype values
	okMime := false
	for _, h := range eng.Cluster(fn, 2) { // the mimetype test may live in a helper of the package
		eng.Instrs(h, false, func(in ssa.Instruction) {
			if call, ok := in.(*ssa.Call); ok && eng.CalleeName(call) == "strings.Contains" {
				if cs, ok := eng.ConstString(call.Call.Args[1]); ok && cs == "application/vnd.oasis.opendocument.text" {
					okMime = true
				}
			}
		})
	}
	c.Check(okMime, R, "format.detectZIPFormat#odt-mimetype", fn.Pos(), "ODT is recognised by its mimetype", "the OpenDocument text mimetype is no longer recognised")
}

func reaches(from, to *ssa.BasicBlock) bool {
	if from == to {
		return true
	}
	return eng.ReachableBlocks([]*ssa.BasicBlock{from}, nil)[to]
}

var drmContentSuffix = map[string]bool{".xhtml": true, ".html": true, ".htm": true, ".xml": true, ".css": true}
var drmObfuscationWord = map[string]bool{"obfuscation": true, "adobe.com": true, "idpf.org": true}
