// Package rules holds one file of rules per property.
package rules

import "verif/checker/eng"

// Property couples a property id with its rules.
type Property struct {
	ID          string
	Level       string // EVIDENCE level
	Explanation string // what is decided and what is not
	Rules       []func(*eng.Ctx)
}

var registry = map[string]*Property{}

func register(p *Property) { registry[p.ID] = p }

// Get returns the property definition or nil.
func Get(id string) *Property { return registry[id] }

// IDs lists the registered property ids.
func IDs() []string {
	var out []string
	for id := range registry {
		out = append(out, id)
	}
	return out
}

func init() {
	eng.AnchorHosts = anchorHosts
	eng.OrigFuncs, eng.AnchorCallers, eng.AnchorSigs, eng.AnchorPrints = origFuncs, anchorCallers, anchorSigs, anchorPrints
}
