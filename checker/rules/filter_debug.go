package rules

import (
	"fmt"
	"sort"
	"strings"

	"verif/checker/eng"
)

// DebugLoops prints the non-empty skips of every accumulating loop in the given packages.
func DebugLoops(p *eng.Prog, pkgs ...string) {
	decls := p.AllDecls()
	names := make([]string, 0, len(decls))
	for n := range decls {
		names = append(names, n)
	}
	sort.Strings(names)
	for _, n := range names {
		ok := false
		for _, pk := range pkgs {
			if strings.HasPrefix(n, pk+".") {
				ok = true
			}
		}
		if !ok {
			continue
		}
		for _, rep := range analyseLoops(p, n, decls[n]) {
			for _, s := range rep.Skips {
				if s.Empty {
					continue
				}
				fmt.Printf("%s  %s range %s elem=%s\n    sig=[%s]\n    conds=%s\n", p.Pos(rep.Range.Pos()), n, "", rep.Elem, s.Signature, strings.Join(s.Conds, " && "))
			}
		}
	}
}

// AnalyseLoopsDebug exposes analyseLoops for scratch programs.
func AnalyseLoopsDebug(p *eng.Prog, name string) []LoopReportDebug {
	var out []LoopReportDebug
	fd := p.Decl(name)
	if fd == nil {
		return nil
	}
	for _, r := range analyseLoops(p, name, fd) {
		d := LoopReportDebug{Elem: r.Elem, Transfers: r.Transfers}
		for _, s := range r.Skips {
			d.Skips = append(d.Skips, SkipDebug{Empty: s.Empty, Conds: s.Conds})
		}
		out = append(out, d)
	}
	return out
}

type LoopReportDebug struct {
	Elem      string
	Transfers int
	Skips     []SkipDebug
}

type SkipDebug struct {
	Empty bool
	Conds []string
}
