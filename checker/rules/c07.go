package rules

import (
	"fmt"
	"go/ast"
	"go/constant"
	"go/token"
	"go/types"
	"sort"
	"strings"

	"golang.org/x/text/encoding/charmap"
	"golang.org/x/tools/go/ssa"

	"verif/checker/eng"
)

func init() {
	register(&Property{
		ID:    "C07",
		Level: "other",
		Explanation: "Decided (structural necessary conditions): (R7.1) the 4x256 base-encoding tables (WinAnsi, MacRoman, Standard, PDFDoc) equal independent reference tables (golang.org/x/text code pages plus hand-written ISO 32000 Annex D deltas; documented accept sets where Annex D and the code page differ) entry by entry, and Symbol/ZapfDingbats agree on anchor entries; (R7.2) each encoding name is dispatched to the object carrying that name and that table, and Decode is a plain table lookup; (R7.3) decode priority ToUnicode > UTF-16 BOM > named encoding > raw bytes holds by dominance, BE/LE are bound to FE FF / FF FE, and every return passes NFC normalisation; (R7.4) no raw []byte->string conversion of shown bytes reaches returned text without UTF-8 validation; (R7.5) bfchar and bfrange destinations are decoded by the same UTF-16 decoder; (R7.6) surrogate-pair arithmetic is not performed in a type too narrow for the shift. " +
			"Not decided: CMap parsing under every formatting policy, code-space width selection, UTF-16 decoding values beyond the shift-width condition.",
		Rules: []func(*eng.Ctx){ruleEncodingNamesEvaluated, ruleFontFollowsGraphicsStateEvaluated, ruleCMapProgramsEvaluated, ruleHexToUnicodeEvaluated, ruleParsedCMapKept, callersAgreeRule("R7.CN", "font"), loopVarRule("R7.LV", "font", "text"), derivedFieldRule("R7.DF", "font", "text"), ruleDefaultEncodingPerFontType, ruleCMapNotLineBased, ruleEveryFontSubtypeRegistered, ruleEncodingTables, ruleNameDispatch, ruleDecodePriority, ruleUTF8Sink, ruleCMapDest, ruleNarrowShift, ruleNFCTotal, ruleDecodeNotMemoised, roleRule("R7.R", "font", "text"), ruleBfRangeCarry, ruleWidthFromSource, ruleByteAssembly, ruleSearchKeyIsSortKey, ruleUnitDecoderReads},
	})
}

type accept map[int][]rune

// reference tables --------------------------------------------------------------

func refFromCharmap(cm *charmap.Charmap) [256]rune {
	var t [256]rune
	for i := 0; i < 256; i++ {
		t[i] = cm.DecodeByte(byte(i))
	}
	return t
}

// standardEncodingRef is Adobe StandardEncoding (ISO 32000-1 Annex D.2, column STD), written from the standard.
func standardEncodingRef() [256]rune {
	var t [256]rune
	for c := 0x20; c <= 0x7E; c++ {
		t[c] = rune(c)
	}
	t[0x27] = 0x2019 // quoteright
	t[0x60] = 0x2018 // quoteleft
	for k, v := range map[int]rune{
		0xA1: 0x00A1, 0xA2: 0x00A2, 0xA3: 0x00A3, 0xA4: 0x2044, 0xA5: 0x00A5, 0xA6: 0x0192, 0xA7: 0x00A7, 0xA8: 0x00A4,
		0xA9: 0x0027, 0xAA: 0x201C, 0xAB: 0x00AB, 0xAC: 0x2039, 0xAD: 0x203A, 0xAE: 0xFB01, 0xAF: 0xFB02,
		0xB1: 0x2013, 0xB2: 0x2020, 0xB3: 0x2021, 0xB4: 0x00B7, 0xB6: 0x00B6, 0xB7: 0x2022, 0xB8: 0x201A, 0xB9: 0x201E,
		0xBA: 0x201D, 0xBB: 0x00BB, 0xBC: 0x2026, 0xBD: 0x2030, 0xBF: 0x00BF,
		0xC1: 0x0060, 0xC2: 0x00B4, 0xC3: 0x02C6, 0xC4: 0x02DC, 0xC5: 0x00AF, 0xC6: 0x02D8, 0xC7: 0x02D9, 0xC8: 0x00A8,
		0xCA: 0x02DA, 0xCB: 0x00B8, 0xCD: 0x02DD, 0xCE: 0x02DB, 0xCF: 0x02C7, 0xD0: 0x2014,
		0xE1: 0x00C6, 0xE3: 0x00AA, 0xE8: 0x0141, 0xE9: 0x00D8, 0xEA: 0x0152, 0xEB: 0x00BA,
		0xF1: 0x00E6, 0xF5: 0x0131, 0xF8: 0x0142, 0xF9: 0x00F8, 0xFA: 0x0153, 0xFB: 0x00DF,
	} {
		t[k] = v
	}
	return t
}

// pdfDocEncodingRef is PDFDocEncoding (ISO 32000-1 Annex D.2, column PDF / D.3), written from the standard.
func pdfDocEncodingRef() [256]rune {
	var t [256]rune
	for c := 0; c < 256; c++ {
		t[c] = rune(c) // Latin-1 outside the ranges below
	}
	for i, v := range []rune{0x02D8, 0x02C7, 0x02C6, 0x02D9, 0x02DD, 0x02DB, 0x02DA, 0x02DC} {
		t[0x18+i] = v
	}
	t[0x7F] = 0
	for i, v := range []rune{0x2022, 0x2020, 0x2021, 0x2026, 0x2014, 0x2013, 0x0192, 0x2044, 0x2039, 0x203A, 0x2212, 0x2030, 0x201E, 0x201C, 0x201D, 0x2018,
		0x2019, 0x201A, 0x2122, 0xFB01, 0xFB02, 0x0141, 0x0152, 0x0160, 0x0178, 0x017D, 0x0131, 0x0142, 0x0153, 0x0161, 0x017E, 0} {
		t[0x80+i] = v
	}
	t[0xA0] = 0x20AC
	t[0xAD] = 0
	return t
}

func ruleEncodingTables(c *eng.Ctx) {
	const R = "R7.1-ENCODING-TABLES"
	c.Rule(R, "each of the 256 entries of winAnsiTable, macRomanTable, standardEncodingTableData and pdfDocTable equals the independent reference (or a documented alternative); Symbol and ZapfDingbats agree on anchor entries", 1024, 0)
	ctl := func(a accept) accept { // C0 controls and DEL: identity or unmapped are both accepted (undefined in Annex D)
		for i := 0; i < 0x20; i++ {
			a[i] = []rune{rune(i), 0}
		}
		a[0x7F] = []rune{0x7F, 0}
		return a
	}
	win := ctl(accept{
		0x81: {0, 0x2022, 0x81}, 0x8D: {0, 0x2022, 0x8D}, 0x8F: {0, 0x2022, 0x8F}, 0x90: {0, 0x2022, 0x90}, 0x9D: {0, 0x2022, 0x9D}, // undefined in CP1252; Annex D note: bullet
		0xA0: {0x00A0, 0x0020}, 0xAD: {0x00AD, 0x002D}, // Annex D: space / hyphen
	})
	mac := ctl(accept{0xCA: {0x00A0, 0x0020}, 0xDB: {0x20AC, 0x00A4}, 0xF0: {0xF8FF, 0}}) // Annex D: space, currency (pre-Euro), apple logo (private use)
	std := accept{0xC5: {0x00AF, 0x02C9}, 0xB4: {0x00B7, 0x2219}, 0xA4: {0x2044, 0x2215}}
	for i := 0; i < 0x20; i++ {
		std[i] = []rune{0}
	}
	pdf := accept{}
	for i := 0; i < 0x18; i++ {
		pdf[i] = []rune{rune(i), 0}
	}
	specs := []struct {
		v   string
		enc string
		ref [256]rune
		acc accept
		doc string
	}{
		{"winAnsiTable", "WinAnsiEncoding", refFromCharmap(charmap.Windows1252), win, "Windows-1252 (x/text) + ISO 32000 Annex D"},
		{"macRomanTable", "MacRomanEncoding", refFromCharmap(charmap.Macintosh), mac, "Mac OS Roman (x/text) + ISO 32000 Annex D"},
		{"standardEncodingTableData", "StandardEncoding", standardEncodingRef(), std, "Adobe StandardEncoding (Annex D)"},
		{"pdfDocTable", "PDFDocEncoding", pdfDocEncodingRef(), pdf, "PDFDocEncoding (Annex D.3)"},
	}
	for _, sp := range specs {
		vals, node, err := c.P.ArrayVar("font", sp.v)
		if err != nil || len(vals) != 256 {
			// the table is not a constant literal (built by an initialiser, kept in another shape): what the encoding
			// answers for each of the 256 codes is evaluated instead (GetEncoding(name).Decode(code), package
			// initialisers included), and held to the same reference
			if got, ok := evaluatedEncodingTable(c, sp.enc); ok {
				fn := c.P.Func("font.GetEncoding")
				for i := 0; i < 256; i++ {
					key := fmt.Sprintf("font.%s[0x%02X]", sp.v, i)
					okv := got[i] == sp.ref[i]
					for _, a := range sp.acc[i] {
						if got[i] == a {
							okv = true
						}
					}
					if okv {
						c.Ok(R, key, fn.Pos(), fmt.Sprintf("U+%04X (evaluated)", got[i]))
					} else {
						c.Viol(R, key, fn.Pos(), fmt.Sprintf("code 0x%02X of %s decodes to U+%04X (evaluated), %s says U+%04X", i, sp.enc, got[i], sp.doc, sp.ref[i]))
					}
				}
				continue
			}
			pos := token.NoPos
			if node != nil {
				pos = node.Pos()
			}
			c.Undec(R, "font."+sp.v, pos, fmt.Sprintf("table is not a 256-entry constant literal (%v, %d entries)", err, len(vals)))
			continue
		}
		for i := 0; i < 256; i++ {
			key := fmt.Sprintf("font.%s[0x%02X]", sp.v, i)
			got := rune(vals[i])
			okv := got == sp.ref[i]
			for _, a := range sp.acc[i] {
				if got == a {
					okv = true
				}
			}
			if okv {
				c.Ok(R, key, node.Pos(), fmt.Sprintf("U+%04X", got))
			} else {
				c.Viol(R, key, node.Pos(), fmt.Sprintf("code 0x%02X decodes to U+%04X, %s says U+%04X", i, got, sp.doc, sp.ref[i]))
			}
		}
	}
	// anchors for the two symbolic fonts (Adobe symbol.txt / zdingbat.txt)
	anchors := map[string]map[int]rune{
		"symbolEncodingTable": {0x20: 0x20, 0x22: 0x2200, 0x24: 0x2203, 0x27: 0x220B, 0x30: '0', 0x39: '9', 0x40: 0x2245, 0x41: 0x0391, 0x42: 0x0392, 0x43: 0x03A7,
			0x47: 0x0393, 0x50: 0x03A0, 0x53: 0x03A3, 0x61: 0x03B1, 0x62: 0x03B2, 0x63: 0x03C7, 0x67: 0x03B3, 0x70: 0x03C0, 0x73: 0x03C3, 0x77: 0x03C9,
			0xA5: 0x221E, 0xB1: 0x00B1, 0xB4: 0x00D7, 0xB8: 0x00F7, 0xD6: 0x221A, 0xE5: 0x2211, 0xF2: 0x222B},
		"zapfDingbatsEncodingTable": {0x20: 0x20, 0x21: 0x2701, 0x22: 0x2702, 0x33: 0x2713, 0x34: 0x2714, 0x48: 0x2605, 0x6C: 0x25CF, 0x6E: 0x25A0, 0xA4: 0x2764, 0xAC: 0x2460, 0xD5: 0x2192},
	}
	for _, v := range []string{"symbolEncodingTable", "zapfDingbatsEncodingTable"} {
		vals, node, err := c.P.ArrayVar("font", v)
		if err != nil || len(vals) != 256 {
			c.Undec(R, "font."+v, token.NoPos, "table is not a 256-entry constant literal")
			continue
		}
		var bad []string
		for k, w := range anchors[v] {
			if rune(vals[k]) != w {
				bad = append(bad, fmt.Sprintf("0x%02X->U+%04X (want U+%04X)", k, vals[k], w))
			}
		}
		sort.Strings(bad)
		c.Check(len(bad) == 0, R, "font."+v+"#anchors", node.Pos(), fmt.Sprintf("%d anchor entries agree", len(anchors[v])), "anchor entries differ: "+strings.Join(bad, ", "))
	}
}

// evaluatedEncodingTable evaluates font.GetEncoding(name).Decode(code) for the 256 codes.
func evaluatedEncodingTable(c *eng.Ctx, name string) ([256]rune, bool) {
	var out [256]rune
	get := c.P.Func("font.GetEncoding")
	if get == nil || len(get.Params) != 1 {
		return out, false
	}
	ev := eng.NewEvaluator()
	ev.Steps = 4000000
	enc, err := ev.Call(get, []any{name}, 0)
	if err != nil {
		return out, false
	}
	for i := 0; i < 256; i++ {
		ev.Steps = 100000
		r, err := ev.Method(get.Prog, enc, "Decode", int64(i))
		if err != nil {
			return out, false
		}
		v, ok := r.(int64)
		if !ok {
			return out, false
		}
		out[i] = rune(v)
	}
	return out, true
}

func ruleNameDispatch(c *eng.Ctx) {
	const R = "R7.2-NAME-DISPATCH"
	c.Rule(R, "GetEncoding(name) returns the encoding object whose name field is that name and whose table field is that encoding's table; Decode/DecodeString index the table with the input byte", 8, 0)
	wantTable := map[string]string{
		"WinAnsiEncoding": "winAnsiTable", "MacRomanEncoding": "macRomanTable", "PDFDocEncoding": "pdfDocTable",
		"StandardEncoding": "standardEncodingTableData", "SymbolEncoding": "symbolEncodingTable", "ZapfDingbatsEncoding": "zapfDingbatsEncodingTable",
	}
	pk := c.P.ByPath["font"]
	fd := c.P.Decl("font.GetEncoding")
	if pk == nil || fd == nil {
		c.Undec(R, "font.GetEncoding", token.NoPos, "anchor not found")
		return
	}
	// global var -> (name, table ident)
	type encObj struct{ name, table string }
	objs := map[string]encObj{}
	for _, f := range pk.Syntax {
		for _, d := range f.Decls {
			gd, ok := d.(*ast.GenDecl)
			if !ok {
				continue
			}
			for _, sp := range gd.Specs {
				vs, ok := sp.(*ast.ValueSpec)
				if !ok || len(vs.Values) != 1 {
					continue
				}
				ue, ok := vs.Values[0].(*ast.UnaryExpr)
				if !ok {
					continue
				}
				cl, ok := ue.X.(*ast.CompositeLit)
				if !ok || types.ExprString(cl.Type) != "standardEncoding" {
					continue
				}
				var eo encObj
				for _, el := range cl.Elts {
					kv, ok := el.(*ast.KeyValueExpr)
					if !ok {
						continue
					}
					switch types.ExprString(kv.Key) {
					case "name":
						if tv, ok := pk.TypesInfo.Types[kv.Value]; ok && tv.Value != nil {
							eo.name = constant.StringVal(tv.Value)
						}
					case "table":
						eo.table = types.ExprString(kv.Value)
					}
				}
				objs[vs.Names[0].Name] = eo
			}
		}
	}
	labels, clauses := caseTable(fd)
	for name, tab := range wantTable {
		key := "font.GetEncoding#" + name
		ci, ok := labels[name]
		if !ok && len(labels) == 0 {
			// not a switch: evaluate the function for this name and see which package variable it returns
			if rets, decided := returnedGlobalsFor(c.P.Func("font.GetEncoding"), name); decided {
				bad := ""
				for _, ret := range rets {
					if eo, known := objs[ret]; !known || eo.name != name || eo.table != tab {
						bad = ret
					}
				}
				c.Check(bad == "" && len(rets) > 0, R, key, fd.Decl.Pos(), "-> "+strings.Join(rets, ",")+" / "+tab, fmt.Sprintf("name %s is dispatched to %s, not to the encoding backed by %s", name, bad, tab))
				continue
			}
		}
		if !ok {
			c.Viol(R, key, fd.Decl.Pos(), "no case for encoding name "+name+": it silently falls back to the default encoding")
			continue
		}
		ret := ""
		for _, st := range clauses[ci].Body {
			if rs, ok := st.(*ast.ReturnStmt); ok && len(rs.Results) == 1 {
				ret = types.ExprString(rs.Results[0])
			}
		}
		eo, known := objs[ret]
		switch {
		case !known:
			c.Viol(R, key, clauses[ci].Pos(), "case returns "+ret+", which is not one of the table-backed encodings")
		case eo.name != name || eo.table != tab:
			c.Viol(R, key, clauses[ci].Pos(), fmt.Sprintf("name %s is dispatched to %s (name=%q, table=%s); expected table %s", name, ret, eo.name, eo.table, tab))
		default:
			c.Ok(R, key, clauses[ci].Pos(), "-> "+ret+" / "+tab)
		}
	}
	for _, fnName := range []string{"font.(*standardEncoding).Decode", "font.(*standardEncoding).DecodeString"} {
		fn := c.P.Func(fnName)
		if fn == nil {
			c.Undec(R, fnName, token.NoPos, "anchor not found")
			continue
		}
		// the byte itself (parameter or ranged element), without arithmetic
		rawByte := func(v ssa.Value) bool {
			switch x := v.(type) {
			case *ssa.Parameter:
				return true
			case *ssa.UnOp:
				_, isEl := x.X.(*ssa.IndexAddr)
				return isEl && x.Op == token.MUL
			}
			return false
		}
		var lookupOK func(f *ssa.Function, depth int) bool
		lookupOK = func(f *ssa.Function, depth int) bool {
			if f == nil || f.Blocks == nil || depth > 2 {
				return false
			}
			found := false
			eng.Instrs(f, false, func(in ssa.Instruction) {
				switch x := in.(type) {
				case *ssa.IndexAddr:
					if fr, ok := eng.AsField(x.X); ok && fr.Field == "table" && rawByte(x.Index) {
						found = true
					}
				case ssa.CallInstruction:
					// the byte handed on unchanged to a function that does the lookup (the per-byte Decode,
					// or a shared decode loop instantiated for this encoding)
					g := eng.StaticCallee(x)
					if g == nil || !eng.InModule(g) || g == f {
						return
					}
					for _, a := range x.Common().Args {
						bt, isB := a.Type().Underlying().(*types.Basic)
						_, isSl := a.Type().Underlying().(*types.Slice)
						if (isB && bt.Kind() == types.Uint8 && rawByte(a)) || isSl {
							if lookupOK(g, depth+1) {
								found = true
							}
						}
					}
				}
			})
			return found
		}
		okIdx := lookupOK(fn, 0)
		c.Check(okIdx, R, fnName+"#lookup", fn.Pos(), "table[b]", "the table is not indexed directly with the input byte")
	}
}

func ruleDecodePriority(c *eng.Ctx) {
	const R = "R7.3-PRIORITY-NFC"
	c.Rule(R, "Font.DecodeString: the ToUnicode branch dominates every other decoder, UTF-16 decoders run only when no ToUnicode CMap exists and under their own BOM, the named encoding is consulted only after the BOM test, and every returned value is the result of NormalizeUnicode", 6, 0)
	fn := c.P.Func("font.(*Font).DecodeString")
	if fn == nil {
		c.Undec(R, "font.(*Font).DecodeString", token.NoPos, "anchor not found")
		return
	}
	name := "font.(*Font).DecodeString"
	// every return is NormalizeUnicode(...)
	okNFC := true
	for _, r := range eng.Returns(fn) {
		call, ok := r.Results[0].(*ssa.Call)
		if !ok || eng.CalleeName(call) != "font.NormalizeUnicode" {
			okNFC = false
		}
	}
	c.Check(okNFC, R, name+"#nfc", fn.Pos(), "every return is NormalizeUnicode(…)", "a return path skips NFC normalisation")
	if nu := c.P.Func("font.NormalizeUnicode"); nu != nil {
		okN := false
		eng.Instrs(nu, false, func(in ssa.Instruction) {
			if ci, ok := in.(ssa.CallInstruction); ok && strings.HasSuffix(eng.CalleeName(ci), "norm.Form.String") {
				if fv, ok := ci.Common().Args[0].(*ssa.Const); ok {
					if k, ok := eng.ConstInt(fv); ok && k == 0 { // norm.NFC == 0
						okN = true
					}
				}
			}
		})
		c.Check(okN, R, "font.NormalizeUnicode#form", nu.Pos(), "norm.NFC", "NormalizeUnicode no longer applies normal form C")
	}
	noCMap := func(f eng.Fact) bool { // ToUnicodeCMap == nil
		op, x, y, ok := f.Cmp()
		if !ok || op != token.EQL {
			return false
		}
		for _, s := range [][2]ssa.Value{{x, y}, {y, x}} {
			if fr, ok := eng.LoadOfField(s[0]); ok && fr.Field == "ToUnicodeCMap" && eng.IsNilConst(s[1]) {
				return true
			}
		}
		return false
	}
	hasCMap := func(f eng.Fact) bool {
		op, x, y, ok := f.Cmp()
		if !ok || op != token.NEQ {
			return false
		}
		for _, s := range [][2]ssa.Value{{x, y}, {y, x}} {
			if fr, ok := eng.LoadOfField(s[0]); ok && fr.Field == "ToUnicodeCMap" && eng.IsNilConst(s[1]) {
				return true
			}
		}
		return false
	}
	lookups := eng.CallsNamed(fn, false, "font.(*CMap).LookupString")
	c.Check(len(lookups) == 1 && eng.GuardedBy(fn, lookups[0].Block(), hasCMap), R, name+"#tounicode-first", fn.Pos(), "ToUnicode lookup under ToUnicodeCMap != nil", "the ToUnicode CMap is not consulted exactly once under its nil test")
	bomByte := func(idx, val int64) func(eng.Fact) bool {
		return func(f eng.Fact) bool {
			op, x, y, ok := f.Cmp()
			if !ok || op != token.EQL {
				return false
			}
			k, isC := eng.ConstInt(y)
			if !isC || k != val {
				return false
			}
			ld, ok := x.(*ssa.UnOp)
			if !ok {
				return false
			}
			ia, ok := ld.X.(*ssa.IndexAddr)
			if !ok {
				return false
			}
			i, isC := eng.ConstInt(ia.Index)
			return isC && i == idx
		}
	}
	for _, sp := range []struct {
		callee string
		b0, b1 int64
	}{{"font.DecodeUTF16BE", 0xFE, 0xFF}, {"font.DecodeUTF16LE", 0xFF, 0xFE}} {
		calls := eng.CallsNamed(fn, false, sp.callee)
		okc := len(calls) == 1
		if okc {
			b := calls[0].Block()
			okc = eng.GuardedBy(fn, b, noCMap) && eng.GuardedBy(fn, b, bomByte(0, sp.b0)) && eng.GuardedBy(fn, b, bomByte(1, sp.b1))
			// argument is data[2:]
			if sl, ok := calls[0].Common().Args[0].(*ssa.Slice); ok {
				if k, isC := eng.ConstInt(sl.Low); !isC || k != 2 {
					okc = false
				}
			} else {
				okc = false
			}
		}
		c.Check(okc, R, name+"#"+strings.TrimPrefix(sp.callee, "font."), fn.Pos(), fmt.Sprintf("called only without ToUnicode, under BOM %02X %02X, on data[2:]", sp.b0, sp.b1),
			fmt.Sprintf("%s is not reached exactly under (no ToUnicode CMap) and BOM %02X %02X with the BOM stripped: a string that starts with BOM-like bytes bypasses the font's ToUnicode map, or byte order is mixed up", sp.callee, sp.b0, sp.b1))
	}
	// named encoding after BOM test and without CMap
	encCalls := eng.CallsNamed(fn, false, "font.GetEncoding")
	okEnc := len(encCalls) == 1
	if okEnc {
		b := encCalls[0].Block()
		okEnc = eng.GuardedBy(fn, b, noCMap)
		// the block testing len(data) >= 2 dominates it
		var lenBlk *ssa.BasicBlock
		eng.Instrs(fn, false, func(in ssa.Instruction) {
			if bo, ok := in.(*ssa.BinOp); ok && (bo.Op == token.GEQ || bo.Op == token.GTR || bo.Op == token.LSS) {
				if call, ok := bo.X.(*ssa.Call); ok {
					if bi, ok := call.Call.Value.(*ssa.Builtin); ok && bi.Name() == "len" {
						lenBlk = bo.Block()
					}
				}
			}
		})
		if lenBlk == nil || !lenBlk.Dominates(b) {
			okEnc = false
		}
	}
	c.Check(okEnc, R, name+"#encoding-last", fn.Pos(), "named encoding only after ToUnicode and BOM tests", "the named encoding is consulted before the ToUnicode/BOM tests")
}

func ruleUTF8Sink(c *eng.Ctx) {
	const R = "R7.4-UTF8-SINK"
	c.Rule(R, "in the text-decoding functions a []byte -> string conversion of shown bytes is only used as input of a validating/decoding function (strings.ToValidUTF8, a CMap parser), never returned or stored as text directly, and no byte of it is written into the text being built unless proven ASCII", 8, 0)
	// the three decoders confirmed by reading, plus every other function of package font that returns text
	// decoded from a byte-slice parameter (sibling decoders, encodings)
	names := []string{"font.(*Font).DecodeString", "font.(*CMap).LookupString", "text.(*Extractor).showText"}
	isNamed := map[string]bool{}
	for _, nm := range names {
		isNamed[nm] = true
	}
	for _, f := range c.P.ModuleFuncs() {
		if f.Pkg == nil || eng.ShortPath(f.Pkg.Pkg.Path()) != "font" || f.Parent() != nil || isNamed[eng.FuncName(f)] {
			continue
		}
		res := f.Signature.Results()
		if res.Len() == 0 {
			continue
		}
		if bt, ok := res.At(0).Type().Underlying().(*types.Basic); !ok || bt.Kind() != types.String {
			continue
		}
		hasBytes := false
		for _, p := range f.Params {
			if st, ok := p.Type().Underlying().(*types.Slice); ok {
				if b, ok := st.Elem().Underlying().(*types.Basic); ok && b.Kind() == types.Uint8 {
					hasBytes = true
				}
			}
		}
		if hasBytes {
			names = append(names, eng.FuncName(f))
		}
	}
	for _, fnName := range names {
		fn := c.P.Func(fnName)
		if fn == nil {
			c.Undec(R, fnName, token.NoPos, "anchor not found")
			continue
		}
		var bad []string
		n := 0
		// a raw byte of the shown string written into the text that is being built
		for _, ci := range eng.Calls(fn, false, func(nm string, _ ssa.CallInstruction) bool {
			return nm == "strings.(*Builder).WriteByte" || nm == "bytes.(*Buffer).WriteByte"
		}) {
			arg := ci.Common().Args[1]
			if k, isC := eng.ConstInt(arg); isC && k >= 0 && k < 0x80 {
				continue
			}
			ascii := eng.GuardedBy(fn, ci.Block(), func(f eng.Fact) bool {
				op, x, y, ok := f.Cmp()
				if !ok || !eng.SameValue(x, arg) {
					return false
				}
				k, isC := eng.ConstInt(y)
				return isC && ((op == token.LSS && k <= 0x80) || (op == token.LEQ && k < 0x80))
			})
			if !ascii {
				bad = append(bad, "a byte not proven < 0x80 is written into the text at "+c.P.Pos(ci.Pos()))
			}
		}
		eng.Instrs(fn, false, func(in ssa.Instruction) {
			cv, ok := in.(*ssa.Convert)
			if !ok {
				return
			}
			if _, isStr := cv.Type().Underlying().(*types.Basic); !isStr {
				return
			}
			st, ok := cv.X.Type().Underlying().(*types.Slice)
			if !ok {
				return
			}
			if b, ok := st.Elem().Underlying().(*types.Basic); !ok || b.Kind() != types.Uint8 {
				return
			}
			n++
			if builtFromText(cv.X) {
				return // a buffer of appended strings and encoded runes: text, not shown bytes
			}
			for _, r := range *cv.Referrers() {
				switch x := r.(type) {
				case ssa.CallInstruction:
					cn := eng.CalleeName(x)
					switch {
					case cn == "strings.ToValidUTF8", cn == "unicode/utf8.ValidString":
					case strings.HasSuffix(cn, ").ShowTextWithWidth"), strings.HasSuffix(cn, ").ShowText"):
						// only len() and space counting of the raw bytes are used for the advance
					default:
						bad = append(bad, "raw bytes passed as text to "+cn+" at "+c.P.Pos(x.Pos()))
					}
				case *ssa.Return, *ssa.Store, *ssa.Phi:
					bad = append(bad, "raw bytes used as text at "+c.P.Pos(r.Pos()))
				}
			}
		})
		if len(bad) > 0 {
			c.Viol(R, fnName, fn.Pos(), strings.Join(bad, "; ")+": the byte-to-text mapping (encoding table, CMap) is bypassed and bytes >= 0x80 become invalid UTF-8 in the returned text")
		} else {
			c.Ok(R, fnName, fn.Pos(), fmt.Sprintf("%d raw conversions, all validated", n))
		}
	}
}

// builtFromText: the byte slice is a local buffer that only ever received whole strings (append(buf, s...)) and
// UTF-8 encoded runes (utf8.AppendRune): the spelling of a strings.Builder with a plain slice.
func builtFromText(v ssa.Value) bool {
	seen := map[ssa.Value]bool{}
	var ok func(v ssa.Value) bool
	ok = func(v ssa.Value) bool {
		if seen[v] {
			return true
		}
		seen[v] = true
		switch x := v.(type) {
		case *ssa.Const:
			return x.IsNil()
		case *ssa.Phi:
			for _, e := range x.Edges {
				if !ok(e) {
					return false
				}
			}
			return true
		case *ssa.Call:
			switch eng.CalleeName(x) {
			case "builtin:append":
				if len(x.Call.Args) != 2 || !ok(x.Call.Args[0]) {
					return false
				}
				src := x.Call.Args[1]
				if bt, isB := src.Type().Underlying().(*types.Basic); !isB || bt.Info()&types.IsString == 0 {
					return false
				}
				if cv, isConv := src.(*ssa.Convert); isConv {
					if _, fromSlice := cv.X.Type().Underlying().(*types.Slice); fromSlice {
						return false
					}
				}
				return true
			case "unicode/utf8.AppendRune":
				return ok(x.Call.Args[0])
			}
		}
		return false
	}
	return ok(v)
}

func ruleCMapDest(c *eng.Ctx) {
	const R = "R7.5-CMAP-DEST"
	c.Rule(R, "destinations of bfchar, bfrange and bfrange-array entries are all decoded with hexToUnicode (UTF-16BE, multi-unit aware); a destination parsed as one integer loses surrogate pairs and ligatures", 3, 0)
	for _, fnName := range []string{"font.(*CMap).parseBfCharSection", "font.(*CMap).parseBfRangeSection", "font.(*CMap).parseBfRangeSectionWithArrays", "font.(*CMap).parseBfRangeArray"} {
		fn := c.P.Func(fnName)
		if fn == nil {
			c.Undec(R, fnName, token.NoPos, "anchor not found")
			continue
		}
		// what is stored as destination: MapUpdate value on charMappings, or the StartUnicode field of a CMapRange
		viaUnicode, viaInt, intGuarded := false, false, true
		var pos token.Pos = fn.Pos()
		singleUnit := func(f eng.Fact) bool { // len(dstHex) <= 4 : at most one UTF-16 code unit
			op, x, y, ok := f.Cmp()
			if !ok {
				return false
			}
			call, isCall := x.(*ssa.Call)
			if !isCall {
				return false
			}
			bi, isB := call.Call.Value.(*ssa.Builtin)
			k, isC := eng.ConstInt(y)
			return isB && bi.Name() == "len" && isC && ((op == token.LEQ && k <= 4) || (op == token.LSS && k <= 5))
		}
		note := func(host *ssa.Function, v ssa.Value, p token.Pos, blk *ssa.BasicBlock) {
			for w := range eng.Slice(v, func(*ssa.Call) bool { return false }) {
				if call, ok := w.(*ssa.Call); ok {
					switch eng.CalleeName(call) {
					case "font.hexToUnicode":
						viaUnicode = true
					case "font.parseHexToUint32":
						viaInt = true
						pos = p
						if !eng.GuardedBy(host, blk, singleUnit) {
							intGuarded = false
						}
					}
				}
			}
		}
		// the section reader may hand the work to functions of its own (a parser object chosen once, a helper for
		// the triplet form): they are read too, except where they are anchors of this rule themselves
		anchors := map[string]bool{"font.(*CMap).parseBfCharSection": true, "font.(*CMap).parseBfRangeSection": true, "font.(*CMap).parseBfRangeSectionWithArrays": true, "font.(*CMap).parseBfRangeArray": true}
		hosts := []*ssa.Function{fn}
		seenHost := map[*ssa.Function]bool{fn: true}
		for i := 0; i < len(hosts) && i < 12; i++ {
			for _, ci := range eng.Calls(hosts[i], true, func(string, ssa.CallInstruction) bool { return true }) {
				for _, g := range c.P.Callees(ci) {
					if g.Pkg != fn.Pkg || g.Blocks == nil || seenHost[g] || anchors[eng.FuncName(g)] {
						continue
					}
					switch eng.FuncName(g) {
					case "font.hexToUnicode", "font.parseHexToUint32", "font.(*CMap).addMultiUnitRange":
						continue
					}
					seenHost[g] = true
					hosts = append(hosts, g)
				}
			}
		}
		for _, host := range hosts {
			host := host
			eng.Instrs(host, false, func(in ssa.Instruction) {
				switch x := in.(type) {
				case *ssa.MapUpdate:
					if fr, ok := eng.LoadOfField(x.Map); ok && fr.Field == "charMappings" {
						note(host, x.Value, x.Pos(), x.Block())
					}
				case *ssa.Store:
					if fr, ok := eng.AsField(x.Addr); ok && fr.Field == "StartUnicode" {
						note(host, x.Val, x.Pos(), x.Block())
					}
				}
			})
		}
		// longer destinations must reach the multi-unit decoder (directly or through a helper that does)
		multi := viaUnicode
		for _, host := range hosts {
			for _, ci := range eng.Calls(host, false, func(string, ssa.CallInstruction) bool { return true }) {
				if cal := eng.StaticCallee(ci); cal != nil && eng.InModule(cal) && cal != fn {
					if len(eng.CallsNamed(cal, false, "font.hexToUnicode")) > 0 {
						multi = true
					}
				}
			}
		}
		switch {
		case viaInt && !intGuarded:
			c.Viol(R, fnName+"#destination", pos, "the destination of a range entry is parsed as a single 32-bit integer without checking that it is one UTF-16 code unit: a surrogate-pair or multi-character target (e.g. <D83DDE00>) decodes to U+FFFD")
		case viaInt && !multi:
			c.Viol(R, fnName+"#destination", pos, "destinations longer than one UTF-16 code unit are never decoded (no path to hexToUnicode)")
		case viaInt || viaUnicode || multi:
			c.Ok(R, fnName+"#destination", pos, "single-unit destinations as integers under len <= 4, longer ones through hexToUnicode")
		default:
			c.Undec(R, fnName+"#destination", pos, "cannot find how the destination is decoded")
		}
	}
}

func bitBound(v ssa.Value, depth int) int {
	width := func(t types.Type) int {
		if b, ok := t.Underlying().(*types.Basic); ok {
			switch b.Kind() {
			case types.Uint8, types.Int8:
				return 8
			case types.Uint16, types.Int16:
				return 16
			case types.Uint32, types.Int32:
				return 32
			}
		}
		return 64
	}
	if depth > 6 {
		return width(v.Type())
	}
	switch x := v.(type) {
	case *ssa.Const:
		if k, ok := eng.ConstInt(x); ok && k >= 0 {
			n := 0
			for k > 0 {
				n++
				k >>= 1
			}
			return n
		}
	case *ssa.Convert:
		in := bitBound(x.X, depth+1)
		if w := width(x.Type()); in > w {
			return w
		}
		return in
	case *ssa.BinOp:
		switch x.Op {
		case token.SUB, token.OR, token.XOR:
			a, b := bitBound(x.X, depth+1), bitBound(x.Y, depth+1)
			if b > a {
				a = b
			}
			return a
		case token.AND:
			a, b := bitBound(x.X, depth+1), bitBound(x.Y, depth+1)
			if b < a {
				a = b
			}
			return a
		case token.SHL:
			if k, ok := eng.ConstInt(x.Y); ok {
				n := bitBound(x.X, depth+1) + int(k)
				if w := width(x.Type()); n > w {
					return w
				}
				return n
			}
		case token.SHR:
			if k, ok := eng.ConstInt(x.Y); ok {
				n := bitBound(x.X, depth+1) - int(k)
				if n < 0 {
					n = 0
				}
				return n
			}
		}
	}
	return width(v.Type())
}

func ruleNarrowShift(c *eng.Ctx) {
	const R = "R7.6-NARROW-SHIFT"
	c.Rule(R, "in package font no constant left shift is performed in an 8/16-bit type on a value whose significant bits plus the shift exceed the type (the high bits of a surrogate pair would be dropped before widening)", 4, 0)
	n := 0
	for _, fn := range c.P.ModuleFuncs() {
		if fn.Pkg == nil || eng.ShortPath(fn.Pkg.Pkg.Path()) != "font" {
			continue
		}
		eng.Instrs(fn, false, func(in ssa.Instruction) {
			b, ok := in.(*ssa.BinOp)
			if !ok || b.Op != token.SHL {
				return
			}
			k, isC := eng.ConstInt(b.Y)
			if !isC {
				return
			}
			bt, ok := b.Type().Underlying().(*types.Basic)
			if !ok {
				return
			}
			w := 0
			switch bt.Kind() {
			case types.Uint8:
				w = 8
			case types.Uint16:
				w = 16
			default:
				return
			}
			n++
			key := fmt.Sprintf("%s#shl%d", eng.FuncName(fn), n)
			bits := bitBound(b.X, 0)
			if bits+int(k) > w {
				c.Viol(R, eng.FuncName(fn)+"#narrow-shift", b.Pos(), fmt.Sprintf("a value of up to %d significant bits is shifted left by %d in a %d-bit type: the top bits are lost before the result is widened (supplementary-plane targets decode to the wrong plane)", bits, k, w))
			} else {
				c.Ok(R, key, b.Pos(), fmt.Sprintf("%d bits << %d fits %d", bits, k, w))
			}
		})
	}
}

// returnedGlobalsFor evaluates fn with its string parameter equal to name and lists the package-level variables whose
// value the reached returns hand back — directly, or through a handler taken from a read-only table keyed by the name.
// decided is false when some reached return is not of that form.
func returnedGlobalsFor(fn *ssa.Function, name string) (globals []string, decided bool) {
	if fn == nil {
		return nil, false
	}
	var nameP ssa.Value
	for _, prm := range fn.Params {
		if b, ok := prm.Type().Underlying().(*types.Basic); ok && b.Kind() == types.String && nameP == nil {
			nameP = prm
		}
	}
	if nameP == nil {
		return nil, false
	}
	tbl, lk := filterLookupTable(fn, nameP)
	set := map[string]bool{}
	decided = true
	var resolve func(v ssa.Value, depth int)
	resolve = func(v ssa.Value, depth int) {
		if depth > 3 {
			decided = false
			return
		}
		switch x := v.(type) {
		case *ssa.UnOp:
			if g, ok := x.X.(*ssa.Global); ok && x.Op == token.MUL {
				set[g.Name()] = true
				return
			}
		case *ssa.MakeInterface:
			resolve(x.X, depth)
			return
		case *ssa.ChangeInterface:
			resolve(x.X, depth)
			return
		case *ssa.Phi:
			for _, e := range x.Edges {
				resolve(e, depth+1)
			}
			return
		case *ssa.Call:
			g := eng.StaticCallee(x)
			if g == nil && tbl != nil && valueFromLookup(x.Call.Value, lk) {
				g = tableHandler(tbl[name])
			}
			if g != nil && g.Blocks != nil && len(g.Params) == 0 {
				for _, r := range eng.Returns(g) {
					if len(r.Results) == 1 {
						resolve(r.Results[0], depth+1)
					} else {
						decided = false
					}
				}
				return
			}
		}
		decided = false
	}
	n := 0
	eng.StrReach(fn, []string{name}, func(v ssa.Value) bool { return v == nameP }, nil, func(in ssa.Instruction) bool {
		if r, ok := in.(*ssa.Return); ok && len(r.Results) == 1 {
			n++
			resolve(r.Results[0], 0)
		}
		return false
	})
	if n == 0 {
		return nil, false
	}
	for g := range set {
		globals = append(globals, g)
	}
	sort.Strings(globals)
	return globals, decided
}
