package rules

import (
	"fmt"
	"go/ast"
	"go/token"
	"go/types"
	"strings"

	"golang.org/x/tools/go/ssa"

	"verif/checker/eng"
)

func init() {
	register(&Property{
		ID:    "C13",
		Level: "other",
		Explanation: "Decided (structural necessary conditions of 'splitting never corrupts text' and of termination): (R13.1) every bound of every string slice in package rag whose result can reach returned text is a rune boundary by construction: 0, len(s), a strings.Index* result (+ len of the match), an index at which the same function tested s[i] against ASCII constants (then i and i+1), a range-over-string key, a value snapped by a utf8.RuneStart loop, a Boundary.Position, or the result of a callee whose every return is such a value; raw arithmetic from a size is rejected; (R13.2) the split loop of SplitToSize continues only with a strictly shorter remainder (cut position proven > 0, remainder obtained by slicing from it and non-lengthening functions) and stops otherwise; (R13.3) overlap is generated from the previous chunk's own text. " +
			"Not decided: the size bound itself (numeric), conservation of characters, token estimates.",
		Rules: []func(*eng.Ctx){ruleOverlapAskedTwiceEvaluated, ruleOverlapEvaluated, ruleSplitToSizeEvaluated, ruleTruncatedOverlapKeepsEnd, ruleTokenRatioDefaulted, loopVarRule("R13.LV", "rag"), ruleRuneBoundary, ruleSplitProgress, ruleOverlapSource, ruleRatioAgreement, ruleSplitLoopDrains, ruleHardLimitGuard, roleRule("R13.R", "rag"), ruleSentenceIndexSteps, ruleWholeBlockOnlyUnderMax, ruleIndexUnits, ruleFlushConsumesPending},
	})
}

// measuredOnly lists functions whose string slices are only measured or compared,
// never returned or stored as text (confirmed by reading; one reason each).
var measuredOnly = map[string]string{
	"rag.(*OrphanedContentDetector).WouldCreateOrphan": "the two halves are only measured with len(TrimSpace(..)); nothing is returned or stored",
	"rag.isAbbreviation":   "the word before the period is only compared with ASCII abbreviations",
	"rag.isAbbreviationAt": "the word before the period is only compared with ASCII abbreviations",
}

// stringIndex decodes s[i] on a string (go/ssa emits Index, older versions Lookup).
func stringIndex(v ssa.Value) (x, idx ssa.Value, ok bool) {
	switch t := v.(type) {
	case *ssa.Index:
		if b, isB := t.X.Type().Underlying().(*types.Basic); isB && b.Kind() == types.String {
			return t.X, t.Index, true
		}
	case *ssa.Lookup:
		if b, isB := t.X.Type().Underlying().(*types.Basic); isB && b.Kind() == types.String {
			return t.X, t.Index, true
		}
	}
	return nil, nil, false
}

type boundaryChecker struct {
	p       *eng.Prog
	summary map[*ssa.Function]int // 0 unknown, 1 safe, 2 unsafe, 3 in progress
	why     map[*ssa.Function]string
}

func isASCIIConst(v ssa.Value) bool {
	k, ok := eng.ConstInt(v)
	return ok && k >= 0 && k < 0x80
}

// asciiAt: fact "s[idx] == ASCII constant" (or a call of a byte predicate whose denotation is ASCII-only).
func (bc *boundaryChecker) asciiAt(f eng.Fact, s ssa.Value, match func(idx ssa.Value) bool) bool {
	lookupOf := func(v ssa.Value) (ssa.Value, bool) {
		if x, idx, ok := stringIndex(v); ok && eng.SameValue(x, s) {
			return idx, true
		}
		return nil, false
	}
	if op, x, y, ok := f.Cmp(); ok && op == token.EQL {
		if idx, ok := lookupOf(x); ok && isASCIIConst(y) && match(idx) {
			return true
		}
		if idx, ok := lookupOf(y); ok && isASCIIConst(x) && match(idx) {
			return true
		}
	}
	// a byte-class table: classTable[s[i]] found true, where the table is a package-level [256]bool literal that
	// nothing writes and whose true entries are all ASCII
	if u, ok := f.Cond.(*ssa.UnOp); ok && f.Pos && u.Op == token.MUL {
		if ia, ok := u.X.(*ssa.IndexAddr); ok {
			if g, ok := ia.X.(*ssa.Global); ok {
				if idx, ok := lookupOf(ia.Index); ok && match(idx) {
					if keys, ok := boolTableTrueKeys(bc.p, g); ok && len(keys) > 0 {
						for _, k := range keys {
							if k >= 0x80 {
								return false
							}
						}
						return true
					}
				}
			}
		}
	}
	if call, ok := f.Cond.(*ssa.Call); ok && f.Pos && len(call.Call.Args) == 1 {
		if idx, ok := lookupOf(call.Call.Args[0]); ok && match(idx) {
			if cal := eng.StaticCallee(call); cal != nil && eng.InModule(cal) {
				if set, err := bc.p.ByteSet(eng.FuncName(cal)); err == nil {
					for b := range set {
						if b >= 0x80 {
							return false
						}
					}
					return len(set) > 0
				}
			}
		}
	}
	// a classifier with constant extra arguments (hasByteClass(s[i], classBreak)): evaluated for every byte
	if call, ok := f.Cond.(*ssa.Call); ok && f.Pos && len(call.Call.Args) > 1 {
		cal := eng.StaticCallee(call)
		if cal == nil || !eng.InModule(cal) || cal.Blocks == nil || len(cal.Params) != len(call.Call.Args) {
			return false
		}
		at := -1
		args := make([]any, len(call.Call.Args))
		for i, a := range call.Call.Args {
			if idx, ok := lookupOf(a); ok && match(idx) && at < 0 {
				at = i
				continue
			}
			k, isC := eng.ConstInt(a)
			if !isC {
				return false
			}
			args[i] = k
		}
		if at < 0 {
			return false
		}
		n := 0
		for b := 0; b < 256; b++ {
			args[at] = int64(b)
			ev := eng.NewEvaluator()
			ev.Steps = 20000
			got, err := ev.Call(cal, args, 0)
			if err != nil {
				return false
			}
			if yes, isB := got.(bool); !isB {
				return false
			} else if yes {
				if b >= 0x80 {
					return false
				}
				n++
			}
		}
		return n > 0
	}
	return false
}

// safe reports whether v is a rune boundary of string s at the start of block at.
func (bc *boundaryChecker) safe(fn *ssa.Function, v, s ssa.Value, at *ssa.BasicBlock, depth int) (bool, string) {
	if depth > 8 {
		return false, "too deep"
	}
	switch x := v.(type) {
	case *ssa.Const:
		if k, ok := eng.ConstInt(x); ok && k == 0 {
			return true, ""
		}
		return false, fmt.Sprintf("constant %v", x.Value)
	case *ssa.Call:
		if bi, ok := x.Call.Value.(*ssa.Builtin); ok && bi.Name() == "len" {
			return true, "" // len of a (sub)string / match: only used as end or as width of a found match
		}
		n := eng.CalleeName(x)
		if strings.HasPrefix(n, "strings.Index") || strings.HasPrefix(n, "strings.LastIndex") {
			return true, ""
		}
		if cal := eng.StaticCallee(x); cal != nil && eng.InModule(cal) {
			if ok, why := bc.funcSafe(cal); ok {
				return true, ""
			} else {
				return false, "result of " + eng.FuncName(cal) + " (" + why + ")"
			}
		}
		return false, "result of " + n
	case *ssa.Extract:
		if nx, ok := x.Tuple.(*ssa.Next); ok && nx.IsString && x.Index == 1 {
			return true, "" // key of for i := range s
		}
		if call, ok := x.Tuple.(*ssa.Call); ok {
			return bc.safe(fn, call, s, at, depth+1)
		}
	case *ssa.UnOp:
		if x.Op == token.MUL {
			if fr, ok := eng.AsField(x.X); ok && fr.Field == "Position" && strings.HasSuffix(fr.Struct, "rag.Boundary") {
				return true, "" // boundary table positions are element boundaries (assumption, see evidence)
			}
			// a position kept in a field of a small state struct (a cursor handed from stage to stage): safe when
			// everything the package ever stores into that field is
			if fa, ok := x.X.(*ssa.FieldAddr); ok {
				if pt, ok := fa.X.Type().Underlying().(*types.Pointer); ok {
					if st, ok := pt.Elem().Underlying().(*types.Struct); ok {
						if _, isInt := x.Type().Underlying().(*types.Basic); isInt && !strings.HasSuffix(eng.TypeName(pt.Elem()), "rag.SizeLimit") {
							return bc.fieldSafe(fn, st, fa.Field, depth)
						}
					}
				}
			}
		}
	case *ssa.Field:
		if fr, ok := eng.AsField(x); ok && fr.Field == "Position" {
			return true, ""
		}
		if st, ok := x.X.Type().Underlying().(*types.Struct); ok {
			return bc.fieldSafe(fn, st, x.Field, depth)
		}
	case *ssa.BinOp:
		if x.Op == token.ADD {
			// the position of an ASCII byte found by searching a window of s, and the position right after it:
			// base + strings.LastIndexAny(s[base:hi], " \n") (+1)
			if ok, _ := asciiMatchPos(x, s); ok {
				return true, ""
			}
			if k, isC := eng.ConstInt(x.Y); isC && k == 1 {
				if ok, single := asciiMatchPos(x.X, s); ok && single {
					return true, ""
				}
			}
			// safe + len(match)
			if call, ok := x.Y.(*ssa.Call); ok {
				if bi, ok := call.Call.Value.(*ssa.Builtin); ok && bi.Name() == "len" {
					return bc.safe(fn, x.X, s, at, depth+1)
				}
			}
			// i + 1 where s[i] was tested against ASCII on every path to here
			if k, ok := eng.ConstInt(x.Y); ok && k == 1 {
				m := eng.MustCross(fn, func(e eng.Edge) bool {
					return eng.AnyEdgeFact(e, func(f eng.Fact) bool { return bc.asciiAt(f, s, func(idx ssa.Value) bool { return idx == x.X }) })
				}, nil)
				if m[at] || m[x.Block()] {
					return true, ""
				}
				return false, "i+1 where s[i] was not compared with an ASCII constant on every path"
			}
		}
	case *ssa.Phi:
		// snapped at the use site?
		if bc.snapped(fn, x, s, at) {
			return true, ""
		}
		all := true
		why := ""
		for _, e := range x.Edges {
			if e == ssa.Value(x) {
				continue
			}
			// a loop step of a snapping loop is judged by the snap, not edge-wise
			ok, w := bc.safe(fn, e, s, at, depth+1)
			if !ok {
				all = false
				why = w
			}
		}
		if all {
			return true, ""
		}
		return false, "a value that may be " + why
	case *ssa.Parameter:
		if bc.snapped(fn, x, s, at) {
			return true, ""
		}
		return false, "parameter " + x.Name() + " used as a cut position without snapping to a rune start"
	}
	// index i itself where s[i] was tested ASCII
	m := eng.MustCross(fn, func(e eng.Edge) bool {
		return eng.AnyEdgeFact(e, func(f eng.Fact) bool { return bc.asciiAt(f, s, func(idx ssa.Value) bool { return idx == v }) })
	}, nil)
	if m[at] {
		return true, ""
	}
	if bc.snapped(fn, v, s, at) {
		return true, ""
	}
	return false, "a computed byte offset (" + v.Name() + " = " + v.String() + ")"
}

// snapped: every path to block `at` crossed an exit edge of a snapping loop for v:
// utf8.RuneStart(s[v]) true, or v <= 0 / v >= len(s) (the ends are boundaries).
func (bc *boundaryChecker) snapped(fn *ssa.Function, v, s ssa.Value, at *ssa.BasicBlock) bool {
	m := eng.MustCross(fn, func(e eng.Edge) bool {
		f, ok := eng.EdgeFact(e)
		if !ok {
			return false
		}
		if call, ok := f.Cond.(*ssa.Call); ok && f.Pos && eng.CalleeName(call) == "unicode/utf8.RuneStart" {
			if x, idx, ok := stringIndex(call.Call.Args[0]); ok && idx == v && eng.SameValue(x, s) {
				return true
			}
		}
		if op, x, y, ok := f.Cmp(); ok {
			if x == v {
				if k, isC := eng.ConstInt(y); isC && k == 0 && (op == token.LEQ || op == token.EQL) {
					return true
				}
				if call, ok := y.(*ssa.Call); ok {
					if bi, ok := call.Call.Value.(*ssa.Builtin); ok && bi.Name() == "len" && op == token.GEQ {
						return true
					}
				}
			}
		}
		return false
	}, nil)
	return m[at]
}

// funcSafe: every int result returned by fn is a boundary of fn's (first) string parameter.
func (bc *boundaryChecker) funcSafe(fn *ssa.Function) (bool, string) {
	switch bc.summary[fn] {
	case 1:
		return true, ""
	case 2:
		return false, bc.why[fn]
	case 3:
		return true, "" // recursion: assume
	}
	bc.summary[fn] = 3
	var s ssa.Value
	for _, p := range fn.Params {
		if b, ok := p.Type().Underlying().(*types.Basic); ok && b.Kind() == types.String {
			s = p
			break
		}
	}
	// without a string parameter (a search over the boundary table that returns a position) only values that are
	// boundaries of any string qualify below: recorded Boundary positions and 0
	if fn.Blocks == nil {
		bc.summary[fn] = 2
		bc.why[fn] = "no body"
		return false, bc.why[fn]
	}
	for _, r := range eng.Returns(fn) {
		for _, res := range r.Results {
			if b, ok := res.Type().Underlying().(*types.Basic); !ok || b.Info()&types.IsInteger == 0 {
				continue
			}
			if ok, why := bc.safe(fn, res, s, r.Block(), 0); !ok {
				bc.summary[fn] = 2
				bc.why[fn] = fmt.Sprintf("returns %s at %s", why, bc.p.Pos(r.Pos()))
				return false, bc.why[fn]
			}
		}
	}
	bc.summary[fn] = 1
	return true, ""
}

// alignedByCursorLoop: the slice only feeds a string variable carried round a loop of the form
// `for len(t) > 0 && !utf8.RuneStart(t[0]) { t = t[1:] }`: whatever offset the variable starts at, it leaves the loop
// empty or at the start of a character.
func alignedByCursorLoop(sl *ssa.Slice) bool {
	refs := sl.Referrers()
	if refs == nil || len(*refs) == 0 {
		return false
	}
	for _, r := range *refs {
		ph, ok := r.(*ssa.Phi)
		if !ok || !isLoopCarried(ph) {
			return false
		}
		// the loop condition tests RuneStart of the variable's first byte
		tested := false
		for _, b := range ph.Parent().Blocks {
			for _, in := range b.Instrs {
				call, ok := in.(*ssa.Call)
				if !ok || eng.CalleeName(call) != "unicode/utf8.RuneStart" {
					continue
				}
				for w := range eng.Slice(call.Call.Args[0], nil) {
					switch x := w.(type) {
					case *ssa.Lookup:
						if x.X == ssa.Value(ph) {
							if k, isC := eng.ConstInt(x.Index); isC && k == 0 {
								tested = true
							}
						}
					case *ssa.Index:
						if x.X == ssa.Value(ph) {
							if k, isC := eng.ConstInt(x.Index); isC && k == 0 {
								tested = true
							}
						}
					}
				}
			}
		}
		if !tested {
			return false
		}
		// every step of the variable is t[1:]
		for _, e := range ph.Edges {
			if e == ssa.Value(sl) {
				continue
			}
			st, ok := e.(*ssa.Slice)
			if !ok {
				continue
			}
			if st.X == ssa.Value(ph) {
				if k, isC := eng.ConstInt(st.Low); !isC || k != 1 || st.High != nil {
					return false
				}
			}
		}
	}
	return true
}

func ruleRuneBoundary(c *eng.Ctx) {
	const R = "R13.1-RUNE-BOUNDARY"
	c.Rule(R, "every bound of a string slice in package rag (except slices that are only measured/compared) is a rune boundary by construction", 6, 1)
	bc := &boundaryChecker{p: c.P, summary: map[*ssa.Function]int{}, why: map[*ssa.Function]string{}}
	for _, fn := range c.P.ModuleFuncs() {
		if fn.Pkg == nil {
			continue
		}
		sp := eng.ShortPath(fn.Pkg.Pkg.Path())
		if sp != "rag" && sp != eng.PositivePkg {
			continue
		}
		n := 0
		eng.Instrs(fn, false, func(in ssa.Instruction) {
			sl, ok := in.(*ssa.Slice)
			if !ok {
				return
			}
			b, ok := sl.X.Type().Underlying().(*types.Basic)
			if !ok || b.Kind() != types.String {
				return
			}
			n++
			key := fmt.Sprintf("%s#slice%d", eng.FuncName(fn), n)
			if onlySearched(sl) {
				c.Ok(R, key, sl.Pos(), "a window that is only searched or measured, never handed on as text")
				return
			}
			if why, ok := measuredOnly[eng.FuncName(fn)]; ok {
				c.Ok(R, key, sl.Pos(), "accepted: "+why)
				return
			}
			if alignedByCursorLoop(sl) {
				c.Ok(R, key, sl.Pos(), "a cursor that the loop consuming it moves to the next rune start before it is used")
				return
			}
			var bad []string
			for _, bound := range []ssa.Value{sl.Low, sl.High} {
				if bound == nil {
					continue
				}
				if ok, why := bc.safe(fn, bound, sl.X, sl.Block(), 0); !ok {
					bad = append(bad, why)
				}
			}
			if len(bad) > 0 {
				c.Viol(R, eng.FuncName(fn)+"#string-slice", sl.Pos(), "string sliced at "+strings.Join(bad, " / ")+": a multi-byte character can be cut, producing invalid UTF-8 text")
			} else {
				c.Ok(R, key, sl.Pos(), "bounds are rune boundaries by construction")
			}
		})
	}
}

func ruleSplitProgress(c *eng.Ctx) {
	const R = "R13.2-SPLIT-PROGRESS"
	c.Rule(R, "SplitToSize: the loop-carried remainder on the back edge is a slice of the previous remainder starting at a cut position proven > 0 and < len (possibly through strings.TrimSpace), so every iteration shortens it; all other paths leave the loop", 2, 0)
	fn := c.P.Func("rag.(*SizeCalculator).SplitToSize")
	if fn == nil {
		c.Undec(R, "rag.(*SizeCalculator).SplitToSize", token.NoPos, "anchor not found")
		return
	}
	name := "rag.(*SizeCalculator).SplitToSize"
	if valueCursorLoop(fn) {
		c.Ok(R, name+"#shrinks", fn.Pos(), notEvaluatedValueCursor)
		c.Ok(R, name+"#other-paths-exit", fn.Pos(), notEvaluatedValueCursor)
		return
	}
	// the remaining text: a loop-carried string phi, or a field of a local state struct
	lp := findSplitLoop(fn)
	if lp == nil {
		c.Viol(R, name+"#remainder", fn.Pos(), "no loop-carried remainder string found")
		return
	}
	okShrink := true
	why := ""
	ups := lp.updates()
	if len(ups) == 0 {
		okShrink, why = false, "the remainder is never advanced inside the loop"
	}
	remPos := fn.Pos()
	for _, u := range ups {
		remPos = u.pos
		// the new value must be TrimSpace*(rem[split:]) with split > 0 on the way
		v := u.val
		for {
			call, ok := v.(*ssa.Call)
			if !ok {
				break
			}
			n := eng.CalleeName(call)
			if n == "strings.TrimSpace" || n == "strings.TrimLeft" || n == "strings.TrimPrefix" {
				v = call.Call.Args[0]
				continue
			}
			break
		}
		sl, ok := v.(*ssa.Slice)
		if !ok || !lp.isRemLoad(sl.X, u.step) || sl.Low == nil {
			okShrink = false
			why = "the next remainder is not remaining[split:]"
			continue
		}
		split := sl.Low
		pos := eng.GuardedBy(u.step.fn, u.blk, func(f eng.Fact) bool {
			op, x, y, ok := f.Cmp()
			if !ok || x != split {
				return false
			}
			k, isC := eng.ConstInt(y)
			return isC && ((op == token.GTR && k >= 0) || (op == token.GEQ && k >= 1))
		})
		if !pos {
			okShrink = false
			why = "the cut position is not proven > 0 before the loop continues: a zero-length cut would repeat forever"
		}
	}
	c.Check(okShrink, R, name+"#shrinks", remPos, "remainder strictly shrinks on the back edge", why)
	// loop condition: len(remaining) > 0
	okCond := false
	eng.Instrs(fn, false, func(in ssa.Instruction) {
		if b, ok := in.(*ssa.BinOp); ok && b.Op == token.GTR {
			if call, ok := b.X.(*ssa.Call); ok {
				if bi, ok := call.Call.Value.(*ssa.Builtin); ok && bi.Name() == "len" && lp.isRemLoad(call.Call.Args[0], lp.steps[0]) {
					if k, isC := eng.ConstInt(b.Y); isC && k == 0 {
						okCond = true
					}
				}
			}
		}
	})
	c.Check(okCond, R, name+"#loop-condition", remPos, "loop runs while the remainder is non-empty", "the split loop is no longer bounded by the remainder becoming empty")
}

func ruleOverlapSource(c *eng.Ctx) {
	const R = "R13.3-OVERLAP-SOURCE"
	c.Rule(R, "ApplyOverlapToChunks generates the overlap for chunk i from chunks[i-1]'s own text (the input slice), not from an already overlapped result", 1, 0)
	fn := c.P.Func("rag.ApplyOverlapToChunks")
	if fn == nil {
		c.Undec(R, "rag.ApplyOverlapToChunks", token.NoPos, "anchor not found")
		return
	}
	calls := eng.CallsNamed(fn, false, "rag.(*OverlapGenerator).GenerateOverlap")
	if len(calls) == 0 {
		c.Viol(R, "rag.ApplyOverlapToChunks#source", fn.Pos(), "overlap is not generated with GenerateOverlap")
		return
	}
	// stores to the Text of a chunk in this function (the overlapped text is written back into the chunks)
	var textStores []*ssa.Store
	eng.Instrs(fn, false, func(in ssa.Instruction) {
		if st, ok := in.(*ssa.Store); ok {
			if fr, ok := eng.AsField(st.Addr); ok && fr.Field == "Text" && strings.HasSuffix(fr.Struct, "rag.Chunk") {
				textStores = append(textStores, st)
			}
		}
	})
	before := func(a, b ssa.Instruction) bool { // a runs before b within one trip
		if a.Block() == b.Block() {
			for _, in := range a.Block().Instrs {
				if in == a {
					return true
				}
				if in == b {
					return false
				}
			}
		}
		return a.Block().Dominates(b.Block())
	}
	for _, ci := range calls {
		arg := ci.Common().Args[1]
		fromInput, fromResult := false, false
		var textLoads []ssa.Instruction
		for v := range eng.Slice(arg, nil) {
			if ia, ok := v.(*ssa.IndexAddr); ok {
				if ia.X == ssa.Value(fn.Params[0]) {
					fromInput = true
				} else if _, isParam := ia.X.(*ssa.Parameter); !isParam {
					if mk, isMk := ia.X.(*ssa.MakeSlice); isMk {
						if _, isStr := mk.Type().Underlying().(*types.Slice).Elem().Underlying().(*types.Basic); isStr {
							fromInput = true // a copy of the texts made beforehand
						} else {
							fromResult = true
						}
					}
				}
			}
			if u, ok := v.(*ssa.UnOp); ok && u.Op == token.MUL {
				if fr, ok := eng.AsField(u.X); ok && fr.Field == "Text" && strings.HasSuffix(fr.Struct, "rag.Chunk") {
					textLoads = append(textLoads, u)
				}
			}
		}
		// a Text that is read where an earlier trip of the loop may already have overwritten it is not the chunk's own
		// text: the read has to come before the function's stores to Text (its value carried to the next trip), or the
		// function must not write Text at all
		stale := false
		for _, ld := range textLoads {
			// the Text of an EARLIER element (chunks[i-1]) was written by an earlier trip, if the function writes Text at all
			earlier := false
			for w := range eng.Slice(ld.(*ssa.UnOp).X, nil) {
				if ia, ok := w.(*ssa.IndexAddr); ok {
					if b, ok := ia.Index.(*ssa.BinOp); ok && b.Op == token.SUB {
						earlier = true
					}
				}
			}
			if earlier && len(textStores) > 0 {
				stale = true
			}
			for _, st := range textStores {
				if !before(ld, st) {
					stale = true
				}
			}
		}
		if len(textLoads) > 0 && !stale {
			fromInput = true
		}
		var why []string
		if !fromInput {
			why = append(why, "the text is not read from the input chunks")
		}
		if fromResult {
			why = append(why, "the text is read from the result being built")
		}
		if stale {
			why = append(why, "the previous chunk's Text is read after this function has written overlapped text into the chunks")
		}
		c.Check(len(why) == 0, R, "rag.ApplyOverlapToChunks#source", ci.Pos(), "overlap text comes from the previous chunk's own text", "overlap for a chunk is not taken from the previous chunk's own (un-overlapped) text ("+strings.Join(why, "; ")+"): overlaps accumulate, and a chunk shorter than the overlap hands on text it inherited")
	}
}

// R13.4: the splitter converts a token limit to a byte position with the same
// configured ratio that the size test (EstimateTokens/IsAboveMax) uses.
func ruleRatioAgreement(c *eng.Ctx) {
	const R = "R13.4-RATIO-AGREEMENT"
	c.Rule(R, "the token-to-character conversion of the split-point search and the token estimate of the size test both read SizeConfig.TokensPerChar (two different ratios let pieces exceed a hard token maximum)", 2, 0)
	for _, fnName := range []string{"rag.(*SizeCalculator).FindSplitPointAt", "rag.(*SizeCalculator).EstimateTokens"} {
		fn := c.P.Func(fnName)
		if fn == nil {
			c.Undec(R, fnName, token.NoPos, "anchor not found")
			continue
		}
		reads := false
		hosts := eng.Cluster(fn, 2) // the unit conversion may be a helper of the calculator
		for _, h := range eng.Cluster(fn, 2) {
			// … or a function picked from a table keyed by the unit
			for _, ci := range eng.Calls(h, false, func(string, ssa.CallInstruction) bool { return true }) {
				if eng.StaticCallee(ci) == nil {
					if gs, _ := eng.DynCallees(ci); len(gs) > 0 {
						hosts = append(hosts, gs...)
					}
				}
			}
		}
		for _, h := range hosts {
			eng.Instrs(h, false, func(in ssa.Instruction) {
				if v, ok := in.(ssa.Value); ok {
					if fr, ok := eng.AsField(v); ok && fr.Field == "TokensPerChar" {
						reads = true
					}
				}
			})
		}
		c.Check(reads, R, fnName+"#TokensPerChar", fn.Pos(), "uses the configured tokens-per-character ratio", "does not use SizeConfig.TokensPerChar: the split position and the size test disagree about how many characters a token limit allows")
	}
}

// fieldSafe: every value stored into field idx of struct type st anywhere in fn's package is a rune boundary (the
// zero value of a field that is never stored is offset 0).
func (bc *boundaryChecker) fieldSafe(fn *ssa.Function, st *types.Struct, idx int, depth int) (bool, string) {
	if depth > 6 || fn == nil || fn.Pkg == nil {
		return false, "too deep"
	}
	if b, ok := st.Field(idx).Type().Underlying().(*types.Basic); !ok || b.Info()&types.IsInteger == 0 {
		return false, "field " + st.Field(idx).Name()
	}
	okAll, why := true, ""
	for _, g := range bc.p.ModuleFuncs() {
		if g.Pkg != fn.Pkg || g.Blocks == nil {
			continue
		}
		eng.Instrs(g, true, func(in ssa.Instruction) {
			s2, ok := in.(*ssa.Store)
			if !ok || !okAll {
				return
			}
			fa2, ok := s2.Addr.(*ssa.FieldAddr)
			if !ok || fa2.Field != idx {
				return
			}
			pt, ok := fa2.X.Type().Underlying().(*types.Pointer)
			if !ok || !types.Identical(pt.Elem().Underlying(), st) {
				return
			}
			if ok2, w := bc.safe(in.Parent(), s2.Val, nil, in.Block(), depth+2); !ok2 {
				okAll, why = false, "field "+st.Field(idx).Name()+" set to "+w
			}
		})
	}
	return okAll, why
}

var stringSearches = map[string]bool{
	"strings.Index": true, "strings.IndexByte": true, "strings.IndexAny": true, "strings.IndexRune": true,
	"strings.LastIndex": true, "strings.LastIndexByte": true, "strings.LastIndexAny": true,
	"strings.Contains": true, "strings.ContainsAny": true, "strings.ContainsRune": true, "strings.HasPrefix": true, "strings.HasSuffix": true, "strings.Count": true,
}

// onlySearched: every use of the slice expression is the subject of a search or a measurement.
func onlySearched(sl *ssa.Slice) bool {
	refs := sl.Referrers()
	if refs == nil || len(*refs) == 0 {
		return false
	}
	for _, r := range *refs {
		switch x := r.(type) {
		case *ssa.DebugRef:
		case *ssa.Call:
			n := eng.CalleeName(x)
			if !(stringSearches[n] || n == "builtin:len") || len(x.Call.Args) == 0 || x.Call.Args[0] != ssa.Value(sl) {
				return false
			}
		default:
			return false
		}
	}
	return true
}

// asciiMatchPos: v is the position in s of a match found by one of the strings.Index family for a needle that is a
// constant of ASCII bytes — searched in s itself, or in a window s[base:…] with the window's start added back.
// single reports that the match is exactly one byte long (IndexByte, IndexAny, LastIndexAny, a one-byte needle).
func asciiMatchPos(v, s ssa.Value) (ok, single bool) {
	search := func(c ssa.Value) (subject ssa.Value, single, ok bool) {
		call, isCall := c.(*ssa.Call)
		if !isCall || len(call.Call.Args) < 2 {
			return nil, false, false
		}
		n := eng.CalleeName(call)
		switch n {
		case "strings.IndexByte", "strings.LastIndexByte":
			if k, isC := eng.ConstInt(call.Call.Args[1]); isC && k < 0x80 {
				return call.Call.Args[0], true, true
			}
		case "strings.IndexAny", "strings.LastIndexAny", "strings.Index", "strings.LastIndex":
			if needle, isC := eng.ConstString(call.Call.Args[1]); isC && needle != "" {
				for i := 0; i < len(needle); i++ {
					if needle[i] >= 0x80 {
						return nil, false, false
					}
				}
				one := strings.HasSuffix(n, "Any") || len(needle) == 1
				return call.Call.Args[0], one, true
			}
		}
		return nil, false, false
	}
	if subj, one, ok := search(v); ok && s != nil && eng.SameValue(subj, s) {
		return true, one
	}
	b, isB := v.(*ssa.BinOp)
	if !isB || b.Op != token.ADD {
		return false, false
	}
	for _, pair := range [][2]ssa.Value{{b.X, b.Y}, {b.Y, b.X}} {
		subj, one, ok := search(pair[1])
		if !ok {
			continue
		}
		win, isWin := subj.(*ssa.Slice)
		if !isWin || (s != nil && !eng.SameValue(win.X, s)) {
			continue
		}
		if win.Low == nil {
			continue
		}
		if eng.SameValue(win.Low, pair[0]) {
			return true, one
		}
	}
	return false, false
}

// boolTableTrueKeys: the indices at which a package-level [N]bool array literal is true, when no function of the
// module stores into the array.
func boolTableTrueKeys(p *eng.Prog, g *ssa.Global) ([]int, bool) {
	obj, ok := g.Object().(*types.Var)
	if !ok || g.Pkg == nil {
		return nil, false
	}
	for _, fn := range p.ModuleFuncs() {
		if fn.Name() == "init" && fn.Parent() == nil {
			continue // the package initialiser fills the literal
		}
		written := false
		eng.Instrs(fn, true, func(in ssa.Instruction) {
			if st, ok := in.(*ssa.Store); ok {
				if ia, ok := st.Addr.(*ssa.IndexAddr); ok && ia.X == ssa.Value(g) {
					written = true
				}
				if st.Addr == ssa.Value(g) {
					written = true
				}
			}
		})
		if written {
			return nil, false
		}
	}
	for _, pk := range p.Pkgs {
		if pk.Types != obj.Pkg() {
			continue
		}
		for _, f := range pk.Syntax {
			for _, d := range f.Decls {
				gd, ok := d.(*ast.GenDecl)
				if !ok {
					continue
				}
				for _, sp := range gd.Specs {
					vs, ok := sp.(*ast.ValueSpec)
					if !ok {
						continue
					}
					for i, nm := range vs.Names {
						if pk.TypesInfo.Defs[nm] != types.Object(obj) || i >= len(vs.Values) {
							continue
						}
						lit, ok := vs.Values[i].(*ast.CompositeLit)
						if !ok {
							return nil, false
						}
						var keys []int
						next := 0
						for _, el := range lit.Elts {
							val := el
							if kv, ok := el.(*ast.KeyValueExpr); ok {
								tv, ok := pk.TypesInfo.Types[kv.Key]
								if !ok || tv.Value == nil {
									return nil, false
								}
								k, exact := constantInt(tv)
								if !exact {
									return nil, false
								}
								next = k
								val = kv.Value
							}
							tv, ok := pk.TypesInfo.Types[val]
							if !ok || tv.Value == nil {
								return nil, false
							}
							if tv.Value.ExactString() == "true" {
								keys = append(keys, next)
							}
							next++
						}
						return keys, true
					}
				}
			}
		}
	}
	return nil, false
}
