package rules

import (
	"fmt"
	"go/token"
	"strings"

	"golang.org/x/tools/go/ssa"

	"verif/checker/eng"
)

func init() {
	register(&Property{
		ID:    "C17",
		Level: "other",
		Explanation: "Decided (structural necessary conditions of 'cells land at their addressed position'; narrow): (R17.1) row/column typing of the reference plumbing: ParseCellRef returns (column from the letters, row from the digits minus one) in that order, every consumer binds result 0 to a column position and result 1 to a row position (grid placement Rows[r.R-1][col], Sheet.Cell(row, col), MergedRegion fields), ParseRangeRef forwards the four coordinates unpermuted, CellRef adds the one back; (R17.2) the grid dimensions are maxima over every cell of every row (the dimension pass visits cells with a full forward index); (R17.3) the tab-separated rendering writes the delimiter for every column after the first, whatever the cell's merge state. " +
			"Not decided: the base-26 arithmetic itself, shared strings and rich text, merge expansion, rows without an r attribute.",
		Rules: []func(*eng.Ctx){ruleWorkbooksEvaluated, ruleGridRectangular, deleteInRangeRule("R17.DR", "xlsx"), ruleColumnLettersBijective, ruleDeclaredAddressKept, ruleEveryValueUnderMergeTest, ruleDelimitedFieldSanitised, ruleGridSizedFromEveryCell, ruleRenderLeavesReader, loopVarRule("R17.LV", "xlsx"), ruleDimensionTyping, ruleGridDimensions, ruleDelimiterPerColumn, ruleFreshDecodeTarget, ruleBoundsOffsets, roleRule("R17.R", "xlsx"), ruleStringContentModel, ruleDeclaredChildReadXlsx, ruleJoinBufferFresh, ruleGridFromCells, ruleMarkdownBlanksCovered, ruleSheetTextUntrimmed},
	})
}

// extractIdx: v is result #i of a call to callee.
func extractIdx(v ssa.Value, callee string) (int, bool) {
	ex, ok := v.(*ssa.Extract)
	if !ok {
		return 0, false
	}
	call, ok := ex.Tuple.(*ssa.Call)
	if !ok || eng.CalleeName(call) != callee {
		return 0, false
	}
	return ex.Index, true
}

func ruleDimensionTyping(c *eng.Ctx) {
	const R = "R17.1-DIMENSION-TYPING"
	c.Rule(R, "column results flow only into column positions and row results into row positions; 1-based row numbers are converted exactly once", 7, 0)
	p := c.P
	// ParseCellRef: return (ColumnToIndex(letters), atoi(digits)-1, nil)
	if fn := p.Func("xlsx.ParseCellRef"); fn == nil {
		c.Undec(R, "xlsx.ParseCellRef", token.NoPos, "anchor not found")
	} else {
		okAll := false
		for _, r := range eng.Returns(fn) {
			vals := eng.ReturnValues(r)
			if nn, known := eng.ErrValueNonNil(vals[2]); !known || nn {
				continue
			}
			colOK, rowOK := false, false
			for v := range eng.Slice(vals[0], nil) {
				if call, ok := v.(*ssa.Call); ok && eng.CalleeName(call) == "xlsx.ColumnToIndex" {
					colOK = true
				}
			}
			if b, ok := vals[1].(*ssa.BinOp); ok && b.Op == token.SUB {
				if k, isC := eng.ConstInt(b.Y); isC && k == 1 {
					for v := range eng.Slice(b.X, nil) {
						if call, ok := v.(*ssa.Call); ok && eng.CalleeName(call) == "strconv.Atoi" {
							rowOK = true
						}
					}
				}
			}
			// the column result must not depend on Atoi nor the row result on ColumnToIndex
			for v := range eng.Slice(vals[0], nil) {
				if call, ok := v.(*ssa.Call); ok && eng.CalleeName(call) == "strconv.Atoi" {
					colOK = false
				}
			}
			okAll = colOK && rowOK
		}
		c.Check(okAll, R, "xlsx.ParseCellRef#results", fn.Pos(), "(col from letters, row = digits-1)", "ParseCellRef no longer returns (column from the letters, row number minus one) in this order")
	}
	// ParseRangeRef forwards unpermuted
	if fn := p.Func("xlsx.ParseRangeRef"); fn == nil {
		c.Undec(R, "xlsx.ParseRangeRef", token.NoPos, "anchor not found")
	} else {
		ok := false
		calls := eng.CallsNamed(fn, false, "xlsx.ParseCellRef")
		for _, r := range eng.Returns(fn) {
			vals := eng.ReturnValues(r)
			if len(vals) != 5 {
				continue
			}
			if nn, known := eng.ErrValueNonNil(vals[4]); !known || nn {
				// a named error result in a cell: this is the success return when the cell was last found nil
				okCell := false
				if ld, isLd := vals[4].(*ssa.UnOp); isLd && ld.Op == token.MUL {
					if cell, isCell := ld.X.(*ssa.Alloc); isCell {
						storedHere := false
						for _, in := range r.Block().Instrs {
							if st, isSt := in.(*ssa.Store); isSt && st.Addr == ssa.Value(cell) {
								storedHere = true
							}
						}
						okCell = !storedHere && eng.GuardedBy(fn, r.Block(), func(f eng.Fact) bool {
							op, x, y, ok := f.Cmp()
							if !ok || op != token.EQL {
								return false
							}
							for _, pair := range [][2]ssa.Value{{x, y}, {y, x}} {
								if l2, ok := pair[0].(*ssa.UnOp); ok && l2.X == ssa.Value(cell) && eng.IsNilConst(pair[1]) {
									return true
								}
							}
							return false
						})
					}
				}
				if !okCell {
					continue
				}
			}
			if len(calls) != 2 {
				continue
			}
			want := [][2]int{{0, 0}, {0, 1}, {1, 0}, {1, 1}} // (call index, result index)
			good := true
			for i, w := range want {
				v := vals[i]
				// a named result kept in a cell (a deferred function may reset it on failure): the value the
				// function body stores into the cell
				if ld, isLd := v.(*ssa.UnOp); isLd && ld.Op == token.MUL {
					if cell, isCell := ld.X.(*ssa.Alloc); isCell {
						var stored []ssa.Value
						for _, r := range *cell.Referrers() {
							if st, isSt := r.(*ssa.Store); isSt && st.Addr == ssa.Value(cell) {
								if _, isZero := st.Val.(*ssa.Const); isZero {
									continue
								}
								stored = append(stored, st.Val)
							}
						}
						if len(stored) == 1 {
							v = stored[0]
						}
					}
				}
				ex, isEx := v.(*ssa.Extract)
				if !isEx || ex.Tuple != calls[w[0]].Value() || ex.Index != w[1] {
					good = false
				}
			}
			ok = good
		}
		c.Check(ok, R, "xlsx.ParseRangeRef#results", fn.Pos(), "(startCol,startRow,endCol,endRow) forwarded in order", "ParseRangeRef permutes or mixes the coordinates of its two cell references")
	}
	// placement in parseWorksheet
	if fn := p.Func("xlsx.(*Reader).parseWorksheet"); fn == nil {
		c.Undec(R, "xlsx.(*Reader).parseWorksheet", token.NoPos, "anchor not found")
	} else {
		placed := false
		okPlace := true
		eng.Instrs(fn, false, func(in ssa.Instruction) {
			ia, ok := in.(*ssa.IndexAddr)
			if !ok {
				return
			}
			idx, isCol := extractIdx(ia.Index, "xlsx.ParseCellRef")
			if !isCol {
				// the column kept from a first pass in a per-cell record and read back here: the field of a local
				// record type whose every store in this function is a result of ParseCellRef
				if fr, ok := eng.LoadOfField(ia.Index); ok {
					n, same := 0, -1
					eng.Instrs(fn, false, func(in2 ssa.Instruction) {
						st, ok := in2.(*ssa.Store)
						if !ok {
							return
						}
						f2, ok := eng.AsField(st.Addr)
						if !ok || f2.Struct != fr.Struct || f2.Field != fr.Field {
							return
						}
						n++
						if i2, ok := extractIdx(st.Val, "xlsx.ParseCellRef"); ok {
							if same == -1 || same == i2 {
								same = i2
							} else {
								same = -2
							}
						} else {
							same = -2
						}
					})
					if n > 0 && same >= 0 {
						idx, isCol = same, true
					}
				}
			}
			if !isCol {
				return
			}
			// inner index of Rows[r][c]
			ld, ok := ia.X.(*ssa.UnOp)
			if !ok {
				return
			}
			outer, ok := ld.X.(*ssa.IndexAddr)
			if !ok {
				return
			}
			if fr, ok := eng.LoadOfField(outer.X); !ok || fr.Field != "Rows" {
				return
			}
			placed = true
			if idx != 0 {
				okPlace = false
			}
			// outer index = row.R - 1
			b, ok := outer.Index.(*ssa.BinOp)
			rOK := false
			if ok && b.Op == token.SUB {
				if k, isC := eng.ConstInt(b.Y); isC && k == 1 {
					if fr, ok := eng.LoadOfField(b.X); ok && fr.Field == "R" {
						rOK = true
					}
				}
			}
			if !rOK {
				okPlace = false
			}
		})
		c.Check(placed && okPlace, R, "xlsx.(*Reader).parseWorksheet#placement", fn.Pos(), "cell stored at Rows[row.R-1][col]", "a cell is not stored at Rows[(row number)-1][column of its reference]")
		// merged regions
		okM, seenM := true, false
		want := map[string]int{"StartCol": 0, "StartRow": 1, "EndCol": 2, "EndRow": 3}
		var mergeHosts []*ssa.Function
		for _, h := range eng.Cluster(fn, 1) { // the regions may be collected by a stage function of the package
			if h.Pkg == fn.Pkg {
				mergeHosts = append(mergeHosts, h)
			}
		}
		for _, host := range mergeHosts {
			eng.Instrs(host, false, func(in ssa.Instruction) {
				st, ok := in.(*ssa.Store)
				if !ok {
					return
				}
				fr, ok := eng.AsField(st.Addr)
				if !ok || !strings.HasSuffix(fr.Struct, "xlsx.MergedRegion") {
					return
				}
				w, known := want[fr.Field]
				if !known {
					return
				}
				seenM = true
				idx, isEx := extractIdx(st.Val, "xlsx.ParseRangeRef")
				if !isEx || idx != w {
					okM = false
				}
			})
		}
		c.Check(seenM && okM, R, "xlsx.(*Reader).parseWorksheet#merged-regions", fn.Pos(), "MergedRegion fields bound to the matching range coordinates", "a MergedRegion field is filled from the wrong coordinate of the range reference (rows and columns swapped or start/end mixed)")
	}
	// CellByRef: Cell(row, col)
	if fn := p.Func("xlsx.(*Sheet).CellByRef"); fn != nil {
		ok := false
		for _, ci := range eng.CallsNamed(fn, false, "xlsx.(*Sheet).Cell") {
			a := ci.Common().Args
			i1, ok1 := extractIdx(a[1], "xlsx.ParseCellRef")
			i2, ok2 := extractIdx(a[2], "xlsx.ParseCellRef")
			ok = ok1 && ok2 && i1 == 1 && i2 == 0
		}
		c.Check(ok, R, "xlsx.(*Sheet).CellByRef", fn.Pos(), "Cell(row, col)", "CellByRef passes the reference's column as row or vice versa")
	}
	// Sheet.Cell(row, col): Rows[row][col]
	if fn := p.Func("xlsx.(*Sheet).Cell"); fn != nil {
		ok := false
		eng.Instrs(fn, false, func(in ssa.Instruction) {
			ia, isIA := in.(*ssa.IndexAddr)
			if !isIA || ia.Index != ssa.Value(fn.Params[2]) {
				return
			}
			if ld, isLd := ia.X.(*ssa.UnOp); isLd {
				if outer, isO := ld.X.(*ssa.IndexAddr); isO && outer.Index == ssa.Value(fn.Params[1]) {
					ok = true
				}
			}
		})
		c.Check(ok, R, "xlsx.(*Sheet).Cell", fn.Pos(), "Rows[row][col]", "Sheet.Cell does not index Rows[row][col]")
	}
	// CellRef: IndexToColumn(col), row+1
	if fn := p.Func("xlsx.CellRef"); fn != nil {
		colOK, rowOK := false, false
		for _, ci := range eng.CallsNamed(fn, false, "xlsx.IndexToColumn") {
			if ci.Common().Args[0] == ssa.Value(fn.Params[0]) {
				colOK = true
			}
		}
		eng.Instrs(fn, false, func(in ssa.Instruction) {
			if b, ok := in.(*ssa.BinOp); ok && b.Op == token.ADD && b.X == ssa.Value(fn.Params[1]) {
				if k, isC := eng.ConstInt(b.Y); isC && k == 1 {
					rowOK = true
				}
			}
		})
		c.Check(colOK && rowOK, R, "xlsx.CellRef", fn.Pos(), "letters from col, digits = row+1", "CellRef no longer formats (letters of col)(row+1)")
	}
}

func ruleGridDimensions(c *eng.Ctx) {
	const R = "R17.2-GRID-DIMENSIONS"
	c.Rule(R, "the dimension pass of parseWorksheet derives the grid width from every cell of every row: the column fed into the maximum comes from row.Cells indexed by a full forward index inside the loop over rows", 1, 0)
	fn := c.P.Func("xlsx.(*Reader).parseWorksheet")
	if fn == nil {
		c.Undec(R, "xlsx.(*Reader).parseWorksheet", token.NoPos, "anchor not found")
		return
	}
	// the comparison col > maxCol where col is ParseCellRef #0 and maxCol a loop-carried phi
	found, ok := false, false
	scan := func(in ssa.Instruction) {
		var col, acc ssa.Value
		if b, isB := in.(*ssa.BinOp); isB && b.Op == token.GTR {
			col, acc = b.X, b.Y
		} else if b, isB := in.(*ssa.BinOp); isB && b.Op == token.LSS {
			col, acc = b.Y, b.X
		} else if v, isV := in.(ssa.Value); isV {
			// maxCol = max(maxCol, col)
			kind, a, isMM := minMaxCall(v)
			if !isMM || kind < 0 {
				return
			}
			col, acc = a[0], a[1]
			if _, isPhi := col.(*ssa.Phi); isPhi {
				col, acc = acc, col
			}
		} else {
			return
		}
		idx, isCol := extractIdx(col, "xlsx.ParseCellRef")
		if !isCol || idx != 0 {
			return
		}
		if ph, isPhi := acc.(*ssa.Phi); !isPhi || !isLoopCarried(ph) {
			// or a running maximum kept in a field of a local struct (the extent a measuring helper returns)
			ld, isLd := acc.(*ssa.UnOp)
			if !isLd || ld.Op != token.MUL {
				return
			}
			if cell, isCell := ld.X.(*ssa.Alloc); isCell {
				// the running maximum is a local that a closure further down captures, so it lives in a cell: the
				// maximum is stored back into the cell inside the loop
				upd := false
				eng.Instrs(in.Parent(), false, func(i2 ssa.Instruction) {
					if st, ok := i2.(*ssa.Store); ok && st.Addr == ssa.Value(cell) && eng.InLoop(st.Block()) && (st.Val == col || eng.Slice(st.Val, nil)[col]) {
						upd = true
					}
				})
				if !upd {
					return
				}
				found = true
				call := col.(*ssa.Extract).Tuple.(*ssa.Call)
				for v := range eng.Slice(call.Call.Args[0], nil) {
					if ia, isIA := v.(*ssa.IndexAddr); isIA {
						if fr, isF := eng.LoadOfField(ia.X); isF && fr.Field == "Cells" {
							if _, isInd := eng.Induction(ia.Index); isInd {
								ok = true
							}
						}
					}
				}
				return
			}
			fa, isFA := ld.X.(*ssa.FieldAddr)
			if !isFA {
				return
			}
			if _, isAl := fa.X.(*ssa.Alloc); !isAl {
				return
			}
			updated := false
			eng.Instrs(in.Parent(), false, func(i2 ssa.Instruction) {
				if st, ok := i2.(*ssa.Store); ok && eng.InLoop(st.Block()) {
					if fa2, ok := st.Addr.(*ssa.FieldAddr); ok && fa2.X == fa.X && fa2.Field == fa.Field && (st.Val == col || eng.Slice(st.Val, nil)[col]) {
						updated = true
					}
				}
			})
			if !updated {
				return
			}
		}
		found = true
		// the reference string comes from Cells[induction]
		call := col.(*ssa.Extract).Tuple.(*ssa.Call)
		for v := range eng.Slice(call.Call.Args[0], nil) {
			if ia, isIA := v.(*ssa.IndexAddr); isIA {
				if fr, isF := eng.LoadOfField(ia.X); isF && fr.Field == "Cells" {
					if _, isInd := eng.Induction(ia.Index); isInd {
						ok = true
					}
				}
			}
		}
	}
	for _, h := range eng.Cluster(fn, 2) { // the dimension pass may be a helper (worksheetExtent)
		eng.Instrs(h, false, scan)
	}
	c.Check(found && ok, R, "xlsx.(*Reader).parseWorksheet#max-col", fn.Pos(), "grid width is the maximum over all cells", "the grid width is not computed from every cell of every row (e.g. only the last cell of a row): a row written out of column order gets a grid too narrow and its right-most cells are dropped")
}

func ruleDelimiterPerColumn(c *eng.Ctx) {
	const R = "R17.3-DELIMITER-PER-COLUMN"
	c.Rule(R, "in xlsx TextWithOptions the delimiter write for column c > 0 is not under any condition on the cell itself (merge state, emptiness): every column contributes exactly one separator so field c of a line is column c", 1, 0)
	fn := c.P.Func("xlsx.(*Reader).TextWithOptions")
	if fn == nil {
		c.Undec(R, "xlsx.(*Reader).TextWithOptions", token.NoPos, "anchor not found")
		return
	}
	// the delimiter value: phi/param-derived string written with WriteString inside the innermost loop
	var delimWrites []ssa.CallInstruction
	for _, ci := range eng.Calls(fn, false, func(n string, wc ssa.CallInstruction) bool { return isStringWrite(n, wc) }) {
		arg := ci.Common().Args[len(ci.Common().Args)-1]
		if _, isC := eng.ConstString(arg); isC {
			continue
		}
		isDelim := false
		for v := range eng.Slice(arg, nil) {
			if fr, ok := eng.AsField(v); ok && fr.Field == "Delimiter" {
				isDelim = true
			}
		}
		if isDelim {
			delimWrites = append(delimWrites, ci)
		}
	}
	if len(delimWrites) == 0 {
		// the line is assembled with strings.Join(fields, delimiter): exactly len(fields)-1 separators.
		// Then fields must have one slot per grid column (made with the row's length) and slot c must be
		// written from column c only (index = the induction variable of the loop over that row).
		for _, ci := range eng.CallsNamed(fn, false, "strings.Join") {
			args := ci.Common().Args
			isDelim := false
			for v := range eng.Slice(args[1], nil) {
				if fr, ok := eng.AsField(v); ok && fr.Field == "Delimiter" {
					isDelim = true
				}
			}
			if !isDelim {
				continue
			}
			key := "xlsx.(*Reader).TextWithOptions#delimiter"
			mk, ok := args[0].(*ssa.MakeSlice)
			if !ok {
				c.Viol(R, key, ci.Pos(), "the joined fields are not a slice made with one slot per grid column")
				return
			}
			lenOf := func(v ssa.Value) ssa.Value {
				if call, ok := v.(*ssa.Call); ok && eng.CalleeName(call) == "builtin:len" {
					return call.Call.Args[0]
				}
				return nil
			}
			row := lenOf(mk.Len)
			bad := ""
			if row == nil || (mk.Cap != mk.Len && lenOf(mk.Cap) == nil) {
				bad = "the field slice is not sized by the row's length"
			}
			nSt := 0
			for _, r := range *mk.Referrers() {
				switch x := r.(type) {
				case *ssa.IndexAddr:
					ph, isInd := eng.Induction(x.Index)
					okB := false
					if isInd {
						// the induction variable is bounded by the length of the same row
						for _, cand := range []ssa.Value{ph, x.Index} {
							for _, rr := range *cand.Referrers() {
								if b, ok := rr.(*ssa.BinOp); ok && b.Op == token.LSS && b.X == cand {
									if l := lenOf(b.Y); l != nil && row != nil && eng.SameValue(l, row) {
										okB = true
									}
								}
							}
						}
					}
					if !okB {
						bad = "a field is not stored at its own column index"
					}
					for _, rr := range *x.Referrers() {
						if _, isSt := rr.(*ssa.Store); isSt {
							nSt++
						}
					}
				case *ssa.Call, *ssa.DebugRef:
				default:
					bad = "the field slice is re-sliced or appended to before joining"
				}
			}
			if nSt == 0 && bad == "" {
				bad = "no cell value is stored into the joined fields"
			}
			c.Check(bad == "", R, key, ci.Pos(), "one joined field per grid column", bad+": field c of a line is no longer column c")
			return
		}
	}
	if len(delimWrites) != 1 {
		c.Viol(R, "xlsx.(*Reader).TextWithOptions#delimiter", fn.Pos(), fmt.Sprintf("expected exactly one delimiter write in the cell loop, found %d", len(delimWrites)))
		return
	}
	w := delimWrites[0]
	bad := ""
	for _, b := range fn.Blocks {
		if len(b.Instrs) == 0 || !b.Dominates(w.Block()) || b == w.Block() {
			continue
		}
		ifi, ok := b.Instrs[len(b.Instrs)-1].(*ssa.If)
		if !ok {
			continue
		}
		for v := range eng.Slice(ifi.Cond, nil) {
			if fr, ok := eng.AsField(v); ok && strings.HasSuffix(fr.Struct, "xlsx.Cell") {
				bad = "condition on Cell." + fr.Field + " at " + c.P.Pos(ifi.Pos())
			}
		}
	}
	// and the write must not be skippable by an earlier `continue` on a cell condition: every path from the
	// cell-loop body entry to the latch passes the (colIdx > 0) test block
	c.Check(bad == "", R, "xlsx.(*Reader).TextWithOptions#delimiter", w.Pos(), "the delimiter write depends only on the column index", "the column delimiter is written under a "+bad+": covered cells of a merged region remove a separator and every value to their right shifts left")
}
