package rules

import (
	"fmt"
	"go/token"
	"go/types"
	"sort"
	"strings"

	"golang.org/x/tools/go/ssa"

	"verif/checker/eng"
)

func init() {
	register(&Property{
		ID:    "C08",
		Level: "proof",
		Explanation: "Decided (proof of the transformer clause under real arithmetic): every operator's state transformer as implemented equals the ISO 32000 transformer as polynomials in the pre-state cells and operands (R8.1: Matrix.Multiply/Transform, cm, Tm, Td, TD, T*, BT, text position, initial state), save/restore copies every field of the state by value and pops the last pushed state (R8.2), and every operator case binds its operands to the right transformer arguments in the right order, in both interpreters (R8.3); the reported position and size are taken from the specified state functions (R8.4). By induction over operator sequences this covers every operator program, matrix and nesting depth of the quantifier. " +
			"Not decided: glyph advances (Tj/TJ widths), float rounding, 'reflects' in the font-size sentence beyond data dependence on font size, text matrix and CTM.",
		Rules: []func(*eng.Ctx){memoInvalidationRule("R8.MI", "text", "graphicsstate", "font"), ruleDispatchNotGatedByState, ruleTransformers, ruleSaveRestore, ruleOperatorBinding, ruleSizeDepends, roleRule("R8.R", "graphicsstate", "text", "model"), ruleFontSizeInputs, ruleShowKeepsLineMatrix, ruleFontSizeUnderRotation, ruleFormStateIsolated},
	})
}

type mat [6]*eng.Poly

func symMat(name string) mat {
	var m mat
	for i := range m {
		m[i] = eng.PSym(fmt.Sprintf("%s[%d]", name, i))
	}
	return m
}

func constMat(v ...int64) mat {
	var m mat
	for i := range m {
		m[i] = eng.PConst(v[i])
	}
	return m
}

// matMul is the ISO 32000 row-vector product a x b of two affine matrices
// [a b c d e f] (written independently of the repository).
func matMul(a, b mat) mat {
	return mat{
		a[0].Mul(b[0]).Add(a[1].Mul(b[2])),
		a[0].Mul(b[1]).Add(a[1].Mul(b[3])),
		a[2].Mul(b[0]).Add(a[3].Mul(b[2])),
		a[2].Mul(b[1]).Add(a[3].Mul(b[3])),
		a[4].Mul(b[0]).Add(a[5].Mul(b[2])).Add(b[4]),
		a[4].Mul(b[1]).Add(a[5].Mul(b[3])).Add(b[5]),
	}
}

func setMat(n *eng.Node, m mat) {
	for i := range m {
		n.Kids[i].Leaf = m[i]
		n.Kids[i].Atom = ""
	}
}

const gsType = "graphicsstate.(*GraphicsState)."

// transformerSpec: expected post-state as a function of the symbolic pre-state.
type transformerSpec struct {
	fn     string
	params []string // names for non-receiver parameters
	doc    string
	expect func(pre *eng.Node, args map[string]*eng.Node) // mutates pre into the specified post-state
	result func(pre *eng.Node, args map[string]*eng.Node) []*eng.Poly
}

func ruleTransformers(c *eng.Ctx) {
	const R = "R8.1-TRANSFORMERS"
	c.Rule(R, "the post-state (every cell of GraphicsState, including the cells that must stay unchanged) computed by each operator's transformer equals the ISO 32000 specification as polynomials in the pre-state and operands; straight-line SSA is value-numbered with callees inlined", 12, 0)
	c.Assumes("R8.1 reads float64 arithmetic as exact real arithmetic (rounding and associativity are ignored)")
	p := c.P
	gsT := p.NamedType("graphicsstate", "GraphicsState")
	matT := p.NamedType("model", "Matrix")
	ptT := p.NamedType("model", "Point")
	if gsT == nil || matT == nil || ptT == nil {
		c.Undec(R, "types", token.NoPos, "anchor types graphicsstate.GraphicsState / model.Matrix / model.Point not found")
		return
	}
	tm := func(n *eng.Node) *eng.Node { return n.At("Text.TextMatrix") }
	tlm := func(n *eng.Node) *eng.Node { return n.At("Text.TextLineMatrix") }
	getMat := func(n *eng.Node) mat {
		var m mat
		for i := range m {
			m[i] = n.Kids[i].Leaf
		}
		return m
	}
	translate := func(tx, ty *eng.Poly) mat {
		return mat{eng.PConst(1), eng.PConst(0), eng.PConst(0), eng.PConst(1), tx, ty}
	}
	td := func(pre *eng.Node, tx, ty *eng.Poly) {
		nl := matMul(translate(tx, ty), getMat(tlm(pre)))
		setMat(tlm(pre), nl)
		setMat(tm(pre), nl)
	}
	specs := []transformerSpec{
		{fn: gsType + "Transform", params: []string{"m"}, doc: "cm: CTM' = M x CTM",
			expect: func(pre *eng.Node, a map[string]*eng.Node) {
				setMat(pre.At("CTM"), matMul(getMat(a["m"]), getMat(pre.At("CTM"))))
			}},
		{fn: gsType + "SetTextMatrix", params: []string{"m"}, doc: "Tm: Tm' = Tlm' = M",
			expect: func(pre *eng.Node, a map[string]*eng.Node) {
				setMat(tm(pre), getMat(a["m"]))
				setMat(tlm(pre), getMat(a["m"]))
			}},
		{fn: gsType + "TranslateText", params: []string{"tx", "ty"}, doc: "Td: Tlm' = T(tx,ty) x Tlm, Tm' = Tlm'",
			expect: func(pre *eng.Node, a map[string]*eng.Node) { td(pre, a["tx"].Leaf, a["ty"].Leaf) }},
		{fn: gsType + "TranslateTextSetLeading", params: []string{"tx", "ty"}, doc: "TD: Leading' = -ty, then Td",
			expect: func(pre *eng.Node, a map[string]*eng.Node) {
				pre.At("Text.Leading").Leaf = a["ty"].Leaf.Neg()
				td(pre, a["tx"].Leaf, a["ty"].Leaf)
			}},
		{fn: gsType + "NextLine", doc: "T*: Td(0, -Leading)",
			expect: func(pre *eng.Node, a map[string]*eng.Node) {
				td(pre, eng.PConst(0), pre.At("Text.Leading").Leaf.Neg())
			}},
		{fn: gsType + "BeginText", doc: "BT: Tm' = Tlm' = I",
			expect: func(pre *eng.Node, a map[string]*eng.Node) {
				setMat(tm(pre), constMat(1, 0, 0, 1, 0, 0))
				setMat(tlm(pre), constMat(1, 0, 0, 1, 0, 0))
			}},
		{fn: gsType + "SetLeading", params: []string{"leading"}, doc: "TL",
			expect: func(pre *eng.Node, a map[string]*eng.Node) { pre.At("Text.Leading").Leaf = a["leading"].Leaf }},
		{fn: gsType + "SetCharSpacing", params: []string{"spacing"}, doc: "Tc",
			expect: func(pre *eng.Node, a map[string]*eng.Node) { pre.At("Text.CharSpacing").Leaf = a["spacing"].Leaf }},
		{fn: gsType + "SetWordSpacing", params: []string{"spacing"}, doc: "Tw",
			expect: func(pre *eng.Node, a map[string]*eng.Node) { pre.At("Text.WordSpacing").Leaf = a["spacing"].Leaf }},
		{fn: gsType + "SetHorizontalScaling", params: []string{"scale"}, doc: "Tz",
			expect: func(pre *eng.Node, a map[string]*eng.Node) { pre.At("Text.HorizontalScaling").Leaf = a["scale"].Leaf }},
		{fn: gsType + "SetTextRise", params: []string{"rise"}, doc: "Ts",
			expect: func(pre *eng.Node, a map[string]*eng.Node) { pre.At("Text.Rise").Leaf = a["rise"].Leaf }},
		{fn: gsType + "SetFont", params: []string{"name", "size"}, doc: "Tf",
			expect: func(pre *eng.Node, a map[string]*eng.Node) {
				pre.At("Text.FontName").Atom = a["name"].Atom
				pre.At("Text.FontSize").Leaf = a["size"].Leaf
			}},
		{fn: gsType + "GetTextPosition", doc: "origin of shown text (rise taken as 0): (0,0) x Tm x CTM",
			expect: func(pre *eng.Node, a map[string]*eng.Node) {},
			result: func(pre *eng.Node, a map[string]*eng.Node) []*eng.Poly {
				full := matMul(getMat(tm(pre)), getMat(pre.At("CTM")))
				return []*eng.Poly{full[4], full[5]}
			}},
	}
	for _, sp := range specs {
		fn := p.Func(sp.fn)
		if fn == nil {
			c.Undec(R, sp.fn, token.NoPos, "anchor function not found")
			continue
		}
		if len(fn.Params) != len(sp.params)+1 {
			c.Viol(R, sp.fn, fn.Pos(), fmt.Sprintf("signature changed: %d parameters, specification has %d", len(fn.Params)-1, len(sp.params)))
			continue
		}
		// a transformer with branches but no loop is checked path by path: on each path the identity must
		// hold with the path's `operand == constant` guards substituted (a fast path for special operands
		// must agree with the general formula on exactly those operands)
		paths := [][]*ssa.BasicBlock{nil}
		if len(fn.Blocks) > 1 {
			paths = eng.AcyclicPaths(fn, 64)
			if paths == nil {
				c.Undec(R, sp.fn, fn.Pos(), "transformer has a loop or too many paths: outside the interpreted fragment")
				continue
			}
		}
		var diffs []string
		var trace []string
		undec := ""
		for pi, path := range paths {
			pre := eng.NewSym(gsT, "gs")
			want := eng.NewSym(gsT, "gs")
			args := []any{&eng.Ptr{Target: pre}}
			named := map[string]*eng.Node{}
			for i, pn := range sp.params {
				a := eng.NewSym(fn.Params[i+1].Type(), pn)
				named[pn] = a
				args = append(args, a)
			}
			sp.expect(want, named)
			it := &eng.Interp{MaxDepth: 5, Path: path}
			rets, ok, why := it.Eval(fn, args, 0)
			trace = append(trace, it.Trace...)
			if !ok {
				undec = why
				break
			}
			pre.SubstAll(it.Subst)
			want.SubstAll(it.Subst)
			var pd []string
			if sp.fn == gsType+"GetTextPosition" {
				// rise := 0
				for _, r := range rets {
					if n, ok := r.(*eng.Node); ok && n.Leaf != nil {
						n.Leaf = n.Leaf.Subst("gs.Text.Rise", eng.PConst(0))
					}
				}
			}
			eng.Diff(pre, want, "gs", &pd)
			if sp.result != nil {
				exp := sp.result(eng.NewSym(gsT, "gs"), named)
				if len(rets) != len(exp) {
					pd = append(pd, fmt.Sprintf("returns %d values, specification has %d", len(rets), len(exp)))
				} else {
					for i, e := range exp {
						n, ok := rets[i].(*eng.Node)
						if ok && n.Leaf != nil {
							for name, r := range it.Subst {
								n.Leaf = n.Leaf.Subst(name, eng.PRat(r))
								e = e.Subst(name, eng.PRat(r))
							}
						}
						if !ok || n.Leaf == nil || !n.Leaf.Equal(e) {
							got := "<uninterpreted>"
							if ok && n.Leaf != nil {
								got = n.Leaf.String()
							} else if ok && n.Opaque != "" {
								got = "<" + n.Opaque + ">"
							}
							pd = append(pd, fmt.Sprintf("result %d: got %s, specified %s", i, got, e.String()))
						}
					}
				}
			}
			if len(pd) > 0 && len(paths) > 1 {
				var g []string
				for k, v := range it.Subst {
					g = append(g, k+"="+v.RatString())
				}
				sort.Strings(g)
				for i := range pd {
					pd[i] = fmt.Sprintf("[path %d, with %s] %s", pi+1, strings.Join(g, ","), pd[i])
				}
			}
			diffs = append(diffs, pd...)
		}
		if undec != "" {
			c.Undec(R, sp.fn, fn.Pos(), "transformer is outside the straight-line fragment: "+undec)
			continue
		}
		if len(diffs) > 0 {
			if len(diffs) > 4 {
				diffs = append(diffs[:4], fmt.Sprintf("… %d more cells", len(diffs)-4))
			}
			c.Viol(R, sp.fn, fn.Pos(), sp.doc+" — implemented transformer differs from ISO 32000: "+strings.Join(diffs, "; "))
		} else {
			c.Ok(R, sp.fn, fn.Pos(), sp.doc+" (all state cells equal the specification; inlined: "+strings.Join(dedupStr(trace), ",")+fmt.Sprintf("; %d path(s)", len(paths))+")")
		}
	}

	// pure functions of model
	type pureSpec struct {
		fn     string
		doc    string
		params []string
		want   func(a map[string]*eng.Node) []*eng.Poly
	}
	pures := []pureSpec{
		{fn: "model.Matrix.Multiply", doc: "row-vector product m x other", params: []string{"m", "other"},
			want: func(a map[string]*eng.Node) []*eng.Poly {
				r := matMul(symMat("m"), symMat("other"))
				return r[:]
			}},
		{fn: "model.Matrix.Transform", doc: "p x M", params: []string{"m", "p"},
			want: func(a map[string]*eng.Node) []*eng.Poly {
				m := symMat("m")
				x, y := eng.PSym("p.X"), eng.PSym("p.Y")
				return []*eng.Poly{m[0].Mul(x).Add(m[2].Mul(y)).Add(m[4]), m[1].Mul(x).Add(m[3].Mul(y)).Add(m[5])}
			}},
		{fn: "model.Identity", doc: "identity matrix", want: func(a map[string]*eng.Node) []*eng.Poly { r := constMat(1, 0, 0, 1, 0, 0); return r[:] }},
		{fn: "model.Translate", doc: "[1 0 0 1 tx ty]", params: []string{"tx", "ty"},
			want: func(a map[string]*eng.Node) []*eng.Poly {
				return []*eng.Poly{eng.PConst(1), eng.PConst(0), eng.PConst(0), eng.PConst(1), eng.PSym("tx"), eng.PSym("ty")}
			}},
	}
	for _, ps := range pures {
		fn := p.Func(ps.fn)
		if fn == nil {
			c.Undec(R, ps.fn, token.NoPos, "anchor function not found")
			continue
		}
		if len(fn.Params) != len(ps.params) {
			c.Viol(R, ps.fn, fn.Pos(), "signature changed")
			continue
		}
		var args []any
		named := map[string]*eng.Node{}
		for i, pn := range ps.params {
			a := eng.NewSym(fn.Params[i].Type(), pn)
			named[pn] = a
			args = append(args, a)
		}
		it := &eng.Interp{MaxDepth: 3}
		rets, ok, why := it.Eval(fn, args, 0)
		if !ok || len(rets) != 1 {
			c.Undec(R, ps.fn, fn.Pos(), "outside the straight-line fragment: "+why)
			continue
		}
		res, _ := rets[0].(*eng.Node)
		want := ps.want(named)
		var diffs []string
		if res == nil || len(res.Kids) != len(want) {
			diffs = append(diffs, "result shape differs")
		} else {
			for i, w := range want {
				if res.Kids[i].Leaf == nil || !res.Kids[i].Leaf.Equal(w) {
					g := "<uninterpreted>"
					if res.Kids[i].Leaf != nil {
						g = res.Kids[i].Leaf.String()
					}
					diffs = append(diffs, fmt.Sprintf("component %d: got %s, specified %s", i, g, w.String()))
				}
			}
		}
		if len(diffs) > 0 {
			c.Viol(R, ps.fn, fn.Pos(), ps.doc+": "+strings.Join(diffs, "; "))
		} else {
			c.Ok(R, ps.fn, fn.Pos(), ps.doc)
		}
	}

	// initial state
	if fn := p.Func("graphicsstate.NewGraphicsState"); fn == nil {
		c.Undec(R, "graphicsstate.NewGraphicsState", token.NoPos, "anchor function not found")
	} else {
		it := &eng.Interp{MaxDepth: 3}
		rets, ok, why := it.Eval(fn, nil, 0)
		if !ok || len(rets) != 1 {
			c.Undec(R, "graphicsstate.NewGraphicsState", fn.Pos(), "outside the straight-line fragment: "+why)
		} else if ptr, isPtr := rets[0].(*eng.Ptr); !isPtr {
			c.Undec(R, "graphicsstate.NewGraphicsState", fn.Pos(), "result not interpretable")
		} else {
			st := ptr.Target
			var diffs []string
			id := constMat(1, 0, 0, 1, 0, 0)
			for _, path := range []string{"CTM", "Text.TextMatrix", "Text.TextLineMatrix"} {
				n := st.At(path)
				for i := range id {
					if n == nil || n.Kids[i].Leaf == nil || !n.Kids[i].Leaf.Equal(id[i]) {
						diffs = append(diffs, path+" is not the identity")
						break
					}
				}
			}
			for path, v := range map[string]int64{"Text.HorizontalScaling": 100, "Text.CharSpacing": 0, "Text.WordSpacing": 0, "Text.Leading": 0, "Text.Rise": 0} {
				n := st.At(path)
				if n == nil || n.Leaf == nil || !n.Leaf.Equal(eng.PConst(v)) {
					diffs = append(diffs, fmt.Sprintf("%s is not %d", path, v))
				}
			}
			sort.Strings(diffs)
			if len(diffs) > 0 {
				c.Viol(R, "graphicsstate.NewGraphicsState", fn.Pos(), "initial state differs from ISO 32000 table 52/104: "+strings.Join(diffs, "; "))
			} else {
				c.Ok(R, "graphicsstate.NewGraphicsState", fn.Pos(), "CTM = Tm = Tlm = I, Th = 100, Tc = Tw = TL = Ts = 0")
			}
		}
	}
}

// ---------------------------------------------------------------------------
// R8.2 SAVE-RESTORE
// ---------------------------------------------------------------------------

func ruleSaveRestore(c *eng.Ctx) {
	const R = "R8.2-SAVE-RESTORE"
	c.Rule(R, "Clone copies and Restore assigns every field of GraphicsState except the stack itself; those fields are pointer-free so a value copy is deep; Save pushes Clone(); Restore takes and removes the last element", 12, 0)
	p := c.P
	gsT := p.NamedType("graphicsstate", "GraphicsState")
	clone, restore, save := p.Func(gsType+"Clone"), p.Func(gsType+"Restore"), p.Func(gsType+"Save")
	if gsT == nil || clone == nil || restore == nil || save == nil {
		c.Undec(R, "anchors", token.NoPos, "GraphicsState / Clone / Restore / Save not found")
		return
	}
	st := gsT.Underlying().(*types.Struct)
	for _, spec := range []struct {
		fn     *ssa.Function
		result bool
		name   string
	}{{clone, true, "Clone"}, {restore, false, "Restore"}} {
		fields, err := eng.AnalyseStructCopy(spec.fn, gsT, spec.result)
		if err != nil {
			c.Undec(R, spec.name, spec.fn.Pos(), err.Error())
			continue
		}
		for i := 0; i < st.NumFields(); i++ {
			f := st.Field(i)
			key := gsType + spec.name + "#" + f.Name()
			fc := fields[f.Name()]
			if f.Name() == "stack" {
				if spec.result && fc.Assigned && fc.Alias {
					c.Viol(R, key, fc.Pos, "Clone shares the save stack with the original: a Restore on one pops the other's states")
				} else {
					c.Ok(R, key, spec.fn.Pos(), "stack is not part of the saved state")
				}
				continue
			}
			if !eng.PointerFree(f.Type()) {
				c.Viol(R, key, spec.fn.Pos(), fmt.Sprintf("field %s of type %s contains references: q/Q would share it between saved and current state", f.Name(), f.Type()))
				continue
			}
			if !fc.Assigned || !fc.FromSame {
				c.Viol(R, key, spec.fn.Pos(), fmt.Sprintf("%s does not carry field %s: Q does not restore the state exactly", spec.name, f.Name()))
				continue
			}
			c.Ok(R, key, fc.Pos, "copied by value from the same field")
		}
	}
	// Save pushes Clone()
	// the stack is whatever storage of type []*GraphicsState the state keeps (a field, or a field of a small stack
	// type with push/pop methods): the stores and element reads are looked for in Save/Restore and their helpers
	isStateSlice := func(t types.Type) bool {
		sl, ok := t.Underlying().(*types.Slice)
		if !ok {
			return false
		}
		pt, ok := sl.Elem().Underlying().(*types.Pointer)
		return ok && types.Identical(pt.Elem(), types.Type(gsT))
	}
	pushed := false
	noClone := token.NoPos
	saveCluster := eng.Cluster(save, 1)
	for _, h := range saveCluster {
		eng.Instrs(h, false, func(in ssa.Instruction) {
			stx, ok := in.(*ssa.Store)
			if !ok || !isStateSlice(stx.Val.Type()) {
				return
			}
			if _, ok := eng.AsField(stx.Addr); !ok {
				return
			}
			has := false
			for v := range eng.SliceInter(stx.Val, func(*ssa.Call) bool { return true }, saveCluster) {
				if call, ok := v.(*ssa.Call); ok && eng.StaticCallee(call) == clone {
					pushed, has = true, true
				}
			}
			if !has && h != clone && !eng.IsNilConst(stx.Val) {
				noClone = stx.Pos()
			}
		})
	}
	c.Check(pushed, R, gsType+"Save#push", save.Pos(), "Save appends Clone() to the stack", "Save does not push a Clone() of the state onto the stack")
	// every way Save changes the stack pushes a fresh Clone(): a snapshot recycled from the backing array and
	// refreshed field by field is only as complete as the list of fields someone remembered
	c.Check(noClone == token.NoPos, R, gsType+"Save#every-push-clones", save.Pos(), "the stack only ever grows by a Clone()", "Save also changes the stack at "+c.P.Pos(noClone)+" without pushing a Clone(): a recycled snapshot keeps the fields nobody refreshed (the text state of an earlier q)")
	// Restore: source element index is len(stack)-1 and the stack is re-sliced to [:len-1]
	popLast, shrink := false, false
	isLenMinus1 := func(v ssa.Value) bool {
		b, ok := v.(*ssa.BinOp)
		if !ok || b.Op != token.SUB {
			return false
		}
		k, isC := eng.ConstInt(b.Y)
		if !isC || k != 1 {
			return false
		}
		call, ok := b.X.(*ssa.Call)
		if !ok {
			return false
		}
		bi, ok := call.Call.Value.(*ssa.Builtin)
		return ok && bi.Name() == "len"
	}
	for _, h := range eng.Cluster(restore, 1) {
		eng.Instrs(h, false, func(in ssa.Instruction) {
			switch x := in.(type) {
			case *ssa.IndexAddr:
				if isLenMinus1(x.Index) && isStateSlice(x.X.Type()) {
					popLast = true
				}
			case *ssa.Slice:
				if x.Low == nil && x.High != nil && isLenMinus1(x.High) && isStateSlice(x.X.Type()) {
					shrink = true
				}
			}
		})
	}
	c.Check(popLast, R, gsType+"Restore#top", restore.Pos(), "Restore reads stack[len-1]", "Restore does not take the most recently saved state (stack[len(stack)-1])")
	c.Check(shrink, R, gsType+"Restore#pop", restore.Pos(), "Restore shrinks the stack by one", "Restore does not remove exactly the last element from the stack")
}

// ---------------------------------------------------------------------------
// R8.3 OPERATOR-BINDING
// ---------------------------------------------------------------------------

type bindSpec struct {
	op     string
	callee string // short method name on GraphicsState, or "showText"
	args   []int  // operand index for each (non-receiver) argument; -1 = not an operand; -2 = whole operand list as matrix
}

var textBindings = []bindSpec{
	{"cm", "Transform", []int{-2}},
	{"Tm", "SetTextMatrix", []int{-2}},
	{"Td", "TranslateText", []int{0, 1}},
	{"TD", "TranslateTextSetLeading", []int{0, 1}},
	{"T*", "NextLine", nil},
	{"BT", "BeginText", nil},
	{"q", "Save", nil},
	{"Q", "Restore", nil},
	{"TL", "SetLeading", []int{0}},
	{"Tc", "SetCharSpacing", []int{0}},
	{"Tw", "SetWordSpacing", []int{0}},
	{"Tz", "SetHorizontalScaling", []int{0}},
	{"Ts", "SetTextRise", []int{0}},
	{"Tf", "SetFont", []int{0, 1}},
	{"'", "NextLine", nil},
	{"\"", "SetWordSpacing", []int{0}},
	{"\"", "SetCharSpacing", []int{1}},
	{"\"", "NextLine", nil},
}

// opGuard: the block is reached only through the true edge of <operator> == "op".
func opGuarded(fn *ssa.Function, op string) map[*ssa.BasicBlock]bool {
	return eng.MustCross(fn, func(e eng.Edge) bool {
		f, ok := eng.EdgeFact(e)
		if !ok {
			return false
		}
		o, x, y, ok := f.Cmp()
		if !ok || o != token.EQL {
			return false
		}
		for _, side := range [][2]ssa.Value{{x, y}, {y, x}} {
			if s, isS := eng.ConstString(side[1]); isS && s == op {
				if fr, ok := eng.LoadOfField(side[0]); ok && fr.Field == "Operator" {
					return true
				}
				if f, ok := side[0].(*ssa.Field); ok {
					if fr, ok := eng.AsField(f); ok && fr.Field == "Operator" {
						return true
					}
				}
			}
		}
		return false
	}, nil)
}

// operandIndices returns the constant indices i such that v data-depends on
// <op>.Operands[i], and whether it depends on the whole Operands slice through
// operandsToMatrix.
func operandIndices(v ssa.Value) (idx map[int]bool, whole bool) {
	idx = map[int]bool{}
	sl := eng.Slice(v, func(c *ssa.Call) bool { return true })
	for w := range sl {
		switch x := w.(type) {
		case *ssa.IndexAddr:
			if k, ok := eng.ConstInt(x.Index); ok && isOperands(x.X) {
				idx[int(k)] = true
			}
		case *ssa.Index:
			if k, ok := eng.ConstInt(x.Index); ok && isOperands(x.X) {
				idx[int(k)] = true
			}
		case *ssa.Call:
			if f := eng.StaticCallee(x); f != nil && f.Name() == "operandsToMatrix" && len(x.Call.Args) == 1 && isOperands(x.Call.Args[0]) {
				whole = true
			}
		}
	}
	return
}

// positionalMap: h(in, f) returns a new slice of len(in) whose element i is f(in[i]) (a generic map helper): positions
// are kept, so element k of the result stands for operand k.
func positionalMap(h *ssa.Function) bool {
	if h == nil || h.Blocks == nil || len(h.Params) != 2 {
		return false
	}
	in := ssa.Value(h.Params[0])
	if _, isSl := in.Type().Underlying().(*types.Slice); !isSl {
		return false
	}
	var out *ssa.MakeSlice
	okLen := false
	eng.Instrs(h, false, func(i ssa.Instruction) {
		if mk, ok := i.(*ssa.MakeSlice); ok {
			out = mk
			if call, ok := mk.Len.(*ssa.Call); ok {
				if bi, ok := call.Call.Value.(*ssa.Builtin); ok && bi.Name() == "len" && call.Call.Args[0] == in {
					okLen = true
				}
			}
		}
	})
	if out == nil || !okLen {
		return false
	}
	stores, okStores := 0, true
	eng.Instrs(h, false, func(i ssa.Instruction) {
		st, ok := i.(*ssa.Store)
		if !ok {
			return
		}
		dst, ok := st.Addr.(*ssa.IndexAddr)
		if !ok || dst.X != ssa.Value(out) {
			return
		}
		stores++
		same := false
		for w := range eng.Slice(st.Val, func(*ssa.Call) bool { return true }) {
			if src, ok := w.(*ssa.IndexAddr); ok && src.X == in && src.Index == dst.Index {
				same = true
			}
		}
		if !same {
			okStores = false
		}
	})
	if stores != 1 || !okStores {
		return false
	}
	for _, r := range eng.Returns(h) {
		if len(r.Results) != 1 || r.Results[0] != ssa.Value(out) {
			return false
		}
	}
	return true
}

func isOperands(v ssa.Value) bool {
	v = eng.Unwrap(v)
	// the operands mapped one by one by a helper that keeps positions (mapSlice(op.Operands, toFloatOrZero))
	if call, ok := v.(*ssa.Call); ok {
		if h := eng.StaticCallee(call); h != nil && eng.InModule(h) && len(call.Call.Args) == 2 && positionalMap(h) {
			return isOperands(call.Call.Args[0])
		}
	}
	// the operand list handed to a helper or table handler as a parameter
	if par, ok := v.(*ssa.Parameter); ok {
		if sl, ok := par.Type().Underlying().(*types.Slice); ok && strings.HasSuffix(eng.TypeName(sl.Elem()), "core.Object") {
			return true
		}
	}
	if fr, ok := eng.LoadOfField(v); ok && fr.Field == "Operands" {
		return true
	}
	if f, ok := v.(*ssa.Field); ok {
		if fr, ok := eng.AsField(f); ok && fr.Field == "Operands" {
			return true
		}
	}
	return false
}

func ruleOperatorBinding(c *eng.Ctx) {
	const R = "R8.3-OPERATOR-BINDING"
	c.Rule(R, "in both content-stream interpreters every positioning operator calls its transformer with argument k bound to operand k (cm/Tm: the six operands in order), ' and \" move to the next line before showing, and a Form XObject's Save is matched by Restore on every exit", 24, 0)
	p := c.P
	fn := p.Func("text.(*Extractor).processOperation")
	if fn == nil {
		c.Undec(R, "text.(*Extractor).processOperation", token.NoPos, "anchor not found")
		return
	}
	checkBindings := func(fn *ssa.Function, fnName string, specs []bindSpec) {
		guardCache := map[string]map[*ssa.BasicBlock]bool{}
		for _, sp := range specs {
			g, ok := guardCache[sp.op]
			if !ok {
				g = opGuarded(fn, sp.op)
				guardCache[sp.op] = g
			}
			key := fmt.Sprintf("%s#case %q->%s", fnName, sp.op, sp.callee)
			var found ssa.CallInstruction
			for _, call := range eng.Calls(fn, false, func(n string, ci ssa.CallInstruction) bool {
				return strings.HasSuffix(n, ")."+sp.callee) && strings.Contains(n, "GraphicsState")
			}) {
				if g[call.Block()] {
					found = call
					break
				}
			}
			if found == nil {
				// a group of operators handed to a helper that dispatches on the operator again
				isOperator := func(v ssa.Value) bool {
					if fr, ok := eng.LoadOfField(v); ok && fr.Field == "Operator" {
						return true
					}
					if f, ok := v.(*ssa.Field); ok {
						if fr, ok := eng.AsField(f); ok && fr.Field == "Operator" {
							return true
						}
					}
					return false
				}
				for _, hc := range eng.Calls(fn, false, func(string, ssa.CallInstruction) bool { return true }) {
					h := eng.StaticCallee(hc)
					if h == nil || h.Blocks == nil || h.Pkg != fn.Pkg || h == fn || found != nil {
						continue
					}
					var wanted []ssa.CallInstruction
					for _, call := range eng.Calls(h, false, func(n string, ci ssa.CallInstruction) bool {
						return strings.HasSuffix(n, ")."+sp.callee) && strings.Contains(n, "GraphicsState")
					}) {
						wanted = append(wanted, call)
					}
					if len(wanted) == 0 {
						continue
					}
					// the helper is reached for this operator, and inside it this operator reaches the transformer
					if !eng.StrReach(fn, []string{sp.op}, isOperator, nil, func(in ssa.Instruction) bool { return in == ssa.Instruction(hc) })[sp.op] {
						continue
					}
					for _, call := range wanted {
						call := call
						if eng.StrReach(h, []string{sp.op}, isOperator, nil, func(in ssa.Instruction) bool { return in == ssa.Instruction(call) })[sp.op] && found == nil {
							found = call
						}
					}
				}
			}
			if found == nil {
				// dispatched through a read-only table operator -> setter, called on the looked-up entry
				found = tableDispatchCall(p, fn, sp.op, sp.callee)
			}
			if found == nil {
				c.Viol(R, key, fn.Pos(), fmt.Sprintf("operator %q does not reach GraphicsState.%s", sp.op, sp.callee))
				continue
			}
			args := found.Common().Args
			if !found.Common().IsInvoke() && len(args) > 0 {
				args = args[1:] // the receiver
			}
			bad := ""
			for i, want := range sp.args {
				if i >= len(args) {
					bad = "argument count changed"
					break
				}
				idx, whole := operandIndices(args[i])
				switch {
				case want == -2:
					if !whole {
						bad = "matrix argument is not operandsToMatrix(op.Operands)"
					}
				case want >= 0:
					if len(idx) != 1 || !idx[want] {
						var got []string
						for k := range idx {
							got = append(got, fmt.Sprint(k))
						}
						sort.Strings(got)
						bad = fmt.Sprintf("argument %d is bound to operand(s) [%s], ISO 32000 binds operand %d", i, strings.Join(got, ","), want)
					}
				}
				if bad != "" {
					break
				}
			}
			if bad != "" {
				c.Viol(R, key, found.Pos(), bad)
			} else {
				c.Ok(R, key, found.Pos(), "operands bound in order")
			}
		}
	}
	checkBindings(fn, "text.(*Extractor).processOperation", textBindings)

	// ' and ": NextLine before showText; " shows operand 2
	for _, op := range []string{"'", "\""} {
		g := opGuarded(fn, op)
		var next, show []ssa.CallInstruction
		for _, call := range eng.Calls(fn, false, func(n string, _ ssa.CallInstruction) bool { return true }) {
			if !g[call.Block()] {
				continue
			}
			n := eng.CalleeName(call)
			if strings.HasSuffix(n, ").NextLine") {
				next = append(next, call)
			}
			if strings.HasSuffix(n, ").showText") {
				show = append(show, call)
			}
			// a local closure that shows the operand (showOperand := func(i int) { ... e.showText(...) })
			var lit *ssa.Function
			if mc, ok := call.Common().Value.(*ssa.MakeClosure); ok {
				lit, _ = mc.Fn.(*ssa.Function)
			} else if f, ok := call.Common().Value.(*ssa.Function); ok && f.Parent() == fn {
				lit = f
			}
			if lit != nil {
				for _, inner := range eng.Calls(lit, false, func(n string, _ ssa.CallInstruction) bool { return strings.HasSuffix(n, ").showText") }) {
					_ = inner
					show = append(show, call)
					break
				}
			}
		}
		key := fmt.Sprintf("text.(*Extractor).processOperation#case %q order", op)
		if len(next) == 0 || len(show) == 0 {
			c.Viol(R, key, fn.Pos(), "operator "+op+" must call NextLine and showText")
			continue
		}
		okOrder := true
		for _, s := range show {
			dominated := false
			for _, n := range next {
				if eng.InstrDominates(n, s) {
					dominated = true
				}
			}
			if !dominated {
				okOrder = false
			}
			wantIdx := 0
			if op == "\"" {
				wantIdx = 2
			}
			idx, _ := operandIndices(s.Common().Args[len(s.Common().Args)-1])
			if !strings.HasSuffix(eng.CalleeName(s), ").showText") {
				// the closure showOperand(i): the constant handed over is the operand's index, and the closure indexes
				// the operands with its parameter
				idx = map[int]bool{}
				var lit *ssa.Function
				if mc, ok := s.Common().Value.(*ssa.MakeClosure); ok {
					lit, _ = mc.Fn.(*ssa.Function)
				} else if f, ok := s.Common().Value.(*ssa.Function); ok {
					lit = f
				}
				if k, isC := eng.ConstInt(s.Common().Args[len(s.Common().Args)-1]); isC && lit != nil && len(lit.Params) == 1 {
					byParam := false
					eng.Instrs(lit, false, func(in ssa.Instruction) {
						switch a := in.(type) {
						case *ssa.IndexAddr:
							if a.Index == ssa.Value(lit.Params[0]) {
								byParam = true
							}
						case *ssa.Index:
							if a.Index == ssa.Value(lit.Params[0]) {
								byParam = true
							}
						}
					})
					if byParam {
						idx[int(k)] = true
					}
				}
			}
			if len(idx) != 1 || !idx[wantIdx] {
				c.Viol(R, key+"#string", s.Pos(), fmt.Sprintf("shown string is not operand %d", wantIdx))
			} else {
				c.Ok(R, key+"#string", s.Pos(), fmt.Sprintf("shown string is operand %d", wantIdx))
			}
		}
		c.Check(okOrder, R, key, show[0].Pos(), "NextLine dominates showText", "text is shown before moving to the next line")
	}

	// operandsToMatrix: m[i] <- operands[i]
	if otm := p.Func("text.operandsToMatrix"); otm == nil {
		c.Undec(R, "text.operandsToMatrix", token.NoPos, "anchor not found")
	} else {
		checkIndexedCopy(c, R, otm, "text.operandsToMatrix")
	}

	// sibling interpreter: graphicsstate extractor binds cm the same way
	gfn := findFuncWithCase(p, "graphicsstate", "cm", "Transform")
	viaTable := false
	if gfn == nil {
		// the operators may be dispatched through a read-only table of handler functions keyed by operator
		if h := opTableHandler(p, "graphicsstate", "cm"); h != nil {
			gfn, viaTable = h, true
		}
	}
	if gfn == nil {
		c.Undec(R, "graphicsstate extractor cm", token.NoPos, "no function in package graphicsstate dispatches \"cm\" to Transform")
	} else {
		g := opGuarded(gfn, "cm")
		if viaTable {
			g = map[*ssa.BasicBlock]bool{}
			for _, b := range gfn.Blocks {
				g[b] = true
			}
		}
		okc := false
		var pos token.Pos = gfn.Pos()
		for _, call := range eng.Calls(gfn, false, func(n string, _ ssa.CallInstruction) bool { return strings.HasSuffix(n, ").Transform") }) {
			if !g[call.Block()] {
				continue
			}
			pos = call.Pos()
			// matrix argument: each cell k of the stored literal derives from operand k
			okc = matrixFromOperandsInOrder(call.Common().Args[1])
		}
		c.Check(okc, R, eng.FuncName(gfn)+"#case \"cm\"->Transform", pos, "matrix cell k from operand k", "the cm matrix is not built from operands 0..5 in order")
	}

	// Form XObject: Save … Restore on all exits after Save
	if inv := p.Func("text.(*Extractor).invokeXObject"); inv == nil {
		c.Undec(R, "text.(*Extractor).invokeXObject", token.NoPos, "anchor not found")
	} else {
		saves := eng.Calls(inv, false, func(n string, _ ssa.CallInstruction) bool { return n == gsType+"Save" })
		if len(saves) == 0 {
			// the bracket may sit in the stage that runs the form (lookup stage + run stage)
			for _, h := range eng.Cluster(inv, 1) {
				if sv := eng.Calls(h, false, func(n string, _ ssa.CallInstruction) bool { return n == gsType+"Save" }); len(sv) > 0 {
					saves, inv = sv, h
					break
				}
			}
		}
		if len(saves) != 1 {
			c.Viol(R, "text.(*Extractor).invokeXObject#Save", inv.Pos(), fmt.Sprintf("expected exactly one Save around the form's content, found %d", len(saves)))
		} else {
			// a call restores when it is Restore itself or a local helper/closure all of whose paths call Restore
			var restores func(ci ssa.CallInstruction, depth int) bool
			restores = func(ci ssa.CallInstruction, depth int) bool {
				if eng.CalleeName(ci) == gsType+"Restore" {
					return true
				}
				if depth > 1 {
					return false
				}
				cal := eng.StaticCallee(ci)
				if cal == nil {
					if mc, ok := ci.Common().Value.(*ssa.MakeClosure); ok {
						cal, _ = mc.Fn.(*ssa.Function)
					}
				}
				if cal == nil || cal.Blocks == nil || !eng.InModule(cal) {
					return false
				}
				inner := func(b *ssa.BasicBlock) bool {
					for _, in := range b.Instrs {
						if c2, ok := in.(ssa.CallInstruction); ok && restores(c2, depth+1) {
							return true
						}
					}
					return false
				}
				if inner(cal.Blocks[0]) {
					return true
				}
				for b := range eng.ReachableBlocks([]*ssa.BasicBlock{cal.Blocks[0]}, inner) {
					if len(b.Instrs) > 0 {
						if _, ok := b.Instrs[len(b.Instrs)-1].(*ssa.Return); ok {
							return false
						}
					}
				}
				return true
			}
			isRestore := func(b *ssa.BasicBlock) bool {
				for _, in := range b.Instrs {
					if ci, ok := in.(ssa.CallInstruction); ok && restores(ci, 0) {
						return true
					}
				}
				return false
			}
			sb := saves[0].Block()
			// blocks reachable from the Save block without passing a Restore block
			reach := eng.ReachableBlocks(sb.Succs, isRestore)
			leak := false
			for b := range reach {
				if len(b.Instrs) > 0 {
					if _, ok := b.Instrs[len(b.Instrs)-1].(*ssa.Return); ok {
						leak = true
					}
				}
			}
			c.Check(!leak, R, "text.(*Extractor).invokeXObject#Save/Restore", saves[0].Pos(), "every exit after Save passes Restore", "an exit path after Save() skips Restore(): the form's CTM leaks into the rest of the page")
			// Transform(/Matrix) between Save and content processing
			trans := eng.Calls(inv, false, func(n string, _ ssa.CallInstruction) bool { return n == gsType+"Transform" })
			okT := len(trans) > 0
			for _, t := range trans {
				if !eng.InstrDominates(saves[0], t) {
					okT = false
				}
			}
			c.Check(okT, R, "text.(*Extractor).invokeXObject#Matrix", inv.Pos(), "form /Matrix is concatenated after Save", "form /Matrix is not concatenated inside the Save/Restore bracket")
		}
	}
}

// checkIndexedCopy: every store m[i] = f(operands[i]) uses the same index value.
func checkIndexedCopy(c *eng.Ctx, R string, fn *ssa.Function, name string) {
	found := false
	okAll := true
	eng.Instrs(fn, false, func(in ssa.Instruction) {
		st, ok := in.(*ssa.Store)
		if !ok {
			return
		}
		ia, ok := st.Addr.(*ssa.IndexAddr)
		if !ok {
			return
		}
		if _, isArr := ia.X.Type().Underlying().(*types.Pointer); !isArr {
			return
		}
		if !isFloat64(st.Val.Type()) {
			return
		}
		found = true
		sl := eng.Slice(st.Val, func(*ssa.Call) bool { return true })
		same := false
		for w := range sl {
			if src, ok := w.(*ssa.IndexAddr); ok && src != ia {
				if _, isParam := eng.Unwrap(src.X).(*ssa.Parameter); isParam && src.Index == ia.Index {
					same = true
				}
			}
		}
		if !same {
			okAll = false
		}
	})
	if !found {
		// copy(m[:], <the operands mapped one by one>) keeps positions too
		for _, ci := range eng.Calls(fn, false, func(n string, _ ssa.CallInstruction) bool { return n == "builtin:copy" }) {
			args := ci.Common().Args
			if len(args) == 2 && isOperands(args[1]) {
				if sl, ok := args[0].(*ssa.Slice); ok && sl.Low == nil {
					found = true
				}
			}
		}
	}
	if !found {
		c.Undec(R, name, fn.Pos(), "no indexed float store found")
		return
	}
	c.Check(okAll, R, name+"#m[i]<-operands[i]", fn.Pos(), "matrix cell i is read from operand i", "matrix cell i is not read from operand i (cells permuted)")
}

func isFloat64(t types.Type) bool {
	b, ok := t.Underlying().(*types.Basic)
	return ok && b.Kind() == types.Float64
}

// matrixFromOperandsInOrder: the value is a [6]float64 literal whose cell k derives from operand k.
func matrixFromOperandsInOrder(v ssa.Value) bool {
	v = eng.Unwrap(v)
	if call, ok := v.(*ssa.Call); ok {
		if f := eng.StaticCallee(call); f != nil && f.Name() == "operandsToMatrix" {
			return true
		}
	}
	load, ok := v.(*ssa.UnOp)
	if !ok || load.Op != token.MUL {
		return false
	}
	alloc, ok := load.X.(*ssa.Alloc)
	if !ok {
		return false
	}
	cells := map[int64]bool{}
	for _, r := range *alloc.Referrers() {
		ia, ok := r.(*ssa.IndexAddr)
		if !ok {
			continue
		}
		k, isC := eng.ConstInt(ia.Index)
		if !isC {
			return false
		}
		for _, rr := range *ia.Referrers() {
			if st, ok := rr.(*ssa.Store); ok && st.Addr == ia {
				idx, _ := operandIndices(st.Val)
				if len(idx) != 1 || !idx[int(k)] {
					return false
				}
				cells[k] = true
			}
		}
	}
	return len(cells) == 6
}

// tableDispatchCall: the package initialiser stores, in a map literal kept in a package-level variable, the method
// `callee` under the key `op`; fn looks the operator up in that variable and calls the entry. Returns that call.
func tableDispatchCall(p *eng.Prog, fn *ssa.Function, op, callee string) ssa.CallInstruction {
	if fn.Pkg == nil {
		return nil
	}
	init := fn.Pkg.Func("init")
	if init == nil {
		return nil
	}
	var table *ssa.Global
	eng.Instrs(init, false, func(in ssa.Instruction) {
		mu, ok := in.(*ssa.MapUpdate)
		if !ok {
			return
		}
		if k, ok := eng.ConstString(mu.Key); !ok || k != op {
			return
		}
		var h *ssa.Function
		switch v := eng.Unwrap(mu.Value).(type) {
		case *ssa.Function:
			h = v
		case *ssa.MakeClosure:
			h, _ = v.Fn.(*ssa.Function)
		}
		if h == nil || !(h.Name() == callee || strings.HasPrefix(h.Name(), callee+"$")) {
			return
		}
		// the variable the literal is stored in
		for _, r := range *mu.Map.Referrers() {
			if st, ok := r.(*ssa.Store); ok && st.Val == mu.Map {
				if g, ok := st.Addr.(*ssa.Global); ok {
					table = g
				}
			}
		}
	})
	if table == nil {
		return nil
	}
	var found ssa.CallInstruction
	eng.Instrs(fn, false, func(in ssa.Instruction) {
		ci, ok := in.(ssa.CallInstruction)
		if !ok || eng.StaticCallee(ci) != nil || ci.Common().IsInvoke() {
			return
		}
		for w := range eng.Slice(ci.Common().Value, nil) {
			lk, ok := w.(*ssa.Lookup)
			if !ok {
				continue
			}
			if ld, ok := lk.X.(*ssa.UnOp); ok && ld.Op == token.MUL && ld.X == ssa.Value(table) {
				for k := range eng.Slice(lk.Index, nil) {
					if fr, ok := eng.AsField(k); ok && fr.Field == "Operator" {
						found = ci
					}
				}
			}
		}
	})
	return found
}

// opTableHandler finds, in the initialiser of pkg, a map literal keyed by operator strings whose values are
// functions, and returns the function stored under op.
func opTableHandler(p *eng.Prog, pkg, op string) *ssa.Function {
	for _, fn := range p.ModuleFuncs() {
		if fn.Pkg == nil || eng.ShortPath(fn.Pkg.Pkg.Path()) != pkg || fn.Name() != "init" {
			continue
		}
		var h *ssa.Function
		eng.Instrs(fn, false, func(in ssa.Instruction) {
			mu, ok := in.(*ssa.MapUpdate)
			if !ok {
				return
			}
			if k, ok := eng.ConstString(mu.Key); !ok || k != op {
				return
			}
			switch v := eng.Unwrap(mu.Value).(type) {
			case *ssa.Function:
				h = v
			case *ssa.MakeClosure:
				h, _ = v.Fn.(*ssa.Function)
			}
		})
		if h != nil {
			return h
		}
	}
	return nil
}

// findFuncWithCase finds a function of pkg that compares an Operator field with
// the given string and calls a method of that name.
func findFuncWithCase(p *eng.Prog, pkg, op, method string) *ssa.Function {
	for _, fn := range p.ModuleFuncs() {
		if fn.Pkg == nil || eng.ShortPath(fn.Pkg.Pkg.Path()) != pkg {
			continue
		}
		calls := eng.Calls(fn, false, func(n string, _ ssa.CallInstruction) bool { return strings.HasSuffix(n, ")."+method) })
		if len(calls) == 0 {
			continue
		}
		g := opGuarded(fn, op)
		for _, call := range calls {
			if g[call.Block()] {
				return fn
			}
		}
	}
	return nil
}

// ---------------------------------------------------------------------------
// R8.4 SIZE-DEPENDS / position source
// ---------------------------------------------------------------------------

func ruleSizeDepends(c *eng.Ctx) {
	const R = "R8.4-REPORTED-STATE"
	c.Rule(R, "the fragment's X/Y are results 0/1 of GetTextPosition and its FontSize depends on the font size, the text matrix and the CTM", 4, 0)
	fn := c.P.Func("text.(*Extractor).showText")
	if fn == nil {
		c.Undec(R, "text.(*Extractor).showText", token.NoPos, "anchor not found")
		return
	}
	checked := map[string]bool{}
	eng.Instrs(fn, false, func(in ssa.Instruction) {
		st, ok := in.(*ssa.Store)
		if !ok {
			return
		}
		fr, ok := eng.AsField(st.Addr)
		if !ok || fr.Struct != "*text.TextFragment" && fr.Struct != "text.TextFragment" {
			return
		}
		switch fr.Field {
		case "X", "Y":
			want := 0
			if fr.Field == "Y" {
				want = 1
			}
			okv := false
			if ex, isEx := eng.Unwrap(st.Val).(*ssa.Extract); isEx && ex.Index == want {
				if call, isCall := ex.Tuple.(*ssa.Call); isCall && eng.CalleeName(call) == gsType+"GetTextPosition" {
					okv = true
				}
			}
			checked[fr.Field] = true
			c.Check(okv, R, "text.(*Extractor).showText#"+fr.Field, st.Pos(), fmt.Sprintf("%s is result %d of GetTextPosition", fr.Field, want), fmt.Sprintf("fragment %s is not result %d of GetTextPosition (coordinates swapped or taken from elsewhere)", fr.Field, want))
		case "FontSize":
			// data dependence through any call's arguments (math.Sqrt, or a local helper such as ctmVerticalScale(CTM))
			sl := eng.Slice(st.Val, func(call *ssa.Call) bool { return true })
			eff, ctm := false, false
			for w := range sl {
				if call, ok := w.(*ssa.Call); ok && eng.CalleeName(call) == gsType+"GetEffectiveFontSize" {
					eff = true
				}
				if f, ok := eng.AsField(w); ok && f.Field == "CTM" {
					ctm = true
				}
			}
			checked["FontSize"] = true
			c.Check(eff && ctm, R, "text.(*Extractor).showText#FontSize", st.Pos(), "FontSize depends on GetEffectiveFontSize() and the CTM", "reported FontSize no longer depends on both the effective font size and the CTM")
		}
	})
	for _, f := range []string{"X", "Y", "FontSize"} {
		if !checked[f] {
			c.Viol(R, "text.(*Extractor).showText#"+f, fn.Pos(), "showText no longer stores fragment field "+f)
		}
	}
	if eff := c.P.Func(gsType + "GetEffectiveFontSize"); eff == nil {
		c.Undec(R, gsType+"GetEffectiveFontSize", token.NoPos, "anchor not found")
	} else {
		reads := map[string]bool{}
		eng.Instrs(eff, false, func(in ssa.Instruction) {
			if v, ok := in.(ssa.Value); ok {
				if f, ok := eng.AsField(v); ok {
					reads[f.Field] = true
				}
			}
		})
		c.Check(reads["FontSize"] && reads["TextMatrix"], R, gsType+"GetEffectiveFontSize#reads", eff.Pos(), "reads Text.FontSize and Text.TextMatrix", "effective font size no longer reads both Text.FontSize and Text.TextMatrix")
	}
}
