package rules

import (
	"fmt"
	"go/ast"
	"go/token"
	"go/types"
	"sort"
	"strings"

	"golang.org/x/tools/go/ssa"

	"verif/checker/eng"
)

func init() {
	register(&Property{
		ID:    "C12",
		Level: "other",
		Explanation: "Decided (structural necessary conditions of 'chunks cover the document once, in order'): (R12.1) the element type switch of the document chunker has a case for every type that implements model.Element; (R12.2) every container that section building fills (Section.Content, Section.Children) is drained by a function reachable from Chunk; (R12.3) the section-building and chunking loops transfer every element on every path or skip only on emptiness; (R12.4) every create*Chunk function advances the chunk index exactly once on every path and TotalChunks is len(chunks); (R12.5) in the paragraph splitter every direct emission happens with the pending buffer empty (flushed on every path before it), so document order is kept; (R12.6) the two TOC matchers (is-heading / heading-level) use the same page and text equality; (R12.7) the page number stamped on model pages survives AddPage (shared with C10). " +
			"Not decided: exactly-once coverage as a multiset, section-path correctness for arbitrary heading orders, page ranges of split chunks.",
		Rules: []func(*eng.Ctx){constructorBypassedRule("R12.CL", "rag"), ruleChunkerCoversDocumentEvaluated, deleteInRangeRule("R12.DR", "rag"), ruleTOCEntryPerHeading, loopVarRule("R12.LV", "rag", "model"), ruleElementExhaustive, ruleDrainedContainers, ruleLossyFilterC12, ruleChunkIndexing, ruleEmitAfterFlush, ruleTOCSiblings, rulePageStamp, ruleSplitLoopDrains, ruleSectionPathChain, roleRule("R12.R", "rag"), ruleFlushResets, ruleBuildSectionsCloseByLevel, ruleWorklistOrderC12, ruleRowCellsComplete, ruleIndexUnits, ruleFlushConsumesPending},
	})
}

func ruleElementExhaustive(c *eng.Ctx) {
	const R = "R12.1-ELEMENT-EXHAUSTIVE"
	c.Rule(R, "the type switch of DocumentChunker.chunkPage covers every module type implementing model.Element", 5, 0)
	fd := c.P.Decl("rag.(*DocumentChunker).chunkPage")
	pk := c.P.ByPath["model"]
	if fd == nil || pk == nil {
		c.Undec(R, "rag.(*DocumentChunker).chunkPage", token.NoPos, "anchor not found")
		return
	}
	elemObj := pk.Types.Scope().Lookup("Element")
	if elemObj == nil {
		c.Undec(R, "model.Element", token.NoPos, "interface not found")
		return
	}
	iface, _ := elemObj.Type().Underlying().(*types.Interface)
	var impls []string
	for _, p := range c.P.Pkgs {
		if strings.Contains(p.PkgPath, eng.PositivePkg) {
			continue
		}
		for _, n := range p.Types.Scope().Names() {
			tn, ok := p.Types.Scope().Lookup(n).(*types.TypeName)
			if !ok {
				continue
			}
			if _, isI := tn.Type().Underlying().(*types.Interface); isI {
				continue
			}
			if types.Implements(types.NewPointer(tn.Type()), iface) || types.Implements(tn.Type(), iface) {
				impls = append(impls, eng.TypeName(tn.Type()))
			}
		}
	}
	sort.Strings(impls)
	cased := map[string]bool{}
	ast.Inspect(fd.Decl.Body, func(n ast.Node) bool {
		if ts, ok := n.(*ast.TypeSwitchStmt); ok {
			for _, cs := range ts.Body.List {
				for _, e := range cs.(*ast.CaseClause).List {
					if t := fd.Pkg.TypesInfo.TypeOf(e); t != nil {
						cased[strings.TrimPrefix(eng.TypeName(t), "*")] = true
					}
				}
			}
		}
		return true
	})
	for _, im := range impls {
		c.Check(cased[im], R, "rag.(*DocumentChunker).chunkPage#case "+im, fd.Decl.Pos(), "handled", "elements of type "+im+" fall through the type switch: their content never reaches a chunk")
	}
	if len(impls) == 0 {
		c.Undec(R, "model.Element#implementations", token.NoPos, "no implementation found")
	}
}

func ruleDrainedContainers(c *eng.Ctx) {
	const R = "R12.2-DRAINED-CONTAINERS"
	c.Rule(R, "every slice field of rag.Section that buildSections appends to is ranged over in a function reachable from (*Chunker).Chunk", 2, 0)
	build := c.P.Func("rag.(*Chunker).buildSections")
	chunk := c.P.Func("rag.(*Chunker).Chunk")
	if build == nil || chunk == nil {
		c.Undec(R, "rag.(*Chunker).buildSections", token.NoPos, "anchor not found")
		return
	}
	filled := map[string]token.Pos{}
	eng.Instrs(build, false, func(in ssa.Instruction) {
		st, ok := in.(*ssa.Store)
		if !ok {
			return
		}
		fr, ok := eng.AsField(st.Addr)
		if !ok || !strings.HasSuffix(fr.Struct, "rag.Section") {
			return
		}
		if _, isSlice := st.Val.Type().Underlying().(*types.Slice); !isSlice {
			return
		}
		if call, ok := st.Val.(*ssa.Call); ok && eng.CalleeName(call) == "builtin:append" {
			filled[fr.Field] = st.Pos()
		}
	})
	reach := c.P.Reachable([]*ssa.Function{chunk})
	for field, pos := range filled {
		drained := ""
		for fn := range reach {
			if !eng.InModule(fn) || fn == build {
				continue
			}
			eng.Instrs(fn, false, func(in ssa.Instruction) {
				ia, ok := in.(*ssa.IndexAddr)
				if !ok {
					return
				}
				if _, isInd := eng.Induction(ia.Index); !isInd {
					if _, isPhi := ia.Index.(*ssa.Phi); !isPhi {
						return
					}
				}
				if fr, ok := eng.LoadOfField(ia.X); ok && fr.Field == field && strings.HasSuffix(fr.Struct, "rag.Section") {
					drained = eng.FuncName(fn)
				}
			})
		}
		c.Check(drained != "", R, "rag.Section."+field, pos, "iterated by "+drained, "buildSections fills Section."+field+" but nothing reachable from Chunk iterates it: whatever is attached there never becomes a chunk")
	}
	if len(filled) == 0 {
		c.Viol(R, "rag.Section#filled", build.Pos(), "buildSections appends to no Section field")
	}
}

func ruleLossyFilterC12(c *eng.Ctx) {
	lossyFilterRule(c, "R12.3-LOSSY-FILTER", []string{
		"rag.(*Chunker).buildSections", "rag.(*Chunker).Chunk", "rag.(*Chunker).chunkSection", "rag.(*Chunker).chunkSectionTree",
		"rag.(*Chunker).chunkByParagraphs", "rag.(*DocumentChunker).ChunkDocument", "rag.(*DocumentChunker).chunkPage", "rag.(*DocumentChunker).textBlockToChunks",
	}, 8)
}

func ruleChunkIndexing(c *eng.Ctx) {
	const R = "R12.4-INDEXING"
	c.Rule(R, "each create*Chunk of the document chunker increments *chunkIndex exactly once on every path and uses the pre-increment value for ID and ChunkIndex; TotalChunks is assigned len(chunks)", 7, 0)
	for _, fn := range c.P.ModuleFuncs() {
		if fn.Signature.Recv() == nil || eng.TypeName(fn.Signature.Recv().Type()) != "*rag.DocumentChunker" || !strings.HasPrefix(fn.Name(), "create") {
			continue
		}
		var idxParam *ssa.Parameter
		for _, p := range fn.Params {
			if pt, ok := p.Type().(*types.Pointer); ok {
				if b, ok := pt.Elem().Underlying().(*types.Basic); ok && b.Kind() == types.Int {
					idxParam = p
				}
			}
		}
		// the counter may also arrive as a *int field of a parameter struct (create…(el, elementChunkParams{…}))
		isIntPtr := func(t types.Type) bool {
			pt, ok := t.(*types.Pointer)
			if !ok {
				return false
			}
			b, ok := pt.Elem().Underlying().(*types.Basic)
			return ok && b.Kind() == types.Int
		}
		paramRooted := func(x ssa.Value) bool {
			switch y := x.(type) {
			case *ssa.Parameter:
				return y != fn.Params[0]
			case *ssa.Alloc:
				for _, r := range *y.Referrers() {
					if st, ok := r.(*ssa.Store); ok && st.Addr == ssa.Value(y) {
						if p, ok := st.Val.(*ssa.Parameter); ok && p != fn.Params[0] {
							return true
						}
					}
				}
			}
			return false
		}
		idxPtr := func(v ssa.Value) bool {
			if idxParam != nil {
				return v == ssa.Value(idxParam)
			}
			if !isIntPtr(v.Type()) {
				return false
			}
			switch x := v.(type) {
			case *ssa.Field:
				return paramRooted(x.X)
			case *ssa.UnOp:
				if fa, ok := x.X.(*ssa.FieldAddr); ok && x.Op == token.MUL {
					return paramRooted(fa.X)
				}
			}
			return false
		}
		// stores *chunkIndex = *chunkIndex + 1
		var incs []*ssa.Store
		eng.Instrs(fn, false, func(in ssa.Instruction) {
			if st, ok := in.(*ssa.Store); ok && idxPtr(st.Addr) {
				incs = append(incs, st)
			}
		})
		if idxParam == nil && len(incs) == 0 {
			continue
		}
		okInc := len(incs) >= 1
		for _, st := range incs {
			b, ok := st.Val.(*ssa.BinOp)
			k, isC := int64(0), false
			if ok {
				k, isC = eng.ConstInt(b.Y)
			}
			if !ok || b.Op != token.ADD || !isC || k != 1 {
				okInc = false
			}
		}
		// exactly once on every path: every return is dominated by exactly one increment block, and increments do not dominate each other
		once := okInc
		for _, r := range eng.Returns(fn) {
			n := 0
			for _, st := range incs {
				if st.Block().Dominates(r.Block()) {
					n++
				}
			}
			if n != 1 {
				once = false
			}
		}
		if len(incs) == 0 && idxParam != nil {
			// the counter is handed to a constructor of the package that advances it exactly once (newElementChunk(..., chunkIndex))
			var handOffs []ssa.CallInstruction
			eng.Instrs(fn, false, func(in ssa.Instruction) {
				ci, ok := in.(ssa.CallInstruction)
				if !ok {
					return
				}
				g := eng.StaticCallee(ci)
				if g == nil || g.Blocks == nil || g.Pkg != fn.Pkg {
					return
				}
				for i, a := range ci.Common().Args {
					if a != ssa.Value(idxParam) || i >= len(g.Params) {
						continue
					}
					var gincs []*ssa.Store
					eng.Instrs(g, false, func(in2 ssa.Instruction) {
						if st, ok := in2.(*ssa.Store); ok && st.Addr == ssa.Value(g.Params[i]) {
							gincs = append(gincs, st)
						}
					})
					good := len(gincs) == 1
					for _, st := range gincs {
						b, isB := st.Val.(*ssa.BinOp)
						k, isC := int64(0), false
						if isB {
							k, isC = eng.ConstInt(b.Y)
						}
						if !isB || b.Op != token.ADD || !isC || k != 1 {
							good = false
						}
						for _, r := range eng.Returns(g) {
							if !st.Block().Dominates(r.Block()) {
								good = false
							}
						}
					}
					if good {
						handOffs = append(handOffs, ci)
					}
				}
			})
			once = len(handOffs) > 0
			for _, r := range eng.Returns(fn) {
				n := 0
				for _, ci := range handOffs {
					if ci.Block().Dominates(r.Block()) {
						n++
					}
				}
				if n != 1 {
					once = false
				}
			}
		}
		c.Check(once, R, eng.FuncName(fn)+"#index++", fn.Pos(), "*chunkIndex advanced exactly once", "the chunk index is not advanced exactly once per created chunk: indices repeat or skip, IDs collide")
		// the ID is made from the running index (the one thing that differs for every chunk of a document)
		eng.Instrs(fn, false, func(in ssa.Instruction) {
			st, ok := in.(*ssa.Store)
			if !ok {
				return
			}
			fr, ok := eng.AsField(st.Addr)
			if !ok || fr.Field != "ID" || !strings.HasSuffix(fr.Struct, "rag.Chunk") {
				return
			}
			fromIdx := false
			for w := range eng.Slice(st.Val, func(*ssa.Call) bool { return true }) {
				if ld, ok := w.(*ssa.UnOp); ok && ld.Op == token.MUL && idxPtr(ld.X) {
					fromIdx = true
				}
			}
			c.Check(fromIdx, R, eng.FuncName(fn)+"#ID", st.Pos(), "the ID is built from the running chunk index", "the chunk ID is not built from the running chunk index: two chunks of one document can get the same ID (equal text under the same headings), and a lookup by ID returns the wrong chunk")
		})
	}
	for _, name := range []string{"rag.(*DocumentChunker).ChunkDocument", "rag.(*Chunker).Chunk"} {
		fn := c.P.Func(name)
		if fn == nil {
			c.Undec(R, name, token.NoPos, "anchor not found")
			continue
		}
		ok := false
		eng.Instrs(fn, false, func(in ssa.Instruction) {
			st, isSt := in.(*ssa.Store)
			if !isSt {
				return
			}
			if fr, isF := eng.AsField(st.Addr); isF && fr.Field == "TotalChunks" {
				if call, isCall := st.Val.(*ssa.Call); isCall {
					if bi, isB := call.Call.Value.(*ssa.Builtin); isB && bi.Name() == "len" && eng.InLoop(st.Block()) {
						ok = true
					}
				}
			}
		})
		c.Check(ok, R, name+"#TotalChunks", fn.Pos(), "TotalChunks = len(chunks) for every chunk", "TotalChunks is not assigned len(chunks) in a loop over the final chunk list")
	}
}

// R12.5: direct emissions in splitSectionByParagraphs happen with an empty pending buffer.
func ruleEmitAfterFlush(c *eng.Ctx) {
	const R = "R12.5-EMIT-AFTER-FLUSH"
	c.Rule(R, "in Chunker.splitSectionByParagraphs every statement that appends finished chunks directly (not through the pending buffer) is reached only with the pending text buffer empty: dominated, after the last write to the buffer, by the `Len() > 0` test's false edge or by a flush call", 3, 0)
	fd := c.P.Decl("rag.(*Chunker).splitSectionByParagraphs")
	if fd == nil {
		c.Undec(R, "rag.(*Chunker).splitSectionByParagraphs", token.NoPos, "anchor not found")
		return
	}
	// AST walk with a tiny abstract state: pendingEmpty ∈ {true,false}
	info := fd.Pkg.TypesInfo
	var flushName, bufName string
	// find `flushChunk := func() {…}` and the strings.Builder it reads
	for _, s := range fd.Decl.Body.List {
		if as, ok := s.(*ast.AssignStmt); ok && len(as.Lhs) == 1 && len(as.Rhs) == 1 {
			if fl, ok := as.Rhs[0].(*ast.FuncLit); ok {
				flushName = types.ExprString(as.Lhs[0])
				ast.Inspect(fl.Body, func(n ast.Node) bool {
					if call, ok := n.(*ast.CallExpr); ok {
						if sel, ok := call.Fun.(*ast.SelectorExpr); ok && sel.Sel.Name == "String" && bufName == "" {
							if t := info.TypeOf(sel.X); t != nil && strings.HasSuffix(t.String(), "strings.Builder") {
								bufName = types.ExprString(sel.X)
							}
						}
					}
					return true
				})
			}
		}
	}
	if flushName == "" || bufName == "" {
		c.Undec(R, "rag.(*Chunker).splitSectionByParagraphs#flush", fd.Decl.Pos(), "cannot identify the pending buffer and its flush closure")
		return
	}
	isWrite := func(n ast.Node) bool {
		found := false
		ast.Inspect(n, func(m ast.Node) bool {
			if call, ok := m.(*ast.CallExpr); ok {
				if sel, ok := call.Fun.(*ast.SelectorExpr); ok && strings.HasPrefix(sel.Sel.Name, "Write") && types.ExprString(sel.X) == bufName {
					found = true
				}
			}
			return !found
		})
		return found
	}
	isFlush := func(s ast.Stmt) bool {
		es, ok := s.(*ast.ExprStmt)
		if !ok {
			return false
		}
		call, ok := es.X.(*ast.CallExpr)
		return ok && types.ExprString(call.Fun) == flushName
	}
	isDirectEmit := func(s ast.Stmt) bool {
		as, ok := s.(*ast.AssignStmt)
		if !ok || len(as.Rhs) != 1 {
			return false
		}
		call, ok := as.Rhs[0].(*ast.CallExpr)
		if !ok {
			return false
		}
		id, ok := call.Fun.(*ast.Ident)
		if !ok || id.Name != "append" || len(call.Args) < 2 {
			return false
		}
		t := info.TypeOf(call.Args[0])
		return t != nil && strings.Contains(t.String(), "rag.Chunk")
	}
	lenTest := func(e ast.Expr) bool { // buf.Len() > 0
		be, ok := e.(*ast.BinaryExpr)
		if !ok || be.Op != token.GTR {
			return false
		}
		call, ok := be.X.(*ast.CallExpr)
		if !ok {
			return false
		}
		sel, ok := call.Fun.(*ast.SelectorExpr)
		return ok && sel.Sel.Name == "Len" && types.ExprString(sel.X) == bufName
	}
	nEmit := 0
	var walk func(list []ast.Stmt, empty bool) bool
	walk = func(list []ast.Stmt, empty bool) bool {
		for _, s := range list {
			switch x := s.(type) {
			case *ast.IfStmt:
				if lenTest(x.Cond) {
					// then-branch: not empty on entry; else/fallthrough: empty
					t := walk(x.Body.List, false)
					e := true
					if x.Else != nil {
						if eb, ok := x.Else.(*ast.BlockStmt); ok {
							e = walk(eb.List, true)
						}
					}
					empty = t && e
					continue
				}
				t := walk(x.Body.List, empty)
				e := empty
				if x.Else != nil {
					switch eb := x.Else.(type) {
					case *ast.BlockStmt:
						e = walk(eb.List, empty)
					case *ast.IfStmt:
						e = walk([]ast.Stmt{eb}, empty)
					}
				}
				empty = t && e
			case *ast.ForStmt:
				// body may run 0..n times: analyse with the entry state and with "unknown"
				inner := walk(x.Body.List, empty)
				inner2 := walk(x.Body.List, inner && empty)
				empty = empty && inner && inner2
			case *ast.RangeStmt:
				inner := walk(x.Body.List, empty)
				inner2 := walk(x.Body.List, inner && empty)
				empty = empty && inner && inner2
			case *ast.BlockStmt:
				empty = walk(x.List, empty)
			case *ast.SwitchStmt:
				all := true
				for _, cs := range x.Body.List {
					if !walk(cs.(*ast.CaseClause).Body, empty) {
						all = false
					}
				}
				empty = empty && all
			default:
				if isFlush(s) {
					empty = true
					continue
				}
				if isDirectEmit(s) {
					nEmit++
					key := fmt.Sprintf("rag.(*Chunker).splitSectionByParagraphs#emit%d", nEmit)
					c.Check(empty, R, key, s.Pos(), "pending buffer is empty here", "finished chunks are appended while text may still be pending in the buffer: the pending text is emitted later and ends up after content that follows it in the document")
					continue
				}
				if isWrite(s) {
					empty = false
				}
			}
		}
		return empty
	}
	// the main loop is the last for statement of the function
	for _, s := range fd.Decl.Body.List {
		if fs, ok := s.(*ast.ForStmt); ok {
			seen := nEmit
			walk(fs.Body.List, false)
			// obligations from the second pass over loop bodies are duplicates by key; that is fine
			_ = seen
		}
	}
	if nEmit == 0 {
		c.Viol(R, "rag.(*Chunker).splitSectionByParagraphs#emit", fd.Decl.Pos(), "no direct emission found")
	}
}

func ruleTOCSiblings(c *eng.Ctx) {
	const R = "R12.6-TOC-SIBLINGS"
	c.Rule(R, "isHeadingElement and getHeadingLevel match a TOC entry with the same test: entry.Page == pageNum and equal trimmed text", 2, 0)
	for _, name := range []string{"rag.isHeadingElement", "rag.getHeadingLevel"} {
		fn := c.P.Func(name)
		if fn == nil {
			c.Undec(R, name, token.NoPos, "anchor not found")
			continue
		}
		pageEq, textEq := false, false
		eng.Instrs(fn, false, func(in ssa.Instruction) {
			b, ok := in.(*ssa.BinOp)
			if !ok {
				return
			}
			for _, s := range [][2]ssa.Value{{b.X, b.Y}, {b.Y, b.X}} {
				if fr, ok := eng.LoadOfField(s[0]); ok && fr.Field == "Page" {
					if _, isP := s[1].(*ssa.Parameter); isP && b.Op == token.EQL {
						pageEq = true
					} else if isP {
						pageEq = false
					}
				}
			}
			if b.Op == token.EQL {
				if c1, ok := b.X.(*ssa.Call); ok && eng.CalleeName(c1) == "strings.TrimSpace" {
					textEq = true
				}
			}
		})
		// a non-equality comparison on Page anywhere disqualifies
		bad := false
		eng.Instrs(fn, false, func(in ssa.Instruction) {
			if b, ok := in.(*ssa.BinOp); ok && b.Op != token.EQL {
				for _, v := range []ssa.Value{b.X, b.Y} {
					if fr, ok := eng.LoadOfField(v); ok && fr.Field == "Page" {
						bad = true
					}
				}
			}
		})
		c.Check(pageEq && textEq && !bad, R, name, fn.Pos(), "same page and trimmed-text equality", "the TOC match differs from its sibling (page must be equal, text compared trimmed): a heading repeated on another page takes the wrong level and the section path breaks")
	}
}
