package rules

import (
	"fmt"
	"go/token"
	"go/types"
	"sort"
	"strings"

	"golang.org/x/tools/go/callgraph"
	"golang.org/x/tools/go/ssa"

	"verif/checker/eng"
)

func init() {
	register(&Property{
		ID:    "C01",
		Level: "other",
		Explanation: "Decided (structural necessary conditions of layout independence): (R1.1) inside the re-entrant object-resolution cycle the shared file handle is only used positionally (ReadAt / SectionReader / Stat / Close), never through its seek offset, so resolving an indirect /Length cannot disturb a suspended parse; (R1.2) inheritable page attributes are looked up on a cycle that follows /Parent, i.e. to any depth; (R1.3) decoded content streams are joined with PDF white space between them; (R1.4) the filter, xref-kind, font-subtype and /Length-type dispatch tables are complete; (R1.5) page leaves are appended in /Kids order; (R4.1/R4.3 are re-used: last startxref, newest-wins merge, cache discipline). " +
			"Not decided: that extracted text equals the logical document, decoding correctness (C05/C07), object order/EOL variants at run time, the page count claim beyond returning /Count.",
		Rules: []func(*eng.Ctx){ruleASCIIChainsEvaluated, ruleObjectSpellingsEvaluated, rulePhysicalLayoutsEvaluated, ruleFontFollowsGraphicsStateEvaluated, ruleCMapProgramsEvaluated, ruleClassicXRefSpellingsEvaluated, ruleParsedCMapKept, ruleReadEOFIsNotFailure, ruleObjectParsersHaveResolver, ruleEscapes, loopVarRule("R1.LV", "core", "reader", "pages", "text", "contentstream", "font", "resolver"), ruleSharedHandle, ruleInheritWalk, ruleContentSep, ruleDispatchTables, rulePageOrder, ruleMergeOrder, ruleCacheDiscipline, ruleXRefStreamCursor, roleRule("R1.R", "core", "reader", "pages"), ruleReadBytesOwned, ruleFilterParmsParallelC01, ruleWorklistOrderC01, ruleFontsFromOwnResources, ruleA85GroupsInDigits, ruleSectionKindPerSection},
	})
}

// sccOf returns the strongly connected component of fn in the VTA call graph
// restricted to module functions.
func sccOf(p *eng.Prog, fn *ssa.Function) map[*ssa.Function]bool {
	cg := p.CallGraph()
	fwd := map[*ssa.Function]bool{}
	var walk func(n *callgraph.Node, seen map[*ssa.Function]bool, out bool)
	walk = func(n *callgraph.Node, seen map[*ssa.Function]bool, out bool) {
		if n == nil || seen[n.Func] {
			return
		}
		seen[n.Func] = true
		edges := n.In
		if out {
			edges = n.Out
		}
		for _, e := range edges {
			next := e.Caller
			if out {
				next = e.Callee
			}
			if eng.InModule(next.Func) {
				walk(next, seen, out)
			}
		}
	}
	walk(cg.Nodes[fn], fwd, true)
	bwd := map[*ssa.Function]bool{}
	walk(cg.Nodes[fn], bwd, false)
	scc := map[*ssa.Function]bool{}
	for f := range fwd {
		if bwd[f] {
			scc[f] = true
		}
	}
	return scc
}

// R1.1 / R4.5
func ruleSharedHandle(c *eng.Ctx) {
	R := "R1.1-SHARED-HANDLE"
	if c.Prop == "C04" {
		R = "R4.5-SHARED-HANDLE"
	}
	c.Rule(R, "every function on the re-entrant cycle GetObject -> … -> Parser.parseStream -> ReferenceResolver.ResolveReference -> GetObject uses Reader.file only positionally (nil test, Stat, Close, ReadAt, conversion to io.ReaderAt); Seek/Read or conversion to io.Reader/io.ReadSeeker inside the cycle lets a nested lookup move the offset under a suspended parser", 5, 0)
	p := c.P
	get := p.Func("reader.(*Reader).GetObject")
	if get == nil {
		c.Undec(R, "reader.(*Reader).GetObject", token.NoPos, "anchor not found")
		return
	}
	scc := sccOf(p, get)
	names := make([]string, 0, len(scc))
	for f := range scc {
		names = append(names, eng.FuncName(f))
	}
	sort.Strings(names)
	reentrant := len(scc) > 1
	c.Note("%s: re-entrant resolution cycle (%d functions): %s", R, len(scc), strings.Join(names, " | "))
	if !reentrant {
		c.Ok(R, "reader.(*Reader).GetObject#cycle", get.Pos(), "object resolution is not re-entrant (no path from parsing back into GetObject): nothing to protect")
		return
	}
	hasMethod := func(t types.Type, names ...string) bool {
		it, ok := t.Underlying().(*types.Interface)
		if !ok {
			return false
		}
		for i := 0; i < it.NumMethods(); i++ {
			for _, n := range names {
				if it.Method(i).Name() == n {
					return true
				}
			}
		}
		return false
	}
	for f := range scc {
		fname := eng.FuncName(f)
		uses := 0
		var bad []string
		eng.Instrs(f, true, func(in ssa.Instruction) {
			v, ok := in.(ssa.Value)
			if !ok {
				return
			}
			fr, ok := eng.LoadOfField(v)
			if !ok || fr.Field != "file" || !strings.HasSuffix(fr.Struct, "reader.Reader") {
				return
			}
			for _, r := range *v.Referrers() {
				uses++
				switch x := r.(type) {
				case ssa.CallInstruction:
					n := eng.CalleeName(x)
					switch {
					case strings.HasSuffix(n, ").Seek"), strings.HasSuffix(n, ").Read"), strings.HasSuffix(n, ").ReadFrom"), strings.HasSuffix(n, ").Write"):
						bad = append(bad, fmt.Sprintf("%s at %s uses the shared file offset", n, p.Pos(x.Pos())))
					}
				case *ssa.MakeInterface:
					if hasMethod(x.Type(), "Read", "Seek") {
						bad = append(bad, fmt.Sprintf("file handle converted to %s at %s (sequential reads share one offset)", x.Type(), p.Pos(x.Pos())))
					}
				}
			}
		})
		if len(bad) > 0 {
			c.Viol(R, fname+"#Reader.file", f.Pos(), strings.Join(bad, "; ")+": resolving an indirect /Length inside a stream longer than the read-ahead re-enters GetObject and moves the offset under the suspended parser")
		} else {
			c.Ok(R, fname+"#Reader.file", f.Pos(), fmt.Sprintf("%d uses of Reader.file, all positional", uses))
		}
		// the input of a parser created on the cycle belongs to that parse: a buffered reader or lexer kept in
		// a field of the Reader is shared with the nested parse that resolving a reference starts
		np := 0
		for _, ci := range eng.Calls(f, false, func(n string, _ ssa.CallInstruction) bool {
			return n == "core.NewParser" || n == "core.NewLexer" || n == "bufio.NewReader" || n == "bufio.NewReaderSize"
		}) {
			np++
			shared := ""
			for w := range eng.Slice(ci.Common().Args[0], nil) {
				if fr, ok := eng.LoadOfField(w); ok && strings.HasSuffix(fr.Struct, "reader.Reader") && fr.Field != "file" && fr.Field != "fileSize" {
					shared = fr.Field
				}
			}
			c.Check(shared == "", R, fmt.Sprintf("%s#parse-input%d", fname, np), ci.Pos(), "the parser reads through state created for this parse", "the parser reads through Reader."+shared+", which a nested GetObject (indirect /Length, object stream) re-uses and resets while this parse is suspended")
		}
	}
}

// R1.2
func ruleInheritWalk(c *eng.Ctx) {
	const R = "R1.2-INHERIT-WALK"
	c.Rule(R, "MediaBox/CropBox (getBox), Resources and Rotate obtain their attribute through a lookup that sits on a CFG cycle (or recursion) which moves to the node's /Parent: inheritance reaches any depth of the page tree", 3, 0)
	p := c.P
	// a "walker" is a function that (a) reads a dictionary key given by a parameter or
	// constant inside a loop or recursion and (b) inside the same cycle gets the constant
	// key "Parent".
	isWalker := map[*ssa.Function]bool{}
	reportedSources := map[*ssa.Function]bool{}
	var check func(fn *ssa.Function, depth int) bool
	check = func(fn *ssa.Function, depth int) bool {
		if fn == nil || depth > 3 {
			return false
		}
		if v, ok := isWalker[fn]; ok {
			return v
		}
		isWalker[fn] = false
		parentInCycle := false
		recursive := false
		eng.Instrs(fn, false, func(in ssa.Instruction) {
			call, ok := in.(ssa.CallInstruction)
			if !ok {
				return
			}
			if eng.StaticCallee(call) == fn {
				recursive = true
			}
		})
		eng.Instrs(fn, false, func(in ssa.Instruction) {
			call, ok := in.(ssa.CallInstruction)
			if !ok {
				return
			}
			n := eng.CalleeName(call)
			if n != "core.Dict.Get" && !strings.HasPrefix(n, "core.Dict.Get") {
				return
			}
			args := call.Common().Args
			if len(args) < 2 {
				return
			}
			if s, ok := eng.ConstString(args[1]); ok && s == "Parent" {
				if eng.InLoop(call.Block()) || recursive {
					parentInCycle = true
				}
			}
		})
		isWalker[fn] = parentInCycle
		return parentInCycle
	}
	for _, g := range []string{"pages.(*Page).getBox", "pages.(*Page).Resources", "pages.(*Page).Rotate"} {
		fn := p.Func(g)
		if fn == nil {
			c.Undec(R, g, token.NoPos, "anchor not found")
			continue
		}
		ok := check(fn, 0)
		via := ""
		if !ok {
			// the walk may sit in a helper, or in a helper of the helper (lookup -> recursive ancestor walk)
			for _, cal := range eng.Cluster(fn, 3) {
				if cal != fn && check(cal, 1) {
					ok = true
					via = " (through " + eng.FuncName(cal) + ")"
				}
			}
		}
		// accepted alternative: push-down inheritance — traversePageNode passes a parent that merges node and incoming parent
		if !ok {
			if tr := p.Func("pages.(*PageTree).traversePageNode"); tr != nil {
				for _, ci := range eng.Calls(tr, false, func(string, ssa.CallInstruction) bool { return true }) {
					if eng.StaticCallee(ci) != tr {
						continue
					}
					a := ci.Common().Args
					if len(a) >= 3 {
						sl := eng.Slice(a[2], func(*ssa.Call) bool { return true })
						if sl[ssa.Value(tr.Params[1])] && sl[ssa.Value(tr.Params[2])] {
							ok = true
							via = " (push-down: children receive a merge of node and inherited parent)"
						}
					}
				}
			}
		}
		// the walker answers only from the page's own dictionary or from a node on the /Parent chain: an
		// answer taken from a table filled in while the tree was traversed is shared state between branches
		for w, isW := range isWalker {
			if !isW || reportedSources[w] {
				continue
			}
			reportedSources[w] = true
			var bad []string
			for _, r := range eng.Returns(w) {
				if len(r.Results) == 0 {
					continue
				}
				for v := range eng.Slice(r.Results[0], nil) {
					call, isCall := v.(*ssa.Call)
					if !isCall || !strings.HasPrefix(eng.CalleeName(call), "core.Dict.Get") || len(call.Call.Args) < 2 {
						continue
					}
					if s, isS := eng.ConstString(call.Call.Args[1]); isS && s == "Parent" {
						continue
					}
					recv := call.Call.Args[0]
					if fr, isF := eng.LoadOfField(recv); isF {
						if fr.Field != "dict" && fr.Field != "parent" {
							bad = append(bad, "field "+fr.Field+" at "+c.P.Pos(call.Pos()))
						}
					}
				}
			}
			sort.Strings(bad)
			c.Check(len(bad) == 0, R, eng.FuncName(w)+"#answer-sources", w.Pos(), "answers come from the page dictionary or a /Parent ancestor", "an inheritable attribute is answered from a precomputed table ("+strings.Join(bad, ", ")+") instead of the page's own ancestors: a table filled during traversal carries one branch's values into its siblings")
		}
		c.Check(ok, R, g, fn.Pos(), "attribute lookup follows /Parent on a cycle"+via, "the attribute is looked up on the page and at most a fixed number of ancestors (no loop or recursion following /Parent): pages nested deeper lose MediaBox/Resources/Rotate inherited from higher up")
	}
}

// R1.3
func ruleContentSep(c *eng.Ctx) {
	const R = "R1.3-CONTENT-SEP"
	c.Rule(R, "when several content streams are concatenated, a PDF white-space byte is appended between two streams (the split may fall between any two tokens), and the joined content is parsed once, not stream by stream", 2, 0)
	fn := c.P.Func("reader.(*Reader).extractTextWithFragments")
	if fn == nil {
		c.Undec(R, "reader.(*Reader).extractTextWithFragments", token.NoPos, "anchor not found")
		return
	}
	name := "reader.(*Reader).extractTextWithFragments"
	// appends inside the loop: one of stream data (variadic slice), one of a constant white-space byte
	dataAppend, sepAppend := 0, 0
	var pos token.Pos = fn.Pos()
	for _, ci := range eng.Calls(fn, false, func(n string, _ ssa.CallInstruction) bool { return n == "builtin:append" }) {
		if !eng.InLoop(ci.Block()) {
			continue
		}
		args := ci.Common().Args
		if len(args) != 2 {
			continue
		}
		isBytes := false
		if st, ok := args[0].Type().Underlying().(*types.Slice); ok {
			if b, ok := st.Elem().Underlying().(*types.Basic); ok && b.Kind() == types.Uint8 {
				isBytes = true
			}
		}
		if !isBytes {
			continue
		}
		pos = ci.Pos()
		// constant byte(s)?
		ws := false
		if sl, ok := args[1].(*ssa.Slice); ok {
			if al, ok := sl.X.(*ssa.Alloc); ok {
				all, any := true, false
				for _, r := range *al.Referrers() {
					if ia, ok := r.(*ssa.IndexAddr); ok {
						for _, rr := range *ia.Referrers() {
							if st, ok := rr.(*ssa.Store); ok {
								any = true
								k, isC := eng.ConstInt(st.Val)
								if !isC || !pdfWhitespace[byte(k)] {
									all = false
								}
							}
						}
					}
				}
				ws = any && all
			}
		}
		if s, ok := eng.ConstString(args[1]); ok && len(s) > 0 {
			ws = true
			for i := 0; i < len(s); i++ {
				if !pdfWhitespace[s[i]] {
					ws = false
				}
			}
		}
		if ws {
			sepAppend++
		} else {
			dataAppend++
		}
	}
	// a page's content is ONE token sequence: it is parsed once, after joining, never stream by stream
	// (operands left at the end of one stream belong to the operator that opens the next)
	perStream := token.NoPos
	for _, h := range eng.Cluster(fn, 1) {
		if h.Pkg != fn.Pkg {
			continue
		}
		for _, ci := range eng.Calls(h, false, func(n string, _ ssa.CallInstruction) bool {
			return n == "contentstream.NewParser" || n == "contentstream.(*Parser).Parse" || strings.HasSuffix(n, ").ExtractFromBytes") || n == "text.(*Extractor).Extract"
		}) {
			if eng.InLoop(ci.Block()) && h == fn {
				perStream = ci.Pos()
			}
		}
	}
	c.Check(perStream == token.NoPos, R, name+"#parse-once", fn.Pos(), "the joined content is parsed once", "a content-stream parser runs inside the loop over the page's streams ("+c.P.Pos(perStream)+"): operands that end one stream never reach the operator that starts the next")
	joined := false
	for _, ci := range eng.CallsNamed(fn, false, "bytes.Join") {
		if sep, ok := eng.ConstString(ci.Common().Args[1]); ok && len(sep) > 0 && pdfWhitespace[sep[0]] {
			joined = true
		}
		for v := range eng.Slice(ci.Common().Args[1], nil) {
			if k, isC := eng.ConstInt(v); isC && k > 0 && k < 256 && pdfWhitespace[byte(k)] {
				joined = true
			}
		}
	}
	switch {
	case joined:
		c.Ok(R, name+"#join", pos, "streams are joined with a white-space separator")
	case dataAppend == 0:
		c.Ok(R, name+"#join", pos, "streams are not concatenated byte-wise")
	case sepAppend == 0:
		c.Viol(R, name+"#join", pos, "content streams are concatenated without white space between them: '… Tj' + 'ET …' fuses into one token and the text of the first stream is lost")
	default:
		c.Ok(R, name+"#join", pos, "a white-space byte separates consecutive streams")
	}
}

// R1.4
func ruleDispatchTables(c *eng.Ctx) {
	const R = "R1.4-DISPATCH-TABLES"
	c.Rule(R, "ParseXRef reaches both xref kinds; font registration switches over Type1/TrueType/Type0; parseStream accepts a direct and an indirect /Length and reads exactly that many bytes; GetObject dispatches on compressed and uncompressed entries", 6, 0)
	p := c.P
	if fn := p.Func("core.(*XRefParser).ParseXRef"); fn == nil {
		c.Undec(R, "core.(*XRefParser).ParseXRef", token.NoPos, "anchor not found")
	} else {
		s := callsAnchor(c.P, fn, "core.(*XRefParser).parseXRefStream")
		t := callsAnchor(c.P, fn, "core.(*XRefParser).parseTraditionalXRef")
		c.Check(s && t, R, "core.(*XRefParser).ParseXRef#kinds", fn.Pos(), "classic tables and xref streams are both parsed", "one of the two cross-reference kinds is no longer reachable from ParseXRef")
	}
	if fd := p.Decl("text.(*Extractor).RegisterFontsFromResources"); fd == nil {
		c.Undec(R, "text.(*Extractor).RegisterFontsFromResources", token.NoPos, "anchor not found")
	} else {
		labels := map[string]bool{}
		// the subtype dispatch may live in a helper of the package (parseFontBySubtype); string comparisons are
		// read from the SSA of the function and its helpers, however they are spelled
		if fnR := p.Func("text.(*Extractor).RegisterFontsFromResources"); fnR != nil {
			for _, h := range eng.Cluster(fnR, 2) {
				eng.Instrs(h, true, func(in ssa.Instruction) {
					if b, ok := in.(*ssa.BinOp); ok && b.Op == token.EQL {
						for _, v := range []ssa.Value{b.X, b.Y} {
							if cs, ok := eng.ConstString(v); ok {
								labels[cs] = true
							}
						}
					}
				})
			}
		}
		var missing []string
		for _, w := range []string{"Type1", "MMType1", "Type3", "TrueType", "Type0"} {
			if !labels[w] {
				missing = append(missing, w)
			}
		}
		c.Check(len(missing) == 0, R, "text.(*Extractor).RegisterFontsFromResources#subtypes", fd.Decl.Pos(), "Type1, MMType1, Type3, TrueType and Type0 fonts are registered", "font subtype(s) "+strings.Join(missing, ",")+" are not registered: their text decodes with the fallback font, whatever their ToUnicode CMap and encoding say")
	}
	if fn := p.Func("core.(*Parser).parseStream"); fn == nil {
		c.Undec(R, "core.(*Parser).parseStream", token.NoPos, "anchor not found")
	} else {
		asserted := map[string]bool{}
		resolves := false
		lenCluster := eng.Cluster(fn, 2) // the /Length handling may be a helper method (streamLength)
		for _, h := range lenCluster {
			if h != fn && (eng.FuncName(h) == "core.(*Parser).ParseObject" || eng.FuncName(h) == "core.(*Parser).nextToken") {
				continue
			}
			eng.Instrs(h, false, func(in ssa.Instruction) {
				if ta, ok := in.(*ssa.TypeAssert); ok {
					asserted[eng.TypeName(ta.AssertedType)] = true
				}
			})
			if len(eng.Calls(h, false, func(n string, _ ssa.CallInstruction) bool { return strings.HasSuffix(n, ".ResolveReference") })) > 0 {
				resolves = true
			}
		}
		c.Check(asserted["core.Int"] && asserted["core.IndirectRef"] && resolves, R, "core.(*Parser).parseStream#length-kinds", fn.Pos(), "/Length may be direct or indirect", "parseStream no longer handles both a direct and an indirect /Length")
		// ReadBytes(length): the argument derives from the Length value
		okLen := false
		// the read may sit in a stage of parseStream that is handed the length as a parameter: follow parameters of
		// cluster functions to the arguments at their call sites inside the cluster
		var derives func(v ssa.Value, depth int) bool
		seenPar := map[ssa.Value]bool{}
		derives = func(v ssa.Value, depth int) bool {
			for w := range eng.SliceInter(v, nil, lenCluster) {
				if ta, ok := w.(*ssa.TypeAssert); ok && (eng.TypeName(ta.AssertedType) == "core.Int") {
					return true
				}
				par, isPar := w.(*ssa.Parameter)
				if !isPar || seenPar[par] || depth > 3 || par.Parent() == fn {
					continue
				}
				seenPar[par] = true
				pi := -1
				for i, q := range par.Parent().Params {
					if q == par {
						pi = i
					}
				}
				for _, h := range lenCluster {
					for _, site := range eng.Calls(h, false, func(_ string, ci ssa.CallInstruction) bool { return eng.StaticCallee(ci) == par.Parent() }) {
						args := eng.ArgsWithRecv(site)
						if pi >= 0 && pi < len(args) && derives(args[pi], depth+1) {
							return true
						}
					}
				}
			}
			return false
		}
		nRead := 0
		for _, h := range lenCluster {
			for _, ci := range eng.CallsNamed(h, false, "core.(*Lexer).ReadBytes") {
				nRead++
				if derives(eng.ArgsWithRecv(ci)[1], 0) {
					okLen = true
				}
			}
		}
		c.Check(okLen, R, "core.(*Parser).parseStream#reads-length", fn.Pos(), "exactly /Length bytes are read as stream body", "the number of stream bytes read does not derive from /Length")
	}
	if fn := p.Func("reader.(*Reader).GetObject"); fn == nil {
		c.Undec(R, "reader.(*Reader).GetObject", token.NoPos, "anchor not found")
	} else {
		a, b := false, false
		for _, h := range eng.Cluster(fn, 1) { // the dispatch may sit in a stage function of GetObject
			if h.Pkg != fn.Pkg {
				continue
			}
			a = a || callsAnchor(c.P, h, "reader.(*Reader).getCompressedObject")
			b = b || callsAnchor(c.P, h, "reader.(*Reader).getUncompressedObject")
		}
		c.Check(a && b, R, "reader.(*Reader).GetObject#entry-kinds", fn.Pos(), "plain and object-stream entries are both loaded", "one of the two in-use entry kinds is no longer loaded by GetObject")
	}
	// content streams: single stream and array
	if fn := p.Func("pages.(*Page).Contents"); fn == nil {
		c.Undec(R, "pages.(*Page).Contents", token.NoPos, "anchor not found")
	} else {
		asserted := map[string]bool{}
		eng.Instrs(fn, false, func(in ssa.Instruction) {
			if ta, ok := in.(*ssa.TypeAssert); ok {
				asserted[eng.TypeName(ta.AssertedType)] = true
			}
		})
		c.Check(asserted["*core.Stream"] && asserted["core.Array"], R, "pages.(*Page).Contents#kinds", fn.Pos(), "/Contents may be one stream or an array of streams", "/Contents is no longer accepted both as a single stream and as an array")
	}
}

// R1.5
func rulePageOrder(c *eng.Ctx) {
	const R = "R1.5-PAGE-ORDER"
	c.Rule(R, "traversePageNode visits /Kids in array order (forward range) and appends each leaf exactly where it is met", 2, 0)
	fn := c.P.Func("pages.(*PageTree).traversePageNode")
	if fn == nil {
		c.Undec(R, "pages.(*PageTree).traversePageNode", token.NoPos, "anchor not found")
		return
	}
	fwd := false
	// the /Pages arm may live in a helper of the recursion (traverseKids): look at the whole cluster
	cluster := eng.Cluster(fn, 2)
	for _, h := range cluster {
		eng.Instrs(h, false, func(in ssa.Instruction) {
			if ia, ok := in.(*ssa.IndexAddr); ok {
				if _, ok := eng.Induction(ia.Index); ok && eng.TypeName(ia.X.Type()) == "core.Array" {
					fwd = true
				}
				// a cursor kept in a frame of an explicit stack: kids[frame.next] with frame.next++ as its only update
				if fr, ok := eng.LoadOfField(ia.Index); ok && eng.TypeName(ia.X.Type()) == "core.Array" {
					up, other := false, false
					eng.Instrs(h, false, func(i2 ssa.Instruction) {
						st, ok := i2.(*ssa.Store)
						if !ok {
							return
						}
						f2, ok := eng.AsField(st.Addr)
						if !ok || f2.Field != fr.Field || f2.Struct != fr.Struct {
							return
						}
						if b, ok := st.Val.(*ssa.BinOp); ok && b.Op == token.ADD {
							if k, isC := eng.ConstInt(b.Y); isC && k == 1 {
								if f3, ok := eng.LoadOfField(b.X); ok && f3.Field == fr.Field {
									up = true
									return
								}
							}
						}
						if k, isC := eng.ConstInt(st.Val); isC && k == 0 {
							return // a new frame starts at the first kid
						}
						other = true
					})
					if up && !other {
						fwd = true
					}
				}
			}
		})
	}
	c.Check(fwd, R, "pages.(*PageTree).traversePageNode#kids-forward", fn.Pos(), "kids are visited in array order", "the /Kids array is not traversed with a forward +1 index")
	// the leaf append: t.pages = append(t.pages, page) — first arg is the field itself
	okApp := false
	for _, h := range cluster {
		for _, ci := range eng.Calls(h, false, func(n string, _ ssa.CallInstruction) bool { return n == "builtin:append" }) {
			if fr, ok := eng.LoadOfField(ci.Common().Args[0]); ok && fr.Field == "pages" {
				okApp = true
			}
		}
	}
	c.Check(okApp, R, "pages.(*PageTree).traversePageNode#append", fn.Pos(), "leaves are appended to the running page list", "page leaves are not appended to the end of the running list (order or count changes)")
}

// callsAnchor: fn calls the anchored function, whichever way it is currently written (method or plain function).
func callsAnchor(p *eng.Prog, fn *ssa.Function, name string) bool {
	target := p.Func(name)
	if target == nil {
		return false
	}
	for _, ci := range eng.Calls(fn, false, func(string, ssa.CallInstruction) bool { return true }) {
		if eng.StaticCallee(ci) == target {
			return true
		}
		// called through a function value chosen by a helper (a method value returned by a selector function)
		if cands, ok := eng.DynCallees(ci); ok {
			for _, g := range cands {
				if g == target {
					return true
				}
			}
		}
		// called through a small interface: one of the implementations the call can reach hands on to the target
		if ci.Common().IsInvoke() {
			for _, g := range p.Callees(ci) {
				if g.Blocks == nil || !eng.InModule(g) {
					continue
				}
				for _, c2 := range eng.Calls(g, false, func(string, ssa.CallInstruction) bool { return true }) {
					if eng.StaticCallee(c2) == target {
						return true
					}
				}
			}
		}
	}
	return false
}
