package rules

import (
	"bytes"
	"compress/zlib"
	"encoding/hex"
	"fmt"
	"go/token"
	"go/types"
	"os"
	"sort"
	"strings"

	"golang.org/x/tools/go/ssa"

	"verif/checker/eng"
)

// Round 10, second part: whole files written by the checker and read by the repository's code in the evaluator.

// pdfObj is one indirect object of a revision: its number and its body (a stream's body ends with "endstream").
type pdfObj struct {
	num      int
	body     string
	isStream bool
	free     bool
}

// writePDF writes revisions of objects as a PDF file: a classic section or a cross-reference stream per revision,
// non-stream objects packed into one object stream per revision when pack is set (cross-reference streams only).
// Numbers from spare upwards are used for the object streams and cross-reference streams. eol ends the lines outside
// streams.
func writePDF(revs [][]pdfObj, root int, xrefStream, pack bool, eol string, spare int) []byte {
	var b strings.Builder
	b.WriteString("%PDF-1.6" + eol + "%\xe2\xe3\xcf\xd3" + eol)
	prev, size := -1, 0
	type ent struct{ kind, a, b2, num int }
	for ri, objs := range revs {
		var ents []ent
		var packed []pdfObj
		for _, o := range objs {
			switch {
			case o.free:
				ents = append(ents, ent{0, 0, 1, o.num})
			case pack && xrefStream && !o.isStream:
				packed = append(packed, o)
			default:
				ents = append(ents, ent{1, b.Len(), 0, o.num})
				fmt.Fprintf(&b, "%d 0 obj%s%s%sendobj%s", o.num, eol, o.body, eol, eol)
			}
		}
		if len(packed) > 0 {
			stm := spare
			spare++
			var hdr, body strings.Builder
			for i, o := range packed {
				fmt.Fprintf(&hdr, "%d %d ", o.num, body.Len())
				body.WriteString(o.body + " ")
				ents = append(ents, ent{2, stm, i, o.num})
			}
			data := hdr.String() + body.String()
			ents = append(ents, ent{1, b.Len(), 0, stm})
			fmt.Fprintf(&b, "%d 0 obj%s<< /Type /ObjStm /N %d /First %d /Length %d >>%sstream%s%s%sendstream%sendobj%s", stm, eol, len(packed), hdr.Len(), len(data), eol, "\n", data, "\n", eol, eol)
		}
		if ri == 0 {
			ents = append(ents, ent{0, 0, 65535, 0})
		}
		xoff := b.Len()
		xnum := 0
		if xrefStream {
			xnum = spare
			spare++
			ents = append(ents, ent{1, xoff, 0, xnum})
		}
		sort.Slice(ents, func(i, j int) bool { return ents[i].num < ents[j].num })
		for _, e := range ents {
			if e.num+1 > size {
				size = e.num + 1
			}
		}
		if !xrefStream {
			b.WriteString("xref" + eol)
			// runs of consecutive numbers form one subsection
			for i := 0; i < len(ents); {
				j := i
				for j+1 < len(ents) && ents[j+1].num == ents[j].num+1 {
					j++
				}
				fmt.Fprintf(&b, "%d %d%s", ents[i].num, j-i+1, eol)
				for k := i; k <= j; k++ {
					flag := "n"
					if ents[k].kind == 0 {
						flag = "f"
					}
					end := " \n"
					if eol == "\r\n" {
						end = "\r\n"
					}
					fmt.Fprintf(&b, "%010d %05d %s%s", ents[k].a, ents[k].b2, flag, end)
				}
				i = j + 1
			}
			fmt.Fprintf(&b, "trailer%s<< /Size %d /Root %d 0 R", eol, size, root)
			if prev >= 0 {
				fmt.Fprintf(&b, " /Prev %d", prev)
			}
			fmt.Fprintf(&b, " >>%sstartxref%s%d%s%%%%EOF%s", eol, eol, xoff, eol, eol)
		} else {
			var idx strings.Builder
			var data []byte
			for _, e := range ents {
				fmt.Fprintf(&idx, "%d 1 ", e.num)
				data = append(data, byte(e.kind), byte(e.a>>24), byte(e.a>>16), byte(e.a>>8), byte(e.a), byte(e.b2>>8), byte(e.b2))
			}
			fmt.Fprintf(&b, "%d 0 obj%s<< /Type /XRef /Size %d /W [1 4 2] /Index [%s] /Root %d 0 R", xnum, eol, size, strings.TrimSpace(idx.String()), root)
			if prev >= 0 {
				fmt.Fprintf(&b, " /Prev %d", prev)
			}
			fmt.Fprintf(&b, " /Length %d >>%sstream\n", len(data), eol)
			b.Write(data)
			fmt.Fprintf(&b, "\nendstream%sendobj%sstartxref%s%d%s%%%%EOF%s", eol, eol, eol, xoff, eol, eol)
		}
		prev = xoff
	}
	return []byte(b.String())
}

// layoutChoice is one combination of the physical-layout choices of a file.
type layoutChoice struct {
	xrefStream bool
	pack       bool
	filter     []string // applied to content streams, in decoding order
	lengthMode int      // 0 direct, 1 by reference to an object before the stream, 2 to one after it
	split      bool     // the content of a page in two streams
	nested     bool     // an intermediate Pages node that carries the inheritable keys
	revisions  int      // 1, or 2: the second revision replaces the first page's content
	crlf       bool
	predictor  bool // FlateDecode alone, with /DecodeParms << /Predictor 12 /Columns 16 >> and mixed PNG row filters
}

func (l layoutChoice) String() string {
	var p []string
	if l.xrefStream {
		p = append(p, "cross-reference streams")
	} else {
		p = append(p, "classic sections")
	}
	if l.pack {
		p = append(p, "objects in object streams")
	}
	if len(l.filter) > 0 {
		p = append(p, "content behind "+strings.Join(l.filter, "+"))
	}
	p = append(p, [...]string{"direct /Length", "/Length by reference to an earlier object", "/Length by reference to a later object"}[l.lengthMode])
	if l.split {
		p = append(p, "content split over two streams")
	}
	if l.nested {
		p = append(p, "nested page tree with inherited Resources and MediaBox")
	}
	if l.revisions > 1 {
		p = append(p, "an incremental update that replaces a page's content")
	}
	if l.crlf {
		p = append(p, "CR LF line ends")
	}
	if l.predictor {
		p = append(p, "PNG predictor rows")
	}
	return strings.Join(p, ", ")
}

// writeDocument writes the rule's logical document (three pages, two fonts) under one layout choice. It returns the
// file and the text each page shows.
func writeDocument(l layoutChoice) ([]byte, []string) {
	eol := "\n"
	if l.crlf {
		eol = "\r\n"
	}
	cmap := "/CIDInit /ProcSet findresource begin\n12 dict begin\nbegincmap\n/CMapType 2 def\n1 begincodespacerange\n<00> <FF>\nendcodespacerange\n3 beginbfchar\n<41> <03A9>\n<42> <0416>\n<43> <05D0>\nendbfchar\nendcmap\nend\nend\n"
	type line struct {
		font, codes, shows string
	}
	pages := [][]line{
		{{"F1", "Hello", "Hello"}, {"F2", "AB", "ΩЖ"}, {"F1", "again", "again"}},
		{{"F2", "BA", "ЖΩ"}, {"F1", "Second", "Second"}, {"F3", "caf\\216 f\\220te", "caféfête"}},
		{{"F1", "Third", "Third"}, {"F1", "page", "page"}, {"F2", "A", "Ω"}, {"F4", "it's `so'", "it’s‘so’"}},
	}
	content := func(ls []line) []string {
		var parts []string
		for i, ln := range ls {
			parts = append(parts, fmt.Sprintf("BT /%s 12 Tf 72 %d Td (%s) Tj ET", ln.font, 700-20*i, ln.codes))
		}
		return parts
	}
	encode := func(data string) string {
		out := data
		if l.predictor {
			for len(out)%16 != 0 {
				out += " "
			}
			out = string(pngEncode([]byte(out), 16, 1, []int{2, 1, 4, 3, 0}))
		}
		for i := len(l.filter) - 1; i >= 0; i-- {
			switch l.filter[i] {
			case "ASCIIHexDecode":
				out = strings.ToUpper(hex.EncodeToString([]byte(out))) + ">"
			case "ASCII85Decode":
				out = a85Encode([]byte(out), true) + "~>"
			case "FlateDecode":
				var zb bytes.Buffer
				zw := zlib.NewWriter(&zb)
				zw.Write([]byte(out))
				zw.Close()
				out = zb.String()
			}
		}
		return out
	}
	filterEntry := ""
	if l.predictor {
		filterEntry = " /DecodeParms << /Predictor 12 /Columns 16 >>"
	}
	switch len(l.filter) {
	case 0:
	case 1:
		filterEntry += " /Filter /" + l.filter[0]
	default:
		filterEntry += " /Filter [/" + strings.Join(l.filter, " /") + "]"
	}
	// numbering: 1 catalog, 2 root Pages, 3 intermediate Pages (nested), 4.. pages, then fonts, streams and lengths
	next := 4
	pageNums := make([]int, len(pages))
	for i := range pages {
		pageNums[i] = next
		next++
	}
	f1, f2, tu, f3, f4 := next, next+1, next+2, next+3, next+4
	next += 5
	var objs []pdfObj
	var later []pdfObj // length objects that must come after their stream
	stream := func(num int, dictExtra, data string) {
		body := encode(data)
		switch l.lengthMode {
		case 0:
			objs = append(objs, pdfObj{num: num, isStream: true, body: fmt.Sprintf("<< /Length %d%s%s >>%sstream\n%s\nendstream", len(body), filterEntry, dictExtra, eol, body)})
		case 1:
			ln := next
			next++
			objs = append(objs, pdfObj{num: ln, body: fmt.Sprint(len(body))})
			objs = append(objs, pdfObj{num: num, isStream: true, body: fmt.Sprintf("<< /Length %d 0 R%s%s >>%sstream\n%s\nendstream", ln, filterEntry, dictExtra, eol, body)})
		default:
			ln := next
			next++
			objs = append(objs, pdfObj{num: num, isStream: true, body: fmt.Sprintf("<< /Length %d 0 R%s%s >>%sstream\n%s\nendstream", ln, filterEntry, dictExtra, eol, body)})
			later = append(later, pdfObj{num: ln, body: fmt.Sprint(len(body))})
		}
	}
	resources := fmt.Sprintf("/Resources << /Font << /F1 %d 0 R /F2 %d 0 R /F3 %d 0 R /F4 %d 0 R >> >> /MediaBox [0 0 612 792]", f1, f2, f3, f4)
	parent := 2
	if l.nested {
		parent = 3
	}
	var shows []string
	var pageBodies []string
	contentNums := make([][]int, len(pages))
	for i, ls := range pages {
		parts := content(ls)
		var want string
		for _, ln := range ls {
			want += ln.shows
		}
		shows = append(shows, want)
		if l.split && len(parts) > 1 {
			a, b2 := next, next+1
			next += 2
			contentNums[i] = []int{a, b2}
			stream(a, "", strings.Join(parts[:1], "\n"))
			stream(b2, "", strings.Join(parts[1:], "\n"))
		} else {
			a := next
			next++
			contentNums[i] = []int{a}
			stream(a, "", strings.Join(parts, "\n"))
		}
	}
	for i := range pages {
		cs := fmt.Sprintf("%d 0 R", contentNums[i][0])
		if len(contentNums[i]) > 1 {
			cs = fmt.Sprintf("[%d 0 R %d 0 R]", contentNums[i][0], contentNums[i][1])
		}
		own := ""
		if !l.nested {
			own = " " + resources
		}
		pageBodies = append(pageBodies, fmt.Sprintf("/Contents %s%s", cs, own))
	}
	kids := ""
	for _, n := range pageNums {
		kids += fmt.Sprintf("%d 0 R ", n)
	}
	var nestedParents []int
	if l.nested {
		// root -> [node 3, page 3]; node 3 -> [node X, page 2] (its /Count equals the number of its kids); node X -> [page 1]
		x := next
		next++
		objs = append(objs, pdfObj{num: 2, body: fmt.Sprintf("<< /Type /Pages /Kids [3 0 R %d 0 R] /Count %d %s >>", pageNums[2], len(pages), resources)})
		objs = append(objs, pdfObj{num: 3, body: fmt.Sprintf("<< /Type /Pages /Parent 2 0 R /Kids [%d 0 R %d 0 R] /Count 2 >>", x, pageNums[1])})
		objs = append(objs, pdfObj{num: x, body: fmt.Sprintf("<< /Type /Pages /Parent 3 0 R /Kids [%d 0 R] /Count 1 >>", pageNums[0])})
		nestedParents = []int{x, 3, 2}
	} else {
		objs = append(objs, pdfObj{num: 2, body: fmt.Sprintf("<< /Type /Pages /Kids [%s %% the leaves%s] /Count %d >>", strings.TrimSpace(kids), eol, len(pages))})
	}
	for i := range pages {
		par := parent
		if l.nested && i < len(nestedParents) {
			par = nestedParents[i]
		}
		objs = append(objs, pdfObj{num: pageNums[i], body: fmt.Sprintf("<< /Type /Page /Parent %d 0 R %s >>", par, pageBodies[i])})
	}
	objs = append(objs, pdfObj{num: 1, body: "<< /Type /Catalog /Pages 2 0 R >>"})
	objs = append(objs, pdfObj{num: f1, body: "<< /Type /Font /Subtype /Type1 /BaseFont /Helvetica /Encoding /WinAnsiEncoding >>"})
	objs = append(objs, pdfObj{num: f2, body: fmt.Sprintf("<< /Type /Font /Subtype /Type1 /BaseFont /Times-Roman /ToUnicode %d 0 R >>", tu)})
	objs = append(objs, pdfObj{num: f3, body: "<< /Type /Font /Subtype /TrueType /BaseFont /Arial /Encoding /MacRomanEncoding >>"})
	objs = append(objs, pdfObj{num: f4, body: "<< /Type /Font /Subtype /Type1 /BaseFont /Courier /Encoding /StandardEncoding >>"})
	// the CMap program is stored without the content filter
	objs = append(objs, pdfObj{num: tu, isStream: true, body: fmt.Sprintf("<< /Length %d >>%sstream\n%s\nendstream", len(cmap), eol, cmap)})
	objs = append(objs, later...)
	revs := [][]pdfObj{objs}
	if l.revisions > 1 {
		// the first page's (first) content stream is replaced
		saved := objs
		objs, later = nil, nil
		num := contentNums[0][0]
		repl := []line{{"F1", "Howdy", "Howdy"}}
		if !l.split {
			repl = append(repl, line{"F2", "C", "א"})
		}
		stream(num, "", strings.Join(content(repl), "\n"))
		objs = append(objs, later...)
		revs = append(revs, objs)
		objs = saved
		if l.split {
			shows[0] = "Howdy" + "ΩЖ" + "again"
		} else {
			shows[0] = "Howdy" + "א"
		}
	}
	return writePDF(revs, 1, l.xrefStream, l.pack, eol, next+10), shows
}

// fileHooks stands a reader over known bytes in for the *os.File the reader package works on.
func fileHooks(ev *eng.Evaluator, size int) {
	ev.External = func(g *ssa.Function, args []any) (any, *eng.EvalError, bool) {
		switch eng.FuncName(g) {
		case "os.(*File).Stat":
			return eng.ETuple{&statStub{int64(size)}, nil}, nil, true
		case "os.(*File).Close":
			return nil, nil, true
		case "os.(*File).Seek", "os.(*File).Read", "os.(*File).ReadAt":
			if r, ok := args[0].(*eng.EBytesReader); ok {
				nm := eng.FuncName(g)
				return eng.ReaderMethod(r, nm[strings.LastIndex(nm, ".")+1:], args[1:])
			}
		}
		return nil, nil, false
	}
	ev.Invoke = func(method string, recv any, args []any) (any, *eng.EvalError, bool) {
		if st, ok := recv.(*statStub); ok && method == "Size" {
			return st.size, nil, true
		}
		return nil, nil, false
	}
}

// readWholeFile opens the file with reader.NewReader in the evaluator and asks for the page count and the text of
// every page (at most maxPages). texts is nil where the reader refuses the file; refused says at which step.
func readWholeFile(c *eng.Ctx, file []byte, maxPages int, steps int) (count int, texts []string, refused string, err *eng.EvalError) {
	count, texts, refused, _, err = readWholeFileSteps(c, file, maxPages, steps)
	return
}

func readWholeFileSteps(c *eng.Ctx, file []byte, maxPages int, steps int) (count int, texts []string, refused string, used int, err *eng.EvalError) {
	newR := c.P.FuncExact("reader.NewReader")
	pc := c.P.FuncExact("reader.(*Reader).PageCount")
	gp := c.P.FuncExact("reader.(*Reader).GetPage")
	et := c.P.FuncExact("reader.(*Reader).ExtractText")
	if newR == nil || pc == nil || gp == nil || et == nil {
		return 0, nil, "", 0, &eng.EvalError{Msg: "reader entry points not found"}
	}
	ev := eng.NewEvaluator()
	ev.Steps = steps
	ev.MaxDepth = 80
	fileHooks(ev, len(file))
	rd, e := ev.Call(newR, []any{&eng.EBytesReader{Data: file}}, 0)
	if e != nil {
		return 0, nil, "", steps - ev.Steps, e
	}
	tup, ok := rd.(eng.ETuple)
	if !ok || len(tup) != 2 {
		return 0, nil, "", steps - ev.Steps, &eng.EvalError{Msg: "NewReader does not return (reader, error)"}
	}
	if tup[1] != nil {
		return 0, nil, "NewReader", steps - ev.Steps, nil
	}
	got, e := ev.Call(pc, []any{tup[0]}, 0)
	if e != nil {
		return 0, nil, "", steps - ev.Steps, e
	}
	pt, ok := got.(eng.ETuple)
	if !ok || len(pt) != 2 {
		return 0, nil, "", steps - ev.Steps, &eng.EvalError{Msg: "PageCount does not return (int, error)"}
	}
	if pt[1] != nil {
		return 0, nil, "PageCount", steps - ev.Steps, nil
	}
	n, _ := pt[0].(int64)
	count = int(n)
	for i := 0; i < count && i < maxPages; i++ {
		pg, e := ev.Call(gp, []any{tup[0], int64(i)}, 0)
		if e != nil {
			return count, texts, "", steps - ev.Steps, e
		}
		gt, ok := pg.(eng.ETuple)
		if !ok || len(gt) != 2 {
			return count, texts, "", steps - ev.Steps, &eng.EvalError{Msg: "GetPage does not return (page, error)"}
		}
		if gt[1] != nil {
			return count, texts, fmt.Sprintf("GetPage(%d)", i), steps - ev.Steps, nil
		}
		tx, e := ev.Call(et, []any{tup[0], gt[0]}, 0)
		if e != nil {
			return count, texts, "", steps - ev.Steps, e
		}
		tt, ok := tx.(eng.ETuple)
		if !ok || len(tt) != 2 {
			return count, texts, "", steps - ev.Steps, &eng.EvalError{Msg: "ExtractText does not return (string, error)"}
		}
		if tt[1] != nil {
			return count, texts, fmt.Sprintf("ExtractText(page %d)", i+1), steps - ev.Steps, nil
		}
		s, _ := tt[0].(string)
		texts = append(texts, s)
	}
	return count, texts, "", steps - ev.Steps, nil
}

func layoutChoices(thorough bool) []layoutChoice {
	hexF, a85 := []string{"ASCIIHexDecode"}, []string{"ASCII85Decode"}
	both := []string{"ASCIIHexDecode", "ASCII85Decode"}
	fl, a85fl := []string{"FlateDecode"}, []string{"ASCII85Decode", "FlateDecode"}
	base := []layoutChoice{
		{},
		{filter: fl},
		{filter: a85fl, xrefStream: true, pack: true, lengthMode: 1},
		{filter: fl, split: true, nested: true, revisions: 2, crlf: true},
		{filter: fl, predictor: true},
		{filter: fl, predictor: true, xrefStream: true, pack: true, lengthMode: 2, split: true},
		{crlf: true},
		{xrefStream: true},
		{xrefStream: true, pack: true},
		{filter: hexF},
		{filter: a85, xrefStream: true},
		{filter: both, split: true},
		{lengthMode: 1},
		{lengthMode: 2},
		{lengthMode: 2, xrefStream: true, pack: true},
		{split: true},
		{nested: true},
		{nested: true, xrefStream: true, pack: true, split: true},
		{revisions: 2},
		{revisions: 2, xrefStream: true, pack: true},
		{revisions: 2, split: true, lengthMode: 1, crlf: true},
		{revisions: 2, nested: true, filter: a85, lengthMode: 2},
		{xrefStream: true, pack: true, filter: both, lengthMode: 1, split: true, nested: true, revisions: 2, crlf: true},
	}
	if !thorough {
		return base
	}
	out := base
	seen := map[string]bool{}
	for _, l := range base {
		seen[l.String()] = true
	}
	for m := 0; m < 1<<6; m++ {
		for fi, f := range [][]string{nil, hexF, both, fl, a85fl} {
			l := layoutChoice{xrefStream: m&1 != 0, pack: m&1 != 0 && m&2 != 0, split: m&4 != 0, nested: m&8 != 0, crlf: m&16 != 0, filter: f, lengthMode: (m + fi) % 3, revisions: 1 + (m>>5)&1}
			if (m&1 == 0 && m&2 != 0) || seen[l.String()] {
				continue
			}
			seen[l.String()] = true
			out = append(out, l)
		}
	}
	return out
}

// R1.13 [C01, C04]
func rulePhysicalLayoutsEvaluated(c *eng.Ctx) {
	const R = "R1.13-PHYSICAL-LAYOUTS-EVALUATED"
	c.Rule(R, "reader.NewReader, PageCount, GetPage and ExtractText, evaluated on one logical document (three pages, a WinAnsi font and a font with a ToUnicode CMap) that the rule writes under combinations of the physical-layout choices - classic sections or cross-reference streams, objects packed in object streams, content behind FlateDecode, ASCIIHexDecode, ASCII85Decode or a chain of two of them, /Length direct or by reference to an object before or after the stream, a page's content in one stream or two, a flat page tree or a three-level one (a node whose /Count equals the number of its kids although one kid is a node itself; Resources and MediaBox on the root), one revision or an incremental update that replaces a page's content, LF or CR LF line ends, PNG predictor rows behind FlateDecode; the fonts are WinAnsi, MacRoman (codes above 127), StandardEncoding (the quote codes) and one with a ToUnicode CMap, and the /Kids array carries a comment: the page count is three and every page's text holds, in content order, exactly the characters its fonts define for the shown codes", 1, 0)
	choices := layoutChoices(c.Tier == "thorough")
	for _, l := range choices {
		file, shows := writeDocument(l)
		key := "reader.(*Reader).ExtractText#" + l.String()
		count, texts, refused, err := readWholeFile(c, file, 5, 60000000)
		if err != nil && !err.Panic {
			c.Ok(R, key, token.NoPos, "not evaluated: "+err.Msg)
			continue
		}
		bad := ""
		switch {
		case err != nil:
			bad = "the reader is brought down: " + err.Msg
		case refused != "":
			bad = "a well-formed file is refused by " + refused
		case count != len(shows):
			bad = fmt.Sprintf("%d pages reported, the file has %d page leaves", count, len(shows))
		default:
			for i, t := range texts {
				if nonSpace(t) != shows[i] && bad == "" {
					bad = fmt.Sprintf("page %d reads %q, its fonts and codes say %q", i+1, nonSpace(t), shows[i])
				}
			}
		}
		c.Check(bad == "", R, key, token.NoPos, "three pages, each with the text its fonts define", "the text of a well-formed file depends on how the file stores it: "+bad)
	}
}

// ---------------------------------------------------------------------------------------------------------------
// R2.28 the catalogue of structural faults, applied to the rule's own files.

type fault struct {
	name string
	file []byte
}

// structuralFaults applies the fixed catalogue to a file: truncation at token boundaries, every numeric field replaced
// by 0, -1, 2^31 and 2^63-1, every reference retargeted to the objects 1, 2 and the one it stands in, every object
// dropped and duplicated, every delimiter removed. stride thins the catalogue for the quick tier.
func structuralFaults(file []byte, stride int) []fault {
	var out []fault
	k := 0
	keep := func() bool {
		k++
		return stride <= 1 || k%stride == 0
	}
	s := string(file)
	isDigit := func(b byte) bool { return b >= '0' && b <= '9' }
	isSpace := func(b byte) bool { return b == ' ' || b == '\n' || b == '\r' }
	// truncations
	for i := 1; i < len(s); i++ {
		if isSpace(s[i-1]) && !isSpace(s[i]) && keep() {
			out = append(out, fault{fmt.Sprintf("truncated after %d of %d bytes", i, len(s)), []byte(s[:i])})
		}
	}
	// numeric fields
	curObj := 0
	for i := 0; i < len(s); {
		if !isDigit(s[i]) || (i > 0 && !isSpace(s[i-1]) && s[i-1] != '[' && s[i-1] != '/') {
			i++
			continue
		}
		j := i
		for j < len(s) && isDigit(s[j]) {
			j++
		}
		if j < len(s) && !isSpace(s[j]) && s[j] != ']' && s[j] != '>' && s[j] != '/' {
			i = j
			continue
		}
		if strings.HasPrefix(s[j:], " 0 obj") {
			fmt.Sscanf(s[i:j], "%d", &curObj)
		}
		for _, v := range []string{"0", "-1", "2147483648", "9223372036854775807"} {
			if keep() {
				out = append(out, fault{fmt.Sprintf("the number %s at byte %d replaced by %s", s[i:j], i, v), []byte(s[:i] + v + s[j:])})
			}
		}
		if strings.HasPrefix(s[j:], " 0 R") {
			for _, v := range []int{1, 2, curObj} {
				if keep() {
					out = append(out, fault{fmt.Sprintf("the reference %s 0 R at byte %d retargeted to object %d", s[i:j], i, v), []byte(s[:i] + fmt.Sprint(v) + s[j:])})
				}
			}
		}
		i = j
	}
	// objects dropped and duplicated
	for i := 0; i < len(s); {
		p := strings.Index(s[i:], " 0 obj")
		if p < 0 {
			break
		}
		start := i + p
		for start > 0 && isDigit(s[start-1]) {
			start--
		}
		e := strings.Index(s[start:], "endobj")
		if e < 0 {
			break
		}
		end := start + e + len("endobj")
		if keep() {
			out = append(out, fault{fmt.Sprintf("the object at byte %d dropped", start), []byte(s[:start] + s[end:])})
		}
		if keep() {
			out = append(out, fault{fmt.Sprintf("the object at byte %d written twice", start), []byte(s[:end] + "\n" + s[start:end] + s[end:])})
		}
		i = end
	}
	// delimiters
	for i := 0; i < len(s); i++ {
		n := 0
		switch {
		case strings.HasPrefix(s[i:], "<<"), strings.HasPrefix(s[i:], ">>"):
			n = 2
		case s[i] == '[' || s[i] == ']' || s[i] == '(' || s[i] == ')':
			n = 1
		}
		if n > 0 && keep() {
			out = append(out, fault{fmt.Sprintf("the delimiter %q at byte %d removed", s[i:i+n], i), []byte(s[:i] + s[i+n:])})
		}
		if n == 2 {
			i++
		}
	}
	return out
}

// R2.28 [C02]
func ruleStructuralFaultsEvaluated(c *eng.Ctx) {
	const R = "R2.28-STRUCTURAL-FAULTS-EVALUATED"
	c.Rule(R, "reader.NewReader, PageCount, GetPage and ExtractText, evaluated on the rule's document (classic layout; cross-reference streams with object streams, an ASCII85 filter and /Length by reference) after each fault of a fixed catalogue - truncation at every token boundary; every numeric field replaced by 0, -1, 2^31 and 2^63-1; every reference retargeted to objects 1, 2 and the object it stands in; every object dropped and written twice; every delimiter removed (quick tier: every seventh fault): each call returns a value or an error - none panics, and none uses more than forty times the steps the intact file needs", 1, 0)
	layouts := []layoutChoice{{}, {xrefStream: true, pack: true, filter: []string{"ASCII85Decode"}, lengthMode: 2, nested: true}}
	stride := 7
	if c.Tier == "thorough" {
		stride = 1
	}
	for li, l := range layouts {
		file, _ := writeDocument(l)
		key := fmt.Sprintf("reader.NewReader#faults of layout %d (%s)", li+1, l.String())
		_, _, _, base, err := readWholeFileSteps(c, file, 5, 60000000)
		if err != nil {
			c.Ok(R, key, token.NoPos, "not evaluated: the intact file: "+err.Msg)
			continue
		}
		budget := base*40 + 2000000
		faults := structuralFaults(file, stride)
		n, skipped, bad := 0, 0, ""
		worst := 0
		for _, f := range faults {
			_, _, _, used, err := readWholeFileSteps(c, f.file, 5, budget)
			if used > worst {
				worst = used
			}
			if err == nil {
				n++
				continue
			}
			switch {
			case err.Panic:
				bad = f.name + ": " + err.Msg
			case strings.Contains(err.Msg, "step budget"):
				bad = fmt.Sprintf("%s: the reader is still running after %d steps (the intact file takes %d)", f.name, budget, base)
			default:
				skipped++
			}
			if bad != "" {
				break
			}
		}
		if bad != "" {
			c.Viol(R, key, token.NoPos, "a damaged file brings the reader down or keeps it busy: "+bad)
			continue
		}
		c.Ok(R, key, token.NoPos, fmt.Sprintf("%d faults answered with a value or an error, %d outside the evaluator's model; intact file %d steps, worst fault %d", n, skipped, base, worst))
	}
}

// ---------------------------------------------------------------------------------------------------------------
// R19.18 HTML documents read by htmldoc in the evaluator (the tree is the library's; the walk is the repository's).

type htmlCase struct {
	name    string
	markup  string   // %s-free; "\n" between tags is removed for the compact spelling
	content []string // words that every mode must return, once, in this order
	chrome  []string // words inside navigation and boilerplate: returned by mode None, in document order with the content
	all     []string // content and chrome in document order (what mode None returns)
	absent  []string // words of scripts, styles and markup that no mode returns
}

func htmlCases() []htmlCase {
	return []htmlCase{
		{
			name: "headings, paragraphs, nested lists, a table with spans, code and a quotation",
			markup: `<html><head><title>ttitle</title><style>p { color: sstyle }</style></head>
<body>
<h1>hone &amp; hamp</h1>
<p>pone <b>pbold</b> ptwo caf&eacute;</p>
<ul>
<li>lone
<ol>
<li>ltwo</li>
<li>lthree</li>
</ol>
</li>
<li>lfour</li>
</ul>
<table>
<thead>
<tr><th colspan="2">thead</th></tr>
</thead>
<tbody>
<tr><td rowspan="2">tone</td><td>ttwo</td></tr>
<tr><td>tthree</td></tr>
</tbody>
</table>
<pre>cone ctwo</pre>
<blockquote>qone qtwo</blockquote>
<script>var sscript = 1;</script>
<h2>htwo</h2>
<p>plast</p>
</body></html>`,
			content: []string{"hone", "&", "hamp", "pone", "pbold", "ptwo", "café", "lone", "ltwo", "lthree", "lfour", "thead", "tone", "ttwo", "tthree", "cone", "ctwo", "qone", "qtwo", "htwo", "plast"},
			absent:  []string{"sstyle", "sscript", "<", "colspan"},
		},
		{
			name: "navigation, header, footer and aside around the content",
			markup: `<html><body>
<header><p>xheader</p></header>
<nav><ul><li><a href="/a">xnavone</a></li><li><a href="/b">xnavtwo</a></li></ul></nav>
<main>
<h1>mtitle</h1>
<p>mone mtwo</p>
<aside><p>xaside</p></aside>
<p>mthree</p>
</main>
<footer><p>xfooter</p></footer>
</body></html>`,
			content: []string{"mtitle", "mone", "mtwo", "mthree"},
			all:     []string{"xheader", "xnavone", "xnavtwo", "mtitle", "mone", "mtwo", "xaside", "mthree", "xfooter"},
			chrome:  []string{"xheader", "xnavone", "xnavtwo", "xaside", "xfooter"},
		},
		{
			name: "a table that starts with its rows, a list that starts with its items",
			markup: `<html><body>
<table>
<tr><td>rone</td><td>rtwo</td></tr>
<tr><td>rthree</td><td>rfour</td></tr>
</table>
<ul>
<li>uone</li>
<li>utwo</li>
</ul>
<p>pend</p>
</body></html>`,
			content: []string{"rone", "rtwo", "rthree", "rfour", "uone", "utwo", "pend"},
		},
		{
			name: "a wrapper whose article has a header of its own",
			markup: `<html><body>
<header><p>xsite</p></header>
<div>
<article>
<header><h1>atitle</h1></header>
<p>aone</p>
</article>
<p>atwo</p>
</div>
</body></html>`,
			content: []string{"atitle", "aone", "atwo"},
			all:     []string{"xsite", "atitle", "aone", "atwo"},
			chrome:  []string{"xsite"},
		},
		{
			name: "blocks excluded by class and id, in lower and upper case, and a link-dense block",
			markup: `<html><body>
<div class="sidebar"><p>xside</p></div>
<div id="NAVBAR"><p>xupper</p></div>
<h1>ktitle</h1>
<p>kone</p>
<div>
<p>dtext</p>
<nav><p>xinner</p></nav>
</div>
<div class="related"><a href="/1">xlinkone</a> <a href="/2">xlinktwo</a> <a href="/3">xlinkthree</a> <a href="/4">xlinkfour</a> <a href="/5">xlinkfive</a></div>
<p>ktwo</p>
<div id="site-footer"><p>xfoot</p></div>
</body></html>`,
			content: []string{"ktitle", "kone", "dtext", "ktwo"},
			all:     []string{"xside", "xupper", "ktitle", "kone", "dtext", "xinner", "xlinkone", "xlinktwo", "xlinkthree", "xlinkfour", "xlinkfive", "ktwo", "xfoot"},
		},
		{
			name: "lists inside lists without an item around them, items with two sub-lists, headings and code inside items",
			markup: `<html><body>
<ul>
<li>bone</li>
<ul>
<li>binner</li>
</ul>
<li>bafter</li>
</ul>
<ol>
<li>hprep
<ol>
<li>hfirst</li>
</ol>
<ul>
<li>hsecond</li>
</ul>
</li>
<li><h4>estep</h4> ebody</li>
<li>efore <pre>ecode</pre></li>
</ol>
<blockquote>
<p>qlead</p>
<ul>
<li>qitem</li>
</ul>
</blockquote>
<p>zend</p>
</body></html>`,
			content: []string{"bone", "binner", "bafter", "hprep", "hfirst", "hsecond", "estep", "ebody", "efore", "ecode", "qlead", "qitem", "zend"},
		},
		{
			name: "scripts inside content elements, doubly escaped references, nested tables, several row groups, an empty table",
			markup: `<html><body>
<p>ialpha <script>var iscript = 1;</script>ibeta</p>
<ul>
<li>ione<style>.istyle {}</style></li>
</ul>
<p>gx&amp;amp;gy</p>
<h3>gh&amp;lt;gi</h3>
<ul>
<li>gl&amp;#169;gm</li>
</ul>
<pre>gp&amp;amp;gq</pre>
<blockquote>gb&amp;amp;gc</blockquote>
<table>
<tr><td>oa</td><td><table><tr><td>oinner</td></tr></table></td></tr>
<tr><td>gt&amp;amp;gu</td><td>ov</td></tr>
</table>
<table>
<tr><th>ohead</th></tr>
<tbody>
<tr><td>ob</td></tr>
</tbody>
<tbody>
<tr><td>oc</td></tr>
</tbody>
</table>
<table>
<tr><td></td><td></td></tr>
</table>
<p>olast</p>
</body></html>`,
			content: []string{"ialpha", "ibeta", "ione", "gx&amp", "gy", "gh&lt", "gi", "gl&", "169", "gm", "gp&amp", "gq", "gb&amp", "gc", "oa", "oinner", "gt&amp", "gu", "ov", "ohead", "ob", "oc", "olast"},
			absent:  []string{"iscript", "istyle"},
		},
		{
			name: "blocks inside inline elements: a block link, a span wrapper, an unclosed b",
			markup: `<html><body>
<a href="/x"><h3>vhead</h3><p>vpara</p></a>
<span><ul><li>vitem</li></ul></span>
<p>vmid <em>vem</em> <strong>vstrong</strong></p>
<pre><span>vcodeone</span> <span>vcodetwo</span></pre>
<b><p>vboldpara</p>
<table><tr><td>vcell</td></tr></table>
<blockquote>vquote</blockquote>
</body></html>`,
			content: []string{"vhead", "vpara", "vitem", "vmid", "vem", "vstrong", "vcodeone", "vcodetwo", "vboldpara", "vcell", "vquote"},
		},
		{
			name: "unclosed paragraphs and items",
			markup: `<html><body>
<p>none
<p>ntwo
<ul>
<li>nthree
<li>nfour
</ul>
<p>nfive</body></html>`,
			content: []string{"none", "ntwo", "nthree", "nfour", "nfive"},
		},
	}
}

// wordsOf splits a text into the words the cases are written in (letters, digits and '&').
func wordsOf(s string) []string {
	return strings.FieldsFunc(s, func(r rune) bool {
		return !(r == '&' || r == 'é' || r >= 'a' && r <= 'z' || r >= 'A' && r <= 'Z' || r >= '0' && r <= '9')
	})
}

func isSubsequence(sub, of []string) bool {
	i := 0
	for _, w := range of {
		if i < len(sub) && sub[i] == w {
			i++
		}
	}
	return i == len(sub)
}

// R19.18 [C19]
func ruleHTMLDocumentsEvaluated(c *eng.Ctx) {
	const R = "R19.18-HTML-DOCUMENTS-EVALUATED"
	c.Rule(R, "htmldoc.OpenReader followed by TextWithOptions in the four navigation-exclusion modes, evaluated on small documents of distinct words (headings, paragraphs with inline markup and entities, nested lists, a table with spans and sections, a table and a list that start directly with rows and items, preformatted text, a quotation, scripts and styles; navigation, header, footer and aside around the content; an article header inside a wrapper; unclosed paragraphs and items), each written with line breaks between the tags and without any: mode None returns every content and boilerplate word once and in document order, no mode returns words of scripts, styles or markup, every stricter mode returns a subsequence of the weaker one, the content words come back in every mode, and the two spellings of a document read the same", 1, 0)
	open := c.P.FuncExact("htmldoc.OpenReader")
	text := c.P.FuncExact("htmldoc.(*Reader).TextWithOptions")
	optT := c.P.NamedType("htmldoc", "ExtractOptions")
	if open == nil || text == nil || optT == nil || len(open.Params) != 1 || len(text.Params) != 2 {
		c.Ok(R, "htmldoc.(*Reader).TextWithOptions", token.NoPos, "htmldoc entry points not found: not evaluated")
		return
	}
	modes := []string{"None", "Explicit", "Standard", "Aggressive"}
	read := func(markup string, strictFirst bool) (out [][]string, err *eng.EvalError, refused bool) {
		ev := eng.NewEvaluator()
		ev.Steps = 20000000
		ev.MaxDepth = 200
		rd, e := ev.Call(open, []any{&eng.EBytesReader{Data: []byte(markup)}}, 0)
		if e != nil {
			return nil, e, false
		}
		tup, ok := rd.(eng.ETuple)
		if !ok || len(tup) != 2 {
			return nil, &eng.EvalError{Msg: "OpenReader does not return (reader, error)"}, false
		}
		if tup[1] != nil {
			return nil, nil, true
		}
		out = make([][]string, len(modes))
		for k := range modes {
			m := k
			if strictFirst {
				m = len(modes) - 1 - k
			}
			o := eng.ZeroOf(optT).(*eng.EStruct)
			if !eng.SetField(o, optT, "NavigationExclusion", int64(m)) {
				return nil, &eng.EvalError{Msg: "ExtractOptions has no NavigationExclusion"}, false
			}
			got, e := ev.Call(text, []any{tup[0], o}, 0)
			if e != nil {
				return nil, e, false
			}
			tt, ok := got.(eng.ETuple)
			if !ok || len(tt) != 2 || tt[1] != nil {
				return nil, &eng.EvalError{Msg: "TextWithOptions does not return (text, nil)"}, false
			}
			s, _ := tt[0].(string)
			out[m] = wordsOf(s)
		}
		// the same reader asked again, strictest mode first: the answers do not depend on what was asked before
		for m := len(modes) - 1; m >= 0; m-- {
			o := eng.ZeroOf(optT).(*eng.EStruct)
			eng.SetField(o, optT, "NavigationExclusion", int64(m))
			got, e := ev.Call(text, []any{tup[0], o}, 0)
			if e != nil {
				return nil, e, false
			}
			if tt, ok := got.(eng.ETuple); ok && len(tt) == 2 {
				s, _ := tt[0].(string)
				if strings.Join(wordsOf(s), " ") != strings.Join(out[m], " ") {
					out[m] = append(out[m], "(asked again: "+strings.Join(wordsOf(s), " ")+")")
				}
			}
		}
		return out, nil, false
	}
	for _, hc := range htmlCases() {
		key := "htmldoc.(*Reader).TextWithOptions#" + hc.name
		spaced, err, refused := read(hc.markup, false)
		var compact, strict [][]string
		if err == nil && !refused {
			compact, err, refused = read(strings.ReplaceAll(hc.markup, ">\n<", "><"), false)
		}
		if err == nil && !refused {
			strict, err, refused = read(hc.markup, true)
		}
		if err != nil && !err.Panic {
			c.Ok(R, key, text.Pos(), "not evaluated: "+err.Msg)
			continue
		}
		bad := ""
		switch {
		case err != nil:
			bad = "the reader is brought down: " + err.Msg
		case refused:
			bad = "the document is refused"
		}
		all := hc.all
		if all == nil {
			all = hc.content
		}
		for si, res := range [][][]string{spaced, compact, strict} {
			if bad != "" {
				break
			}
			sp := []string{"with line breaks between the tags", "without white space between the tags", "with the strictest mode asked first"}[si]
			if strings.Join(res[0], " ") != strings.Join(all, " ") {
				bad = fmt.Sprintf("%s, mode None returns %q; the document holds %q", sp, strings.Join(res[0], " "), strings.Join(all, " "))
			}
			for m := 0; m < len(modes) && bad == ""; m++ {
				for _, w := range res[m] {
					for _, a := range hc.absent {
						if strings.Contains(w, a) && bad == "" {
							bad = fmt.Sprintf("%s, mode %s returns %q, which is script, style or markup", sp, modes[m], w)
						}
					}
				}
				if m > 0 && !isSubsequence(res[m], res[m-1]) && bad == "" {
					bad = fmt.Sprintf("%s, mode %s returns %q, which is not a subsequence of what mode %s returns (%q)", sp, modes[m], strings.Join(res[m], " "), modes[m-1], strings.Join(res[m-1], " "))
				}
				if !isSubsequence(hc.content, res[m]) && bad == "" {
					bad = fmt.Sprintf("%s, mode %s returns %q: content outside navigation and boilerplate is missing (%q)", sp, modes[m], strings.Join(res[m], " "), strings.Join(hc.content, " "))
				}
			}
		}
		for m := 0; bad == "" && m < len(modes) && len(strict) == len(modes) && len(spaced) == len(modes); m++ {
			if strings.Join(strict[m], " ") != strings.Join(spaced[m], " ") {
				bad = fmt.Sprintf("mode %s returns %q on a reader that was asked for the stricter modes first and %q on one that was not", modes[m], strings.Join(strict[m], " "), strings.Join(spaced[m], " "))
			}
		}
		if os.Getenv("VDEBUG") != "" && len(spaced) == len(modes) {
			for m := range modes {
				fmt.Fprintf(os.Stderr, "R19.18 %s | %s: %s\n", hc.name[:20], modes[m], strings.Join(spaced[m], " "))
			}
		}
		c.Check(bad == "", R, key, text.Pos(), "every mode returns the content once and in order, stricter modes only narrow, both spellings agree", "the HTML reader drops, repeats or reorders content, or a stricter mode adds to a weaker one: "+bad)
	}
}

// ---------------------------------------------------------------------------------------------------------------
// R10.20 the fluent extractor over a file of the rule's making: page selection, derivation, handles, header/footer
// exclusion.

type pageLine struct {
	x, y int
	text string
}

// writePages writes a classic single-revision file with one Helvetica font and the given lines on each page.
func writePages(pages [][]pageLine) []byte {
	var objs []pdfObj
	n := len(pages)
	font := 3 + 2*n
	kids := ""
	for i, ls := range pages {
		pg, cs := 3+2*i, 4+2*i
		kids += fmt.Sprintf("%d 0 R ", pg)
		var sb strings.Builder
		for _, l := range ls {
			fmt.Fprintf(&sb, "BT /F1 11 Tf %d %d Td (%s) Tj ET\n", l.x, l.y, l.text)
		}
		objs = append(objs, pdfObj{num: pg, body: fmt.Sprintf("<< /Type /Page /Parent 2 0 R /MediaBox [0 0 612 792] /Resources << /Font << /F1 %d 0 R >> >> /Contents %d 0 R >>", font, cs)})
		objs = append(objs, pdfObj{num: cs, isStream: true, body: fmt.Sprintf("<< /Length %d >>\nstream\n%s\nendstream", sb.Len(), sb.String())})
	}
	objs = append(objs, pdfObj{num: 1, body: "<< /Type /Catalog /Pages 2 0 R >>"})
	objs = append(objs, pdfObj{num: 2, body: fmt.Sprintf("<< /Type /Pages /Kids [%s] /Count %d >>", strings.TrimSpace(kids), n)})
	objs = append(objs, pdfObj{num: font, body: "<< /Type /Font /Subtype /Type1 /BaseFont /Helvetica /Encoding /WinAnsiEncoding >>"})
	return writePDF([][]pdfObj{objs}, 1, false, false, "\n", font+5)
}

type fluentStep struct {
	fn   *ssa.Function
	args []any
}

// R10.20 [C10, C11]
func ruleFluentExtractorEvaluated(c *eng.Ctx) {
	const R = "R10.20-FLUENT-EXTRACTOR-EVALUATED"
	c.Rule(R, "tabula.Open(name) with Pages, PageRange, ExcludeHeadersAndFooters, Text and Close, evaluated on a four-page file of distinct words that the rule writes (a running title at the top and 'Page N' at the bottom of every page) behind a stand-in for the file system that counts opened and closed handles: a selection returns the words of its pages in ascending page order however it is spelled (order, duplicates, a range); a page number outside the document is an error; deriving an extractor leaves the one it came from as it was; after every terminal operation, successful or failed, every opened handle is closed and closing again does not fail; with header and footer exclusion the result is the unfiltered words minus the running title and the page numbers, in the same order", 1, 0)
	open := c.P.FuncExact("tabula.Open")
	pagesF := c.P.FuncExact("tabula.(*Extractor).Pages")
	rangeF := c.P.FuncExact("tabula.(*Extractor).PageRange")
	exclF := c.P.FuncExact("tabula.(*Extractor).ExcludeHeadersAndFooters")
	textF := c.P.FuncExact("tabula.(*Extractor).Text")
	closeF := c.P.FuncExact("tabula.(*Extractor).Close")
	if open == nil || pagesF == nil || rangeF == nil || exclF == nil || textF == nil || closeF == nil {
		c.Ok(R, "tabula.(*Extractor).Text", token.NoPos, "extractor entry points not found: not evaluated")
		return
	}
	var pages [][]pageLine
	body := map[int][]string{}
	for p := 1; p <= 4; p++ {
		ls := []pageLine{{72, 760, "Running Title"}}
		for k := 0; k < 5; k++ {
			w := fmt.Sprintf("body%dline%d word%dx%d", p, k, p, k)
			ls = append(ls, pageLine{72, 640 - 40*k, w})
			body[p] = append(body[p], strings.Fields(w)...)
		}
		ls = append(ls, pageLine{290, 30, fmt.Sprintf("Page %d", p)})
		pages = append(pages, ls)
	}
	file := writePages(pages)
	opened, closed := 0, 0
	newEv := func() *eng.Evaluator {
		ev := eng.NewEvaluator()
		ev.Steps = 80000000
		ev.MaxDepth = 120
		fileHooks(ev, len(file))
		inner := ev.External
		ev.External = func(g *ssa.Function, args []any) (any, *eng.EvalError, bool) {
			switch eng.FuncName(g) {
			case "os.Open":
				opened++
				return eng.ETuple{&eng.EBytesReader{Data: file}, nil}, nil, true
			case "os.(*File).Close":
				closed++
				return nil, nil, true
			}
			return inner(g, args)
		}
		return ev
	}
	type step = fluentStep
	ints := func(v ...int) any {
		var els []any
		for _, x := range v {
			els = append(els, int64(x))
		}
		return eng.SliceOf(els...)
	}
	// run: Open(name), the derivation steps, Text; the words, whether Text failed, the evaluation error
	run := func(steps []step, also func(ev *eng.Evaluator, first, last any) *eng.EvalError) (words []string, failed bool, err *eng.EvalError) {
		ev := newEv()
		e, err := ev.Call(open, []any{"report.pdf"}, 0)
		if err != nil {
			return nil, false, err
		}
		cur := e
		for _, st := range steps {
			cur, err = ev.Call(st.fn, append([]any{cur}, st.args...), 0)
			if err != nil {
				return nil, false, err
			}
		}
		got, err := ev.Call(textF, []any{cur}, 0)
		if err != nil {
			return nil, false, err
		}
		t, ok := got.(eng.ETuple)
		if !ok || len(t) != 3 {
			return nil, false, &eng.EvalError{Msg: "Text does not return (text, warnings, error)"}
		}
		if also != nil {
			if e2 := also(ev, e, cur); e2 != nil {
				return nil, false, e2
			}
		}
		// closing again is harmless
		if _, e3 := ev.Call(closeF, []any{cur}, 0); e3 != nil {
			return nil, false, e3
		}
		if t[2] != nil {
			return nil, true, nil
		}
		s, _ := t[0].(string)
		return strings.Fields(s), false, nil
	}
	wordsOfPages := func(ps ...int) []string {
		var out []string
		for _, p := range ps {
			out = append(out, "Running", "Title")
			out = append(out, body[p]...)
			out = append(out, "Page", fmt.Sprint(p))
		}
		return out
	}
	type sel struct {
		name  string
		steps []step
		want  []int // nil: an error is expected
	}
	sels := []sel{
		{"all pages", nil, []int{1, 2, 3, 4}},
		{"Pages(2)", []step{{pagesF, []any{ints(2)}}}, []int{2}},
		{"Pages(3, 1)", []step{{pagesF, []any{ints(3, 1)}}}, []int{1, 3}},
		{"Pages(1, 3)", []step{{pagesF, []any{ints(1, 3)}}}, []int{1, 3}},
		{"Pages(4, 2, 4, 2)", []step{{pagesF, []any{ints(4, 2, 4, 2)}}}, []int{2, 4}},
		{"PageRange(2, 3)", []step{{rangeF, []any{int64(2), int64(3)}}}, []int{2, 3}},
		{"Pages(4, 3, 2, 1)", []step{{pagesF, []any{ints(4, 3, 2, 1)}}}, []int{1, 2, 3, 4}},
		{"Pages(2, 1, 2)", []step{{pagesF, []any{ints(2, 1, 2)}}}, []int{1, 2}},
		{"Pages(4).Pages(2).Pages(4)", []step{{pagesF, []any{ints(4)}}, {pagesF, []any{ints(2)}}, {pagesF, []any{ints(4)}}}, []int{2, 4}},
		{"PageRange(2, 2)", []step{{rangeF, []any{int64(2), int64(2)}}}, []int{2}},
		{"PageRange(2, 3).Pages(1)", []step{{rangeF, []any{int64(2), int64(3)}}, {pagesF, []any{ints(1)}}}, []int{1, 2, 3}},
		{"Pages(3).PageRange(1, 2)", []step{{pagesF, []any{ints(3)}}, {rangeF, []any{int64(1), int64(2)}}}, []int{1, 2, 3}},
		{"PageRange(1, 5)", []step{{rangeF, []any{int64(1), int64(5)}}}, nil},
		{"PageRange(1, 4).Pages(8)", []step{{rangeF, []any{int64(1), int64(4)}}, {pagesF, []any{ints(8)}}}, nil},
		{"PageRange(5, 5)", []step{{rangeF, []any{int64(5), int64(5)}}}, nil},
		{"Pages(-1)", []step{{pagesF, []any{ints(-1)}}}, nil},
		{"Pages(5)", []step{{pagesF, []any{ints(5)}}}, nil},
		{"Pages(0)", []step{{pagesF, []any{ints(0)}}}, nil},
		{"Pages(2, 9)", []step{{pagesF, []any{ints(2, 9)}}}, nil},
	}
	for _, s := range sels {
		key := "tabula.(*Extractor).Text#" + s.name
		opened, closed = 0, 0
		words, failed, err := run(s.steps, nil)
		if err != nil && !err.Panic {
			c.Ok(R, key, textF.Pos(), "not evaluated: "+err.Msg)
			continue
		}
		bad := ""
		switch {
		case err != nil:
			bad = "the extractor is brought down: " + err.Msg
		case s.want == nil && !failed:
			bad = "a page number outside the document is accepted: " + strings.Join(words, " ")
		case s.want != nil && failed:
			bad = "the selection is refused"
		case s.want != nil && strings.Join(words, " ") != strings.Join(wordsOfPages(s.want...), " "):
			bad = fmt.Sprintf("the text is %q; the pages %v hold %q", strings.Join(words, " "), s.want, strings.Join(wordsOfPages(s.want...), " "))
		case opened != closed:
			bad = fmt.Sprintf("%d file handles were opened and %d closed", opened, closed)
		}
		c.Check(bad == "", R, key, textF.Pos(), fmt.Sprintf("the pages in ascending order; %d handles opened and closed", opened), "page selection through the fluent extractor: "+bad)
	}
	// derivation leaves the parent as it was
	{
		key := "tabula.(*Extractor).Pages#derivation"
		opened, closed = 0, 0
		var parentWords []string
		_, _, err := run([]step{{pagesF, []any{ints(2)}}}, func(ev *eng.Evaluator, first, _ any) *eng.EvalError {
			got, e := ev.Call(textF, []any{first}, 0)
			if e != nil {
				return e
			}
			if t, ok := got.(eng.ETuple); ok && len(t) == 3 && t[2] == nil {
				s, _ := t[0].(string)
				parentWords = strings.Fields(s)
			}
			return nil
		})
		switch {
		case err != nil && !err.Panic:
			c.Ok(R, key, pagesF.Pos(), "not evaluated: "+err.Msg)
		case err != nil:
			c.Viol(R, key, pagesF.Pos(), "the extractor is brought down: "+err.Msg)
		default:
			ok := strings.Join(parentWords, " ") == strings.Join(wordsOfPages(1, 2, 3, 4), " ")
			c.Check(ok && opened == closed, R, key, pagesF.Pos(), "the extractor Pages(2) was derived from still returns every page", fmt.Sprintf("after e.Pages(2) was derived and used, e.Text() returns %q (handles opened %d, closed %d): deriving changed the extractor it came from", strings.Join(parentWords, " "), opened, closed))
		}
	}
	// header and footer exclusion
	{
		key := "tabula.(*Extractor).Text#ExcludeHeadersAndFooters"
		opened, closed = 0, 0
		words, failed, err := run([]step{{exclF, nil}}, nil)
		var want []string
		for p := 1; p <= 4; p++ {
			want = append(want, body[p]...)
		}
		switch {
		case err != nil && !err.Panic:
			c.Ok(R, key, exclF.Pos(), "not evaluated: "+err.Msg)
		case err != nil:
			c.Viol(R, key, exclF.Pos(), "the extractor is brought down: "+err.Msg)
		default:
			c.Check(!failed && strings.Join(words, " ") == strings.Join(want, " ") && opened == closed, R, key, exclF.Pos(), "the running title and the page numbers are removed from every page, the body is unchanged", fmt.Sprintf("with header and footer exclusion the text is %q; the body of the pages is %q (handles opened %d, closed %d)", strings.Join(words, " "), strings.Join(want, " "), opened, closed))
		}
	}
	fluentMore(c, R, run, map[string]*ssa.Function{"Pages": pagesF, "PageRange": rangeF, "Excl": exclF, "Text": textF}, body, wordsOfPages, ints)
	{
		// a longer document: the running lines are removed from the late pages as from the early ones
		var long [][]pageLine
		var want []string
		for p := 1; p <= 24; p++ {
			ls := []pageLine{{72, 760, "Running Title"}}
			for k := 0; k < 3; k++ {
				w := fmt.Sprintf("late%dline%d text%dx%d", p, k, p, k)
				ls = append(ls, pageLine{72, 640 - 40*k, w})
				want = append(want, strings.Fields(w)...)
			}
			ls = append(ls, pageLine{290, 30, fmt.Sprintf("Page %d", p)})
			long = append(long, ls)
		}
		saved := file
		file = writePages(long)
		key := "tabula.(*Extractor).Text#ExcludeHeadersAndFooters on 24 pages"
		opened, closed = 0, 0
		words, failed, err := run([]step{{exclF, nil}}, nil)
		switch {
		case err != nil && !err.Panic:
			c.Ok(R, key, exclF.Pos(), "not evaluated: "+err.Msg)
		case err != nil:
			c.Viol(R, key, exclF.Pos(), "the extractor is brought down: "+err.Msg)
		default:
			got := strings.Join(words, " ")
			c.Check(!failed && got == strings.Join(want, " "), R, key, exclF.Pos(), "the running lines are removed from all 24 pages", "on a 24-page document the text with header and footer exclusion still holds running lines or lacks body text (first difference near "+firstDifference(got, strings.Join(want, " "))+")")
		}
		file = saved
	}
}

func firstDifference(a, b string) string {
	i := 0
	for i < len(a) && i < len(b) && a[i] == b[i] {
		i++
	}
	lo := i - 20
	if lo < 0 {
		lo = 0
	}
	hi := i + 30
	if hi > len(a) {
		hi = len(a)
	}
	return fmt.Sprintf("%q", a[lo:hi])
}

// fluentMore: exclusion combined with selections, a shared base derived from twice, an extractor used again.
func fluentMore(c *eng.Ctx, R string, run func(steps []fluentStep, also func(ev *eng.Evaluator, first, last any) *eng.EvalError) ([]string, bool, *eng.EvalError), fns map[string]*ssa.Function, body map[int][]string, all func(ps ...int) []string, ints func(v ...int) any) {
	pagesF, rangeF, exclF, textF := fns["Pages"], fns["PageRange"], fns["Excl"], fns["Text"]
	bodies := func(ps ...int) []string {
		var out []string
		for _, p := range ps {
			out = append(out, body[p]...)
		}
		return out
	}
	type sc struct {
		name  string
		steps []fluentStep
		want  []string
	}
	for _, s := range []sc{
		{"Pages(2).ExcludeHeadersAndFooters()", []fluentStep{{pagesF, []any{ints(2)}}, {exclF, nil}}, bodies(2)},
		{"ExcludeHeadersAndFooters().Pages(3, 1)", []fluentStep{{exclF, nil}, {pagesF, []any{ints(3, 1)}}}, bodies(1, 3)},
		{"PageRange(3, 3).ExcludeHeadersAndFooters()", []fluentStep{{rangeF, []any{int64(3), int64(3)}}, {exclF, nil}}, bodies(3)},
		{"ExcludeHeadersAndFooters().PageRange(2, 4)", []fluentStep{{exclF, nil}, {rangeF, []any{int64(2), int64(4)}}}, bodies(2, 3, 4)},
	} {
		key := "tabula.(*Extractor).Text#" + s.name
		words, failed, err := run(s.steps, nil)
		switch {
		case err != nil && !err.Panic:
			c.Ok(R, key, textF.Pos(), "not evaluated: "+err.Msg)
		case err != nil:
			c.Viol(R, key, textF.Pos(), "the extractor is brought down: "+err.Msg)
		default:
			c.Check(!failed && strings.Join(words, " ") == strings.Join(s.want, " "), R, key, textF.Pos(), "the body of the selected pages, without the running title and the page numbers", fmt.Sprintf("the text is %q; the body of the selected pages is %q (headers and footers are detected over the whole document)", strings.Join(words, " "), strings.Join(s.want, " ")))
		}
	}
	// one base, two derivations: base := Pages(1).Pages(2).Pages(3); a := base.Pages(4); b := base.Pages(1)
	{
		key := "tabula.(*Extractor).Pages#two extractors derived from one base"
		var aWords []string
		textOf := func(ev *eng.Evaluator, e any) ([]string, *eng.EvalError) {
			got, err := ev.Call(textF, []any{e}, 0)
			if err != nil {
				return nil, err
			}
			if t, ok := got.(eng.ETuple); ok && len(t) == 3 && t[2] == nil {
				sv, _ := t[0].(string)
				return strings.Fields(sv), nil
			}
			return []string{"(refused)"}, nil
		}
		bWords, _, err := run([]fluentStep{{pagesF, []any{ints(1)}}, {pagesF, []any{ints(2)}}, {pagesF, []any{ints(3)}}}, func(ev *eng.Evaluator, first, base any) *eng.EvalError {
			a, e := ev.Call(pagesF, []any{base, ints(4)}, 0)
			if e != nil {
				return e
			}
			if _, e = ev.Call(pagesF, []any{base, ints(1)}, 0); e != nil {
				return e
			}
			aWords, e = textOf(ev, a)
			return e
		})
		switch {
		case err != nil && !err.Panic:
			c.Ok(R, key, pagesF.Pos(), "not evaluated: "+err.Msg)
		case err != nil:
			c.Viol(R, key, pagesF.Pos(), "the extractor is brought down: "+err.Msg)
		default:
			ok := strings.Join(aWords, " ") == strings.Join(all(1, 2, 3, 4), " ") && strings.Join(bWords, " ") == strings.Join(all(1, 2, 3), " ")
			c.Check(ok, R, key, pagesF.Pos(), "each derived extractor has its own page list", fmt.Sprintf("base := Pages(1).Pages(2).Pages(3); a := base.Pages(4); base.Pages(1): a returns %q and the base %q - the derived extractors share the storage of the base's page list", strings.Join(aWords, " "), strings.Join(bWords, " ")))
		}
	}
	// the same extractor asked twice
	{
		key := "tabula.(*Extractor).Text#asked twice"
		var second []string
		first, failed, err := run([]fluentStep{{pagesF, []any{ints(4, 2)}}}, func(ev *eng.Evaluator, _ any, last any) *eng.EvalError {
			got, e := ev.Call(textF, []any{last}, 0)
			if e != nil {
				return e
			}
			if t, ok := got.(eng.ETuple); ok && len(t) == 3 && t[2] == nil {
				sv, _ := t[0].(string)
				second = strings.Fields(sv)
			} else {
				second = []string{"(refused)"}
			}
			return nil
		})
		switch {
		case err != nil && !err.Panic:
			c.Ok(R, key, textF.Pos(), "not evaluated: "+err.Msg)
		case err != nil:
			c.Viol(R, key, textF.Pos(), "the extractor is brought down: "+err.Msg)
		default:
			c.Check(!failed && strings.Join(first, " ") == strings.Join(all(2, 4), " ") && strings.Join(second, " ") == strings.Join(first, " "), R, key, textF.Pos(), "the second answer is the first", fmt.Sprintf("e := Pages(4, 2); e.Text() returns %q and then %q", strings.Join(first, " "), strings.Join(second, " ")))
		}
	}
}

// ---------------------------------------------------------------------------------------------------------------
// R11.15 header and footer detection on synthetic documents of fragments.

type hfFrag struct {
	text       string
	x, y, w, h float64
	role       string // "body": kept; "run": repeated marginal text or running page number, removed; "keep": marginal but not repeated, kept
}

type hfDoc struct {
	name    string
	heights []float64
	pages   [][]hfFrag
}

func hfDocs() []hfDoc {
	bodyOf := func(p int, extra ...hfFrag) []hfFrag {
		var out []hfFrag
		for k := 0; k < 4; k++ {
			out = append(out, hfFrag{fmt.Sprintf("body text of page %d line %d with several words", p, k), 72, 640 - 60*float64(k), 380, 11, "body"})
		}
		return append(out, extra...)
	}
	width := func(s string) float64 { return 5.5 * float64(len([]rune(s))) }
	mk := func(name string, n int, per func(p int) []hfFrag) hfDoc {
		d := hfDoc{name: name}
		for p := 1; p <= n; p++ {
			d.heights = append(d.heights, 792)
			d.pages = append(d.pages, per(p))
		}
		return d
	}
	run := func(s string, x, y float64) hfFrag { return hfFrag{s, x, y, width(s), 11, "run"} }
	keep := func(s string, x, y float64) hfFrag { return hfFrag{s, x, y, width(s), 11, "keep"} }
	var docs []hfDoc
	docs = append(docs, mk("a running title and Page N on four pages", 4, func(p int) []hfFrag {
		return append([]hfFrag{run("Quarterly Report", 72, 760)}, bodyOf(p, run(fmt.Sprintf("Page %d", p), 290, 30))...)
	}))
	docs = append(docs, mk("marginal text that does not repeat", 3, func(p int) []hfFrag {
		return append([]hfFrag{keep([]string{"Introduction", "Methods used here", "Closing remarks"}[p-1], 72+40*float64(p), 760)}, bodyOf(p, keep([]string{"first note", "another remark", "the end"}[p-1], 100*float64(p), 30))...)
	}))
	docs = append(docs, mk("twelve pages with 'Page N of 12'", 12, func(p int) []hfFrag {
		return append([]hfFrag{run("Operations Handbook", 72, 760)}, bodyOf(p, run(fmt.Sprintf("Page %d of 12", p), 270, 30))...)
	}))
	docs = append(docs, mk("a two-character running header", 3, func(p int) []hfFrag {
		return append([]hfFrag{run("概要", 72, 760)}, bodyOf(p)...)
	}))
	docs = append(docs, mk("a title at the left and a page number at the right of the header line", 4, func(p int) []hfFrag {
		return append([]hfFrag{run("Annual Review", 72, 760), run(fmt.Sprint(p), 530, 760)}, bodyOf(p)...)
	}))
	docs = append(docs, mk("a numeric body line and running page numbers", 4, func(p int) []hfFrag {
		return bodyOf(p, hfFrag{"2024", 72, 400, 22, 11, "body"}, hfFrag{fmt.Sprint(p + 6), 72, 340, 6, 11, "body"}, run(fmt.Sprintf("- %d -", p), 290, 30))
	}))
	docs = append(docs, mk("a page that holds only the running lines", 4, func(p int) []hfFrag {
		if p == 3 {
			return []hfFrag{run("Field Manual", 72, 760), run(fmt.Sprintf("Page %d", p), 290, 30)}
		}
		return append([]hfFrag{run("Field Manual", 72, 760)}, bodyOf(p, run(fmt.Sprintf("Page %d", p), 290, 30))...)
	}))
	docs = append(docs, mk("a running header with a trailing blank", 3, func(p int) []hfFrag {
		return append([]hfFrag{{"Operations Handbook ", 72, 760, 110, 11, "run"}}, bodyOf(p)...)
	}))
	docs = append(docs, mk("a title page without the header", 5, func(p int) []hfFrag {
		if p == 1 {
			return append([]hfFrag{keep("A Study of Things", 180, 760)}, bodyOf(p)...)
		}
		return append([]hfFrag{run("Study of Things", 72, 760)}, bodyOf(p, run(fmt.Sprint(p), 300, 30))...)
	}))
	docs = append(docs, mk("a running header with a year in it", 2, func(p int) []hfFrag {
		return append([]hfFrag{run("Annual Report 2024", 72, 760)}, bodyOf(p)...)
	}))
	docs = append(docs, mk("a title struck twice on one page only", 3, func(p int) []hfFrag {
		if p == 1 {
			return append([]hfFrag{keep("Bold Title", 72, 760), keep("Bold Title", 72.4, 760)}, bodyOf(p)...)
		}
		return bodyOf(p)
	}))
	docs = append(docs, mk("a header only, body lines that are numbers or read like the header", 4, func(p int) []hfFrag {
		return append([]hfFrag{run("Quarterly Report", 72, 760)}, bodyOf(p, hfFrag{"Quarterly Report", 72, 380, 88, 11, "body"}, hfFrag{fmt.Sprint(40 + p), 72, 300, 12, 11, "body"})...)
	}))
	docs = append(docs, mk("right-aligned page numbers that grow a digit", 12, func(p int) []hfFrag {
		n := fmt.Sprint(p)
		return append([]hfFrag{run("Width Matters", 72, 760)}, bodyOf(p, run(n, 540-width(n), 30))...)
	}))
	docs = append(docs, mk("a half-filled page without a page number whose last line is a number", 5, func(p int) []hfFrag {
		if p == 3 {
			return []hfFrag{{"body text of page 3 line 0 with several words", 72, 640, 380, 11, "body"}, {"body text of page 3 line 1 with several words", 72, 580, 380, 11, "body"}, {"1984", 72, 520, 22, 11, "body"}}
		}
		return bodyOf(p, run(fmt.Sprintf("Page %d", p), 290, 30))
	}))
	short := mk("a shorter first page", 4, func(p int) []hfFrag {
		top := 760.0
		if p == 1 {
			top = 580
		}
		return append([]hfFrag{run("Cover And Body", 72, top)}, bodyOf(p, run(fmt.Sprintf("Page %d", p), 290, 30))...)
	})
	short.heights = []float64{612, 792, 792, 792}
	for i := range short.pages[0] {
		if short.pages[0][i].role == "body" {
			short.pages[0][i].y -= 180
		}
	}
	docs = append(docs, short)
	tall := mk("pages of two heights with the header at the same distance from the top", 4, func(p int) []hfFrag {
		top := 760.0
		if p > 2 {
			top = 810
		}
		return append([]hfFrag{run("Mixed Sizes", 72, top)}, bodyOf(p, run(fmt.Sprintf("Page %d", p), 290, 30))...)
	})
	tall.heights = []float64{792, 792, 842, 842}
	docs = append(docs, tall)
	return docs
}

// R11.15 [C11]
func ruleHeaderFooterDetectionEvaluated(c *eng.Ctx) {
	const R = "R11.15-HEADER-FOOTER-DETECTION-EVALUATED"
	c.Rule(R, "layout.NewHeaderFooterDetector().Detect followed by FilterFragments on every page, evaluated on synthetic documents of line fragments (a running title and 'Page N'; marginal text that does not repeat; twelve pages with 'Page N of 12'; a two-character header; a title and a page number on one header line; numeric body lines beside running page numbers; a page holding only the running lines; a header with a trailing blank; a title page without the header; a header with a year; a title struck twice on one page only; pages of two heights): what comes back is the page's fragments in their order minus exactly the lines that repeat at a marginal position and the running page numbers - nothing of the body band and no marginal text that does not repeat is removed", 1, 0)
	newD := c.P.FuncExact("layout.NewHeaderFooterDetector")
	detect := c.P.FuncExact("layout.(*HeaderFooterDetector).Detect")
	filter := c.P.FuncExact("layout.(*HeaderFooterResult).FilterFragments")
	pfT, fragT := c.P.NamedType("layout", "PageFragments"), c.P.NamedType("text", "TextFragment")
	if newD == nil || detect == nil || filter == nil || pfT == nil || fragT == nil || len(detect.Params) != 2 || len(filter.Params) != 4 {
		c.Ok(R, "layout.(*HeaderFooterDetector).Detect", token.NoPos, "detector entry points not found: not evaluated")
		return
	}
	mkFrags := func(fs []hfFrag) *eng.ESlice {
		var els []any
		for _, f := range fs {
			v := eng.ZeroOf(fragT).(*eng.EStruct)
			eng.SetField(v, fragT, "Text", f.text)
			eng.SetField(v, fragT, "X", f.x)
			eng.SetField(v, fragT, "Y", f.y)
			eng.SetField(v, fragT, "Width", f.w)
			eng.SetField(v, fragT, "Height", f.h)
			eng.SetField(v, fragT, "FontSize", f.h)
			eng.SetField(v, fragT, "FontName", "F1")
			els = append(els, v)
		}
		return eng.SliceOf(els...)
	}
	for _, d := range hfDocs() {
		key := "layout.(*HeaderFooterDetector).Detect#" + d.name
		ev := eng.NewEvaluator()
		ev.Steps = 60000000
		ev.MaxDepth = 60
		var pages []any
		for i, fs := range d.pages {
			pv := eng.ZeroOf(pfT).(*eng.EStruct)
			eng.SetField(pv, pfT, "PageIndex", int64(i))
			eng.SetField(pv, pfT, "PageHeight", d.heights[i])
			eng.SetField(pv, pfT, "PageWidth", 612.0)
			eng.SetField(pv, pfT, "Fragments", mkFrags(fs))
			pages = append(pages, pv)
		}
		det, err := ev.Call(newD, nil, 0)
		var res any
		if err == nil {
			res, err = ev.Call(detect, []any{det, eng.SliceOf(pages...)}, 0)
		}
		bad := ""
		for i := 0; err == nil && bad == "" && i < len(d.pages); i++ {
			var got any
			got, err = ev.Call(filter, []any{res, int64(i), mkFrags(d.pages[i]), d.heights[i]}, 0)
			if err != nil {
				break
			}
			var out []string
			if sl, ok := got.(*eng.ESlice); ok {
				for _, l := range sl.L {
					if st, ok := l.V.(*eng.EStruct); ok {
						t, _ := evalField(st, fragT, "Text")
						out = append(out, fmt.Sprint(t))
					}
				}
			}
			var want []string
			for _, f := range d.pages[i] {
				if f.role != "run" {
					want = append(want, f.text)
				}
			}
			if strings.Join(out, " | ") != strings.Join(want, " | ") {
				bad = fmt.Sprintf("page %d comes back as %q; the page minus its repeated marginal lines and page numbers is %q", i+1, strings.Join(out, " | "), strings.Join(want, " | "))
			}
		}
		if err != nil && !err.Panic {
			c.Ok(R, key, detect.Pos(), "not evaluated: "+err.Msg)
			continue
		}
		if err != nil {
			bad = "the detector is brought down: " + err.Msg
		}
		c.Check(bad == "", R, key, detect.Pos(), fmt.Sprintf("%d pages filtered to their body and their unrepeated marginal text", len(d.pages)), "header and footer exclusion removes something else than repeated marginal text, or leaves it: "+bad)
	}
}

// ---------------------------------------------------------------------------------------------------------------
// R6.18 content streams cut off at every byte.

// R6.18 [C06, C02]
func ruleTruncatedContentEvaluated(c *eng.Ctx) {
	const R = "R6.18-TRUNCATED-CONTENT-EVALUATED"
	c.Rule(R, "contentstream.NewParser(data).Parse, evaluated on every prefix of a set of content streams (text operators with literal and hex strings, escapes and octal codes, arrays with numbers and strings, names with #xx, dictionaries and inline-image-like operands, comments, reals with signs and leading points, nested arrays, stray closing delimiters where an operator is expected, bad digits in hex strings): every prefix is answered with operations or an error within a bounded number of steps - the parser never reads past the end of a stream that is cut off and never stays on one byte", 1, 0)
	newCS := c.P.FuncExact("contentstream.NewParser")
	parseCS := c.P.FuncExact("contentstream.(*Parser).Parse")
	if newCS == nil || parseCS == nil || len(newCS.Params) != 1 || len(parseCS.Params) != 1 {
		c.Ok(R, "contentstream.(*Parser).Parse", token.NoPos, "parser entry points not found: not evaluated")
		return
	}
	streams := []string{
		"BT /F1 12 Tf 72 700 Td (Hello \\(world\\) \\101\\n) Tj ET",
		"BT [(A) -120.5 (B) +3 .5 -.25 <48 65 6C6c6F> 4.] TJ T* (x) ' 1 2 (y) \" ET",
		"q 1 0 0 1 10.5 -20 cm /Im#201 Do Q % trailing comment\n0.5 g 1 0 0 RG",
		"/Tag << /MCID 3 /Name /A#42 /K [1 2 <</X (y)>>] >> BDC EMC\n[ [1 [2 3]] (a(b)c) ] TJ",
		"10 20 m 30 40 l 10 10 50 50 re S f* B* W n <> Tj () Tj -0 Tw 00012 Tz",
		"true false null /N Tj (line\\\ncontinued \\8 \\) ) Tj <4> Tj",
		// delimiters where an operator is expected, and bad digits in a hex string
		"BT (Hello) Tj ) (World) Tj ET",
		"BT > Tj ] Tj } Tj { Tj >> Tj ET",
		"<4z5> Tj <zz Tj (a) Tj",
	}
	n, bad, skipped := 0, "", ""
	for _, s := range streams {
		for k := 0; k <= len(s) && bad == "" && skipped == ""; k++ {
			ev := eng.NewEvaluator()
			ev.Steps = 600000
			ev.MaxDepth = 60
			p, err := ev.Call(newCS, []any{eng.BytesOf([]byte(s[:k]))}, 0)
			if err == nil {
				_, err = ev.Call(parseCS, []any{p}, 0)
			}
			if err != nil && !err.Panic && strings.Contains(err.Msg, "step budget") {
				bad = fmt.Sprintf("the stream %q (cut off after %d bytes): the parser is still running after 600000 steps (a whole stream takes a few thousand)", s[:k], k)
				break
			}
			if err != nil && !err.Panic {
				skipped = fmt.Sprintf("%q: %s", s[:k], err.Msg)
				break
			}
			n++
			if err != nil {
				bad = fmt.Sprintf("the stream %q (cut off after %d bytes): %s", s[:k], k, err.Msg)
			}
		}
	}
	if skipped != "" {
		c.Ok(R, "contentstream.(*Parser).Parse", parseCS.Pos(), "not evaluated: "+skipped)
		return
	}
	c.Check(bad == "", R, "contentstream.(*Parser).Parse#prefixes", parseCS.Pos(), fmt.Sprintf("%d prefixes answered with operations or an error", n), "a content stream that is cut off brings the parser down: "+bad)
}

// ---------------------------------------------------------------------------------------------------------------
// R7.16 the encoding names select their own tables.

// R7.16 [C07]
func ruleEncodingNamesEvaluated(c *eng.Ctx) {
	const R = "R7.16-ENCODING-NAMES-EVALUATED"
	c.Rule(R, "font.GetEncoding(name).DecodeString, evaluated for the six encoding names of the PDF specification on the bytes that tell the encodings apart (0x80 in WinAnsi is the euro sign and in MacRoman A-dieresis; 0x18 in PDFDocEncoding is the breve; 0x27 and 0x60 in StandardEncoding are the curly quotes; 0x61 in Symbol is alpha; 0x21 in ZapfDingbats is the upper blade scissors; 0x41 is A in the four Latin encodings) and for an unknown name (WinAnsi): every name selects its own table", 1, 0)
	get := c.P.FuncExact("font.GetEncoding")
	if get == nil || len(get.Params) != 1 {
		c.Ok(R, "font.GetEncoding", token.NoPos, "font.GetEncoding not found: not evaluated")
		return
	}
	type pt struct {
		name string
		b    byte
		want string
	}
	pts := []pt{
		{"WinAnsiEncoding", 0x80, "€"}, {"WinAnsiEncoding", 0x41, "A"}, {"WinAnsiEncoding", 0xE9, "é"},
		{"MacRomanEncoding", 0x80, "Ä"}, {"MacRomanEncoding", 0x8E, "é"}, {"MacRomanEncoding", 0x41, "A"},
		{"PDFDocEncoding", 0x18, "˘"}, {"PDFDocEncoding", 0x41, "A"},
		{"StandardEncoding", 0x27, "’"}, {"StandardEncoding", 0x60, "‘"}, {"StandardEncoding", 0x41, "A"},
		{"SymbolEncoding", 0x61, "α"},
		{"ZapfDingbatsEncoding", 0x21, "✁"},
		{"NoSuchEncoding", 0x80, "€"},
	}
	n, bad, skipped := 0, "", ""
	for _, p := range pts {
		ev := eng.NewEvaluator()
		ev.Steps = 2000000
		enc, err := ev.Call(get, []any{p.name}, 0)
		var got any
		if err == nil {
			got, err = ev.Method(get.Prog, enc, "DecodeString", eng.BytesOf([]byte{p.b}))
			if err != nil && !err.Panic {
				var r any
				r, err = ev.Method(get.Prog, enc, "Decode", int64(p.b))
				if err == nil {
					if rv, ok := r.(int64); ok {
						got = string(rune(rv))
					}
				}
			}
		}
		if err != nil && !err.Panic {
			skipped = p.name + ": " + err.Msg
			break
		}
		n++
		if err != nil {
			bad = p.name + ": " + err.Msg
			break
		}
		if s, _ := got.(string); s != p.want {
			bad = fmt.Sprintf("GetEncoding(%q) decodes 0x%02X to %q; in that encoding it is %q", p.name, p.b, got, p.want)
			break
		}
	}
	if skipped != "" {
		c.Ok(R, "font.GetEncoding", get.Pos(), "not evaluated: "+skipped)
		return
	}
	c.Check(bad == "", R, "font.GetEncoding#names", get.Pos(), fmt.Sprintf("%d distinguishing bytes decoded", n), "an encoding name selects another encoding's table: "+bad)
}

func init() {
	eng.DecidedByEvaluation["R19.3-CACHE-KEY"] = []string{"R19.18-HTML-DOCUMENTS-EVALUATED"}
	eng.DecidedByEvaluation["R19.11-TABLE-SECTIONS"] = []string{"R19.18-HTML-DOCUMENTS-EVALUATED"}
	eng.DecidedByEvaluation["R7.2-NAME-DISPATCH"] = []string{"R7.16-ENCODING-NAMES-EVALUATED"}
	eng.DecidedByEvaluation["R2.17-CURSOR-READS-GUARDED"] = []string{"R6.18-TRUNCATED-CONTENT-EVALUATED"}
	eng.DecidedByEvaluation["R6.2-ESCAPES"] = []string{"R6.17-OBJECT-SPELLINGS-EVALUATED"}
	eng.DecidedByEvaluation["R5.1-FILTER-NAMES"] = []string{"R5.22-ASCII-CHAINS-EVALUATED"}
	eng.DecidedByEvaluation["R5.2-CHAIN-ORDER"] = []string{"R5.22-ASCII-CHAINS-EVALUATED"}
	eng.DecidedByEvaluation["R5.9-FILTER-PARMS-PARALLEL"] = []string{"R5.22-ASCII-CHAINS-EVALUATED"}
	eng.DecidedByEvaluation["R1.8-FILTER-PARMS-PARALLEL"] = []string{"R5.22-ASCII-CHAINS-EVALUATED"}
}

// ---------------------------------------------------------------------------------------------------------------
// R13.14 chunking with overlap, asked twice of one chunker.

// synthModelDocument builds a model.Document value of the evaluator from page descriptions (headings, paragraphs, lists).
func synthModelDocument(c *eng.Ctx, pagesSpec []synthDocPage) (any, bool) {
	docT, pageT, layT := c.P.NamedType("model", "Document"), c.P.NamedType("model", "Page"), c.P.NamedType("model", "PageLayout")
	headT, paraT, listT, itemT := c.P.NamedType("model", "HeadingInfo"), c.P.NamedType("model", "ParagraphInfo"), c.P.NamedType("model", "ListInfo"), c.P.NamedType("model", "ListItem")
	if docT == nil || pageT == nil || layT == nil || headT == nil || paraT == nil || listT == nil || itemT == nil {
		return nil, false
	}
	ptr := func(v any) *eng.EPtr {
		loc := &eng.ELoc{V: v}
		return &eng.EPtr{Get: func() any { return loc.V }, Set: func(x any) { loc.V = x }, Loc: loc}
	}
	var pages []any
	for pi, sp := range pagesSpec {
		lay := eng.ZeroOf(layT).(*eng.EStruct)
		var hs, ps, ls []any
		for _, h := range sp.headings {
			hv := eng.ZeroOf(headT).(*eng.EStruct)
			eng.SetField(hv, headT, "Level", int64(h[0].(int)))
			eng.SetField(hv, headT, "Text", h[1].(string))
			eng.SetField(hv, headT, "Confidence", 0.9)
			hs = append(hs, hv)
		}
		for i, p := range sp.paras {
			pv := eng.ZeroOf(paraT).(*eng.EStruct)
			eng.SetField(pv, paraT, "Index", int64(i))
			eng.SetField(pv, paraT, "Text", p)
			ps = append(ps, pv)
		}
		for _, l := range sp.lists {
			lv := eng.ZeroOf(listT).(*eng.EStruct)
			var its []any
			for _, it := range l.items {
				iv := eng.ZeroOf(itemT).(*eng.EStruct)
				eng.SetField(iv, itemT, "Text", it)
				eng.SetField(iv, itemT, "Bullet", "•")
				its = append(its, iv)
			}
			eng.SetField(lv, listT, "Items", eng.SliceOf(its...))
			eng.SetField(lv, listT, "Type", int64(1))
			ls = append(ls, lv)
		}
		eng.SetField(lay, layT, "Headings", eng.SliceOf(hs...))
		eng.SetField(lay, layT, "Paragraphs", eng.SliceOf(ps...))
		eng.SetField(lay, layT, "Lists", eng.SliceOf(ls...))
		pg := eng.ZeroOf(pageT).(*eng.EStruct)
		eng.SetField(pg, pageT, "Number", int64(pi+1))
		eng.SetField(pg, pageT, "Width", 612.0)
		eng.SetField(pg, pageT, "Height", 792.0)
		eng.SetField(pg, pageT, "Layout", ptr(lay))
		pages = append(pages, ptr(pg))
	}
	doc := eng.ZeroOf(docT).(*eng.EStruct)
	eng.SetField(doc, docT, "Pages", eng.SliceOf(pages...))
	return ptr(doc), true
}

// R13.14 [C13, C03]
func ruleOverlapAskedTwiceEvaluated(c *eng.Ctx) {
	const R = "R13.14-OVERLAP-ASKED-TWICE-EVALUATED"
	c.Rule(R, "rag.(*Chunker).ChunkWithOverlapEnabled, evaluated three times in a row on one chunker and one document (a long section that is split into several chunks): every call returns the same chunk texts and overlaps, and the result of rag.(*Chunker).Chunk on the same document is the same before and after - the overlap of a chunk is cut from its predecessor's own content, not from text that already carries an overlap", 1, 0)
	newC := c.P.FuncExact("rag.NewChunker")
	chunk := c.P.FuncExact("rag.(*Chunker).Chunk")
	over := c.P.FuncExact("rag.(*Chunker).ChunkWithOverlapEnabled")
	if newC == nil || chunk == nil || over == nil || len(over.Params) != 2 {
		c.Ok(R, "rag.(*Chunker).ChunkWithOverlapEnabled", token.NoPos, "chunker entry points not found: not evaluated")
		return
	}
	_, docs := synthDocuments()
	doc, ok := synthModelDocument(c, docs["a long section with a minor heading before a list introduction"])
	if !ok {
		c.Ok(R, "rag.(*Chunker).ChunkWithOverlapEnabled", over.Pos(), "not evaluated: document types not found")
		return
	}
	ev := eng.NewEvaluator()
	ev.Steps = 60000000
	ev.MaxDepth = 40
	var dumps []string
	ck, err := ev.Call(newC, nil, 0)
	for _, fn := range []*ssa.Function{chunk, over, over, over, chunk} {
		if err != nil {
			break
		}
		var got any
		got, err = ev.Call(fn, []any{ck, doc}, 0)
		if err == nil {
			if t, ok := got.(eng.ETuple); ok && len(t) == 2 && t[1] == nil {
				chs, _ := evalField(t[0], fn.Signature.Results().At(0).Type(), "Chunks")
				dumps = append(dumps, dumpVal(chs, 0))
			} else {
				dumps = append(dumps, "(refused)")
			}
		}
	}
	if err != nil && !err.Panic {
		c.Ok(R, "rag.(*Chunker).ChunkWithOverlapEnabled", over.Pos(), "not evaluated: "+err.Msg)
		return
	}
	bad := ""
	switch {
	case err != nil:
		bad = "the chunker is brought down: " + err.Msg
	case len(dumps) == 5 && (dumps[1] != dumps[2] || dumps[2] != dumps[3]):
		bad = "the second or third call returns other chunks than the first: what a call returns depends on the calls before it"
	case len(dumps) == 5 && dumps[0] != dumps[4]:
		bad = "Chunk returns other chunks after the overlap calls than before them: the calls write into chunks they share"
	}
	c.Check(bad == "", R, "rag.(*Chunker).ChunkWithOverlapEnabled#asked three times", over.Pos(), "three calls and the plain chunking before and after agree", bad)
}

// ---------------------------------------------------------------------------------------------------------------
// R17.19 workbooks written by the rule, read by xlsx.Open in the evaluator.

type zipMember struct {
	name string
	data string
}

// zipHooks stands a list of members in for the archive a reader opens with zip.OpenReader: the *zip.ReadCloser value
// is built from the library's own types, (*zip.File).Open gives a reader over the member's bytes. encoding/xml is
// answered by the library on a type of the repository's shape (eng/xmlmodel.go).
func zipHooks(ev *eng.Evaluator, members []zipMember, opened, closed *int) {
	contents := map[*eng.EStruct][]byte{}
	fieldType := func(t types.Type, name string) (int, types.Type) {
		st, ok := t.Underlying().(*types.Struct)
		if !ok {
			return -1, nil
		}
		for i := 0; i < st.NumFields(); i++ {
			if st.Field(i).Name() == name {
				return i, st.Field(i).Type()
			}
		}
		return -1, nil
	}
	ptr := func(v any) *eng.EPtr {
		loc := &eng.ELoc{V: v}
		return &eng.EPtr{Get: func() any { return loc.V }, Set: func(x any) { loc.V = x }, Loc: loc}
	}
	ev.External = func(g *ssa.Function, args []any) (any, *eng.EvalError, bool) {
		switch eng.FuncName(g) {
		case "archive/zip.OpenReader":
			pt, ok := g.Signature.Results().At(0).Type().Underlying().(*types.Pointer)
			if !ok {
				return nil, nil, false
			}
			rcT := pt.Elem()
			rc, _ := eng.ZeroOf(rcT).(*eng.EStruct)
			ri, rdrT := fieldType(rcT, "Reader")
			if rc == nil || ri < 0 {
				return nil, nil, false
			}
			rdr, _ := rc.F[ri].(*eng.EStruct)
			fi, filesT := fieldType(rdrT, "File")
			if rdr == nil || fi < 0 {
				return nil, nil, false
			}
			fpt, ok := filesT.Underlying().(*types.Slice).Elem().Underlying().(*types.Pointer)
			if !ok {
				return nil, nil, false
			}
			fileT := fpt.Elem()
			hi, hdrT := fieldType(fileT, "FileHeader")
			var files []any
			for _, m := range members {
				fv, _ := eng.ZeroOf(fileT).(*eng.EStruct)
				if fv == nil || hi < 0 {
					return nil, nil, false
				}
				hdr, _ := fv.F[hi].(*eng.EStruct)
				if hdr == nil || !eng.SetField(hdr, hdrT, "Name", m.name) {
					return nil, nil, false
				}
				eng.SetField(hdr, hdrT, "UncompressedSize64", int64(len(m.data)))
				contents[fv] = []byte(m.data)
				files = append(files, ptr(fv))
			}
			rdr.F[fi] = eng.SliceOf(files...)
			*opened++
			return eng.ETuple{ptr(rc), nil}, nil, true
		case "archive/zip.(*File).Open":
			if p, ok := args[0].(*eng.EPtr); ok && p != nil {
				if fv, ok := p.Get().(*eng.EStruct); ok {
					if data, ok := contents[fv]; ok {
						return eng.ETuple{&eng.EBytesReader{Data: data}, nil}, nil, true
					}
				}
			}
		case "archive/zip.(*ReadCloser).Close":
			*closed++
			return nil, nil, true
		}
		return nil, nil, false
	}
}

// R17.19 [C17, C18]
func ruleWorkbooksEvaluated(c *eng.Ctx) {
	const R = "R17.19-WORKBOOKS-EVALUATED"
	c.Rule(R, "xlsx.Open followed by Sheet(i).Rows and TextWithOptions, evaluated on a workbook the rule writes as archive members (three worksheets declared in an order that is neither archive order nor file-name order, one of them by a package-absolute target outside xl/, with an undeclared part at the same path below xl/; shared, inline, formula-cached, boolean, error and numeric cells; rows and cells out of order and far apart; a merged region with values stored under its covered cells; a second merged region beyond the data) behind a stand-in for archive/zip, with encoding/xml answered by the library on the repository's own struct shapes: the sheets come in workbook order under their declared names, every cell's value is at the row and column its reference names, a merged region shows its top-left value and blanks elsewhere, and the tab-separated text has line r, field c", 1, 0)
	open := c.P.FuncExact("xlsx.Open")
	sheetF := c.P.FuncExact("xlsx.(*Reader).Sheet")
	textF := c.P.FuncExact("xlsx.(*Reader).Text")
	countF := c.P.FuncExact("xlsx.(*Reader).SheetCount")
	sheetT := c.P.NamedType("xlsx", "Sheet")
	cellT := c.P.NamedType("xlsx", "Cell")
	if open == nil || sheetF == nil || textF == nil || countF == nil || sheetT == nil || cellT == nil {
		c.Ok(R, "xlsx.Open", token.NoPos, "xlsx entry points not found: not evaluated")
		return
	}
	ws := func(rows string, merges string) string {
		m := ""
		if merges != "" {
			m = "<mergeCells>" + merges + "</mergeCells>"
		}
		return `<?xml version="1.0" encoding="UTF-8"?><worksheet xmlns="http://schemas.openxmlformats.org/spreadsheetml/2006/main"><sheetData>` + rows + `</sheetData>` + m + `</worksheet>`
	}
	members := []zipMember{
		{"[Content_Types].xml", `<?xml version="1.0"?><Types xmlns="http://schemas.openxmlformats.org/package/2006/content-types"></Types>`},
		{"xl/worksheets/sheet1.xml", ws(`<row r="1"><c r="A1" t="s"><v>0</v></c></row>`, "")},
		{"xl/worksheets/sheet3.xml", ws(`<row r="2"><c r="C2" t="inlineStr"><is><t>inl</t></is></c><c r="A2" t="b"><v>1</v></c></row><row r="1"><c r="B1"><v>42</v></c><c r="D1" t="e"><v>#DIV/0!</v></c><c r="A1" t="str"><f>A2</f><v>cached</v></c></row>`, "")},
		{"xl/workbook.xml", `<?xml version="1.0"?><workbook xmlns="http://schemas.openxmlformats.org/spreadsheetml/2006/main" xmlns:r="http://schemas.openxmlformats.org/officeDocument/2006/relationships"><sheets><sheet name="Third" sheetId="7" r:id="rId3"/><sheet name="First" sheetId="2" r:id="rId1"/><sheet name="Merged" sheetId="5" r:id="rId9"/></sheets></workbook>`},
		{"xl/_rels/workbook.xml.rels", `<?xml version="1.0"?><Relationships xmlns="http://schemas.openxmlformats.org/package/2006/relationships"><Relationship Id="rId1" Type="http://schemas.openxmlformats.org/officeDocument/2006/relationships/worksheet" Target="worksheets/sheet1.xml"/><Relationship Id="rId9" Type="http://schemas.openxmlformats.org/officeDocument/2006/relationships/worksheet" Target="/data/q3.xml"/><Relationship Id="rId3" Type="http://schemas.openxmlformats.org/officeDocument/2006/relationships/worksheet" Target="worksheets/sheet3.xml"/><Relationship Id="rId4" Type="http://schemas.openxmlformats.org/officeDocument/2006/relationships/sharedStrings" Target="sharedStrings.xml"/></Relationships>`},
		{"xl/sharedStrings.xml", `<?xml version="1.0"?><sst xmlns="http://schemas.openxmlformats.org/spreadsheetml/2006/main" count="3" uniqueCount="3"><si><t>shared0</t></si><si><r><t>rich</t></r><r><t>text</t></r></si><si><t>m-root</t></si></sst>`},
		{"xl/data/q3.xml", ws(`<row r="1"><c r="A1"><v>31337</v></c></row>`, "")},
		{"data/q3.xml", ws(`<row r="1"><c r="A1" t="s"><v>2</v></c><c r="B1"><v>777</v></c><c r="C1" t="s"><v>1</v></c></row><row r="2"><c r="A2"><v>888</v></c><c r="B2"><v>999</v></c><c r="C2"><v>5</v></c></row><row r="4"><c r="AB4"><v>28</v></c></row>`, `<mergeCell ref="F10:G11"/><mergeCell ref="A1:B2"/>`)},
	}
	type cell struct {
		r, c int
		v    string
	}
	wantSheets := []struct {
		name  string
		cells []cell
	}{
		{"Third", []cell{{0, 0, "cached"}, {0, 1, "42"}, {0, 3, "#DIV/0!"}, {1, 0, "TRUE"}, {1, 2, "inl"}}},
		{"First", []cell{{0, 0, "shared0"}}},
		{"Merged", []cell{{0, 0, "m-root"}, {0, 2, "richtext"}, {1, 2, "5"}, {3, 27, "28"}}},
	}
	ev := eng.NewEvaluator()
	ev.Steps = 80000000
	ev.MaxDepth = 60
	opened, closed := 0, 0
	zipHooks(ev, members, &opened, &closed)
	key := "xlsx.Open#a workbook of three sheets"
	rd, err := ev.Call(open, []any{"book.xlsx"}, 0)
	fail := func(e *eng.EvalError) bool {
		if e == nil {
			return false
		}
		if e.Panic {
			c.Viol(R, key, open.Pos(), "the reader is brought down: "+e.Msg)
		} else {
			c.Ok(R, key, open.Pos(), "not evaluated: "+e.Msg)
		}
		return true
	}
	if fail(err) {
		return
	}
	tup, ok := rd.(eng.ETuple)
	if !ok || len(tup) != 2 {
		c.Ok(R, key, open.Pos(), "not evaluated: Open does not return (reader, error)")
		return
	}
	if tup[1] != nil {
		msg := ""
		if ee, ok := tup[1].(*eng.EErr); ok {
			msg = ee.Msg
		}
		c.Viol(R, key, open.Pos(), "a well-formed workbook is refused: "+msg)
		return
	}
	bad := ""
	cnt, err := ev.Call(countF, []any{tup[0]}, 0)
	if fail(err) {
		return
	}
	if n, _ := cnt.(int64); int(n) != len(wantSheets) {
		bad = fmt.Sprintf("%d sheets are reported, the workbook declares %d", n, len(wantSheets))
	}
	for si := 0; si < len(wantSheets) && bad == ""; si++ {
		got, err := ev.Call(sheetF, []any{tup[0], int64(si)}, 0)
		if fail(err) {
			return
		}
		st, ok := got.(eng.ETuple)
		if !ok || len(st) != 2 || st[1] != nil {
			bad = fmt.Sprintf("sheet %d is not handed out", si)
			break
		}
		name, _ := evalField(st[0], types.NewPointer(sheetT), "Name")
		if name != wantSheets[si].name {
			bad = fmt.Sprintf("sheet %d is %q, the workbook declares %q at that position", si+1, name, wantSheets[si].name)
			break
		}
		rowsV, _ := evalField(st[0], types.NewPointer(sheetT), "Rows")
		rows, _ := rowsV.(*eng.ESlice)
		at := func(r, cc int) (string, bool) {
			if rows == nil || r >= len(rows.L) {
				return "", false
			}
			row, _ := rows.L[r].V.(*eng.ESlice)
			if row == nil || cc >= len(row.L) {
				return "", false
			}
			v, _ := evalField(row.L[cc].V, cellT, "Value")
			s, _ := v.(string)
			return s, true
		}
		want := map[[2]int]string{}
		for _, wc := range wantSheets[si].cells {
			want[[2]int{wc.r, wc.c}] = wc.v
			if v, ok := at(wc.r, wc.c); !ok || v != wc.v {
				bad = fmt.Sprintf("sheet %q: the cell at row %d, column %d holds %q (in the grid: %v); its reference places %q there", wantSheets[si].name, wc.r+1, wc.c+1, v, ok, wc.v)
				break
			}
		}
		// nothing anywhere else, except the raw values under a merged region, which the renderers blank
		for r := 0; rows != nil && r < len(rows.L) && bad == ""; r++ {
			row, _ := rows.L[r].V.(*eng.ESlice)
			for cc := 0; row != nil && cc < len(row.L); cc++ {
				v, _ := at(r, cc)
				if _, isWant := want[[2]int{r, cc}]; !isWant && v != "" {
					merged, _ := evalField(row.L[cc].V, cellT, "IsMerged")
					if m, _ := merged.(bool); !m {
						bad = fmt.Sprintf("sheet %q: row %d, column %d holds %q, no cell of the file is addressed there", wantSheets[si].name, r+1, cc+1, v)
					}
				}
			}
		}
	}
	if bad == "" {
		txt, err := ev.Call(textF, []any{tup[0]}, 0)
		if fail(err) {
			return
		}
		if tt, ok := txt.(eng.ETuple); ok && len(tt) == 2 && tt[1] == nil {
			s, _ := tt[0].(string)
			lines := strings.Split(s, "\n")
			find := func(first string) []string {
				for _, l := range lines {
					f := strings.Split(l, "\t")
					if f[0] == first {
						return f
					}
				}
				return nil
			}
			if f := find("cached"); len(f) < 4 || f[1] != "42" || f[2] != "" || f[3] != "#DIV/0!" {
				bad = fmt.Sprintf("the text line of row 1 of sheet Third is %q; field c is column c: cached, 42, (empty), #DIV/0!", strings.Join(f, "\\t"))
			} else if f := find("m-root"); len(f) < 3 || f[1] != "" || f[2] != "richtext" {
				bad = fmt.Sprintf("the text line of row 1 of sheet Merged is %q; the merged region shows m-root at its top-left and a blank under it, then richtext", strings.Join(f, "\\t"))
			} else if strings.Index(s, "cached") > strings.Index(s, "shared0") || strings.Index(s, "shared0") > strings.Index(s, "m-root") {
				bad = "the text does not present the sheets in workbook order (Third, First, Merged)"
			} else if strings.Contains(s, "888") || strings.Contains(s, "999") || strings.Contains(s, "777") {
				bad = "values stored under the covered cells of the merged region A1:B2 appear in the text"
			} else if strings.Contains(s, "31337") {
				bad = "the text holds the content of xl/data/q3.xml, a part no relationship leads to (the sheet is declared at /data/q3.xml)"
			}
		}
	}
	c.Check(bad == "", R, key, open.Pos(), "three sheets in workbook order, every cell where its reference places it", "a workbook is not read as it is written: "+bad)
}

// ---------------------------------------------------------------------------------------------------------------
// R18.21 a presentation and a book written by the rule: parts in declared order.

// R18.21 [C18]
func ruleContainersInDeclaredOrderEvaluated(c *eng.Ctx) {
	const R = "R18.21-CONTAINERS-IN-DECLARED-ORDER-EVALUATED"
	c.Rule(R, "pptx.Open(...).Text/SlideCount and epubdoc.Open(...).Text/Chapters, evaluated on a presentation and a book the rule writes as archive members behind a stand-in for archive/zip (slides declared in an order that is neither archive order nor file-name order, one by a package-absolute target, an unreferenced slide part as a decoy; spine items in an order of their own with a percent-encoded href, a href that climbs out of the package directory, and a manifest item that is not in the spine): the parts come in the declared order, each declared readable part once, nothing undeclared, and the count is the number of declared parts", 1, 0)
	slide := func(title, body string) string {
		return `<?xml version="1.0"?><p:sld xmlns:p="http://schemas.openxmlformats.org/presentationml/2006/main" xmlns:a="http://schemas.openxmlformats.org/drawingml/2006/main"><p:cSld><p:spTree><p:sp><p:nvSpPr><p:cNvPr id="2" name="Title"/><p:cNvSpPr/><p:nvPr><p:ph type="title"/></p:nvPr></p:nvSpPr><p:spPr/><p:txBody><a:bodyPr/><a:p><a:r><a:t>` + title + `</a:t></a:r></a:p></p:txBody></p:sp><p:sp><p:nvSpPr><p:cNvPr id="3" name="Body"/><p:cNvSpPr/><p:nvPr><p:ph idx="1"/></p:nvPr></p:nvSpPr><p:spPr/><p:txBody><a:bodyPr/><a:p><a:r><a:t>` + body + `</a:t></a:r></a:p></p:txBody></p:sp></p:spTree></p:cSld></p:sld>`
	}
	type check struct {
		name    string
		open    string
		count   string
		members []zipMember
		order   []string // words in the order the text must show them
		absent  []string
		n       int64
	}
	const relNS = `xmlns="http://schemas.openxmlformats.org/package/2006/relationships"`
	const slideRel = `Type="http://schemas.openxmlformats.org/officeDocument/2006/relationships/slide"`
	checks := []check{
		{
			name: "a presentation of three slides", open: "pptx.Open", count: "pptx.(*Reader).SlideCount", n: 3,
			members: []zipMember{
				{"[Content_Types].xml", `<?xml version="1.0"?><Types xmlns="http://schemas.openxmlformats.org/package/2006/content-types"></Types>`},
				{"ppt/slides/slide1.xml", slide("DecoyTitle", "decoybody")},
				{"ppt/slides/slide2.xml", slide("TitleTwo", "bodytwo")},
				{"ppt/slides/slide10.xml", slide("TitleTen", "bodyten")},
				{"ppt/slides/intro.xml", slide("TitleIntro", "bodyintro")},
				{"ppt/presentation.xml", `<?xml version="1.0"?><p:presentation xmlns:p="http://schemas.openxmlformats.org/presentationml/2006/main" xmlns:r="http://schemas.openxmlformats.org/officeDocument/2006/relationships"><p:sldIdLst><p:sldId id="256" r:id="rId3"/><p:sldId id="257" r:id="rId1"/><p:sldId id="258" r:id="rId2"/></p:sldIdLst><p:sldSz cx="9144000" cy="6858000"/><p:extLst><p:ext uri="{521415D9-36F7-43E2-AB2F-B90AF26B5E84}"><p14:sectionLst xmlns:p14="http://schemas.microsoft.com/office/powerpoint/2010/main"><p14:section name="One" id="{A}"><p14:sldIdLst><p14:sldId id="257"/><p14:sldId id="256"/></p14:sldIdLst></p14:section><p14:section name="Two" id="{B}"><p14:sldIdLst><p14:sldId id="258"/></p14:sldIdLst></p14:section></p14:sectionLst></p:ext></p:extLst></p:presentation>`},
				{"ppt/_rels/presentation.xml.rels", `<?xml version="1.0"?><Relationships ` + relNS + `><Relationship Id="rId1" ` + slideRel + ` Target="slides/slide2.xml"/><Relationship Id="rId2" ` + slideRel + ` Target="/ppt/slides/intro.xml"/><Relationship Id="rId3" ` + slideRel + ` Target="slides/slide10.xml"/></Relationships>`},
			},
			order:  []string{"TitleTen", "bodyten", "TitleTwo", "bodytwo", "TitleIntro", "bodyintro"},
			absent: []string{"DecoyTitle", "decoybody"},
		},
		{
			name: "a book of three chapters", open: "epubdoc.Open", count: "epubdoc.(*Reader).ChapterCount", n: 3,
			members: []zipMember{
				{"mimetype", "application/epub+zip"},
				{"META-INF/container.xml", `<?xml version="1.0"?><container version="1.0" xmlns="urn:oasis:names:tc:opendocument:xmlns:container"><rootfiles><rootfile full-path="OEBPS/content.opf" media-type="application/oebps-package+xml"/></rootfiles></container>`},
				{"OEBPS/text/a.xhtml", `<html xmlns="http://www.w3.org/1999/xhtml"><head><title>A</title></head><body><p>alphachapter</p></body></html>`},
				{"OEBPS/text/ch one.xhtml", `<html xmlns="http://www.w3.org/1999/xhtml"><head><title>B</title></head><body><p>bravochapter</p></body></html>`},
				{"extra/c.xhtml", `<html xmlns="http://www.w3.org/1999/xhtml"><head><title>C</title></head><body><p>charliechapter</p></body></html>`},
				{"OEBPS/text/unlisted.xhtml", `<html xmlns="http://www.w3.org/1999/xhtml"><head><title>U</title></head><body><p>unlistedchapter</p></body></html>`},
				{"OEBPS/content.opf", `<?xml version="1.0"?><package xmlns="http://www.idpf.org/2007/opf" version="3.0" unique-identifier="id"><metadata xmlns:dc="http://purl.org/dc/elements/1.1/"><dc:title>Book</dc:title><dc:identifier id="id">x</dc:identifier><dc:language>en</dc:language></metadata><manifest><item id="a" href="text/a.xhtml" media-type="application/xhtml+xml"/><item id="b" href="text/ch%20one.xhtml" media-type="application/xhtml+xml"/><item id="c" href="../extra/c.xhtml" media-type="application/xhtml+xml"/><item id="u" href="text/unlisted.xhtml" media-type="application/xhtml+xml"/></manifest><spine><itemref idref="b"/><itemref idref="c"/><itemref idref="a"/></spine></package>`},
			},
			order:  []string{"bravochapter", "charliechapter", "alphachapter"},
			absent: []string{"unlistedchapter"},
		},
	}
	xh := func(w string) string {
		return `<html xmlns="http://www.w3.org/1999/xhtml"><head><title>T</title></head><body><p>` + w + `</p></body></html>`
	}
	checks = append(checks, check{
		name: "a book whose package file lies at the archive root", open: "epubdoc.Open", count: "epubdoc.(*Reader).ChapterCount", n: 4,
		members: []zipMember{
			{"mimetype", "application/epub+zip"},
			{"META-INF/container.xml", `<?xml version="1.0"?><container version="1.0" xmlns="urn:oasis:names:tc:opendocument:xmlns:container"><rootfiles><rootfile full-path="content.opf" media-type="application/oebps-package+xml"/></rootfiles></container>`},
			{"text/one.xhtml", xh("rootone")}, {"b.xhtml", xh("roottwo")}, {"cover.xhtml", xh("rootcover")}, {"text/three.xhtml", xh("rootthree")},
			{"content.opf", `<?xml version="1.0"?><package xmlns="http://www.idpf.org/2007/opf" version="3.0" unique-identifier="id"><metadata xmlns:dc="http://purl.org/dc/elements/1.1/"><dc:title>Root</dc:title><dc:identifier id="id">y</dc:identifier><dc:language>en</dc:language></metadata><manifest><item id="one" href="./text/one.xhtml" media-type="application/xhtml+xml"/><item id="two" href="text/../b.xhtml" media-type="application/xhtml+xml"/><item id="cover" href="cover.xhtml" media-type="application/xhtml+xml"/><item id="three" href="text/three.xhtml" media-type="application/xhtml+xml"/></manifest><spine><itemref idref="cover" linear="no"/><itemref idref="one"/><itemref idref="two"/><itemref idref="three"/></spine></package>`},
		},
		order: []string{"rootcover", "rootone", "roottwo", "rootthree"},
	})
	for _, ck := range checks {
		key := ck.open + "#" + ck.name
		open := c.P.FuncExact(ck.open)
		countF := c.P.FuncExact(ck.count)
		textF := c.P.FuncExact(strings.Replace(ck.open, ".Open", ".(*Reader).Text", 1))
		if open == nil || countF == nil || textF == nil {
			c.Ok(R, key, token.NoPos, "entry points not found: not evaluated")
			continue
		}
		ev := eng.NewEvaluator()
		ev.Steps = 80000000
		ev.MaxDepth = 200
		opened, closed := 0, 0
		zipHooks(ev, ck.members, &opened, &closed)
		rd, err := ev.Call(open, []any{"file.bin"}, 0)
		bad := ""
		var text string
		if err == nil {
			tup, ok := rd.(eng.ETuple)
			switch {
			case !ok || len(tup) != 2:
				err = &eng.EvalError{Msg: "Open does not return (reader, error)"}
			case tup[1] != nil:
				msg := ""
				if ee, ok := tup[1].(*eng.EErr); ok {
					msg = ee.Msg
				}
				bad = "a well-formed file is refused: " + msg
			default:
				var cnt, txt any
				cnt, err = ev.Call(countF, []any{tup[0]}, 0)
				if err == nil {
					if ct, ok := cnt.(eng.ETuple); ok && len(ct) > 0 {
						cnt = ct[0]
					}
					if n, _ := cnt.(int64); n != ck.n {
						bad = fmt.Sprintf("%d parts are counted, %d are declared and readable", n, ck.n)
					}
					txt, err = ev.Call(textF, []any{tup[0]}, 0)
				}
				if err == nil {
					if tt, ok := txt.(eng.ETuple); ok && len(tt) == 2 && tt[1] == nil {
						text, _ = tt[0].(string)
					} else {
						bad = "Text fails on a well-formed file"
					}
				}
			}
		}
		if err != nil && !err.Panic {
			c.Ok(R, key, open.Pos(), "not evaluated: "+err.Msg)
			continue
		}
		if err != nil {
			bad = "the reader is brought down: " + err.Msg
		}
		if bad == "" {
			last := -1
			for _, w := range ck.order {
				i := strings.Index(text, w)
				switch {
				case i < 0:
					bad = fmt.Sprintf("%q, a word of a declared part, is not in the text", w)
				case strings.Count(text, w) != 1:
					bad = fmt.Sprintf("%q is in the text %d times", w, strings.Count(text, w))
				case i < last:
					bad = fmt.Sprintf("%q comes before the part declared ahead of it: the parts are not in declared order", w)
				}
				if bad != "" {
					break
				}
				last = i
			}
			for _, w := range ck.absent {
				if bad == "" && strings.Contains(text, w) {
					bad = fmt.Sprintf("%q is in the text although no declaration leads to its part", w)
				}
			}
		}
		c.Check(bad == "", R, key, open.Pos(), fmt.Sprintf("%d parts in declared order, nothing undeclared", ck.n), "the parts of a container are not presented as declared: "+bad)
	}
}

// ---------------------------------------------------------------------------------------------------------------
// R16.20 vertical merges of the DOCX table parser, read on every small table.

func fieldIndex(t types.Type, name string) int {
	if st, ok := t.Underlying().(*types.Struct); ok {
		for i := 0; i < st.NumFields(); i++ {
			if st.Field(i).Name() == name {
				return i
			}
		}
	}
	return -1
}

// R16.20 [C16]
func ruleVerticalMergesByGridColumn(c *eng.Ctx) {
	const R = "R16.20-VERTICAL-MERGES-BY-GRID-COLUMN"
	c.Rule(R, "docx.(*TableParser).processVerticalMerges, evaluated on every table of two or three rows whose rows are compositions of a grid of up to four columns (column spans 1..3), on every table of two rows of up to five columns each (ragged tables included), and whose continuation cells each lie under a cell that starts at the same grid column with the same span: afterwards every cell that is not a continuation has RowSpan 1 plus the number of continuation cells directly beneath it in its grid column. Rows that cut the grid differently before the merged column have the merge start at different cell indexes, so a lookup by cell index credits the neighbour", 1, 0)
	fn := c.P.Func("docx.(*TableParser).processVerticalMerges")
	if fn == nil {
		c.Ok(R, "docx.(*TableParser).processVerticalMerges", token.NoPos, "no such method: not evaluated")
		return
	}
	name := eng.FuncName(fn)
	tabIdx := -1
	var tabT, rowT, cellT types.Type
	for i, p := range fn.Params {
		pt, ok := p.Type().Underlying().(*types.Pointer)
		if !ok {
			continue
		}
		ri := fieldIndex(pt.Elem(), "Rows")
		if ri < 0 {
			continue
		}
		rs, ok := pt.Elem().Underlying().(*types.Struct).Field(ri).Type().Underlying().(*types.Slice)
		if !ok {
			continue
		}
		ci := fieldIndex(rs.Elem(), "Cells")
		if ci < 0 {
			continue
		}
		cs, ok := rs.Elem().Underlying().(*types.Struct).Field(ci).Type().Underlying().(*types.Slice)
		if !ok {
			continue
		}
		tabIdx, tabT, rowT, cellT = i, pt.Elem(), rs.Elem(), cs.Elem()
	}
	if tabIdx < 0 || fieldIndex(cellT, "ColSpan") < 0 || fieldIndex(cellT, "RowSpan") < 0 || fieldIndex(cellT, "IsMergedContinuation") < 0 {
		c.Ok(R, name, fn.Pos(), "the signature is not (table with Rows of Cells carrying ColSpan, RowSpan, IsMergedContinuation): not evaluated")
		return
	}
	rowsF, cellsF, rsF := fieldIndex(tabT, "Rows"), fieldIndex(rowT, "Cells"), fieldIndex(cellT, "RowSpan")
	// the compositions of widths 1..4 with parts 1..3
	var comps [][]int
	var gen func(prefix []int, left int)
	gen = func(prefix []int, left int) {
		if left == 0 {
			comps = append(comps, append([]int(nil), prefix...))
			return
		}
		for s := 1; s <= 3 && s <= left; s++ {
			gen(append(prefix, s), left-s)
		}
	}
	type cellSpec struct {
		start, span int
		cont        bool
	}
	cases, bad := 0, ""
	run := func(rows [][]cellSpec) bool {
		table := eng.ZeroOf(tabT).(*eng.EStruct)
		var rowVals []any
		for _, r := range rows {
			row := eng.ZeroOf(rowT).(*eng.EStruct)
			var cells []any
			for _, cs := range r {
				cell := eng.ZeroOf(cellT).(*eng.EStruct)
				eng.SetField(cell, cellT, "ColSpan", int64(cs.span))
				eng.SetField(cell, cellT, "RowSpan", int64(1))
				eng.SetField(cell, cellT, "IsMergedContinuation", cs.cont)
				cells = append(cells, cell)
			}
			eng.SetField(row, rowT, "Cells", eng.SliceOf(cells...))
			rowVals = append(rowVals, row)
		}
		eng.SetField(table, tabT, "Rows", eng.SliceOf(rowVals...))
		tloc := &eng.ELoc{V: table}
		args := make([]any, len(fn.Params))
		for i, p := range fn.Params {
			switch {
			case i == tabIdx:
				args[i] = &eng.EPtr{Get: func() any { return tloc.V }, Set: func(v any) { tloc.V = v }}
			default:
				if pt, ok := p.Type().Underlying().(*types.Pointer); ok {
					loc := &eng.ELoc{V: eng.ZeroOf(pt.Elem())}
					args[i] = &eng.EPtr{Get: func() any { return loc.V }, Set: func(v any) { loc.V = v }}
				} else {
					args[i] = eng.ZeroOf(p.Type())
				}
			}
		}
		describe := func() string {
			var parts []string
			for _, r := range rows {
				var cs []string
				for _, x := range r {
					s := fmt.Sprintf("%d", x.span)
					if x.cont {
						s += "c"
					}
					cs = append(cs, s)
				}
				parts = append(parts, "["+strings.Join(cs, " ")+"]")
			}
			return "rows of column spans (c = continuation) " + strings.Join(parts, " over ")
		}
		_, err := eng.NewEvaluator().Call(fn, args, 0)
		if err != nil && !err.Panic {
			bad = "!" + err.Msg
			return false
		}
		cases++
		if err != nil {
			bad = describe() + ": " + err.Msg
			return false
		}
		tv, ok := tloc.V.(*eng.EStruct)
		if !ok {
			bad = "!the table is no longer a struct value"
			return false
		}
		rsl, ok := tv.F[rowsF].(*eng.ESlice)
		if !ok || len(rsl.L) != len(rows) {
			bad = describe() + ": the number of rows changed"
			return false
		}
		for ri, r := range rows {
			rv, ok := rsl.L[ri].V.(*eng.EStruct)
			if !ok {
				bad = "!a row is not a struct value"
				return false
			}
			csl, ok := rv.F[cellsF].(*eng.ESlice)
			if !ok || len(csl.L) != len(r) {
				bad = describe() + fmt.Sprintf(": the number of cells of row %d changed", ri)
				return false
			}
			for ci, x := range r {
				if x.cont {
					continue
				}
				want := 1
				for below := ri + 1; below < len(rows); below++ {
					under := false
					for _, y := range rows[below] {
						if y.start == x.start && y.span == x.span && y.cont {
							under = true
						}
					}
					if !under {
						break
					}
					want++
				}
				cv, ok := csl.L[ci].V.(*eng.EStruct)
				if !ok {
					bad = "!a cell is not a struct value"
					return false
				}
				if g, ok := cv.F[rsF].(int64); !ok || g != int64(want) {
					bad = describe() + fmt.Sprintf(": cell %d of row %d (grid column %d) has RowSpan %v, %d cell(s) of its column belong to it", ci, ri, x.start, cv.F[rsF], want)
					return false
				}
			}
		}
		return true
	}
	stop := false
	for width := 1; width <= 4 && !stop; width++ {
		comps = nil
		gen(nil, width)
		// rows: every composition; continuation flags: every subset of the cells that lie under an equal cell
		var build func(rows [][]cellSpec, depth int)
		build = func(rows [][]cellSpec, depth int) {
			if stop {
				return
			}
			if len(rows) >= 2 {
				if !run(rows) {
					stop = true
					return
				}
			}
			if len(rows) == depth {
				return
			}
			for _, comp := range comps {
				var row []cellSpec
				start := 0
				var eligible []int
				for i, s := range comp {
					row = append(row, cellSpec{start: start, span: s})
					if len(rows) > 0 {
						for _, y := range rows[len(rows)-1] {
							if y.start == start && y.span == s {
								eligible = append(eligible, i)
							}
						}
					}
					start += s
				}
				for mask := 0; mask < 1<<len(eligible); mask++ {
					r := append([]cellSpec(nil), row...)
					for b, i := range eligible {
						if mask&(1<<b) != 0 {
							r[i].cont = true
						}
					}
					build(append(append([][]cellSpec(nil), rows...), r), depth)
				}
			}
		}
		build(nil, 3)
		if width == 4 && !stop {
			// two rows of any widths up to five, ragged tables included: the same number of cells can cut the grid
			// differently before the merged column
			comps = nil
			for w := 1; w <= 5; w++ {
				gen(nil, w)
			}
			build(nil, 2)
		}
	}
	if strings.HasPrefix(bad, "!") {
		c.Ok(R, name, fn.Pos(), "not evaluated: "+bad[1:])
		return
	}
	c.Check(bad == "", R, name+"#spec", fn.Pos(), fmt.Sprintf("%d tables evaluated, every merge start carries the rows beneath it", cases), "a vertical merge is credited to the wrong cell or not at all ("+bad+"): the table's grid is not the authored one")
}
