package eng

import (
	"go/constant"
	"go/token"
	"go/types"
	"sort"
	"strings"
	"sync"

	"golang.org/x/tools/go/callgraph"
	"golang.org/x/tools/go/ssa"
)

// Instrs calls f for every instruction of fn (and, when deep, of its anonymous functions).
func Instrs(fn *ssa.Function, deep bool, f func(ssa.Instruction)) {
	if fn == nil {
		return
	}
	for _, b := range fn.Blocks {
		for _, in := range b.Instrs {
			f(in)
		}
	}
	if deep {
		for _, an := range fn.AnonFuncs {
			Instrs(an, true, f)
		}
	}
}

// StaticCallee returns the statically known callee of a call instruction, looking
// through closures made in place (MakeClosure) and bound method values.
func StaticCallee(c ssa.CallInstruction) *ssa.Function {
	if c == nil {
		return nil
	}
	cc := c.Common()
	if f := cc.StaticCallee(); f != nil {
		return f
	}
	if cc.IsInvoke() {
		return soleImplementation(c)
	}
	return nil
}

var soleImplCache sync.Map

type soleKey struct {
	iface  types.Type
	method string
	prog   *ssa.Program
}

// soleImplementation resolves a call through an interface declared in the module to the one method it can
// reach when exactly one type of the module implements that interface (an interface extracted for a
// dependency that has a single implementation is a static call written differently).
func soleImplementation(c ssa.CallInstruction) *ssa.Function {
	cc := c.Common()
	nt, ok := cc.Value.Type().(*types.Named)
	if !ok || nt.Obj().Pkg() == nil || !strings.HasPrefix(nt.Obj().Pkg().Path(), ModPath) {
		return nil
	}
	iface, ok := nt.Underlying().(*types.Interface)
	if !ok || c.Parent() == nil {
		return nil
	}
	prog := c.Parent().Prog
	key := soleKey{nt, cc.Method.Name(), prog}
	if v, ok := soleImplCache.Load(key); ok {
		f, _ := v.(*ssa.Function)
		return f
	}
	var impls []types.Type
	for _, pk := range prog.AllPackages() {
		if pk.Pkg == nil || !strings.HasPrefix(pk.Pkg.Path(), ModPath) {
			continue
		}
		sc := pk.Pkg.Scope()
		for _, n := range sc.Names() {
			tn, ok := sc.Lookup(n).(*types.TypeName)
			if !ok || tn.IsAlias() {
				continue
			}
			t := tn.Type()
			if _, isI := t.Underlying().(*types.Interface); isI {
				continue
			}
			if named, ok := t.(*types.Named); ok && named.TypeParams().Len() > 0 {
				continue
			}
			switch {
			case types.Implements(t, iface):
				impls = append(impls, t)
			case types.Implements(types.NewPointer(t), iface):
				impls = append(impls, types.NewPointer(t))
			}
		}
	}
	var res *ssa.Function
	if len(impls) == 1 {
		if sel := prog.MethodSets.MethodSet(impls[0]).Lookup(cc.Method.Pkg(), cc.Method.Name()); sel != nil {
			res = prog.MethodValue(sel)
		}
	}
	soleImplCache.Store(key, res)
	return res
}

// CalleeName returns the qualified name of the callee: for static calls the
// FuncName, for interface invokes "iface:<Type>.<Method>".
func CalleeName(c ssa.CallInstruction) string {
	cc := c.Common()
	if cc.IsInvoke() {
		if f := soleImplementation(c); f != nil {
			return FuncName(f)
		}
		t := cc.Value.Type()
		name := t.String()
		if nt, ok := t.(*types.Named); ok {
			name = nt.Obj().Name()
			if nt.Obj().Pkg() != nil {
				name = shortPkg(nt.Obj().Pkg().Path()) + "." + name
			}
		}
		return "iface:" + name + "." + cc.Method.Name()
	}
	if f := cc.StaticCallee(); f != nil {
		return FuncName(f)
	}
	if b, ok := cc.Value.(*ssa.Builtin); ok {
		return "builtin:" + b.Name()
	}
	return "dynamic"
}

func shortPkg(path string) string {
	if strings.HasPrefix(path, ModPath) {
		s := ShortPath(path)
		if s == "" {
			return "tabula"
		}
		return s
	}
	return path
}

// Calls returns the call instructions (call, defer, go) of fn whose callee name
// satisfies match, in source order.
func Calls(fn *ssa.Function, deep bool, match func(name string, c ssa.CallInstruction) bool) []ssa.CallInstruction {
	var out []ssa.CallInstruction
	Instrs(fn, deep, func(in ssa.Instruction) {
		if c, ok := in.(ssa.CallInstruction); ok {
			if match(CalleeName(c), c) {
				out = append(out, c)
			}
		}
	})
	sort.SliceStable(out, func(i, j int) bool { return out[i].Pos() < out[j].Pos() })
	return out
}

// CallsNamed returns the calls of fn to any of the named callees.
// AltName, when set by the loader, gives the current spelling of an anchored unexported function that no longer
// exists under the requested name but exists in the other form (method <-> plain function) in the same package.
var AltName func(name string) string

func CallsNamed(fn *ssa.Function, deep bool, names ...string) []ssa.CallInstruction {
	set := map[string]bool{}
	for _, n := range names {
		set[n] = true
		if AltName != nil {
			if a := AltName(n); a != "" {
				set[a] = true
			}
		}
	}
	return Calls(fn, deep, func(n string, _ ssa.CallInstruction) bool { return set[n] })
}

// Callees returns the functions the call may dispatch to according to VTA.
func (p *Prog) Callees(c ssa.CallInstruction) []*ssa.Function {
	if f := c.Common().StaticCallee(); f != nil {
		return []*ssa.Function{f}
	}
	p.siteOnce.Do(func() {
		p.sites = map[ssa.CallInstruction][]*ssa.Function{}
		for _, n := range p.CallGraph().Nodes {
			for _, e := range n.Out {
				if e.Site != nil && e.Site.Common().StaticCallee() == nil {
					p.sites[e.Site] = append(p.sites[e.Site], e.Callee.Func)
				}
			}
		}
	})
	return p.sites[c]
}

// Reachable returns the set of functions reachable from roots in the VTA graph.
func (p *Prog) Reachable(roots []*ssa.Function) map[*ssa.Function]bool {
	cg := p.CallGraph()
	seen := map[*ssa.Function]bool{}
	var stack []*callgraph.Node
	for _, r := range roots {
		if n := cg.Nodes[r]; n != nil && !seen[r] {
			seen[r] = true
			stack = append(stack, n)
		}
	}
	for len(stack) > 0 {
		n := stack[len(stack)-1]
		stack = stack[:len(stack)-1]
		for _, e := range n.Out {
			if !seen[e.Callee.Func] {
				seen[e.Callee.Func] = true
				stack = append(stack, e.Callee)
			}
		}
		// anonymous functions created by n are reachable through MakeClosure
		for _, an := range n.Func.AnonFuncs {
			if !seen[an] {
				seen[an] = true
				if m := cg.Nodes[an]; m != nil {
					stack = append(stack, m)
				}
			}
		}
	}
	return seen
}

// FieldRef describes a field selection (FieldAddr or Field).
type FieldRef struct {
	Struct string // "pkg.Type" (short package path)
	Field  string
	Base   ssa.Value
}

// AsField decodes v as a field selection.
func AsField(v ssa.Value) (FieldRef, bool) {
	switch x := v.(type) {
	case *ssa.FieldAddr:
		pt, ok := x.X.Type().Underlying().(*types.Pointer)
		if !ok {
			return FieldRef{}, false
		}
		return fieldRef(pt.Elem(), x.Field, x.X)
	case *ssa.Field:
		return fieldRef(x.X.Type(), x.Field, x.X)
	}
	return FieldRef{}, false
}

func fieldRef(t types.Type, idx int, base ssa.Value) (FieldRef, bool) {
	st, ok := t.Underlying().(*types.Struct)
	if !ok || idx >= st.NumFields() {
		return FieldRef{}, false
	}
	return FieldRef{Struct: TypeName(t), Field: st.Field(idx).Name(), Base: base}, true
}

// TypeName renders a (possibly pointer to) named type as "pkg.Name".
func TypeName(t types.Type) string {
	if pt, ok := t.(*types.Pointer); ok {
		return "*" + TypeName(pt.Elem())
	}
	if nt, ok := t.(*types.Named); ok {
		if nt.Obj().Pkg() == nil {
			return nt.Obj().Name()
		}
		return shortPkg(nt.Obj().Pkg().Path()) + "." + nt.Obj().Name()
	}
	return t.String()
}

// LoadOfField reports whether v is a load (UnOp *) of field `field` of struct `strct`
// or the Field instruction itself; returns the FieldRef.
func LoadOfField(v ssa.Value) (FieldRef, bool) {
	if u, ok := v.(*ssa.UnOp); ok && u.Op == token.MUL {
		return AsField(u.X)
	}
	if f, ok := v.(*ssa.Field); ok {
		return AsField(f)
	}
	// a parameter of an unexported function that every call site fills with the load of one and the same field
	// (a method turned into a function that takes the fields it used) stands for that field
	if p, ok := v.(*ssa.Parameter); ok && ParamField != nil {
		return ParamField(p)
	}
	return FieldRef{}, false
}

// ParamField, when set by the loader, resolves a parameter to the field whose load every call site passes for it.
var ParamField func(p *ssa.Parameter) (FieldRef, bool)

// ConstInt returns the integer value of a constant SSA value.
func ConstInt(v ssa.Value) (int64, bool) {
	c, ok := v.(*ssa.Const)
	if !ok || c.Value == nil {
		return 0, false
	}
	if c.Value.Kind() != constant.Int {
		if c.Value.Kind() == constant.Float {
			f, _ := constant.Float64Val(c.Value)
			if f == float64(int64(f)) {
				return int64(f), true
			}
		}
		return 0, false
	}
	i, ok := constant.Int64Val(c.Value)
	return i, ok
}

// ConstString returns the string value of a constant SSA value.
func ConstString(v ssa.Value) (string, bool) {
	c, ok := v.(*ssa.Const)
	if !ok || c.Value == nil || c.Value.Kind() != constant.String {
		return "", false
	}
	return constant.StringVal(c.Value), true
}

// Unwrap strips conversions, ChangeType, MakeInterface and single-operand phis.
func Unwrap(v ssa.Value) ssa.Value {
	for {
		switch x := v.(type) {
		case *ssa.Convert:
			v = x.X
		case *ssa.ChangeType:
			v = x.X
		case *ssa.MakeInterface:
			v = x.X
		case *ssa.ChangeInterface:
			v = x.X
		default:
			return v
		}
	}
}

// Slice computes the backward data slice of v inside its function: every value v
// may be computed from, following operands of pure instructions, loads from local
// allocs (through their stores), phis, extracts, and — when through is set — the
// results of calls for which through(call) returns true (the arguments are then
// followed). It returns the set of visited values.
func Slice(v ssa.Value, through func(c *ssa.Call) bool) map[ssa.Value]bool {
	seen := map[ssa.Value]bool{}
	var walk func(v ssa.Value)
	walk = func(v ssa.Value) {
		if v == nil || seen[v] {
			return
		}
		seen[v] = true
		switch x := v.(type) {
		case *ssa.Phi:
			for _, e := range x.Edges {
				walk(e)
			}
		case *ssa.BinOp:
			walk(x.X)
			walk(x.Y)
		case *ssa.UnOp:
			walk(x.X)
			if x.Op == token.MUL {
				// load: follow stores to the same local alloc
				if a, ok := x.X.(*ssa.Alloc); ok {
					for _, r := range *a.Referrers() {
						if st, ok := r.(*ssa.Store); ok && st.Addr == a {
							walk(st.Val)
						}
					}
				}
			}
		case *ssa.Convert:
			walk(x.X)
		case *ssa.ChangeType:
			walk(x.X)
		case *ssa.MakeInterface:
			walk(x.X)
		case *ssa.ChangeInterface:
			walk(x.X)
		case *ssa.TypeAssert:
			walk(x.X)
		case *ssa.Extract:
			walk(x.Tuple)
		case *ssa.Slice:
			walk(x.X)
			walk(x.Low)
			walk(x.High)
			walk(x.Max)
		case *ssa.Index:
			walk(x.X)
			walk(x.Index)
		case *ssa.IndexAddr:
			walk(x.X)
			walk(x.Index)
		case *ssa.Lookup:
			walk(x.X)
			walk(x.Index)
		case *ssa.Field:
			walk(x.X)
		case *ssa.FieldAddr:
			walk(x.X)
		case *ssa.Call:
			if _, _, isMM := MinMaxCall(x); isMM || (through != nil && through(x)) {
				for _, a := range x.Call.Args {
					walk(a)
				}
				// the callee value of a function call, the receiver of an interface call
				walk(x.Call.Value)
			}
		case *ssa.MakeClosure:
			for _, b := range x.Bindings {
				walk(b)
			}
		case *ssa.Alloc:
			// values stored into the local object (directly or into its elements/fields)
			for _, r := range *x.Referrers() {
				switch y := r.(type) {
				case *ssa.Store:
					if y.Addr == x {
						walk(y.Val)
					}
				case *ssa.IndexAddr:
					if y.X == x {
						walk(y.Index)
						for _, rr := range *y.Referrers() {
							if st, ok := rr.(*ssa.Store); ok && st.Addr == y {
								walk(st.Val)
							}
						}
					}
				case *ssa.FieldAddr:
					if y.X == x {
						for _, rr := range *y.Referrers() {
							if st, ok := rr.(*ssa.Store); ok && st.Addr == y {
								walk(st.Val)
							}
						}
					}
				}
			}
		}
	}
	walk(v)
	return seen
}

// AnyIn reports whether any value of the slice satisfies pred.
func AnyIn(set map[ssa.Value]bool, pred func(ssa.Value) bool) bool {
	for v := range set {
		if pred(v) {
			return true
		}
	}
	return false
}

// IsParam reports whether v is the i-th parameter of its function (receiver = 0 for methods).
func IsParam(v ssa.Value, i int) bool {
	p, ok := v.(*ssa.Parameter)
	if !ok {
		return false
	}
	ps := p.Parent().Params
	return i < len(ps) && ps[i] == p
}

// ParamNamed returns the parameter of fn with the given name.
func ParamNamed(fn *ssa.Function, name string) *ssa.Parameter {
	for _, p := range fn.Params {
		if p.Name() == name {
			return p
		}
	}
	return nil
}

// Returns lists the return instructions of fn.
func Returns(fn *ssa.Function) []*ssa.Return {
	var out []*ssa.Return
	for _, b := range fn.Blocks {
		if len(b.Instrs) == 0 || b == fn.Recover {
			continue // the synthetic recover block only re-returns the spilled results
		}
		if r, ok := b.Instrs[len(b.Instrs)-1].(*ssa.Return); ok {
			out = append(out, r)
		}
	}
	return out
}

// IsNilConst reports whether v is the nil constant.
func IsNilConst(v ssa.Value) bool {
	c, ok := v.(*ssa.Const)
	return ok && c.Value == nil
}

// IsErrorType reports whether t is the predeclared error interface.
func IsErrorType(t types.Type) bool {
	return types.Identical(t, types.Universe.Lookup("error").Type())
}

// ReturnsNonNilError classifies a return: the error result (last result of type
// error) is definitely non-nil (result of fmt.Errorf / errors.New / a global Err*
// / a value proven non-nil by being on err!=nil edge is not tracked: "maybe").
// It returns (isErrorReturn, known).
func ReturnsNonNilError(r *ssa.Return) (nonNil bool, known bool) {
	if len(r.Results) == 0 {
		return false, false
	}
	last := r.Results[len(r.Results)-1]
	if !IsErrorType(last.Type()) {
		return false, false
	}
	return ErrValueNonNil(last)
}

// ErrValueNonNil classifies an error-typed value.
func ErrValueNonNil(v ssa.Value) (nonNil bool, known bool) {
	switch x := v.(type) {
	case *ssa.Const:
		if x.Value == nil {
			return false, true
		}
	case *ssa.Call:
		n := CalleeName(x)
		if n == "fmt.Errorf" || n == "errors.New" {
			return true, true
		}
	case *ssa.MakeInterface:
		return true, true
	case *ssa.UnOp:
		if x.Op == token.MUL {
			if g, ok := x.X.(*ssa.Global); ok && strings.HasPrefix(g.Name(), "Err") {
				return true, true
			}
			// defer-spilled result: look at the stores into the alloc
			if a, ok := x.X.(*ssa.Alloc); ok {
				allNon, allNil, any := true, true, false
				for _, r := range *a.Referrers() {
					if st, ok := r.(*ssa.Store); ok && st.Addr == a {
						any = true
						nn, kn := ErrValueNonNil(st.Val)
						if !kn {
							return false, false
						}
						if nn {
							allNil = false
						} else {
							allNon = false
						}
					}
				}
				if any && allNon {
					return true, true
				}
				if any && allNil {
					return false, true
				}
			}
		}
	case *ssa.Phi:
		allNon, allNil := true, true
		for _, e := range x.Edges {
			nn, kn := ErrValueNonNil(e)
			if !kn {
				return false, false
			}
			if nn {
				allNil = false
			} else {
				allNon = false
			}
		}
		if allNon {
			return true, true
		}
		if allNil {
			return false, true
		}
	}
	return false, false
}

// ReturnValues resolves the values a return instruction yields. In functions
// with defers go/ssa spills results to allocs: `return x` becomes
// `*res = x; rundefers; return *res`. The stored values of the same block are
// returned in that case.
func ReturnValues(r *ssa.Return) []ssa.Value {
	out := make([]ssa.Value, len(r.Results))
	for i, v := range r.Results {
		out[i] = v
		ld, ok := v.(*ssa.UnOp)
		if !ok || ld.Op != token.MUL {
			continue
		}
		al, ok := ld.X.(*ssa.Alloc)
		if !ok {
			continue
		}
		// last store to the alloc before the load, in this block or (if none) a unique one elsewhere
		var last ssa.Value
		for _, in := range r.Block().Instrs {
			if in == ssa.Instruction(ld) {
				break
			}
			if st, ok := in.(*ssa.Store); ok && st.Addr == ssa.Value(al) {
				last = st.Val
			}
		}
		if last != nil {
			out[i] = last
		}
	}
	return out
}

// Cluster returns fn together with the module functions of the same package it
// calls statically, transitively up to depth levels (helpers a block of fn may
// have been extracted into). fn is first; the rest is in discovery order.
func Cluster(fn *ssa.Function, depth int) []*ssa.Function {
	out := []*ssa.Function{fn}
	seen := map[*ssa.Function]bool{fn: true}
	frontier := []*ssa.Function{fn}
	for d := 0; d < depth && len(frontier) > 0; d++ {
		var next []*ssa.Function
		for _, f := range frontier {
			Instrs(f, true, func(in ssa.Instruction) {
				call, ok := in.(ssa.CallInstruction)
				if !ok {
					return
				}
				cal := call.Common().StaticCallee()
				if cal == nil || seen[cal] || cal.Blocks == nil || !InModule(cal) {
					return
				}
				if cal.Pkg == nil || fn.Pkg == nil || cal.Pkg != fn.Pkg {
					// an instantiation of a generic helper of the same package has no package of its own
					sameGeneric := cal.Pkg == nil && cal.Origin() != nil && fn.Pkg != nil && cal.Origin().Pkg == fn.Pkg
					if cal.Parent() == nil && !sameGeneric {
						return
					}
				}
				seen[cal] = true
				out = append(out, cal)
				next = append(next, cal)
			})
		}
		frontier = next
	}
	return out
}

// DominatingIfs returns the conditional branches that dominate instruction in
// within its own function and, when that function is a helper of root (a member
// of cluster called from exactly one site in the cluster), those dominating the
// call site, transitively up to root. ok is false when a helper has no unique
// call site in the cluster.
func DominatingIfs(cluster []*ssa.Function, in ssa.Instruction) (ifs []*ssa.If, ok bool) {
	inCluster := map[*ssa.Function]bool{}
	for _, f := range cluster {
		inCluster[f] = true
	}
	cur := in
	for steps := 0; steps < 6; steps++ {
		f := cur.Parent()
		blk := cur.Block()
		for _, b := range f.Blocks {
			if len(b.Instrs) == 0 || b == blk || !b.Dominates(blk) {
				continue
			}
			if ifi, isIf := b.Instrs[len(b.Instrs)-1].(*ssa.If); isIf {
				ifs = append(ifs, ifi)
			}
		}
		if len(cluster) == 0 || f == cluster[0] {
			return ifs, true
		}
		// unique call site of f in the cluster
		var site ssa.Instruction
		n := 0
		for _, g := range cluster {
			Instrs(g, true, func(i2 ssa.Instruction) {
				if call, isCall := i2.(ssa.CallInstruction); isCall && call.Common().StaticCallee() == f {
					site = i2
					n++
				}
			})
		}
		if n != 1 {
			return ifs, false
		}
		cur = site
	}
	return ifs, false
}

// SliceInter is Slice extended across the helpers of a cluster: when the slice
// reaches a parameter of a cluster function, it continues at the corresponding
// argument of every static call site of that function inside the cluster; when it
// reaches the result of a call to a cluster function, it continues at the values
// that function returns.
func SliceInter(v ssa.Value, through func(c *ssa.Call) bool, cluster []*ssa.Function) map[ssa.Value]bool {
	out := map[ssa.Value]bool{}
	inCluster := map[*ssa.Function]bool{}
	for _, f := range cluster {
		inCluster[f] = true
	}
	var sites map[*ssa.Function][]ssa.CallInstruction
	doneParam := map[*ssa.Parameter]bool{}
	work := []ssa.Value{v}
	for len(work) > 0 {
		w := work[len(work)-1]
		work = work[:len(work)-1]
		for x := range Slice(w, through) {
			if out[x] {
				continue
			}
			out[x] = true
			// results of a cluster helper: continue at what the helper returns
			switch r := x.(type) {
			case *ssa.Extract:
				if call, ok := r.Tuple.(*ssa.Call); ok {
					if cal := call.Call.StaticCallee(); cal != nil && inCluster[cal] {
						for _, ret := range Returns(cal) {
							if r.Index < len(ret.Results) {
								work = append(work, ret.Results[r.Index])
							}
						}
					}
				}
			case *ssa.Call:
				if cal := r.Call.StaticCallee(); cal != nil && inCluster[cal] && cal.Signature.Results().Len() == 1 {
					for _, ret := range Returns(cal) {
						if len(ret.Results) == 1 {
							work = append(work, ret.Results[0])
						}
					}
				}
			}
			par, ok := x.(*ssa.Parameter)
			if !ok || doneParam[par] || !inCluster[par.Parent()] {
				continue
			}
			doneParam[par] = true
			if sites == nil {
				sites = map[*ssa.Function][]ssa.CallInstruction{}
				for _, g := range cluster {
					Instrs(g, true, func(in ssa.Instruction) {
						if call, ok := in.(ssa.CallInstruction); ok {
							if cal := call.Common().StaticCallee(); cal != nil && inCluster[cal] {
								sites[cal] = append(sites[cal], call)
							}
						}
					})
				}
			}
			idx := -1
			for i, p := range par.Parent().Params {
				if p == par {
					idx = i
				}
			}
			for _, call := range sites[par.Parent()] {
				if idx >= 0 && idx < len(call.Common().Args) {
					work = append(work, call.Common().Args[idx])
				}
			}
		}
	}
	return out
}

// Exit is one way a function returns: the values returned and the block whose end decides them. A function
// written with result variables and a single return statement has one Return fed by phis; Exits expands that
// join so that every rule sees the same exits as in the early-return form of the same function.
type Exit struct {
	Ret     *ssa.Return
	Results []ssa.Value
	Block   *ssa.BasicBlock // facts established on every path to the END of this block hold at the exit
	Via     *ssa.BasicBlock // the join block the exit passes through (nil when Block is the return block)
}

func Exits(fn *ssa.Function) []Exit {
	var out []Exit
	for _, r := range Returns(fn) {
		out = append(out, expandExit(Exit{Ret: r, Results: ReturnValues(r), Block: r.Block()}, 0)...)
	}
	return out
}

func expandExit(e Exit, depth int) []Exit {
	b := e.Block
	if depth > 3 || len(b.Preds) < 2 {
		return []Exit{e}
	}
	// a pure join: phis, then (optionally via jumps already followed) the return; other instructions that do
	// not feed the results (stores of results into named result cells, defers) are tolerated
	anyPhi := false
	for _, v := range e.Results {
		if ph, ok := v.(*ssa.Phi); ok && ph.Block() == b {
			anyPhi = true
		}
	}
	if !anyPhi {
		return []Exit{e}
	}
	var out []Exit
	for i, p := range b.Preds {
		res := make([]ssa.Value, len(e.Results))
		for k, v := range e.Results {
			res[k] = v
			if ph, ok := v.(*ssa.Phi); ok && ph.Block() == b {
				res[k] = ph.Edges[i]
			}
		}
		via := e.Via
		if via == nil {
			via = b
		}
		out = append(out, expandExit(Exit{Ret: e.Ret, Results: res, Block: p, Via: via}, depth+1)...)
	}
	return out
}

// ExitGuarded reports whether every path to the exit crossed an edge whose fact satisfies pred: for an expanded
// exit that includes the edge from its block into the join.
func ExitGuarded(fn *ssa.Function, e Exit, pred func(Fact) bool) bool {
	if GuardedBy(fn, e.Block, pred) {
		return true
	}
	if e.Via != nil {
		for si, s := range e.Block.Succs {
			if s == e.Via && AnyEdgeFact(Edge{From: e.Block, Succ: si}, pred) {
				return true
			}
		}
	}
	return false
}

// ArgsWithRecv returns the arguments of a call with the receiver in position 0 also for a call through an
// interface (where go/ssa keeps the receiver apart), so that positions agree with the static form of the same call.
func ArgsWithRecv(c ssa.CallInstruction) []ssa.Value {
	cc := c.Common()
	if !cc.IsInvoke() {
		return cc.Args
	}
	return append([]ssa.Value{cc.Value}, cc.Args...)
}
