package eng

import (
	"fmt"
	"go/ast"
	"go/constant"
	"go/token"
	"go/types"
)

// E4: exact denotation of small closed byte functions (character classes, digit
// values). The function's syntax tree is evaluated for each of the 256 possible
// arguments by a tiny interpreter that understands only constants, the
// parameter, comparisons, arithmetic, boolean connectives, if/switch/return and
// calls to other such functions. Anything else makes the function "not a byte
// class" (an error), never a guess. The input space is finite, so the result is
// the exact table the source denotes.

// ErrVal marks a non-nil error result.
type ErrVal struct{}

type bcInterp struct {
	p     *Prog
	depth int
	// Bind maps the source text of an expression (types.ExprString) to the value it
	// takes; used to treat e.g. p.data[p.pos] as the free byte variable.
	Bind map[string]int64
	// Unknown decides calls outside the fragment (by callee name or source text).
	Unknown func(name string) (any, bool)
}

type bcEnv map[types.Object]any

type bcReturn struct{ vals []any }

// ByteTable evaluates fn(c) for c = 0..255. Each entry holds the result values
// (int64, bool, nil for a nil error, ErrVal{} for a non-nil error).
func (p *Prog) ByteTable(fnName string) ([256][]any, error) {
	var out [256][]any
	fd := p.Decl(fnName)
	if fd == nil {
		return out, fmt.Errorf("function %s not found", fnName)
	}
	params := fd.Decl.Type.Params
	if params == nil || params.NumFields() != 1 || len(params.List[0].Names) != 1 {
		return out, fmt.Errorf("%s does not take exactly one parameter", fnName)
	}
	pobj := fd.Pkg.TypesInfo.Defs[params.List[0].Names[0]]
	it := &bcInterp{p: p}
	for c := 0; c < 256; c++ {
		res, err := it.call(fd, pobj, int64(c))
		if err != nil {
			// outside the fragment of the syntax-tree reader (a table filled by an initialiser, an if with an
			// init statement): the SSA evaluator reads the function, package initialisers included
			if tab, ok := p.byteTableEvaluated(fnName); ok {
				return tab, nil
			}
			return out, fmt.Errorf("%s(%d): %w", fnName, c, err)
		}
		out[c] = res
	}
	return out, nil
}

// byteTableEvaluated evaluates fn(c) for c = 0..255 with the SSA evaluator.
func (p *Prog) byteTableEvaluated(fnName string) ([256][]any, bool) {
	var out [256][]any
	fn := p.FuncExact(fnName)
	if fn == nil {
		fn = p.Func(fnName)
	}
	if fn == nil || len(fn.Params) != 1 || fn.Blocks == nil {
		return out, false
	}
	ev := NewEvaluator()
	for c := 0; c < 256; c++ {
		ev.Steps = 200000
		r, err := ev.Call(fn, []any{int64(c)}, 0)
		if err != nil {
			return out, false
		}
		var vals []any
		if t, ok := r.(ETuple); ok {
			vals = []any(t)
		} else {
			vals = []any{r}
		}
		for i, v := range vals {
			switch x := v.(type) {
			case int64, bool, nil:
			case *EErr:
				vals[i] = ErrVal{}
				_ = x
			default:
				return out, false
			}
		}
		out[c] = vals
	}
	return out, true
}

// ByteSet returns the set of bytes for which the boolean function returns true.
func (p *Prog) ByteSet(fnName string) (map[byte]bool, error) {
	tab, err := p.ByteTable(fnName)
	if err != nil {
		return nil, err
	}
	set := map[byte]bool{}
	for c, r := range tab {
		if len(r) != 1 {
			return nil, fmt.Errorf("%s does not return a single bool", fnName)
		}
		b, ok := r[0].(bool)
		if !ok {
			return nil, fmt.Errorf("%s does not return a bool", fnName)
		}
		if b {
			set[byte(c)] = true
		}
	}
	return set, nil
}

func (it *bcInterp) call(fd *FuncDecl, param types.Object, arg int64) ([]any, error) {
	if it.depth > 8 {
		return nil, fmt.Errorf("call depth exceeded")
	}
	it.depth++
	defer func() { it.depth-- }()
	env := bcEnv{param: arg}
	ret, err := it.block(fd, fd.Decl.Body.List, env)
	if err != nil {
		return nil, err
	}
	if ret == nil {
		return nil, fmt.Errorf("%s falls off the end", fd.Decl.Name.Name)
	}
	return ret.vals, nil
}

func (it *bcInterp) block(fd *FuncDecl, list []ast.Stmt, env bcEnv) (*bcReturn, error) {
	for _, s := range list {
		r, err := it.stmt(fd, s, env)
		if err != nil || r != nil {
			return r, err
		}
	}
	return nil, nil
}

func (it *bcInterp) stmt(fd *FuncDecl, s ast.Stmt, env bcEnv) (*bcReturn, error) {
	switch x := s.(type) {
	case *ast.ReturnStmt:
		var vals []any
		for _, e := range x.Results {
			v, err := it.expr(fd, e, env)
			if err != nil {
				return nil, err
			}
			vals = append(vals, v)
		}
		return &bcReturn{vals}, nil
	case *ast.BlockStmt:
		return it.block(fd, x.List, env)
	case *ast.IfStmt:
		if x.Init != nil {
			return nil, fmt.Errorf("if with init statement")
		}
		c, err := it.expr(fd, x.Cond, env)
		if err != nil {
			return nil, err
		}
		b, ok := c.(bool)
		if !ok {
			return nil, fmt.Errorf("non-boolean condition")
		}
		if b {
			return it.block(fd, x.Body.List, env)
		}
		if x.Else != nil {
			return it.stmt(fd, x.Else, env)
		}
		return nil, nil
	case *ast.SwitchStmt:
		if x.Init != nil {
			return nil, fmt.Errorf("switch with init statement")
		}
		var tag any
		if x.Tag != nil {
			v, err := it.expr(fd, x.Tag, env)
			if err != nil {
				return nil, err
			}
			tag = v
		}
		var def *ast.CaseClause
		for _, cs := range x.Body.List {
			cc := cs.(*ast.CaseClause)
			if cc.List == nil {
				def = cc
				continue
			}
			for _, e := range cc.List {
				v, err := it.expr(fd, e, env)
				if err != nil {
					return nil, err
				}
				hit := false
				if x.Tag == nil {
					b, ok := v.(bool)
					if !ok {
						return nil, fmt.Errorf("non-boolean case")
					}
					hit = b
				} else {
					hit = v == tag
				}
				if hit {
					return it.block(fd, cc.Body, env)
				}
			}
		}
		if def != nil {
			return it.block(fd, def.Body, env)
		}
		return nil, nil
	case *ast.EmptyStmt:
		return nil, nil
	case *ast.DeclStmt:
		// var x T / var x T = e: local result variables of the single-exit form
		gd, ok := x.Decl.(*ast.GenDecl)
		if !ok || gd.Tok != token.VAR {
			break
		}
		info := fd.Pkg.TypesInfo
		for _, sp := range gd.Specs {
			vs, ok := sp.(*ast.ValueSpec)
			if !ok {
				return nil, fmt.Errorf("declaration outside the byte-class fragment")
			}
			for i, nm := range vs.Names {
				obj := info.Defs[nm]
				if obj == nil {
					continue
				}
				if i < len(vs.Values) {
					v, err := it.expr(fd, vs.Values[i], env)
					if err != nil {
						return nil, err
					}
					env[obj] = v
				} else {
					env[obj] = zeroOf(obj.Type())
				}
			}
		}
		return nil, nil
	case *ast.AssignStmt:
		if (x.Tok != token.ASSIGN && x.Tok != token.DEFINE) || len(x.Lhs) != len(x.Rhs) {
			break
		}
		info := fd.Pkg.TypesInfo
		vals := make([]any, len(x.Rhs))
		for i, e := range x.Rhs {
			v, err := it.expr(fd, e, env)
			if err != nil {
				return nil, err
			}
			vals[i] = v
		}
		for i, l := range x.Lhs {
			id, ok := l.(*ast.Ident)
			if !ok {
				return nil, fmt.Errorf("assignment to a non-variable is outside the byte-class fragment")
			}
			if id.Name == "_" {
				continue
			}
			obj := info.Defs[id]
			if obj == nil {
				obj = info.Uses[id]
			}
			if obj == nil || obj.Parent() == obj.Pkg().Scope() {
				return nil, fmt.Errorf("assignment to %s is outside the byte-class fragment", id.Name)
			}
			if v, ok := vals[i].(int64); ok {
				vals[i] = wrap(obj.Type(), v)
			}
			env[obj] = vals[i]
		}
		return nil, nil
	}
	return nil, fmt.Errorf("statement %T is outside the byte-class fragment", s)
}

func wrap(t types.Type, v int64) int64 {
	if b, ok := t.Underlying().(*types.Basic); ok {
		switch b.Kind() {
		case types.Uint8:
			return v & 0xFF
		case types.Int8:
			return int64(int8(v))
		case types.Uint16:
			return v & 0xFFFF
		case types.Uint32:
			return v & 0xFFFFFFFF
		}
	}
	return v
}

func (it *bcInterp) expr(fd *FuncDecl, e ast.Expr, env bcEnv) (any, error) {
	info := fd.Pkg.TypesInfo
	if it.Bind != nil {
		if v, ok := it.Bind[types.ExprString(e)]; ok {
			return v, nil
		}
	}
	if tv, ok := info.Types[e]; ok && tv.Value != nil {
		switch tv.Value.Kind() {
		case constant.Int:
			i, _ := constant.Int64Val(tv.Value)
			return i, nil
		case constant.Bool:
			return constant.BoolVal(tv.Value), nil
		case constant.String:
			return constant.StringVal(tv.Value), nil
		}
	}
	switch x := e.(type) {
	case *ast.ParenExpr:
		return it.expr(fd, x.X, env)
	case *ast.Ident:
		if x.Name == "nil" {
			return nil, nil
		}
		if o := info.Uses[x]; o != nil {
			if v, ok := env[o]; ok {
				return v, nil
			}
		}
		return nil, fmt.Errorf("identifier %s is not the parameter or a constant", x.Name)
	case *ast.UnaryExpr:
		v, err := it.expr(fd, x.X, env)
		if err != nil {
			return nil, err
		}
		switch x.Op {
		case token.NOT:
			b, ok := v.(bool)
			if !ok {
				return nil, fmt.Errorf("! on non-bool")
			}
			return !b, nil
		case token.SUB:
			i, ok := v.(int64)
			if !ok {
				return nil, fmt.Errorf("- on non-int")
			}
			return wrap(info.TypeOf(e), -i), nil
		}
		return nil, fmt.Errorf("unary %s", x.Op)
	case *ast.BinaryExpr:
		if x.Op == token.LAND || x.Op == token.LOR {
			l, err := it.expr(fd, x.X, env)
			if err != nil {
				return nil, err
			}
			lb, ok := l.(bool)
			if !ok {
				return nil, fmt.Errorf("non-bool operand")
			}
			if x.Op == token.LAND && !lb {
				return false, nil
			}
			if x.Op == token.LOR && lb {
				return true, nil
			}
			r, err := it.expr(fd, x.Y, env)
			if err != nil {
				return nil, err
			}
			rb, ok := r.(bool)
			if !ok {
				return nil, fmt.Errorf("non-bool operand")
			}
			return rb, nil
		}
		l, err := it.expr(fd, x.X, env)
		if err != nil {
			return nil, err
		}
		r, err := it.expr(fd, x.Y, env)
		if err != nil {
			return nil, err
		}
		li, lok := l.(int64)
		ri, rok := r.(int64)
		if !lok || !rok {
			return nil, fmt.Errorf("non-integer operands of %s", x.Op)
		}
		switch x.Op {
		case token.EQL:
			return li == ri, nil
		case token.NEQ:
			return li != ri, nil
		case token.LSS:
			return li < ri, nil
		case token.LEQ:
			return li <= ri, nil
		case token.GTR:
			return li > ri, nil
		case token.GEQ:
			return li >= ri, nil
		case token.ADD:
			return wrap(info.TypeOf(e), li+ri), nil
		case token.SUB:
			return wrap(info.TypeOf(e), li-ri), nil
		case token.MUL:
			return wrap(info.TypeOf(e), li*ri), nil
		case token.AND:
			return li & ri, nil
		case token.OR:
			return li | ri, nil
		case token.SHL:
			return wrap(info.TypeOf(e), li<<uint(ri)), nil
		case token.SHR:
			return li >> uint(ri), nil
		}
		return nil, fmt.Errorf("binary %s", x.Op)
	case *ast.CallExpr:
		// conversion
		if tv, ok := info.Types[x.Fun]; ok && tv.IsType() && len(x.Args) == 1 {
			v, err := it.expr(fd, x.Args[0], env)
			if err != nil {
				return nil, err
			}
			if i, ok := v.(int64); ok {
				return wrap(tv.Type, i), nil
			}
			return v, nil
		}
		var callee *types.Func
		switch f := x.Fun.(type) {
		case *ast.Ident:
			callee, _ = info.Uses[f].(*types.Func)
		case *ast.SelectorExpr:
			callee, _ = info.Uses[f.Sel].(*types.Func)
		}
		if it.Unknown != nil {
			if v, ok := it.Unknown(types.ExprString(x.Fun)); ok {
				return v, nil
			}
		}
		if callee == nil {
			return nil, fmt.Errorf("dynamic call")
		}
		if callee.Pkg() != nil && (callee.Pkg().Path() == "fmt" && callee.Name() == "Errorf" || callee.Pkg().Path() == "errors" && callee.Name() == "New") {
			return ErrVal{}, nil
		}
		name := funcObjNameEng(callee)
		cd := it.p.Decl(name)
		if cd == nil || len(x.Args) != 1 {
			return nil, fmt.Errorf("call to %s is outside the byte-class fragment", name)
		}
		a, err := it.expr(fd, x.Args[0], env)
		if err != nil {
			return nil, err
		}
		ai, ok := a.(int64)
		if !ok {
			return nil, fmt.Errorf("non-integer argument")
		}
		ps := cd.Decl.Type.Params
		if ps == nil || ps.NumFields() != 1 || len(ps.List[0].Names) != 1 {
			return nil, fmt.Errorf("callee %s is not unary", name)
		}
		res, err := it.call(cd, cd.Pkg.TypesInfo.Defs[ps.List[0].Names[0]], ai)
		if err != nil {
			return nil, err
		}
		if len(res) != 1 {
			return nil, fmt.Errorf("multi-value call in expression")
		}
		return res[0], nil
	}
	if ix, ok := e.(*ast.IndexExpr); ok {
		// table[c]: a package-level array/slice/map declared with a composite literal and never assigned to
		if v, ok, err := it.tableLookup(fd, ix, env); ok || err != nil {
			return v, err
		}
	}
	return nil, fmt.Errorf("expression %T is outside the byte-class fragment", e)
}

// tableLookup evaluates an index into a read-only package-level literal table.
func (it *bcInterp) tableLookup(fd *FuncDecl, ix *ast.IndexExpr, env bcEnv) (any, bool, error) {
	info := fd.Pkg.TypesInfo
	id, ok := ix.X.(*ast.Ident)
	if !ok {
		return nil, false, nil
	}
	obj, ok := info.Uses[id].(*types.Var)
	if !ok || obj.Parent() != obj.Pkg().Scope() {
		return nil, false, nil
	}
	idx, err := it.expr(fd, ix.Index, env)
	if err != nil {
		return nil, true, err
	}
	// find the declaration and make sure nothing in the package writes the table
	var lit *ast.CompositeLit
	written := false
	for _, f := range fd.Pkg.Syntax {
		for _, d := range f.Decls {
			gd, ok := d.(*ast.GenDecl)
			if !ok {
				continue
			}
			for _, sp := range gd.Specs {
				vs, ok := sp.(*ast.ValueSpec)
				if !ok {
					continue
				}
				for i, n := range vs.Names {
					if info.Defs[n] == types.Object(obj) && i < len(vs.Values) {
						lit, _ = vs.Values[i].(*ast.CompositeLit)
					}
				}
			}
		}
		ast.Inspect(f, func(n ast.Node) bool {
			switch x := n.(type) {
			case *ast.AssignStmt:
				for _, l := range x.Lhs {
					base := l
					if ie, ok := base.(*ast.IndexExpr); ok {
						base = ie.X
					}
					if bid, ok := base.(*ast.Ident); ok && info.Uses[bid] == types.Object(obj) {
						written = true
					}
				}
			case *ast.IncDecStmt:
				if ie, ok := x.X.(*ast.IndexExpr); ok {
					if bid, ok := ie.X.(*ast.Ident); ok && info.Uses[bid] == types.Object(obj) {
						written = true
					}
				}
			}
			return true
		})
	}
	if lit == nil || written {
		return nil, true, fmt.Errorf("table %s is not a read-only literal", id.Name)
	}
	var def any = false
	switch u := obj.Type().Underlying().(type) {
	case *types.Array:
		def = zeroOf(u.Elem())
	case *types.Slice:
		def = zeroOf(u.Elem())
	case *types.Map:
		def = zeroOf(u.Elem())
	}
	pos := int64(0)
	for _, el := range lit.Elts {
		var key any = pos
		val := el
		if kv, ok := el.(*ast.KeyValueExpr); ok {
			k, err := it.expr(fd, kv.Key, env)
			if err != nil {
				return nil, true, err
			}
			key = k
			val = kv.Value
			if ki, ok := k.(int64); ok {
				pos = ki
			}
		}
		pos++
		if fmt.Sprint(key) == fmt.Sprint(idx) {
			v, err := it.expr(fd, val, env)
			return v, true, err
		}
	}
	return def, true, nil
}

func zeroOf(t types.Type) any {
	if b, ok := t.Underlying().(*types.Basic); ok {
		switch {
		case b.Info()&types.IsBoolean != 0:
			return false
		case b.Info()&types.IsInteger != 0:
			return int64(0)
		case b.Info()&types.IsString != 0:
			return ""
		}
	}
	return nil
}

func funcObjNameEng(f *types.Func) string {
	pkg := ""
	if f.Pkg() != nil {
		pkg = shortPkg(f.Pkg().Path())
	}
	return pkg + "." + f.Name()
}

// ExprByteSet evaluates a boolean expression of function fd for each value
// 0..255 of the sub-expression whose source text is free (e.g. "c" or
// "p.data[p.pos]") and returns the set of bytes for which it is true. unknown
// decides calls that are not byte-class functions (nil: such calls are errors).
func (p *Prog) ExprByteSet(fd *FuncDecl, e ast.Expr, free string, unknown func(string) (any, bool)) (map[byte]bool, error) {
	set := map[byte]bool{}
	for c := 0; c < 256; c++ {
		it := &bcInterp{p: p, Bind: map[string]int64{free: int64(c)}, Unknown: unknown}
		v, err := it.expr(fd, e, bcEnv{})
		if err != nil {
			return nil, err
		}
		b, ok := v.(bool)
		if !ok {
			return nil, fmt.Errorf("expression is not boolean")
		}
		if b {
			set[byte(c)] = true
		}
	}
	return set, nil
}
