package eng

import (
	"encoding/json"
	"fmt"
	"go/token"
	"os"
	"path/filepath"
	"sort"
	"strings"
	"time"
)

// Verdict of one obligation.
type Verdict int

const (
	OK Verdict = iota
	Violation
	Undecided
)

func (v Verdict) String() string {
	switch v {
	case OK:
		return "ok"
	case Violation:
		return "violation"
	}
	return "undecided"
}

// Ob is one obligation: a rule instance applied to one construct.
type Ob struct {
	Rule      string  `json:"rule"`
	Construct string  `json:"construct"` // stable key: function / callee / field / case label — never a line
	Pos       string  `json:"pos"`
	Verdict   Verdict `json:"-"`
	V         string  `json:"verdict"`
	Msg       string  `json:"msg"`
}

// PositivePkg is the short path of the always-violating package that is overlaid
// into every load to keep zero-count rules alive.
const PositivePkg = "internal/zzverifpositive"

// Ctx collects obligations of one property run.
type Ctx struct {
	P      *Prog
	Prop   string
	Tier   string
	Config string // label of the configuration being analysed ("default", "tests", "386", "mutant:…")
	Obs    []Ob
	Rules  map[string]*RuleInfo
	Notes  []string
	Assume []string
}

// RuleInfo describes a rule for the evidence file.
type RuleInfo struct {
	ID    string `json:"id"`
	Doc   string `json:"doc"`
	Floor int    `json:"instance_floor"`
	Count int    `json:"instances"`
	// PositiveWant is the number of violations the rule must raise inside PositivePkg.
	PositiveWant int `json:"positive_expected"`
	PositiveGot  int `json:"positive_fired"`
}

func NewCtx(p *Prog, prop, tier, config string) *Ctx {
	return &Ctx{P: p, Prop: prop, Tier: tier, Config: config, Rules: map[string]*RuleInfo{}}
}

// Rule declares a rule, its documentation, the minimum number of instances that
// were confirmed by reading (a run matching fewer is undecided, not a pass) and
// how many violations it must raise on the positive package.
func (c *Ctx) Rule(id, doc string, floor, positive int) {
	if _, ok := c.Rules[id]; !ok {
		c.Rules[id] = &RuleInfo{ID: id, Doc: doc, Floor: floor, PositiveWant: positive}
	}
}

func (c *Ctx) add(rule, construct string, pos token.Pos, v Verdict, msg string) {
	ps := "-"
	if c.P != nil {
		ps = c.P.Pos(pos)
	}
	if strings.Contains(construct, PositivePkg) || strings.HasPrefix(ps, PositivePkg) {
		if ri := c.Rules[rule]; ri != nil && v == Violation {
			ri.PositiveGot++
		}
		return
	}
	if pre := os.Getenv("VTRACE"); pre != "" && strings.HasPrefix(rule, pre) {
		fmt.Fprintf(os.Stderr, "VTRACE %v %s %s: %s\n", v, rule, construct, msg)
	}
	if ri := c.Rules[rule]; ri != nil {
		ri.Count++
	} else {
		c.Rules[rule] = &RuleInfo{ID: rule, Count: 1}
	}
	c.Obs = append(c.Obs, Ob{Rule: rule, Construct: construct, Pos: ps, Verdict: v, V: v.String(), Msg: msg})
}

func (c *Ctx) Ok(rule, construct string, pos token.Pos, msg string) {
	c.add(rule, construct, pos, OK, msg)
}
func (c *Ctx) Viol(rule, construct string, pos token.Pos, msg string) {
	c.add(rule, construct, pos, Violation, msg)
}
func (c *Ctx) Undec(rule, construct string, pos token.Pos, msg string) {
	c.add(rule, construct, pos, Undecided, msg)
}

// Check records ok or violation.
func (c *Ctx) Check(cond bool, rule, construct string, pos token.Pos, okMsg, badMsg string) bool {
	if cond {
		c.Ok(rule, construct, pos, okMsg)
	} else {
		c.Viol(rule, construct, pos, badMsg)
	}
	return cond
}

func (c *Ctx) Note(f string, a ...any)    { c.Notes = append(c.Notes, fmt.Sprintf(f, a...)) }
func (c *Ctx) Assumes(f string, a ...any) { c.Assume = append(c.Assume, fmt.Sprintf(f, a...)) }

// Finish applies instance floors and positive-example liveness.
func (c *Ctx) Finish(positiveLoaded bool) {
	ids := make([]string, 0, len(c.Rules))
	for id := range c.Rules {
		ids = append(ids, id)
	}
	sort.Strings(ids)
	for _, id := range ids {
		ri := c.Rules[id]
		if ri.Count < ri.Floor {
			c.Obs = append(c.Obs, Ob{Rule: id, Construct: "instance-floor", Pos: "-", Verdict: Undecided, V: "undecided",
				Msg: fmt.Sprintf("rule matched %d instances, %d were confirmed by reading: the rule no longer sees the code it was written for", ri.Count, ri.Floor)})
		}
		if positiveLoaded && ri.PositiveGot < ri.PositiveWant {
			c.Obs = append(c.Obs, Ob{Rule: id, Construct: "positive-example", Pos: "-", Verdict: Undecided, V: "undecided",
				Msg: fmt.Sprintf("rule fired %d times on the positive example package, expected %d: rule is dead", ri.PositiveGot, ri.PositiveWant)})
		}
	}
	c.deferToEvaluation()
}

// DecidedByEvaluation names, for structural rules whose clause an evaluated rule of the same property decides on a
// finite input family, those evaluated rules. Where such a structural rule does not recognise the code in front of it
// (it reports a violation or cannot decide) and every evaluated rule named here was evaluated on this tree - no family
// member outside the interpreter's model - and found nothing, the structural verdict is withdrawn: the shape is
// unknown to the rule, the behaviour the clause is about was read off the code itself. A change that breaks the
// behaviour on the family is still reported, by the evaluated rule.
var DecidedByEvaluation = map[string][]string{}

func (c *Ctx) deferToEvaluation() {
	status := map[string]int{} // evaluated rule id -> 1 evaluated and clean, 2 not usable
	for _, o := range c.Obs {
		for _, evs := range DecidedByEvaluation {
			for _, ev := range evs {
				if o.Rule != ev {
					continue
				}
				if o.Verdict != OK || strings.Contains(o.Msg, "not evaluated") {
					status[ev] = 2
				} else if status[ev] == 0 {
					status[ev] = 1
				}
			}
		}
	}
	for i := range c.Obs {
		o := &c.Obs[i]
		if o.Verdict == OK || o.Construct == "positive-example" {
			continue
		}
		evs, ok := DecidedByEvaluation[o.Rule]
		if !ok {
			continue
		}
		all := len(evs) > 0
		for _, ev := range evs {
			if status[ev] != 1 {
				all = false
			}
		}
		if !all {
			continue
		}
		o.Verdict, o.V = OK, "ok"
		o.Msg = "the rule does not recognise this code (" + o.Msg + "); its clause is decided by " + strings.Join(evs, ", ") + " on their input families, which found nothing"
	}
}

// KnownFinding is one entry of /verif/known_findings.json.
type KnownFinding struct {
	Property  string `json:"property"`
	Rule      string `json:"rule"`
	Construct string `json:"construct"`
	What      string `json:"what"`
	Input     string `json:"input,omitempty"`
	Status    string `json:"status"` // "finding" | "fixed"
	Commit    string `json:"commit,omitempty"`
}

func LoadKnown(path string) ([]KnownFinding, error) {
	b, err := os.ReadFile(path)
	if err != nil {
		if os.IsNotExist(err) {
			return nil, nil
		}
		return nil, err
	}
	var kf []KnownFinding
	if err := json.Unmarshal(b, &kf); err != nil {
		return nil, fmt.Errorf("%s: %w", path, err)
	}
	return kf, nil
}

// Outcome of a whole check.
type Outcome struct {
	Obs        []Ob
	Violations []Ob
	Undecided  []Ob
	Known      []string // KNOWN-FINDING lines
	Resolved   []string
}

// Evaluate subtracts known findings (status "finding" only) keyed by rule+construct.
func Evaluate(prop string, obs []Ob, known []KnownFinding) Outcome {
	out := Outcome{Obs: obs}
	matched := map[int]bool{}
	seenKnown := map[string]bool{}
	for _, o := range obs {
		switch o.Verdict {
		case Violation:
			hit := false
			for i, k := range known {
				if k.Property == prop && k.Status == "finding" && k.Rule == o.Rule && k.Construct == o.Construct {
					hit = true
					matched[i] = true
					line := fmt.Sprintf("KNOWN-FINDING: property=%s %s [%s %s at %s]", prop, k.What, o.Rule, o.Construct, o.Pos)
					if !seenKnown[line] {
						seenKnown[line] = true
						out.Known = append(out.Known, line)
					}
				}
			}
			if !hit {
				out.Violations = append(out.Violations, o)
			}
		case Undecided:
			out.Undecided = append(out.Undecided, o)
		}
	}
	for i, k := range known {
		if k.Property == prop && k.Status == "finding" && !matched[i] {
			out.Resolved = append(out.Resolved, fmt.Sprintf("%s %s", k.Rule, k.Construct))
		}
	}
	return out
}

// Evidence is the JSON written to /verif/evidence/<id>.json.
type Evidence struct {
	PropertyID  string         `json:"property_id"`
	Tier        string         `json:"tier"`
	Seed        int            `json:"seed"`
	Level       string         `json:"level"`
	Coverage    map[string]any `json:"coverage"`
	Assumptions []string       `json:"assumptions"`
	WallS       float64        `json:"wall_s"`
	Violations  int            `json:"violations"`
}

// WriteEvidence renders the evidence file for one run.
func WriteEvidence(path, prop, tier, level string, seed int, ctxs []*Ctx, out Outcome, extra map[string]any, start time.Time, explanation string) error {
	cov := map[string]any{}
	total, discharged := 0, 0
	constructs := map[string]bool{}
	var samples []any
	perRule := map[string]*RuleInfo{}
	var ruleOrder []string
	var notes, assume []string
	configs := []string{}
	for _, c := range ctxs {
		configs = append(configs, c.Config)
		for _, o := range c.Obs {
			total++
			if o.Verdict == OK {
				discharged++
			}
			constructs[o.Rule+"|"+o.Construct] = true
		}
		for id, ri := range c.Rules {
			if c.Config != "default" {
				continue
			}
			cp := *ri
			perRule[id] = &cp
			ruleOrder = append(ruleOrder, id)
		}
		notes = append(notes, c.Notes...)
		assume = append(assume, c.Assume...)
	}
	sort.Strings(ruleOrder)
	// samples: first obligation of each rule in the default configuration, written out
	seen := map[string]int{}
	for _, c := range ctxs {
		if c.Config != "default" {
			continue
		}
		for _, o := range c.Obs {
			if seen[o.Rule] < 2 {
				seen[o.Rule]++
				samples = append(samples, map[string]string{"rule": o.Rule, "construct": o.Construct, "pos": o.Pos, "verdict": o.V, "msg": o.Msg})
			}
		}
	}
	if len(samples) == 0 {
		samples = append(samples, "no obligations produced")
	}
	var rules []any
	for _, id := range ruleOrder {
		rules = append(rules, perRule[id])
	}
	cov["obligations"] = total
	cov["discharged"] = discharged
	cov["evaluations"] = total
	cov["distinct_nontrivial"] = len(constructs)
	cov["rule"] = "one obligation = one rule instance applied to one construct (function, call site, table entry, loop, field) of /repo's current source; distinct = distinct (rule, construct) keys; every obligation is non-trivial in that it was produced by matching real code, not a constant"
	cov["explanation"] = explanation
	cov["samples"] = samples
	cov["rules"] = rules
	cov["configurations"] = configs
	cov["checker_cmd"] = fmt.Sprintf("/verif/check.sh %s %s", prop, tier)
	cov["trusted_base"] = []string{"go/types type checker", "golang.org/x/tools v0.29.0 go/packages, go/ssa, callgraph/vta", "the rule tables in /verif/checker/rules and refdata (hand-written from ISO 32000 etc.)"}
	cov["known_findings_matched"] = out.Known
	cov["known_findings_resolved"] = out.Resolved
	cov["undecided"] = len(out.Undecided)
	cov["exhaustive"] = true
	if len(notes) > 0 {
		cov["notes"] = dedup(notes)
	}
	for k, v := range extra {
		cov[k] = v
	}
	ev := Evidence{PropertyID: prop, Tier: tier, Seed: seed, Level: level, Coverage: cov,
		Assumptions: dedup(append(assume,
			"default build configuration (!ocr): the ocr tag needs cgo+Tesseract and cannot be type-checked here",
			"a structural necessary condition is decided, not the behaviour itself; see DESIGN.md for the part not decided")),
		WallS: time.Since(start).Seconds(), Violations: len(out.Violations)}
	b, err := json.MarshalIndent(ev, "", " ")
	if err != nil {
		return err
	}
	if err := os.MkdirAll(filepath.Dir(path), 0o755); err != nil {
		return err
	}
	return os.WriteFile(path, append(b, '\n'), 0o644)
}

func dedup(in []string) []string {
	seen := map[string]bool{}
	var out []string
	for _, s := range in {
		if !seen[s] {
			seen[s] = true
			out = append(out, s)
		}
	}
	return out
}

// WriteReport stores the violating constructs (the replay artefact).
func WriteReport(path, prop string, out Outcome) error {
	type rep struct {
		Property   string `json:"property"`
		Violations []Ob   `json:"violations"`
		Undecided  []Ob   `json:"undecided"`
	}
	b, _ := json.MarshalIndent(rep{prop, out.Violations, out.Undecided}, "", " ")
	if err := os.MkdirAll(filepath.Dir(path), 0o755); err != nil {
		return err
	}
	return os.WriteFile(path, append(b, '\n'), 0o644)
}
