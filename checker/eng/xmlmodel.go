package eng

import (
	"encoding/xml"
	"go/types"
	"reflect"
)

// xmlUnmarshal stands in for encoding/xml.Unmarshal on a target of a plain struct type (fields with xml tags, no
// custom unmarshalling methods): a Go type of the same shape and tags is built with reflect, the library decodes the
// bytes into it, and the result is turned into evaluator values. The decoding is the library's; the types and tags are
// the repository's, read from its source. What was in the target before is not merged (the readers decode into fresh
// values).
func xmlUnmarshal(data []byte, target *EPtr, ptrT types.Type) (any, *EvalError) {
	pt, ok := ptrT.Underlying().(*types.Pointer)
	if !ok {
		return nil, notEval("xml.Unmarshal into %s", ptrT)
	}
	b := &xmlBuilder{busy: map[*types.Named]int{}}
	rt, ok := b.typeOf(pt.Elem(), 0)
	if !ok {
		return nil, notEval("xml.Unmarshal into %s: %s", pt.Elem(), b.why)
	}
	rv := reflect.New(rt)
	if err := xml.Unmarshal(data, rv.Interface()); err != nil {
		return &EErr{Msg: err.Error()}, nil
	}
	target.Set(b.valueOf(rv.Elem(), pt.Elem()))
	return nil, nil
}

type xmlBuilder struct {
	busy map[*types.Named]int // how many times a named type is being built inside itself
	why  string
}

func (b *xmlBuilder) typeOf(t types.Type, depth int) (reflect.Type, bool) {
	if depth > 40 {
		b.why = "types nested too deep"
		return nil, false
	}
	if nt, ok := t.(*types.Named); ok {
		if nt.Obj().Pkg() != nil && nt.Obj().Pkg().Path() == "encoding/xml" {
			switch nt.Obj().Name() {
			case "Name":
				return reflect.TypeOf(xml.Name{}), true
			case "Attr":
				return reflect.TypeOf(xml.Attr{}), true
			}
		}
		ms := types.NewMethodSet(types.NewPointer(nt))
		for _, m := range []string{"UnmarshalXML", "UnmarshalXMLAttr", "UnmarshalText"} {
			if ms.Lookup(nt.Obj().Pkg(), m) != nil {
				b.why = nt.Obj().Name() + " has its own " + m
				return nil, false
			}
		}
		// a type that contains itself (a group of shapes inside a group) is unrolled three levels deep; what is nested
		// deeper in the input is not decoded
		if b.busy[nt] >= 3 {
			return reflect.TypeOf(struct{}{}), true
		}
		b.busy[nt]++
		defer func() { b.busy[nt]-- }()
	}
	switch u := t.Underlying().(type) {
	case *types.Basic:
		switch u.Kind() {
		case types.String:
			return reflect.TypeOf(""), true
		case types.Bool:
			return reflect.TypeOf(false), true
		case types.Int:
			return reflect.TypeOf(int(0)), true
		case types.Int8:
			return reflect.TypeOf(int8(0)), true
		case types.Int16:
			return reflect.TypeOf(int16(0)), true
		case types.Int32:
			return reflect.TypeOf(int32(0)), true
		case types.Int64:
			return reflect.TypeOf(int64(0)), true
		case types.Uint:
			return reflect.TypeOf(uint(0)), true
		case types.Uint8:
			return reflect.TypeOf(uint8(0)), true
		case types.Uint16:
			return reflect.TypeOf(uint16(0)), true
		case types.Uint32:
			return reflect.TypeOf(uint32(0)), true
		case types.Uint64:
			return reflect.TypeOf(uint64(0)), true
		case types.Float32:
			return reflect.TypeOf(float32(0)), true
		case types.Float64:
			return reflect.TypeOf(float64(0)), true
		}
	case *types.Pointer:
		et, ok := b.typeOf(u.Elem(), depth+1)
		if !ok {
			return nil, false
		}
		return reflect.PointerTo(et), true
	case *types.Slice:
		et, ok := b.typeOf(u.Elem(), depth+1)
		if !ok {
			return nil, false
		}
		return reflect.SliceOf(et), true
	case *types.Struct:
		var fields []reflect.StructField
		for i := 0; i < u.NumFields(); i++ {
			f := u.Field(i)
			ft, ok := b.typeOf(f.Type(), depth+1)
			if !ok {
				return nil, false
			}
			sf := reflect.StructField{Name: f.Name(), Type: ft, Tag: reflect.StructTag(u.Tag(i)), Anonymous: f.Embedded()}
			if !f.Exported() {
				sf.PkgPath = "verif/stand-in"
			}
			fields = append(fields, sf)
		}
		var rt reflect.Type
		func() {
			defer func() {
				if r := recover(); r != nil {
					b.why = "reflect cannot build the struct type"
				}
			}()
			rt = reflect.StructOf(fields)
		}()
		return rt, rt != nil
	}
	b.why = "a field of type " + t.String()
	return nil, false
}

func (b *xmlBuilder) valueOf(v reflect.Value, t types.Type) any {
	switch u := t.Underlying().(type) {
	case *types.Basic:
		switch v.Kind() {
		case reflect.String:
			return v.String()
		case reflect.Bool:
			return v.Bool()
		case reflect.Int, reflect.Int8, reflect.Int16, reflect.Int32, reflect.Int64:
			return v.Int()
		case reflect.Uint, reflect.Uint8, reflect.Uint16, reflect.Uint32, reflect.Uint64:
			return int64(v.Uint())
		case reflect.Float32, reflect.Float64:
			return v.Float()
		}
	case *types.Pointer:
		if v.IsNil() {
			return nil
		}
		loc := &ELoc{V: b.valueOf(v.Elem(), u.Elem())}
		return &EPtr{Get: func() any { return loc.V }, Set: func(x any) { loc.V = x }, Loc: loc}
	case *types.Slice:
		sl := &ESlice{}
		if v.IsNil() {
			return sl
		}
		sl.L = make([]*ELoc, 0, v.Len())
		for i := 0; i < v.Len(); i++ {
			sl.L = append(sl.L, &ELoc{b.valueOf(v.Index(i), u.Elem())})
		}
		return sl
	case *types.Struct:
		if v.Kind() != reflect.Struct || v.NumField() != u.NumFields() {
			return ZeroOf(t) // the level at which a self-containing type was cut off
		}
		s := &EStruct{}
		for i := 0; i < u.NumFields(); i++ {
			s.F = append(s.F, b.valueOf(v.Field(i), u.Field(i).Type()))
		}
		return s
	}
	return ZeroOf(t)
}
