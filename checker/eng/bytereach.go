package eng

import (
	"fmt"
	"go/constant"
	"go/token"
	"go/types"
	"sort"
	"strconv"
	"strings"
	"sync"

	"golang.org/x/tools/go/ssa"
	"golang.org/x/tools/go/ssa/ssautil"
)

// ByteReach computes, for every byte value b, whether control in fn can reach an
// instruction accepted by target when every "current byte" of fn (isByte) has the
// value b. Branch conditions are evaluated on the SSA form with three-valued logic:
// integer/boolean arithmetic and comparisons of known values, phis by the edge taken,
// calls to module functions evaluated the same way when all arguments are known, and
// assume() for calls whose answer the caller fixes. An unknown condition explores both
// successors (may-reach). No tabula code runs: this is an abstract evaluation of the
// SSA of small classification functions over a 256-element domain, independent of how
// the source spells the test (if-chains, switches, named booleans, De Morgan forms).
func ByteReach(fn *ssa.Function, isByte func(ssa.Value) bool, target func(ssa.Instruction) bool, assume func(*ssa.Call) (int64, bool)) [256]bool {
	var out [256]bool
	for b := 0; b < 256; b++ {
		ev := &byteEval{b: int64(b), isByte: isByte, assume: assume}
		out[b] = ev.reach(fn, target)
	}
	return out
}

// ByteReachLeaf is ByteReach with some values fixed by leaf (the byte that selected the branch under study).
func ByteReachLeaf(fn *ssa.Function, isByte func(ssa.Value) bool, leaf func(ssa.Value) (int64, bool), target func(ssa.Instruction) bool) [256]bool {
	var out [256]bool
	for b := 0; b < 256; b++ {
		ev := &byteEval{b: int64(b), isByte: isByte, leaf: leaf}
		out[b] = ev.reach(fn, target)
	}
	return out
}

// DefaultByteVar: a value of type uint8 loaded from memory (an element of the input).
func DefaultByteVar(v ssa.Value) bool {
	u, ok := v.(*ssa.UnOp)
	if !ok || u.Op != token.MUL {
		return false
	}
	bt, ok := v.Type().Underlying().(*types.Basic)
	if !ok || bt.Kind() != types.Uint8 {
		return false
	}
	_, isIdx := u.X.(*ssa.IndexAddr)
	return isIdx
}

type byteEval struct {
	b      int64
	isByte func(ssa.Value) bool
	assume func(*ssa.Call) (int64, bool)
	args   map[ssa.Value]int64 // parameter bindings when evaluating a callee
	leaf   func(ssa.Value) (int64, bool)
	strs   *StrIntern // string constants as opaque ids (only == and != are evaluated on them)
}

// StrIntern maps string constants to opaque integer ids far from any small integer.
type StrIntern struct{ ids map[string]int64 }

func NewStrIntern() *StrIntern { return &StrIntern{ids: map[string]int64{}} }

func (si *StrIntern) ID(s string) int64 {
	if id, ok := si.ids[s]; ok {
		return id
	}
	id := int64(1<<40) + int64(len(si.ids))
	si.ids[s] = id
	return id
}

// StrReach is ByteReach over a finite set of strings: for each element s of domain it reports whether control in
// fn can reach an instruction accepted by target when every value accepted by isVar is the string s and the values
// fixed by leaf have the given value. Strings are compared only for equality; anything else about them is unknown
// (both branches explored), so the answer over-approximates reachability.
func StrReach(fn *ssa.Function, domain []string, isVar func(ssa.Value) bool, leaf func(ssa.Value, *StrIntern) (int64, bool), target func(ssa.Instruction) bool) map[string]bool {
	out := map[string]bool{}
	si := NewStrIntern()
	for _, s := range domain {
		ev := &byteEval{b: si.ID(s), isByte: isVar, strs: si}
		if leaf != nil {
			ev.leaf = func(v ssa.Value) (int64, bool) { return leaf(v, si) }
		}
		out[s] = ev.reach(fn, target)
	}
	return out
}

func isStringValue(v ssa.Value) bool {
	b, ok := v.Type().Underlying().(*types.Basic)
	return ok && b.Info()&types.IsString != 0
}

type edgeKey struct{ blk, prev *ssa.BasicBlock }

func (ev *byteEval) reach(fn *ssa.Function, target func(ssa.Instruction) bool) bool {
	if len(fn.Blocks) == 0 {
		return false
	}
	seen := map[edgeKey]bool{}
	found := false
	var walk func(blk, prev *ssa.BasicBlock, env map[ssa.Value]int64)
	walk = func(blk, prev *ssa.BasicBlock, env map[ssa.Value]int64) {
		if found || seen[edgeKey{blk, prev}] {
			return
		}
		seen[edgeKey{blk, prev}] = true
		ev.args = env
		ev.enter(blk, prev)
		for _, in := range blk.Instrs {
			if target(in) {
				found = true
				return
			}
		}
		if len(blk.Instrs) == 0 {
			return
		}
		switch t := blk.Instrs[len(blk.Instrs)-1].(type) {
		case *ssa.If:
			v, known := ev.value(t.Cond, phiCtx{}, 0)
			if !known {
				walk(blk.Succs[0], blk, copyEnv(env))
				walk(blk.Succs[1], blk, copyEnv(env))
			} else if v != 0 {
				walk(blk.Succs[0], blk, env)
			} else {
				walk(blk.Succs[1], blk, env)
			}
		case *ssa.Jump:
			walk(blk.Succs[0], blk, env)
		}
	}
	walk(fn.Blocks[0], nil, map[ssa.Value]int64{})
	return found
}

func copyEnv(m map[ssa.Value]int64) map[ssa.Value]int64 {
	c := make(map[ssa.Value]int64, len(m))
	for k, v := range m {
		c[k] = v
	}
	return c
}

// enter binds the phis of blk to the values of the edge from prev (unknown phis are unbound).
func (ev *byteEval) enter(blk, prev *ssa.BasicBlock) {
	if prev == nil {
		return
	}
	idx := -1
	for i, p := range blk.Preds {
		if p == prev {
			idx = i
		}
	}
	if idx < 0 {
		return
	}
	type bind struct {
		ph *ssa.Phi
		v  int64
		ok bool
	}
	var bs []bind
	for _, in := range blk.Instrs {
		ph, ok := in.(*ssa.Phi)
		if !ok {
			break
		}
		v, known := ev.value(ph.Edges[idx], phiCtx{}, 0)
		bs = append(bs, bind{ph, v, known})
	}
	for _, b := range bs {
		if b.ok {
			ev.args[b.ph] = b.v
		} else {
			delete(ev.args, b.ph)
		}
	}
}

// prev0 carries, for phi evaluation, the block through which blk was entered.
type phiCtx struct{ blk, prev *ssa.BasicBlock }

func prev0(blk, prev *ssa.BasicBlock) phiCtx { return phiCtx{blk, prev} }

func (ev *byteEval) value(v ssa.Value, ctx phiCtx, depth int) (int64, bool) {
	if depth > 12 {
		return 0, false
	}
	if a, ok := ev.args[v]; ok {
		return a, true
	}
	if ev.leaf != nil {
		if a, ok := ev.leaf(v); ok {
			return a, true
		}
	}
	if ev.isByte(v) {
		return ev.b, true
	}
	switch x := v.(type) {
	case *ssa.Const:
		if x.Value == nil {
			return 0, false
		}
		switch x.Value.Kind() {
		case constant.String:
			if ev.strs != nil {
				return ev.strs.ID(constant.StringVal(x.Value)), true
			}
			return 0, false
		case constant.Bool:
			if constant.BoolVal(x.Value) {
				return 1, true
			}
			return 0, true
		case constant.Int:
			if k, ok := constant.Int64Val(x.Value); ok {
				return k, true
			}
		}
		return 0, false
	case *ssa.Convert:
		return ev.value(x.X, ctx, depth+1)
	case *ssa.ChangeType:
		return ev.value(x.X, ctx, depth+1)
	case *ssa.UnOp:
		if x.Op == token.NOT {
			a, ok := ev.value(x.X, ctx, depth+1)
			if !ok {
				return 0, false
			}
			if a == 0 {
				return 1, true
			}
			return 0, true
		}
		if x.Op == token.SUB {
			a, ok := ev.value(x.X, ctx, depth+1)
			return -a, ok
		}
		return 0, false
	case *ssa.Phi:
		// only phis of the block being left can be resolved; others are unknown unless all known inputs agree
		if x.Block() == ctx.blk && ctx.prev != nil {
			for i, p := range x.Block().Preds {
				if p == ctx.prev {
					return ev.value(x.Edges[i], phiCtx{}, depth+1)
				}
			}
		}
		first := true
		var val int64
		for _, e := range x.Edges {
			a, ok := ev.value(e, phiCtx{}, depth+1)
			if !ok {
				return 0, false
			}
			if first {
				val, first = a, false
			} else if a != val {
				return 0, false
			}
		}
		return val, !first
	case *ssa.BinOp:
		if isStringValue(x.X) && x.Op != token.EQL && x.Op != token.NEQ {
			return 0, false
		}
		a, oka := ev.value(x.X, ctx, depth+1)
		b, okb := ev.value(x.Y, ctx, depth+1)
		if !oka || !okb {
			return 0, false
		}
		bo := func(c bool) (int64, bool) {
			if c {
				return 1, true
			}
			return 0, true
		}
		switch x.Op {
		case token.EQL:
			return bo(a == b)
		case token.NEQ:
			return bo(a != b)
		case token.LSS:
			return bo(a < b)
		case token.LEQ:
			return bo(a <= b)
		case token.GTR:
			return bo(a > b)
		case token.GEQ:
			return bo(a >= b)
		case token.ADD:
			return a + b, true
		case token.SUB:
			return a - b, true
		case token.AND:
			return a & b, true
		case token.OR:
			return a | b, true
		case token.XOR:
			return a ^ b, true
		}
		return 0, false
	case *ssa.Lookup:
		if !x.CommaOk {
			if val, _, ok := ev.tableLookup(x, ctx, depth); ok && val != valueUnknown {
				return val, true
			}
		}
		return 0, false
	case *ssa.Extract:
		if lk, ok := x.Tuple.(*ssa.Lookup); ok && lk.CommaOk {
			if val, present, ok := ev.tableLookup(lk, ctx, depth); ok {
				if x.Index == 0 {
					return val, val != valueUnknown
				}
				return present, true
			}
		}
		return 0, false
	case *ssa.Call:
		if ev.assume != nil {
			if r, ok := ev.assume(x); ok {
				return r, true
			}
		}
		callee := x.Call.StaticCallee()
		if callee == nil || callee.Blocks == nil || !InModule(callee) || len(x.Call.Args) != len(callee.Params) {
			return 0, false
		}
		args := map[ssa.Value]int64{}
		for i, a := range x.Call.Args {
			av, ok := ev.value(a, ctx, depth+1)
			if !ok {
				return 0, false
			}
			args[callee.Params[i]] = av
		}
		if r, ok := ev.call(callee, args, depth+1); ok {
			return r, true
		}
		return concreteCall(callee, args)
	}
	return 0, false
}

var (
	concreteMemo = map[string][2]int64{}
	concreteMu   sync.Mutex
)

// concreteCall answers a classification function the path follower cannot (it reads a table a package initialiser
// builds, or loops) by running it in the SSA evaluator on the known integer arguments.
func concreteCall(fn *ssa.Function, args map[ssa.Value]int64) (int64, bool) {
	res := fn.Signature.Results()
	if res.Len() != 1 {
		return 0, false
	}
	if b, ok := res.At(0).Type().Underlying().(*types.Basic); !ok || b.Info()&(types.IsInteger|types.IsBoolean) == 0 {
		return 0, false
	}
	key := fn.String()
	var in []any
	for _, p := range fn.Params {
		b, ok := p.Type().Underlying().(*types.Basic)
		if !ok || b.Info()&(types.IsInteger|types.IsBoolean) == 0 {
			return 0, false
		}
		v := args[p]
		key += fmt.Sprintf(",%d", v)
		if b.Info()&types.IsBoolean != 0 {
			in = append(in, v != 0)
		} else {
			in = append(in, v)
		}
	}
	concreteMu.Lock()
	m, hit := concreteMemo[key]
	concreteMu.Unlock()
	if hit {
		return m[0], m[1] != 0
	}
	e := NewEvaluator()
	e.Steps = 20000
	got, err := e.Call(fn, in, 0)
	out, okOut := int64(0), false
	if err == nil {
		switch g := got.(type) {
		case int64:
			out, okOut = g, true
		case bool:
			if g {
				out = 1
			}
			okOut = true
		}
	}
	fl := int64(0)
	if okOut {
		fl = 1
	}
	concreteMu.Lock()
	concreteMemo[key] = [2]int64{out, fl}
	concreteMu.Unlock()
	return out, okOut
}

// call evaluates a pure classification function on known integer arguments by
// following its control flow deterministically (unknown condition => unknown result).
func (ev *byteEval) call(fn *ssa.Function, args map[ssa.Value]int64, depth int) (int64, bool) {
	if depth > 12 || len(fn.Blocks) == 0 {
		return 0, false
	}
	inner := &byteEval{b: ev.b, assume: ev.assume, args: copyEnv(args), isByte: func(ssa.Value) bool { return false }, strs: ev.strs}
	blk, prev := fn.Blocks[0], (*ssa.BasicBlock)(nil)
	for steps := 0; steps < 500; steps++ {
		if len(blk.Instrs) == 0 {
			return 0, false
		}
		switch t := blk.Instrs[len(blk.Instrs)-1].(type) {
		case *ssa.Return:
			if len(t.Results) != 1 {
				return 0, false
			}
			return inner.value(t.Results[0], phiCtx{blk, prev}, depth+1)
		case *ssa.If:
			c, ok := inner.value(t.Cond, phiCtx{blk, prev}, depth+1)
			if !ok {
				return 0, false
			}
			prev = blk
			if c != 0 {
				blk = blk.Succs[0]
			} else {
				blk = blk.Succs[1]
			}
			inner.enter(blk, prev)
		case *ssa.Jump:
			prev = blk
			blk = blk.Succs[0]
			inner.enter(blk, prev)
		default:
			return 0, false
		}
	}
	return 0, false
}

// EvalAt evaluates v at instruction `at` of fn on every path from the entry that the known values allow: leaf fixes
// the inputs, branch conditions that evaluate are followed, the others are explored both ways. It returns the set of
// values v can have there and whether v was unknown on some path. Paths are cut at `at`; a state (edge + bound values)
// is visited once, so loops terminate.
func EvalAt(fn *ssa.Function, leaf func(ssa.Value) (int64, bool), at ssa.Instruction, v ssa.Value) (map[int64]bool, bool) {
	return evalAt(fn, leaf, at, v, true)
}

// EvalAtAll is EvalAt without the cut: execution continues past `at`, so every arrival (each iteration of a loop
// whose bounds evaluate) contributes a value.
func EvalAtAll(fn *ssa.Function, leaf func(ssa.Value) (int64, bool), at ssa.Instruction, v ssa.Value) (map[int64]bool, bool) {
	return evalAt(fn, leaf, at, v, false)
}

func evalAt(fn *ssa.Function, leaf func(ssa.Value) (int64, bool), at ssa.Instruction, v ssa.Value, cut bool) (map[int64]bool, bool) {
	vals := map[int64]bool{}
	unknown := false
	if len(fn.Blocks) == 0 {
		return vals, true
	}
	ev := &byteEval{isByte: func(ssa.Value) bool { return false }, leaf: leaf}
	type state struct {
		blk, prev *ssa.BasicBlock
		fp        string
	}
	seen := map[state]bool{}
	fingerprint := func(env map[ssa.Value]int64) string {
		var parts []string
		for k, x := range env {
			parts = append(parts, k.Name()+"="+strconv.FormatInt(x, 10))
		}
		sort.Strings(parts)
		return strings.Join(parts, ",")
	}
	steps := 0
	var walk func(blk, prev *ssa.BasicBlock, env map[ssa.Value]int64)
	walk = func(blk, prev *ssa.BasicBlock, env map[ssa.Value]int64) {
		steps++
		if steps > 20000 {
			unknown = true
			return
		}
		ev.args = env
		ev.enter(blk, prev)
		st := state{blk, prev, fingerprint(env)}
		if seen[st] {
			return
		}
		seen[st] = true
		for _, in := range blk.Instrs {
			if in == at {
				ev.args = env
				if x, ok := ev.value(v, phiCtx{}, 0); ok {
					vals[x] = true
				} else {
					unknown = true
				}
				if cut {
					return
				}
			}
		}
		if len(blk.Instrs) == 0 {
			return
		}
		switch t := blk.Instrs[len(blk.Instrs)-1].(type) {
		case *ssa.If:
			ev.args = env
			c, known := ev.value(t.Cond, phiCtx{}, 0)
			if !known {
				walk(blk.Succs[0], blk, copyEnv(env))
				walk(blk.Succs[1], blk, copyEnv(env))
			} else if c != 0 {
				walk(blk.Succs[0], blk, env)
			} else {
				walk(blk.Succs[1], blk, env)
			}
		case *ssa.Jump:
			walk(blk.Succs[0], blk, env)
		}
	}
	walk(fn.Blocks[0], nil, map[ssa.Value]int64{})
	return vals, unknown
}

// mapLiteral is the content of a package-level map that only the package initialiser assigns (a map literal with
// constant keys and constant values) and that no function of the package updates.
type mapLiteral struct {
	strKeys map[string]int64
	intKeys map[int64]int64
	// entries whose value is not a bool/int constant (function values, structs, …): the key is present, the value is
	// known only as an SSA value
	strVals map[string]ssa.Value
	intVals map[int64]ssa.Value
	basic   bool // every value is a bool/int constant: a missing key reads as 0
}

var mapLitCache sync.Map

func globalMapLiteral(g *ssa.Global) *mapLiteral {
	if v, ok := mapLitCache.Load(g); ok {
		return v.(*mapLiteral)
	}
	var res *mapLiteral
	defer func() { mapLitCache.Store(g, res) }()
	if g.Pkg == nil {
		return nil
	}
	init := g.Pkg.Func("init")
	if init == nil {
		return nil
	}
	var lit ssa.Value
	Instrs(init, false, func(in ssa.Instruction) {
		if st, ok := in.(*ssa.Store); ok && st.Addr == ssa.Value(g) {
			lit = st.Val
		}
	})
	if lit == nil {
		return nil
	}
	if _, isMk := lit.(*ssa.MakeMap); !isMk {
		return nil
	}
	// nothing else writes the variable or the map it holds
	written := false
	for fn := range ssautil.AllFunctions(g.Pkg.Prog) {
		if fn.Pkg != g.Pkg || written {
			continue
		}
		Instrs(fn, false, func(in ssa.Instruction) {
			switch x := in.(type) {
			case *ssa.Store:
				if x.Addr == ssa.Value(g) && fn != init {
					written = true
				}
			case *ssa.MapUpdate:
				if ld, ok := x.Map.(*ssa.UnOp); ok && ld.X == ssa.Value(g) {
					written = true
				}
			case ssa.CallInstruction:
				if b, ok := x.Common().Value.(*ssa.Builtin); ok && (b.Name() == "delete" || b.Name() == "clear") {
					if ld, ok := x.Common().Args[0].(*ssa.UnOp); ok && ld.X == ssa.Value(g) {
						written = true
					}
				}
			}
		})
	}
	if written {
		return nil
	}
	ml := &mapLiteral{strKeys: map[string]int64{}, intKeys: map[int64]int64{}, strVals: map[string]ssa.Value{}, intVals: map[int64]ssa.Value{}, basic: true}
	okAll := true
	Instrs(init, false, func(in ssa.Instruction) {
		mu, ok := in.(*ssa.MapUpdate)
		if !ok || mu.Map != lit {
			return
		}
		var val int64
		opaque := false
		switch v := mu.Value.(type) {
		case *ssa.Const:
			if v.Value == nil {
				opaque = true
				break
			}
			switch v.Value.Kind() {
			case constant.Bool:
				if constant.BoolVal(v.Value) {
					val = 1
				}
			case constant.Int:
				val, _ = constant.Int64Val(v.Value)
			default:
				opaque = true
			}
		default:
			opaque = true
		}
		if opaque {
			ml.basic = false
		}
		if ks, ok := ConstString(mu.Key); ok {
			ml.strVals[ks] = mu.Value
			if !opaque {
				ml.strKeys[ks] = val
			}
		} else if ki, ok := ConstInt(mu.Key); ok {
			ml.intVals[ki] = mu.Value
			if !opaque {
				ml.intKeys[ki] = val
			}
		} else {
			okAll = false
		}
	})
	if !okAll {
		return nil
	}
	res = ml
	return res
}

// tableLookup evaluates m[k] on a package-level literal map for a known key.
func (ev *byteEval) tableLookup(x *ssa.Lookup, ctx phiCtx, depth int) (val, present int64, ok bool) {
	ld, isLd := x.X.(*ssa.UnOp)
	if !isLd || ld.Op != token.MUL {
		return 0, 0, false
	}
	g, isG := ld.X.(*ssa.Global)
	if !isG {
		return 0, 0, false
	}
	ml := globalMapLiteral(g)
	if ml == nil {
		return 0, 0, false
	}
	k, known := ev.value(x.Index, ctx, depth+1)
	if !known {
		return 0, 0, false
	}
	if isStringValue(x.Index) {
		if ev.strs == nil {
			return 0, 0, false
		}
		s, found := ev.strs.Str(k)
		if !found {
			return 0, 0, false
		}
		if v, in := ml.strKeys[s]; in {
			return v, 1, true
		}
		if _, in := ml.strVals[s]; in {
			return valueUnknown, 1, true
		}
		if !ml.basic {
			return valueUnknown, 0, true
		}
		return 0, 0, true
	}
	if v, in := ml.intKeys[k]; in {
		return v, 1, true
	}
	if _, in := ml.intVals[k]; in {
		return valueUnknown, 1, true
	}
	if !ml.basic {
		return valueUnknown, 0, true
	}
	return 0, 0, true
}

// valueUnknown marks the value half of a table lookup whose entry is not a bool/int constant.
const valueUnknown = int64(-1 << 62)

// GlobalMapEntries returns the entries of a package-level map literal that nothing but the package initialiser writes:
// constant key -> the SSA value stored for it.
func GlobalMapEntries(g *ssa.Global) (strs map[string]ssa.Value, ints map[int64]ssa.Value, ok bool) {
	ml := globalMapLiteral(g)
	if ml == nil {
		return nil, nil, false
	}
	return ml.strVals, ml.intVals, true
}

// Str returns the string an id stands for.
func (si *StrIntern) Str(id int64) (string, bool) {
	for s, i := range si.ids {
		if i == id {
			return s, true
		}
	}
	return "", false
}

// GlobalLiteralStrings returns the string constants of the composite literal a package-level variable is initialised
// with (a slice/array/struct literal, nested), when nothing but the package initialiser writes the variable or stores
// through it. ok is false for any other variable.
func GlobalLiteralStrings(g *ssa.Global) (out []string, ok bool) {
	if g.Pkg == nil {
		return nil, false
	}
	init := g.Pkg.Func("init")
	if init == nil {
		return nil, false
	}
	written := false
	for fn := range ssautil.AllFunctions(g.Pkg.Prog) {
		if fn.Pkg != g.Pkg || fn == init || written {
			continue
		}
		Instrs(fn, false, func(in ssa.Instruction) {
			st, isSt := in.(*ssa.Store)
			if !isSt {
				return
			}
			// a store to the variable or through an address derived from it
			for a := st.Addr; a != nil; {
				switch x := a.(type) {
				case *ssa.Global:
					if x == g {
						written = true
					}
					a = nil
				case *ssa.FieldAddr:
					a = x.X
				case *ssa.IndexAddr:
					a = x.X
				case *ssa.UnOp:
					a = x.X
				default:
					a = nil
				}
			}
		})
	}
	if written {
		return nil, false
	}
	// roots: the variable itself and every allocation whose address (or a slice of it) is stored into it
	roots := map[ssa.Value]bool{g: true}
	for changed := true; changed; {
		changed = false
		Instrs(init, false, func(in ssa.Instruction) {
			st, isSt := in.(*ssa.Store)
			if !isSt {
				return
			}
			base := st.Addr
			for {
				if fa, ok := base.(*ssa.FieldAddr); ok {
					base = fa.X
				} else if ia, ok := base.(*ssa.IndexAddr); ok {
					base = ia.X
				} else {
					break
				}
			}
			if !roots[base] {
				return
			}
			v := st.Val
			if sl, ok := v.(*ssa.Slice); ok {
				v = sl.X
			}
			if al, ok := v.(*ssa.Alloc); ok && !roots[al] {
				roots[al] = true
				changed = true
			}
			if s, ok := ConstString(st.Val); ok {
				out = append(out, s)
			}
		})
		if changed {
			out = out[:0]
		}
	}
	return out, true
}

// GlobalInitCall: the package-level variable g is initialised once, by the package initialiser, with the result of a
// call whose arguments are string constants (strings.NewReplacer("|", "\\|", "\n", " ")); nothing else assigns it.
// It returns the callee's name and the constants in order.
func GlobalInitCall(g *ssa.Global) (callee string, consts []string, ok bool) {
	if g.Pkg == nil {
		return "", nil, false
	}
	init := g.Pkg.Func("init")
	if init == nil {
		return "", nil, false
	}
	for fn := range ssautil.AllFunctions(g.Pkg.Prog) {
		if fn.Pkg != g.Pkg || fn == init {
			continue
		}
		written := false
		Instrs(fn, false, func(in ssa.Instruction) {
			if st, isSt := in.(*ssa.Store); isSt && st.Addr == ssa.Value(g) {
				written = true
			}
		})
		if written {
			return "", nil, false
		}
	}
	var call *ssa.Call
	Instrs(init, false, func(in ssa.Instruction) {
		if st, isSt := in.(*ssa.Store); isSt && st.Addr == ssa.Value(g) {
			call, _ = st.Val.(*ssa.Call)
		}
	})
	if call == nil {
		return "", nil, false
	}
	callee = CalleeName(call)
	for _, a := range call.Call.Args {
		if s, isC := ConstString(a); isC {
			consts = append(consts, s)
			continue
		}
		// a variadic argument list: the elements stored into the backing array
		if sl, isSl := a.(*ssa.Slice); isSl {
			if al, isAl := sl.X.(*ssa.Alloc); isAl {
				type el struct {
					idx int64
					s   string
				}
				var els []el
				for _, r := range *al.Referrers() {
					ia, isIA := r.(*ssa.IndexAddr)
					if !isIA {
						continue
					}
					k, _ := ConstInt(ia.Index)
					for _, rr := range *ia.Referrers() {
						if st, isSt := rr.(*ssa.Store); isSt {
							if s, isC := ConstString(st.Val); isC {
								els = append(els, el{k, s})
							}
						}
					}
				}
				sort.Slice(els, func(i, j int) bool { return els[i].idx < els[j].idx })
				for _, e := range els {
					consts = append(consts, e.s)
				}
			}
		}
	}
	return callee, consts, len(consts) > 0
}
