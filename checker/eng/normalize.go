package eng

import (
	"go/ast"
	"go/token"
	"go/types"
)

// NormalizeDispatch rewrites, in place, every if / else-if chain that compares one
// side-effect-free expression for equality with constants into the equivalent
// switch statement, so that table rules see one shape for both spellings:
//
//	if x == A || x == B { … } else if x == C { … } else { … }   =>   switch x { case A, B: … case C: … default: … }
//
// A chain without a final else whose branches all end in return/continue/break/panic
// takes the statements that follow it in the enclosing block as its default.
// The rewrite is behaviour-preserving (first match wins in both forms; the
// compared expression has no calls); it only touches the in-memory syntax tree
// the AST rules read, after type checking and SSA construction.
func NormalizeDispatch(body *ast.BlockStmt, info *types.Info) {
	if body == nil {
		return
	}
	var block func(list []ast.Stmt) []ast.Stmt
	var stmt func(s ast.Stmt)
	stmt = func(s ast.Stmt) {
		switch x := s.(type) {
		case *ast.BlockStmt:
			x.List = block(x.List)
		case *ast.IfStmt:
			x.Body.List = block(x.Body.List)
			if x.Else != nil {
				stmt(x.Else)
			}
		case *ast.ForStmt:
			x.Body.List = block(x.Body.List)
		case *ast.RangeStmt:
			x.Body.List = block(x.Body.List)
		case *ast.SwitchStmt:
			for _, c := range x.Body.List {
				cc := c.(*ast.CaseClause)
				cc.Body = block(cc.Body)
			}
		case *ast.TypeSwitchStmt:
			for _, c := range x.Body.List {
				cc := c.(*ast.CaseClause)
				cc.Body = block(cc.Body)
			}
		case *ast.SelectStmt:
			for _, c := range x.Body.List {
				cc := c.(*ast.CommClause)
				cc.Body = block(cc.Body)
			}
		case *ast.LabeledStmt:
			stmt(x.Stmt)
		}
	}
	block = func(list []ast.Stmt) []ast.Stmt {
		for i := 0; i < len(list); i++ {
			ifs, ok := list[i].(*ast.IfStmt)
			if !ok {
				stmt(list[i])
				continue
			}
			sw, hasElse, allTerminate := chainToSwitch(ifs, info)
			if sw == nil {
				stmt(list[i])
				continue
			}
			if !hasElse && allTerminate && i+1 < len(list) {
				rest := append([]ast.Stmt(nil), list[i+1:]...)
				sw.Body.List = append(sw.Body.List, &ast.CaseClause{Case: rest[0].Pos(), Body: rest})
				list = list[:i+1]
			}
			list[i] = sw
			stmt(sw)
		}
		return list
	}
	body.List = block(body.List)
}

// chainToSwitch converts an if-chain into a switch when it has >= 2 arms that all
// compare the same pure expression for equality (with constants or other pure
// expressions, as a Go switch allows).
func chainToSwitch(ifs *ast.IfStmt, info *types.Info) (sw *ast.SwitchStmt, hasElse, allTerminate bool) {
	type arm struct {
		pairs [][2]ast.Expr
		body  *ast.BlockStmt
		pos   token.Pos
	}
	var arms []arm
	var elseBlock *ast.BlockStmt
	allTerminate = true
	cur := ifs
	for {
		if cur.Init != nil {
			return nil, false, false
		}
		pairs, ok := eqPairs(cur.Cond, info)
		if !ok || hasBareBreak(cur.Body) {
			return nil, false, false
		}
		arms = append(arms, arm{pairs, cur.Body, cur.Pos()})
		if !terminates(cur.Body.List) {
			allTerminate = false
		}
		switch e := cur.Else.(type) {
		case nil:
		case *ast.IfStmt:
			cur = e
			continue
		case *ast.BlockStmt:
			if hasBareBreak(e) {
				return nil, false, false
			}
			hasElse = true
			elseBlock = e
		}
		break
	}
	if len(arms) < 2 {
		return nil, false, false // a single test is not a dispatch table
	}
	// the tag: the expression present in every comparison of every arm (non-constant)
	count := map[string]int{}
	total := 0
	var repr = map[string]ast.Expr{}
	for _, a := range arms {
		for _, p := range a.pairs {
			total++
			sx, sy := types.ExprString(p[0]), types.ExprString(p[1])
			for _, c := range []struct {
				s string
				e ast.Expr
			}{{sx, p[0]}, {sy, p[1]}} {
				if tv, ok := info.Types[c.e]; ok && tv.Value != nil {
					continue
				}
				count[c.s]++
				repr[c.s] = c.e
				if sx == sy {
					break
				}
			}
		}
	}
	tagS := ""
	for s, n := range count {
		if n == total && (tagS == "" || s < tagS) {
			tagS = s
		}
	}
	if tagS == "" {
		return nil, false, false
	}
	var clauses []ast.Stmt
	for _, a := range arms {
		var labels []ast.Expr
		for _, p := range a.pairs {
			if types.ExprString(p[0]) == tagS {
				labels = append(labels, p[1])
			} else {
				labels = append(labels, p[0])
			}
		}
		clauses = append(clauses, &ast.CaseClause{Case: a.pos, List: labels, Colon: a.body.Lbrace, Body: a.body.List})
	}
	if elseBlock != nil {
		clauses = append(clauses, &ast.CaseClause{Case: elseBlock.Pos(), Body: elseBlock.List})
	}
	return &ast.SwitchStmt{Switch: ifs.Pos(), Tag: repr[tagS], Body: &ast.BlockStmt{Lbrace: ifs.Body.Lbrace, List: clauses, Rbrace: ifs.End()}}, hasElse, allTerminate
}

// eqPairs decomposes `a == b || c == d …` into its operand pairs; every operand must be free of calls.
func eqPairs(cond ast.Expr, info *types.Info) ([][2]ast.Expr, bool) {
	cond = ast.Unparen(cond)
	b, isBin := cond.(*ast.BinaryExpr)
	if !isBin {
		return nil, false
	}
	if b.Op == token.LOR {
		l1, ok1 := eqPairs(b.X, info)
		l2, ok2 := eqPairs(b.Y, info)
		if !ok1 || !ok2 {
			return nil, false
		}
		return append(l1, l2...), true
	}
	if b.Op != token.EQL || !pureExpr(b.X, info) || !pureExpr(b.Y, info) {
		return nil, false
	}
	return [][2]ast.Expr{{b.X, b.Y}}, true
}

func pureExpr(e ast.Expr, info *types.Info) bool {
	pure := true
	ast.Inspect(e, func(n ast.Node) bool {
		if call, ok := n.(*ast.CallExpr); ok {
			// conversions such as string(x) are pure
			if tv, ok := info.Types[call.Fun]; !ok || !tv.IsType() {
				pure = false
			}
		}
		if u, ok := n.(*ast.UnaryExpr); ok && u.Op == token.ARROW {
			pure = false
		}
		return pure
	})
	return pure
}

func terminates(list []ast.Stmt) bool {
	if len(list) == 0 {
		return false
	}
	switch x := list[len(list)-1].(type) {
	case *ast.ReturnStmt:
		return true
	case *ast.BranchStmt:
		return x.Tok == token.CONTINUE || x.Tok == token.GOTO
	case *ast.ExprStmt:
		if call, ok := x.X.(*ast.CallExpr); ok {
			if id, ok := call.Fun.(*ast.Ident); ok && id.Name == "panic" {
				return true
			}
		}
	}
	return false
}

// hasBareBreak reports an unlabelled break that would bind to an enclosing loop
// (not nested in an inner for/range/switch/select of the block).
func hasBareBreak(b *ast.BlockStmt) bool {
	found := false
	var visit func(n ast.Node) bool
	visit = func(n ast.Node) bool {
		switch x := n.(type) {
		case *ast.ForStmt, *ast.RangeStmt, *ast.SwitchStmt, *ast.TypeSwitchStmt, *ast.SelectStmt, *ast.FuncLit:
			return false
		case *ast.BranchStmt:
			if x.Tok == token.BREAK && x.Label == nil {
				found = true
			}
		}
		return !found
	}
	ast.Inspect(b, visit)
	return found
}
