package eng

import (
	"fmt"
	"go/ast"
	"go/constant"
)

// ArrayVar evaluates the composite literal that initialises the package-level
// array variable pkg.name and returns its elements as int64 (missing elements 0).
func (p *Prog) ArrayVar(pkg, name string) ([]int64, ast.Node, error) {
	pk, ok := p.ByPath[pkg]
	if !ok {
		return nil, nil, fmt.Errorf("package %s not loaded", pkg)
	}
	for _, f := range pk.Syntax {
		for _, d := range f.Decls {
			gd, ok := d.(*ast.GenDecl)
			if !ok {
				continue
			}
			for _, sp := range gd.Specs {
				vs, ok := sp.(*ast.ValueSpec)
				if !ok {
					continue
				}
				for i, n := range vs.Names {
					if n.Name != name || i >= len(vs.Values) {
						continue
					}
					cl, ok := vs.Values[i].(*ast.CompositeLit)
					if !ok {
						return nil, vs, fmt.Errorf("%s.%s is not initialised by a composite literal", pkg, name)
					}
					var out []int64
					idx := int64(0)
					for _, el := range cl.Elts {
						val := el
						if kv, ok := el.(*ast.KeyValueExpr); ok {
							ktv, ok := pk.TypesInfo.Types[kv.Key]
							if !ok || ktv.Value == nil {
								return nil, vs, fmt.Errorf("non-constant index in %s", name)
							}
							idx, _ = constant.Int64Val(ktv.Value)
							val = kv.Value
						}
						tv, ok := pk.TypesInfo.Types[val]
						if !ok || tv.Value == nil {
							return nil, vs, fmt.Errorf("non-constant element %d in %s", idx, name)
						}
						v, _ := constant.Int64Val(tv.Value)
						for int64(len(out)) <= idx {
							out = append(out, 0)
						}
						out[idx] = v
						idx++
					}
					return out, vs, nil
				}
			}
		}
	}
	return nil, nil, fmt.Errorf("variable %s.%s not found", pkg, name)
}
