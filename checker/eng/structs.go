package eng

import (
	"fmt"
	"go/token"
	"go/types"
	"sort"

	"golang.org/x/tools/go/ssa"
)

// FieldCopy describes how a copy/clone/restore function treats one field.
type FieldCopy struct {
	Field    string
	Assigned bool // some store (or whole-struct copy) sets it
	FromSame bool // the stored value derives from the same-named field of the source
	Alias    bool // reference-typed field stored as a direct load of the source's field
	Fresh    bool // reference-typed field rebuilt (make / append(nil,…) / clone call / nil)
	RefType  bool // slice, map or pointer (shares memory when copied by value)
	Pos      token.Pos
	Detail   string
}

// AnalyseStructCopy inspects fn, which builds or overwrites a value of struct
// type st (named) from a source of the same type.
//
// dstIsResult=true  : the destination is a struct allocated in fn (clone style)
// dstIsResult=false : the destination is the receiver and the source is another
//
//	value of the same type (restore style).
func AnalyseStructCopy(fn *ssa.Function, st *types.Named, dstIsResult bool) (map[string]*FieldCopy, error) {
	str, ok := st.Underlying().(*types.Struct)
	if !ok {
		return nil, fmt.Errorf("%s is not a struct", st)
	}
	out := map[string]*FieldCopy{}
	for i := 0; i < str.NumFields(); i++ {
		f := str.Field(i)
		out[f.Name()] = &FieldCopy{Field: f.Name(), RefType: !PointerFree(f.Type())}
	}
	isSt := func(t types.Type) bool {
		if p, ok := t.Underlying().(*types.Pointer); ok {
			t = p.Elem()
		}
		return types.Identical(t, st)
	}
	var recv ssa.Value
	if len(fn.Params) > 0 && isSt(fn.Params[0].Type()) {
		recv = fn.Params[0]
	}
	// destination bases
	isDst := func(base ssa.Value) bool {
		if dstIsResult {
			a, ok := base.(*ssa.Alloc)
			if !ok || !isSt(a.Type()) {
				return false
			}
			// a spilled value receiver/parameter is a source, not the destination
			for _, r := range *a.Referrers() {
				if s, ok := r.(*ssa.Store); ok && s.Addr == a {
					if _, isParam := s.Val.(*ssa.Parameter); isParam {
						return false
					}
				}
			}
			return true
		}
		return recv != nil && base == recv
	}
	// source: anything of type st that is not the destination
	fromSource := func(v ssa.Value, field string) (same bool, direct bool) {
		u := v
		// direct load of <src>.field ?
		if fr, ok := LoadOfField(u); ok && fr.Field == field && isSt(fr.Base.Type()) && !isDstBase(fr.Base, isDst) {
			return true, true
		}
		sl := Slice(v, func(c *ssa.Call) bool { return true })
		for w := range sl {
			if fr, ok := LoadOfField(w); ok && fr.Field == field && isSt(fr.Base.Type()) {
				return true, false
			}
			if fa, ok := w.(*ssa.FieldAddr); ok {
				if fr, ok := AsField(fa); ok && fr.Field == field && isSt(fa.X.Type()) {
					return true, false
				}
			}
		}
		return false, false
	}
	Instrs(fn, false, func(in ssa.Instruction) {
		st, ok := in.(*ssa.Store)
		if !ok {
			return
		}
		// whole-struct copy: *dst = *src
		if isDst(st.Addr) && isSt(st.Val.Type()) {
			if u, ok := st.Val.(*ssa.UnOp); ok && u.Op == token.MUL && isSt(u.X.Type()) {
				for _, fc := range out {
					fc.Assigned = true
					fc.FromSame = true
					if fc.RefType {
						fc.Alias = true
					}
					fc.Pos = st.Pos()
					fc.Detail = "whole-struct copy"
				}
			}
			return
		}
		fa, ok := st.Addr.(*ssa.FieldAddr)
		if !ok {
			return
		}
		// nested value struct rebuilt in place: dst.F.G = … (a literal for F, or F's clone inlined)
		if outer, isNested := fa.X.(*ssa.FieldAddr); isNested && isDst(outer.X) {
			ofr, ok1 := AsField(outer)
			ifr, ok2 := AsField(fa)
			if ok1 && ok2 {
				if fc := out[ofr.Field]; fc != nil {
					fc.Assigned = true
					fc.Pos = st.Pos()
					fc.Detail = "rebuilt field by field"
					fromSameNested := false
					for w := range Slice(st.Val, func(c *ssa.Call) bool { return true }) {
						if fr2, ok := LoadOfField(w); ok && fr2.Field == ifr.Field {
							fromSameNested = true
						}
						if fa2, ok := w.(*ssa.FieldAddr); ok {
							if fr2, ok := AsField(fa2); ok && fr2.Field == ifr.Field {
								fromSameNested = true
							}
						}
					}
					fc.FromSame = fc.FromSame || fromSameNested
					if !PointerFree(st.Val.Type()) {
						if isFresh(st.Val) {
							if !fc.Alias {
								fc.Fresh = true
							}
						} else {
							fc.Alias = true
							fc.Fresh = false
						}
					} else if fc.RefType && !fc.Alias {
						fc.Fresh = true // only value sub-fields so far: nothing shared
					}
				}
			}
			return
		}
		if !isDst(fa.X) {
			return
		}
		fr, ok := AsField(fa)
		if !ok {
			return
		}
		fc := out[fr.Field]
		if fc == nil {
			return
		}
		fc.Assigned = true
		fc.Pos = st.Pos()
		same, direct := fromSource(st.Val, fr.Field)
		fc.FromSame = fc.FromSame || same
		if fc.RefType {
			if direct {
				fc.Alias = true
				fc.Fresh = false
			} else if isFresh(st.Val) {
				fc.Fresh = true
				fc.Alias = false
			}
		}
	})
	// delegation: the copy (or part of it) is done by a method of the same type called
	// on the destination (d.assignFrom(src)): the callee is analysed restore-style
	// (destination = its receiver) and its fields are merged.
	Instrs(fn, false, func(in ssa.Instruction) {
		call, ok := in.(ssa.CallInstruction)
		if !ok {
			return
		}
		callee := call.Common().StaticCallee()
		if callee == nil || callee == fn || callee.Blocks == nil || !InModule(callee) || len(call.Common().Args) < 2 {
			return
		}
		if len(callee.Params) == 0 || !isSt(callee.Params[0].Type()) || !isDst(call.Common().Args[0]) {
			return
		}
		hasSrc := false
		for _, a := range call.Common().Args[1:] {
			if isSt(a.Type()) {
				hasSrc = true
			}
		}
		if !hasSrc {
			return
		}
		sub, err := AnalyseStructCopy(callee, st, false)
		if err != nil {
			return
		}
		for name, sc := range sub {
			if !sc.Assigned {
				continue
			}
			fc := out[name]
			fc.Assigned = true
			fc.FromSame = fc.FromSame || sc.FromSame
			fc.Alias = fc.Alias || sc.Alias
			fc.Fresh = sc.Fresh
			fc.Pos = sc.Pos
			fc.Detail = "via " + FuncName(callee)
		}
	})
	return out, nil
}

func isDstBase(base ssa.Value, isDst func(ssa.Value) bool) bool { return isDst(base) }

func isRef(t types.Type) bool {
	switch t.Underlying().(type) {
	case *types.Slice, *types.Map, *types.Pointer, *types.Chan:
		return true
	}
	return false
}

// isFresh: make, append onto nil/fresh, composite literal, nil, or any call result.
func IsFresh(v ssa.Value) bool { return isFresh(v) }

func isFresh(v ssa.Value) bool {
	switch x := Unwrap(v).(type) {
	case *ssa.MakeSlice, *ssa.MakeMap, *ssa.Alloc:
		return true
	case *ssa.Const:
		return x.Value == nil
	case *ssa.Slice:
		return isFresh(x.X)
	case *ssa.Call:
		if b, ok := x.Call.Value.(*ssa.Builtin); ok && b.Name() == "append" {
			return IsNilConst(Unwrap(x.Call.Args[0])) || isFresh(x.Call.Args[0])
		}
		return true
	case *ssa.Phi:
		for _, e := range x.Edges {
			if !isFresh(e) {
				return false
			}
		}
		return true
	case *ssa.UnOp:
		// value of a local struct variable built field by field: fresh when every
		// reference-holding field stored into it is fresh
		a, ok := x.X.(*ssa.Alloc)
		if !ok || x.Op != token.MUL || a.Referrers() == nil {
			return false
		}
		for _, r := range *a.Referrers() {
			switch u := r.(type) {
			case *ssa.Store:
				if u.Addr == ssa.Value(a) && !PointerFree(u.Val.Type()) && !isFresh(u.Val) {
					return false
				}
			case *ssa.FieldAddr:
				if u.Referrers() == nil {
					continue
				}
				for _, rr := range *u.Referrers() {
					if st, ok := rr.(*ssa.Store); ok && st.Addr == ssa.Value(u) && !PointerFree(st.Val.Type()) && !isFresh(st.Val) {
						return false
					}
				}
			}
		}
		return true
	}
	return false
}

// SortedFields returns the field names in a stable order.
func SortedFields(m map[string]*FieldCopy) []string {
	var out []string
	for k := range m {
		out = append(out, k)
	}
	sort.Strings(out)
	return out
}

// PointerFree reports whether values of t contain no pointers, slices, maps,
// channels, interfaces or functions (so that a value copy is a deep copy).
func PointerFree(t types.Type) bool {
	switch u := t.Underlying().(type) {
	case *types.Basic:
		return u.Kind() != types.UnsafePointer
	case *types.Array:
		return PointerFree(u.Elem())
	case *types.Struct:
		for i := 0; i < u.NumFields(); i++ {
			if !PointerFree(u.Field(i).Type()) {
				return false
			}
		}
		return true
	}
	return false
}
