// Package eng holds the shared engines of the static checker: loading the
// repository under analysis (typed AST + SSA + call graph), guard/dominance
// queries, table extraction and reporting.
package eng

import (
	"fmt"
	"go/ast"
	"go/token"
	"go/types"
	"hash/fnv"
	"os"
	"path/filepath"
	"sort"
	"strings"
	"sync"

	"golang.org/x/tools/go/callgraph"
	"golang.org/x/tools/go/callgraph/cha"
	"golang.org/x/tools/go/callgraph/vta"
	"golang.org/x/tools/go/packages"
	"golang.org/x/tools/go/ssa"
	"golang.org/x/tools/go/ssa/ssautil"
)

// ModPath is the import path prefix of the module under analysis.
const ModPath = "github.com/tsawler/tabula"

// Prog is one loaded configuration of the repository.
type Prog struct {
	Dir    string
	Fset   *token.FileSet
	Pkgs   []*packages.Package          // module packages only, sorted by path
	ByPath map[string]*packages.Package // short path ("core", "" for root) -> package
	SSA    *ssa.Program
	SSAPkg map[string]*ssa.Package

	allFuncs map[*ssa.Function]bool
	cgOnce   sync.Once
	cg       *callgraph.Graph

	siteOnce sync.Once
	sites    map[ssa.CallInstruction][]*ssa.Function

	declOnce sync.Once
	decls    map[string]*FuncDecl

	renMu   sync.Mutex
	renamed map[string]string
}

// FuncDecl couples a function declaration with its package.
type FuncDecl struct {
	Decl *ast.FuncDecl
	Pkg  *packages.Package
	File *ast.File
}

// LoadConfig selects a configuration.
type LoadConfig struct {
	Dir     string            // repository root
	Tests   bool              // also load _test.go files
	Env     []string          // extra environment (e.g. GOARCH=386)
	Overlay map[string][]byte // absolute file name -> content
}

// RepoDir returns the directory analysed (VERIF_REPO overrides /repo; used only
// for checker self-tests on scratch worktrees).
func RepoDir() string {
	if d := os.Getenv("VERIF_REPO"); d != "" {
		return d
	}
	return "/repo"
}

// Load type-checks the whole module and builds SSA for it.
func Load(lc LoadConfig) (*Prog, error) {
	if lc.Dir == "" {
		lc.Dir = RepoDir()
	}
	env := []string{}
	for _, kv := range os.Environ() {
		if strings.HasPrefix(kv, "GOWORK=") || strings.HasPrefix(kv, "GOFLAGS=") ||
			strings.HasPrefix(kv, "GOPROXY=") || strings.HasPrefix(kv, "GOTOOLCHAIN=") ||
			strings.HasPrefix(kv, "GOSUMDB=") {
			continue
		}
		env = append(env, kv)
	}
	env = append(env, "GOWORK=off", "GOFLAGS=-mod=mod", "GOPROXY=off", "GOSUMDB=off", "GOTOOLCHAIN=local")
	env = append(env, lc.Env...)
	fset := token.NewFileSet()
	cfg := &packages.Config{
		Mode:    packages.LoadAllSyntax,
		Dir:     lc.Dir,
		Fset:    fset,
		Tests:   lc.Tests,
		Env:     env,
		Overlay: lc.Overlay,
	}
	pkgs, err := packages.Load(cfg, "./...")
	if err != nil {
		return nil, fmt.Errorf("load: %w", err)
	}
	var errs []string
	packages.Visit(pkgs, nil, func(p *packages.Package) {
		if !strings.HasPrefix(p.PkgPath, ModPath) {
			return
		}
		for _, e := range p.Errors {
			errs = append(errs, e.Error())
		}
	})
	if len(errs) > 0 {
		sort.Strings(errs)
		if len(errs) > 8 {
			errs = errs[:8]
		}
		return nil, fmt.Errorf("type errors in module under analysis: %s", strings.Join(errs, "; "))
	}
	p := &Prog{Dir: lc.Dir, Fset: fset, ByPath: map[string]*packages.Package{}, SSAPkg: map[string]*ssa.Package{}}
	for _, pk := range pkgs {
		if !strings.HasPrefix(pk.PkgPath, ModPath) {
			continue
		}
		// With Tests=true the loader returns variants "p [p.test]", "p_test", "p.test".
		if strings.HasSuffix(pk.PkgPath, ".test") {
			continue
		}
		if lc.Tests {
			// keep the test variant (superset of files) when present, drop the plain one
			if pk.ID == pk.PkgPath && hasTestVariant(pkgs, pk.PkgPath) {
				continue
			}
			if strings.HasSuffix(pk.PkgPath, "_test") {
				continue
			}
		}
		p.Pkgs = append(p.Pkgs, pk)
		p.ByPath[ShortPath(pk.PkgPath)] = pk
	}
	sort.Slice(p.Pkgs, func(i, j int) bool { return p.Pkgs[i].PkgPath < p.Pkgs[j].PkgPath })
	if len(p.Pkgs) < 22 {
		return nil, fmt.Errorf("only %d module packages loaded (expected >= 22)", len(p.Pkgs))
	}
	prog, spkgs := ssautil.AllPackages(pkgs, ssa.InstantiateGenerics)
	prog.Build()
	p.SSA = prog
	for i, sp := range spkgs {
		if sp == nil {
			continue
		}
		pk := pkgs[i]
		if q, ok := p.ByPath[ShortPath(pk.PkgPath)]; ok && q == pk {
			p.SSAPkg[ShortPath(pk.PkgPath)] = sp
		}
	}
	canonNames = nil
	inv := map[string]string{}
	for name := range AnchorSigs {
		if p.funcExact(name) == nil {
			if r := p.renamedTo(name); r != "" {
				inv[r] = name
			}
		}
	}
	if len(inv) > 0 {
		canonNames = inv
	}
	// parameters that stand for a field (see LoadOfField)
	var pfMu sync.Mutex
	pfCache := map[*ssa.Parameter]*FieldRef{}
	var callSites map[*ssa.Function][]ssa.CallInstruction
	ParamField = func(prm *ssa.Parameter) (FieldRef, bool) {
		pfMu.Lock()
		defer pfMu.Unlock()
		if r, ok := pfCache[prm]; ok {
			if r == nil {
				return FieldRef{}, false
			}
			return *r, true
		}
		pfCache[prm] = nil
		g := prm.Parent()
		if g == nil || g.Parent() != nil || g.Pkg == nil || !InModule(g) {
			return FieldRef{}, false
		}
		if obj, ok := g.Object().(*types.Func); !ok || obj.Exported() {
			return FieldRef{}, false
		}
		idx := -1
		for i, q := range g.Params {
			if q == prm {
				idx = i
			}
		}
		if idx < 0 {
			return FieldRef{}, false
		}
		if callSites == nil {
			callSites = map[*ssa.Function][]ssa.CallInstruction{}
			for _, f := range p.ModuleFuncs() {
				if f.Blocks == nil {
					continue
				}
				for _, b := range f.Blocks {
					for _, in := range b.Instrs {
						if ci, ok := in.(ssa.CallInstruction); ok {
							if cal := ci.Common().StaticCallee(); cal != nil && InModule(cal) {
								callSites[cal] = append(callSites[cal], ci)
							}
						}
					}
				}
			}
		}
		sites := callSites[g]
		if len(sites) == 0 {
			return FieldRef{}, false
		}
		var ref *FieldRef
		for _, ci := range sites {
			args := ArgsWithRecv(ci)
			if idx >= len(args) {
				return FieldRef{}, false
			}
			a := args[idx]
			var fr FieldRef
			var ok bool
			if u, isU := a.(*ssa.UnOp); isU && u.Op == token.MUL {
				fr, ok = AsField(u.X)
			} else if f, isF := a.(*ssa.Field); isF {
				fr, ok = AsField(f)
			}
			if !ok {
				return FieldRef{}, false
			}
			if ref == nil {
				cp := fr
				ref = &cp
			} else if ref.Field != fr.Field || ref.Struct != fr.Struct {
				return FieldRef{}, false
			}
		}
		pfCache[prm] = ref
		return *ref, true
	}
	altCache := map[string]string{}
	AltName = func(name string) string {
		if v, ok := altCache[name]; ok {
			return v
		}
		v := p.altName(name)
		if v == "" {
			v = p.renamedTo(name)
		}
		altCache[name] = v
		return v
	}
	return p, nil
}

func hasTestVariant(pkgs []*packages.Package, path string) bool {
	for _, p := range pkgs {
		if p.PkgPath == path && p.ID != p.PkgPath {
			return true
		}
	}
	return false
}

// ShortPath strips the module prefix ("" for the root package).
func ShortPath(pkgPath string) string {
	s := strings.TrimPrefix(pkgPath, ModPath)
	return strings.TrimPrefix(s, "/")
}

// InModule reports whether fn belongs to the module under analysis.
func InModule(fn *ssa.Function) bool {
	if fn == nil {
		return false
	}
	if fn.Pkg != nil {
		return strings.HasPrefix(fn.Pkg.Pkg.Path(), ModPath)
	}
	if fn.Parent() != nil {
		return InModule(fn.Parent())
	}
	if o := fn.Object(); o != nil && o.Pkg() != nil {
		return strings.HasPrefix(o.Pkg().Path(), ModPath)
	}
	return false
}

// AllFuncs returns every function (incl. anonymous and wrappers) in the program.
func (p *Prog) AllFuncs() map[*ssa.Function]bool {
	if p.allFuncs == nil {
		p.allFuncs = ssautil.AllFunctions(p.SSA)
	}
	return p.allFuncs
}

// ModuleFuncs returns the source functions of the module (with bodies), sorted by name.
func (p *Prog) ModuleFuncs() []*ssa.Function {
	var out []*ssa.Function
	for fn := range p.AllFuncs() {
		if fn.Blocks == nil || fn.Synthetic != "" && !strings.HasPrefix(fn.Synthetic, "package init") {
			continue
		}
		if InModule(fn) {
			out = append(out, fn)
		}
	}
	sort.Slice(out, func(i, j int) bool {
		a, b := FuncName(out[i]), FuncName(out[j])
		if a != b {
			return a < b
		}
		return out[i].Pos() < out[j].Pos()
	})
	return out
}

// CallGraph returns the VTA call graph (built on demand).
func (p *Prog) CallGraph() *callgraph.Graph {
	p.cgOnce.Do(func() {
		p.cg = vta.CallGraph(p.AllFuncs(), cha.CallGraph(p.SSA))
	})
	return p.cg
}

// FuncName renders a function as "pkg.(*T).M", "pkg.F" or "pkg.F$1" with the
// short package path ("tabula" for the root package).
func FuncName(fn *ssa.Function) string {
	n := funcNameRaw(fn)
	if canon := canonNames; canon != nil {
		if o, ok := canon[n]; ok {
			return o
		}
	}
	return n
}

// canonNames maps the present name of a renamed anchor (see renamedTo) back to the name the rules know it by, so that
// every comparison of a callee's name with an anchor's name keeps working after a pure rename.
var canonNames map[string]string

func funcNameRaw(fn *ssa.Function) string {
	if fn == nil {
		return "<nil>"
	}
	if fn.Parent() != nil {
		return FuncName(fn.Parent()) + "$" + strings.TrimPrefix(fn.Name(), fn.Parent().Name()+"$")
	}
	pkg := ""
	if fn.Pkg != nil {
		pkg = fn.Pkg.Pkg.Path()
	} else if o := fn.Object(); o != nil && o.Pkg() != nil {
		pkg = o.Pkg().Path()
	}
	sp := pkg
	if strings.HasPrefix(pkg, ModPath) {
		sp = ShortPath(pkg)
		if sp == "" {
			sp = "tabula"
		}
	}
	if recv := fn.Signature.Recv(); recv != nil {
		t := recv.Type()
		star := ""
		if pt, ok := t.(*types.Pointer); ok {
			t = pt.Elem()
			star = "*"
		}
		name := t.String()
		if nt, ok := t.(*types.Named); ok {
			name = nt.Obj().Name()
		}
		if star != "" {
			return fmt.Sprintf("%s.(*%s).%s", sp, name, fn.Name())
		}
		return fmt.Sprintf("%s.%s.%s", sp, name, fn.Name())
	}
	return sp + "." + fn.Name()
}

// Func resolves "pkg.(*T).M", "pkg.T.M" or "pkg.F" (short package path; "tabula"
// for the root package) to its SSA function, or nil.
// AnchorHosts maps an unexported function to the functions of its package that called it on the
// tree the rules were written against. Func and Decl fall back to the first host that still exists
// when the function itself is gone (inlined into its caller and deleted).
var AnchorHosts map[string][]string

// Renamed anchors. OrigFuncs lists every function of the tree the rules were written against, AnchorCallers all the
// callers of each unexported function there, AnchorSigs its signature (SigString). When an anchor no longer exists
// and exactly one function that the old tree did not have has the anchor's signature and is called by every surviving
// caller of the anchor, that function is the anchor under a new name (moved to another file or not).
var (
	OrigFuncs     map[string]bool
	AnchorCallers map[string][]string
	AnchorSigs    map[string]string
)

// SigString renders the receiver, parameter and result types of a function (no names).
func SigString(fn *ssa.Function) string {
	q := func(p *types.Package) string { return p.Name() }
	var sb strings.Builder
	sig := fn.Signature
	if r := sig.Recv(); r != nil {
		sb.WriteString("(" + types.TypeString(r.Type(), q) + ")")
	}
	sb.WriteString("(")
	for i := 0; i < sig.Params().Len(); i++ {
		if i > 0 {
			sb.WriteString(",")
		}
		sb.WriteString(types.TypeString(sig.Params().At(i).Type(), q))
	}
	if sig.Variadic() {
		sb.WriteString("...")
	}
	sb.WriteString(")(")
	for i := 0; i < sig.Results().Len(); i++ {
		if i > 0 {
			sb.WriteString(",")
		}
		sb.WriteString(types.TypeString(sig.Results().At(i).Type(), q))
	}
	sb.WriteString(")")
	return sb.String()
}

// RenamedTo: the present name of an anchor that was renamed, or "".
func (p *Prog) RenamedTo(name string) string { return p.renamedTo(name) }

// BodyPrint is a fingerprint of what a function's body says, independent of every name it declares: the sorted
// constants it mentions and the functions outside the module it calls. It separates two renamed functions of the same
// signature.
func BodyPrint(fn *ssa.Function) string {
	set := map[string]bool{}
	Instrs(fn, true, func(in ssa.Instruction) {
		for _, op := range in.Operands(nil) {
			if op == nil || *op == nil {
				continue
			}
			if c, ok := (*op).(*ssa.Const); ok && c.Value != nil {
				set["c:"+c.Value.ExactString()] = true
			}
		}
		if ci, ok := in.(ssa.CallInstruction); ok {
			if cal := ci.Common().StaticCallee(); cal != nil && !InModule(cal) {
				set["f:"+funcNameRaw(cal)] = true
			}
		}
	})
	keys := make([]string, 0, len(set))
	for k := range set {
		keys = append(keys, k)
	}
	sort.Strings(keys)
	h := fnv.New64a()
	for _, k := range keys {
		h.Write([]byte(k))
		h.Write([]byte{0})
	}
	return fmt.Sprintf("%d:%x", len(keys), h.Sum64())
}

// AnchorPrints: BodyPrint of every unexported function on the tree the rules were written against.
var AnchorPrints map[string]string

// renamedTo: the name the missing anchor `name` has now, or "".
func (p *Prog) renamedTo(name string) string {
	p.renMu.Lock()
	defer p.renMu.Unlock()
	if p.renamed == nil {
		p.renamed = map[string]string{}
	}
	if r, ok := p.renamed[name]; ok {
		return r
	}
	res := ""
	defer func() { p.renamed[name] = res }()
	sig, ok := AnchorSigs[name]
	if !ok || p.funcExact(name) != nil {
		return ""
	}
	var common map[string]bool
	nHosts := 0
	for _, h := range AnchorCallers[name] {
		hf := p.funcExact(h)
		if hf == nil {
			continue
		}
		nHosts++
		cands := map[string]bool{}
		Instrs(hf, true, func(in ssa.Instruction) {
			ci, ok := in.(ssa.CallInstruction)
			if !ok {
				return
			}
			cal := ci.Common().StaticCallee()
			if cal == nil || cal.Pkg != hf.Pkg || cal.Parent() != nil || cal.Synthetic != "" {
				return
			}
			n := funcNameRaw(cal)
			if !OrigFuncs[n] && SigString(cal) == sig {
				cands[n] = true
			}
		})
		if common == nil {
			common = cands
		} else {
			for n := range common {
				if !cands[n] {
					delete(common, n)
				}
			}
		}
	}
	if nHosts > 0 && len(common) > 1 {
		// several new functions of that signature (two siblings renamed at once): the one whose body says the same
		want, has := AnchorPrints[name]
		for n := range common {
			if f := p.funcExact(n); !has || f == nil || BodyPrint(f) != want {
				delete(common, n)
			}
		}
	}
	if nHosts > 0 && len(common) == 0 {
		// no new function of that signature: the anchor may have changed its shape as well as its name (a method
		// turned into a function that takes the fields it used). The one new function that every surviving
		// caller calls and whose body says the same (constants, outside calls) is taken for it.
		if want, has := AnchorPrints[name]; has {
			var byPrint map[string]bool
			for _, h := range AnchorCallers[name] {
				hf := p.funcExact(h)
				if hf == nil {
					continue
				}
				cands := map[string]bool{}
				Instrs(hf, true, func(in ssa.Instruction) {
					ci, ok := in.(ssa.CallInstruction)
					if !ok {
						return
					}
					cal := ci.Common().StaticCallee()
					if cal == nil || cal.Pkg != hf.Pkg || cal.Parent() != nil || cal.Synthetic != "" {
						return
					}
					n := funcNameRaw(cal)
					if !OrigFuncs[n] && BodyPrint(cal) == want {
						cands[n] = true
					}
				})
				if byPrint == nil {
					byPrint = cands
				} else {
					for n := range byPrint {
						if !cands[n] {
							delete(byPrint, n)
						}
					}
				}
			}
			if len(byPrint) == 1 {
				common = byPrint
			}
		}
	}
	if nHosts == 0 || len(common) != 1 {
		return ""
	}
	for n := range common {
		res = n
	}
	return res
}

// altForms: the same unexported function written the other way round (a method turned into a plain function that
// takes the receiver, or a plain function turned into a method): pkg.(*T).name <-> pkg.name. Exported names and
// ambiguous base names are not rewritten.
func (p *Prog) altForms(name string) []string {
	pkgName, rest := splitName(name)
	base := rest
	if i := strings.LastIndex(rest, "."); i >= 0 {
		base = rest[i+1:]
	}
	if base == "" || ast.IsExported(base) {
		return nil
	}
	prefix := pkgName
	if prefix == "" {
		prefix = "tabula"
	}
	var out []string
	for key := range p.AllDecls() {
		if key == name || !strings.HasPrefix(key, prefix+".") {
			continue
		}
		kp, kr := splitName(key)
		if kp != pkgName {
			continue
		}
		kb := kr
		if i := strings.LastIndex(kr, "."); i >= 0 {
			kb = kr[i+1:]
		}
		if kb == base && (strings.Contains(kr, ".") != strings.Contains(rest, ".")) {
			out = append(out, key)
		}
	}
	if len(out) != 1 {
		return nil
	}
	return out
}

// altName: the unique other-form spelling of name when name itself does not exist (see altForms).
func (p *Prog) altName(name string) string {
	if !strings.Contains(name, ".") || p.funcExact(name) != nil {
		return ""
	}
	if a := p.altForms(name); len(a) == 1 {
		return a[0]
	}
	return ""
}

func (p *Prog) Func(name string) (fn *ssa.Function) {
	if fn = p.funcExact(name); fn != nil {
		if t := forwardTarget(fn); t != nil {
			return t
		}
		return fn
	}
	for _, a := range p.altForms(name) {
		if fn = p.funcExact(a); fn != nil {
			return fn
		}
	}
	if r := p.renamedTo(name); r != "" {
		return p.funcExact(r)
	}
	if m := p.movedMethod(name); m != "" {
		if fn = p.funcExact(m); fn != nil {
			return fn
		}
	}
	for _, h := range AnchorHosts[name] {
		if fn = p.funcExact(h); fn != nil {
			return fn
		}
	}
	// hosts of hosts (a chain of inlinings)
	for _, h := range AnchorHosts[name] {
		for _, h2 := range AnchorHosts[h] {
			if fn = p.funcExact(h2); fn != nil {
				return fn
			}
		}
	}
	return nil
}

// forwardTarget: fn does nothing but hand its own parameters and fields of its receiver to one unexported function of
// its package and return what that returns (a method whose body was turned into a function taking the fields it
// uses). The rules then look at that function; LoadOfField resolves its parameters back to the fields.
func forwardTarget(fn *ssa.Function) *ssa.Function {
	if fn == nil || len(fn.Blocks) != 1 || fn.Signature.Recv() == nil || len(fn.Params) == 0 {
		return nil
	}
	recv := ssa.Value(fn.Params[0])
	var call *ssa.Call
	for _, in := range fn.Blocks[0].Instrs {
		switch x := in.(type) {
		case *ssa.FieldAddr:
			if x.X != recv {
				return nil
			}
		case *ssa.UnOp:
			if _, ok := x.X.(*ssa.FieldAddr); !ok || x.Op != token.MUL {
				return nil
			}
		case *ssa.Field:
			if x.X != recv {
				return nil
			}
		case *ssa.Call:
			if call != nil {
				return nil
			}
			call = x
		case *ssa.Extract:
			if x.Tuple != ssa.Value(call) {
				return nil
			}
		case *ssa.Return, *ssa.DebugRef:
		default:
			return nil
		}
	}
	if call == nil {
		return nil
	}
	g := call.Call.StaticCallee()
	if g == nil || g.Pkg != fn.Pkg || g.Blocks == nil || g.Signature.Recv() != nil {
		return nil
	}
	if obj, ok := g.Object().(*types.Func); !ok || obj.Exported() {
		return nil
	}
	nField := 0
	for _, a := range call.Call.Args {
		switch x := a.(type) {
		case *ssa.Parameter:
		case *ssa.UnOp:
			if _, ok := x.X.(*ssa.FieldAddr); !ok {
				return nil
			}
			nField++
		case *ssa.Field:
			nField++
		default:
			return nil
		}
	}
	if nField == 0 {
		return nil
	}
	ret, ok := fn.Blocks[0].Instrs[len(fn.Blocks[0].Instrs)-1].(*ssa.Return)
	if !ok {
		return nil
	}
	for _, r := range ret.Results {
		if r == ssa.Value(call) {
			continue
		}
		if ex, ok := r.(*ssa.Extract); ok && ex.Tuple == ssa.Value(call) {
			continue
		}
		return nil
	}
	return g
}

// FuncExact resolves name without the host fallback.
func (p *Prog) FuncExact(name string) *ssa.Function { return p.funcExact(name) }

func (p *Prog) funcExact(name string) (fn *ssa.Function) {
	defer func() {
		if recover() != nil {
			fn = nil // LookupMethod panics when the method does not exist (any more)
		}
	}()
	pkgName, rest := splitName(name)
	sp, ok := p.SSAPkg[pkgName]
	if !ok {
		return nil
	}
	if strings.HasPrefix(rest, "(*") {
		i := strings.Index(rest, ").")
		if i < 0 {
			return nil
		}
		tn, mn := rest[2:i], rest[i+2:]
		tm := sp.Type(tn)
		if tm == nil {
			return nil
		}
		return p.SSA.LookupMethod(types.NewPointer(tm.Type()), sp.Pkg, mn)
	}
	if i := strings.Index(rest, "."); i >= 0 {
		tn, mn := rest[:i], rest[i+1:]
		tm := sp.Type(tn)
		if tm == nil {
			return nil
		}
		return p.SSA.LookupMethod(tm.Type(), sp.Pkg, mn)
	}
	return sp.Func(rest)
}

func splitName(name string) (pkg, rest string) {
	// package path may contain '/', the first '.' after the last '/' splits
	slash := strings.LastIndex(name, "/")
	dot := strings.Index(name[slash+1:], ".")
	if dot < 0 {
		return name, ""
	}
	pkg = name[:slash+1+dot]
	rest = name[slash+1+dot+1:]
	if pkg == "tabula" {
		pkg = ""
	}
	return
}

// Decl resolves the same naming scheme to the AST declaration.
func (p *Prog) Decl(name string) *FuncDecl {
	p.declOnce.Do(func() {
		p.decls = map[string]*FuncDecl{}
		for _, pk := range p.Pkgs {
			sp := ShortPath(pk.PkgPath)
			if sp == "" {
				sp = "tabula"
			}
			for _, f := range pk.Syntax {
				for _, d := range f.Decls {
					fd, ok := d.(*ast.FuncDecl)
					if !ok {
						continue
					}
					key := sp + "." + fd.Name.Name
					if fd.Recv != nil && len(fd.Recv.List) == 1 {
						t := fd.Recv.List[0].Type
						star := false
						if se, ok := t.(*ast.StarExpr); ok {
							t = se.X
							star = true
						}
						if ie, ok := t.(*ast.IndexExpr); ok {
							t = ie.X
						}
						id, ok := t.(*ast.Ident)
						if !ok {
							continue
						}
						if star {
							key = fmt.Sprintf("%s.(*%s).%s", sp, id.Name, fd.Name.Name)
						} else {
							key = fmt.Sprintf("%s.%s.%s", sp, id.Name, fd.Name.Name)
						}
					}
					if _, dup := p.decls[key]; !dup {
						NormalizeDispatch(fd.Body, pk.TypesInfo)
						p.decls[key] = &FuncDecl{Decl: fd, Pkg: pk, File: f}
					}
				}
			}
		}
	})
	if d := p.decls[name]; d != nil {
		return d
	}
	if name != "" {
		for _, a := range p.altForms(name) {
			if d := p.decls[a]; d != nil {
				return d
			}
		}
		if r := p.renamedTo(name); r != "" {
			if d := p.decls[r]; d != nil {
				return d
			}
		}
		if m := p.movedMethod(name); m != "" {
			if d := p.decls[m]; d != nil {
				return d
			}
		}
	}
	for _, h := range AnchorHosts[name] {
		if d := p.decls[h]; d != nil {
			return d
		}
	}
	return nil
}

// movedMethod: the same unexported method name on another receiver type of the package, when it is the only one (a
// group of methods moved to a helper type) and that method did not exist on the tree the rules were written against.
func (p *Prog) movedMethod(name string) string {
	pkgName, rest := splitName(name)
	i := strings.LastIndex(rest, ".")
	if i < 0 || ast.IsExported(rest[i+1:]) {
		return ""
	}
	base := rest[i+1:]
	var found []string
	for key := range p.AllDecls() {
		kp, kr := splitName(key)
		if kp != pkgName || key == name || kr == rest {
			continue
		}
		if j := strings.LastIndex(kr, "."); j >= 0 && kr[j+1:] == base && AnchorSigs[key] == "" {
			found = append(found, key)
		}
	}
	if len(found) == 1 {
		return found[0]
	}
	return ""
}

// AllDecls returns every function declaration of the module keyed by name.
func (p *Prog) AllDecls() map[string]*FuncDecl {
	p.Decl("")
	return p.decls
}

// Pos renders a position relative to the repository root.
func (p *Prog) Pos(pos token.Pos) string {
	if !pos.IsValid() {
		return "-"
	}
	ps := p.Fset.Position(pos)
	rel, err := filepath.Rel(p.Dir, ps.Filename)
	if err != nil || strings.HasPrefix(rel, "..") {
		rel = ps.Filename
	}
	return fmt.Sprintf("%s:%d", rel, ps.Line)
}

// NamedType looks up a named type in a module package.
func (p *Prog) NamedType(pkg, name string) *types.Named {
	if pkg == "tabula" {
		pkg = ""
	}
	pk, ok := p.ByPath[pkg]
	if !ok {
		return nil
	}
	o := pk.Types.Scope().Lookup(name)
	if o == nil {
		return nil
	}
	nt, _ := o.Type().(*types.Named)
	return nt
}

// DeclOfObj returns the declaration of a module function or method object.
func (p *Prog) DeclOfObj(fn *types.Func) *FuncDecl {
	if fn == nil {
		return nil
	}
	for _, d := range p.AllDecls() {
		if d.Decl.Name.Pos() == fn.Pos() {
			return d
		}
	}
	return nil
}

// DeclCluster returns fd and the module functions and methods its body names
// (called, or handed on as function values), transitively up to depth, in a
// stable order.
func (p *Prog) DeclCluster(fd *FuncDecl, depth int) []*FuncDecl {
	var out []*FuncDecl
	seen := map[*FuncDecl]bool{}
	var walk func(d *FuncDecl, k int)
	walk = func(d *FuncDecl, k int) {
		if d == nil || seen[d] || d.Decl.Body == nil {
			return
		}
		seen[d] = true
		out = append(out, d)
		if k >= depth {
			return
		}
		ast.Inspect(d.Decl.Body, func(n ast.Node) bool {
			if id, ok := n.(*ast.Ident); ok {
				if fo, ok := d.Pkg.TypesInfo.Uses[id].(*types.Func); ok && fo.Pkg() != nil && fo.Pkg() == d.Pkg.Types {
					walk(p.DeclOfObj(fo), k+1)
				}
			}
			return true
		})
	}
	walk(fd, 0)
	return out
}
