package eng

import (
	"fmt"
	"math/big"
	"sort"
	"strings"
)

// Poly is a multivariate polynomial over the rationals, in canonical form:
// monomial key (sorted "sym^k*sym^k", "" for the constant term) -> coefficient.
type Poly struct {
	T map[string]*big.Rat
}

func PConst(n int64) *Poly {
	p := &Poly{T: map[string]*big.Rat{}}
	if n != 0 {
		p.T[""] = big.NewRat(n, 1)
	}
	return p
}

func PRat(r *big.Rat) *Poly {
	p := &Poly{T: map[string]*big.Rat{}}
	if r.Sign() != 0 {
		p.T[""] = new(big.Rat).Set(r)
	}
	return p
}

func PSym(name string) *Poly {
	return &Poly{T: map[string]*big.Rat{name + "^1": big.NewRat(1, 1)}}
}

func (p *Poly) clone() *Poly {
	q := &Poly{T: map[string]*big.Rat{}}
	for k, v := range p.T {
		q.T[k] = new(big.Rat).Set(v)
	}
	return q
}

func (p *Poly) Add(q *Poly) *Poly {
	r := p.clone()
	for k, v := range q.T {
		if c, ok := r.T[k]; ok {
			c.Add(c, v)
			if c.Sign() == 0 {
				delete(r.T, k)
			}
		} else {
			r.T[k] = new(big.Rat).Set(v)
		}
	}
	return r
}

func (p *Poly) Neg() *Poly {
	r := p.clone()
	for _, v := range r.T {
		v.Neg(v)
	}
	return r
}

func (p *Poly) Sub(q *Poly) *Poly { return p.Add(q.Neg()) }

func mulMono(a, b string) string {
	if a == "" {
		return b
	}
	if b == "" {
		return a
	}
	pw := map[string]int{}
	for _, s := range append(strings.Split(a, "*"), strings.Split(b, "*")...) {
		i := strings.LastIndex(s, "^")
		var k int
		fmt.Sscanf(s[i+1:], "%d", &k)
		pw[s[:i]] += k
	}
	keys := make([]string, 0, len(pw))
	for k := range pw {
		keys = append(keys, k)
	}
	sort.Strings(keys)
	parts := make([]string, len(keys))
	for i, k := range keys {
		parts[i] = fmt.Sprintf("%s^%d", k, pw[k])
	}
	return strings.Join(parts, "*")
}

func (p *Poly) Mul(q *Poly) *Poly {
	r := &Poly{T: map[string]*big.Rat{}}
	for ka, va := range p.T {
		for kb, vb := range q.T {
			k := mulMono(ka, kb)
			c := new(big.Rat).Mul(va, vb)
			if e, ok := r.T[k]; ok {
				e.Add(e, c)
				if e.Sign() == 0 {
					delete(r.T, k)
				}
			} else if c.Sign() != 0 {
				r.T[k] = c
			}
		}
	}
	return r
}

// IsConst returns the constant value if the polynomial has no symbols.
func (p *Poly) IsConst() (*big.Rat, bool) {
	if len(p.T) == 0 {
		return new(big.Rat), true
	}
	if len(p.T) == 1 {
		if c, ok := p.T[""]; ok {
			return c, true
		}
	}
	return nil, false
}

func (p *Poly) Equal(q *Poly) bool {
	if len(p.T) != len(q.T) {
		return false
	}
	for k, v := range p.T {
		w, ok := q.T[k]
		if !ok || v.Cmp(w) != 0 {
			return false
		}
	}
	return true
}

// Subst replaces symbol name by polynomial r.
func (p *Poly) Subst(name string, r *Poly) *Poly {
	out := PConst(0)
	for k, c := range p.T {
		term := PRat(c)
		if k != "" {
			for _, s := range strings.Split(k, "*") {
				i := strings.LastIndex(s, "^")
				var e int
				fmt.Sscanf(s[i+1:], "%d", &e)
				base := PSym(s[:i])
				if s[:i] == name {
					base = r
				}
				for j := 0; j < e; j++ {
					term = term.Mul(base)
				}
			}
		}
		out = out.Add(term)
	}
	return out
}

// Symbols lists the symbols occurring in p.
func (p *Poly) Symbols() []string {
	set := map[string]bool{}
	for k := range p.T {
		if k == "" {
			continue
		}
		for _, s := range strings.Split(k, "*") {
			set[s[:strings.LastIndex(s, "^")]] = true
		}
	}
	var out []string
	for s := range set {
		out = append(out, s)
	}
	sort.Strings(out)
	return out
}

func (p *Poly) String() string {
	if len(p.T) == 0 {
		return "0"
	}
	keys := make([]string, 0, len(p.T))
	for k := range p.T {
		keys = append(keys, k)
	}
	sort.Strings(keys)
	var parts []string
	for _, k := range keys {
		c := p.T[k].RatString()
		m := strings.ReplaceAll(k, "^1", "")
		switch {
		case k == "":
			parts = append(parts, c)
		case c == "1":
			parts = append(parts, m)
		case c == "-1":
			parts = append(parts, "-"+m)
		default:
			parts = append(parts, c+"*"+m)
		}
	}
	return strings.Join(parts, " + ")
}
