package eng

import (
	"sort"

	"golang.org/x/tools/go/ssa"
)

// RecursiveSCCs returns the strongly connected components of the VTA call graph
// restricted to module source functions that contain a cycle (size > 1, or a
// function that can call itself), each sorted by name, the list sorted by first name.
func RecursiveSCCs(p *Prog) [][]*ssa.Function {
	cg := p.CallGraph()
	funcs := p.ModuleFuncs()
	idx := map[*ssa.Function]int{}
	for i, f := range funcs {
		idx[f] = i
	}
	adj := make([][]int, len(funcs))
	self := make([]bool, len(funcs))
	for i, f := range funcs {
		n := cg.Nodes[f]
		if n == nil {
			continue
		}
		seen := map[int]bool{}
		for _, e := range n.Out {
			if j, ok := idx[e.Callee.Func]; ok && !seen[j] {
				seen[j] = true
				adj[i] = append(adj[i], j)
				if j == i {
					self[i] = true
				}
			}
		}
		// closures created by f are treated as called by f
		for _, an := range f.AnonFuncs {
			if j, ok := idx[an]; ok && !seen[j] {
				seen[j] = true
				adj[i] = append(adj[i], j)
			}
		}
	}
	// Tarjan
	index := 0
	ids := make([]int, len(funcs))
	low := make([]int, len(funcs))
	on := make([]bool, len(funcs))
	for i := range ids {
		ids[i] = -1
	}
	var stack []int
	var out [][]*ssa.Function
	var strong func(v int)
	strong = func(v int) {
		ids[v], low[v] = index, index
		index++
		stack = append(stack, v)
		on[v] = true
		for _, w := range adj[v] {
			if ids[w] < 0 {
				strong(w)
				if low[w] < low[v] {
					low[v] = low[w]
				}
			} else if on[w] && ids[w] < low[v] {
				low[v] = ids[w]
			}
		}
		if low[v] == ids[v] {
			var comp []*ssa.Function
			for {
				w := stack[len(stack)-1]
				stack = stack[:len(stack)-1]
				on[w] = false
				comp = append(comp, funcs[w])
				if w == v {
					break
				}
			}
			if len(comp) > 1 || self[v] {
				sort.Slice(comp, func(i, j int) bool { return FuncName(comp[i]) < FuncName(comp[j]) })
				out = append(out, comp)
			}
		}
	}
	for v := range funcs {
		if ids[v] < 0 {
			strong(v)
		}
	}
	sort.Slice(out, func(i, j int) bool { return FuncName(out[i][0]) < FuncName(out[j][0]) })
	return out
}
