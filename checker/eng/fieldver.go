package eng

import (
	"fmt"
	"go/token"
	"sort"
	"strings"

	"golang.org/x/tools/go/ssa"
)

// FieldVersions is a per-function reaching-definitions analysis for struct fields that are read and written
// through one base pointer (the cursor of a hand-written parser: p.pos). Two loads of the same field with the same
// set of reaching definitions, one dominating the other, have the same value; a load reached by exactly one store
// has the value stored. Calls that receive the base pointer are definitions of every field (they may move the cursor).
type FieldVersions struct {
	fn   *ssa.Function
	defs map[string][]ssa.Instruction                // field key -> defining instructions (stores, clobbering calls)
	in   map[string]map[*ssa.BasicBlock]map[int]bool // field key -> block -> reaching def ids at block entry (-1 = value at function entry)
}

// fieldKey names the location a FieldAddr chain denotes: "<root>.f.g" with the root parameter/free variable.
func fieldKey(addr ssa.Value) (string, ssa.Value, bool) {
	var path []string
	v := addr
	for i := 0; i < 6; i++ {
		fa, ok := v.(*ssa.FieldAddr)
		if !ok {
			break
		}
		fr, ok := AsField(fa)
		if !ok {
			return "", nil, false
		}
		path = append([]string{fr.Field}, path...)
		v = fa.X
		// a load of a pointer field on the way (p.lexer.pos) is not followed: keep to one base
	}
	if len(path) == 0 {
		return "", nil, false
	}
	switch r := v.(type) {
	case *ssa.Parameter:
		return r.Name() + "." + strings.Join(path, "."), r, true
	case *ssa.FreeVar:
		return r.Name() + "." + strings.Join(path, "."), r, true
	}
	return "", nil, false
}

func NewFieldVersions(fn *ssa.Function) *FieldVersions {
	fv := &FieldVersions{fn: fn, defs: map[string][]ssa.Instruction{}, in: map[string]map[*ssa.BasicBlock]map[int]bool{}}
	keys := map[string]ssa.Value{}
	for _, b := range fn.Blocks {
		for _, in := range b.Instrs {
			if st, ok := in.(*ssa.Store); ok {
				if k, root, ok := fieldKey(st.Addr); ok {
					keys[k] = root
				}
			}
			if u, ok := in.(*ssa.UnOp); ok && u.Op == token.MUL {
				if k, root, ok := fieldKey(u.X); ok {
					keys[k] = root
				}
			}
		}
	}
	for k, root := range keys {
		var defs []ssa.Instruction
		for _, b := range fn.Blocks {
			for _, in := range b.Instrs {
				switch x := in.(type) {
				case *ssa.Store:
					if k2, _, ok := fieldKey(x.Addr); ok && k2 == k {
						defs = append(defs, in)
					}
				case ssa.CallInstruction:
					for _, a := range x.Common().Args {
						if a == root {
							defs = append(defs, in)
							break
						}
					}
					if x.Common().IsInvoke() && x.Common().Value == root {
						defs = append(defs, in)
					}
				}
			}
		}
		fv.defs[k] = defs
		id := map[ssa.Instruction]int{}
		for i, d := range defs {
			id[d] = i
		}
		// block transfer
		lastDef := map[*ssa.BasicBlock]int{}
		for _, b := range fn.Blocks {
			lastDef[b] = -2
			for _, in := range b.Instrs {
				if i, ok := id[in]; ok {
					lastDef[b] = i
				}
			}
		}
		in := map[*ssa.BasicBlock]map[int]bool{}
		out := map[*ssa.BasicBlock]map[int]bool{}
		for _, b := range fn.Blocks {
			in[b] = map[int]bool{}
			out[b] = map[int]bool{}
		}
		if len(fn.Blocks) > 0 {
			in[fn.Blocks[0]][-1] = true
		}
		for changed := true; changed; {
			changed = false
			for _, b := range fn.Blocks {
				for _, p := range b.Preds {
					for d := range out[p] {
						if !in[b][d] {
							in[b][d] = true
							changed = true
						}
					}
				}
				var o map[int]bool
				if lastDef[b] >= 0 {
					o = map[int]bool{lastDef[b]: true}
				} else {
					o = in[b]
				}
				for d := range o {
					if !out[b][d] {
						out[b][d] = true
						changed = true
					}
				}
				if lastDef[b] >= 0 && len(out[b]) != 1 {
					out[b] = map[int]bool{lastDef[b]: true}
				}
			}
		}
		fv.in[k] = in
	}
	return fv
}

// At returns the reaching definitions of the field read by load (ids into the definition list, -1 = entry value).
func (fv *FieldVersions) At(load *ssa.UnOp) (key string, ids []int, ok bool) {
	k, _, ok := fieldKey(load.X)
	if !ok {
		return "", nil, false
	}
	b := load.Block()
	cur := map[int]bool{}
	for d := range fv.in[k][b] {
		cur[d] = true
	}
	id := map[ssa.Instruction]int{}
	for i, d := range fv.defs[k] {
		id[d] = i
	}
	for _, in := range b.Instrs {
		if in == ssa.Instruction(load) {
			break
		}
		if i, isDef := id[in]; isDef {
			cur = map[int]bool{i: true}
		}
	}
	for d := range cur {
		ids = append(ids, d)
	}
	sort.Ints(ids)
	return k, ids, true
}

// Leaf is an IntPoly leaf function that names field loads by location and version, and replaces a load reached by a
// single store by the polynomial of the stored value (p.pos++ then p.pos reads as old+1).
func (fv *FieldVersions) Leaf() func(ssa.Value) (*Poly, bool) {
	var leaf func(v ssa.Value) (*Poly, bool)
	depth := 0
	leaf = func(v ssa.Value) (*Poly, bool) {
		u, ok := v.(*ssa.UnOp)
		if !ok || u.Op != token.MUL {
			return nil, false
		}
		k, ids, ok := fv.At(u)
		if !ok {
			return nil, false
		}
		if len(ids) == 1 && ids[0] >= 0 && depth < 6 {
			if st, ok := fv.defs[k][ids[0]].(*ssa.Store); ok {
				depth++
				p, ok := IntPoly(st.Val, leaf)
				depth--
				if ok {
					return p, true
				}
			}
		}
		return PSym(fmt.Sprintf("%s#%v", k, ids)), true
	}
	return leaf
}
