package eng

import (
	"go/token"
	"strings"

	"golang.org/x/tools/go/ssa"
)

// IntPoly reduces an integer-valued SSA expression to a polynomial over symbols:
// parameters are named by their source name, len(x) becomes "len(x)", calls to a
// module function named abs become "abs(<canonical inner polynomial>)" (sign
// normalised), and leaf decides everything else (loop phis, loads). ok=false if
// some sub-expression is neither interpretable nor accepted by leaf.
func IntPoly(v ssa.Value, leaf func(ssa.Value) (*Poly, bool)) (*Poly, bool) {
	switch x := v.(type) {
	case *ssa.Const:
		if k, ok := ConstInt(x); ok {
			return PConst(k), true
		}
		return nil, false
	case *ssa.Parameter:
		if leaf != nil {
			if p, ok := leaf(x); ok {
				return p, true
			}
		}
		return PSym(x.Name()), true
	case *ssa.Convert:
		return IntPoly(x.X, leaf)
	case *ssa.ChangeType:
		return IntPoly(x.X, leaf)
	case *ssa.BinOp:
		a, oka := IntPoly(x.X, leaf)
		b, okb := IntPoly(x.Y, leaf)
		if !oka || !okb {
			return nil, false
		}
		switch x.Op {
		case token.ADD:
			return a.Add(b), true
		case token.SUB:
			return a.Sub(b), true
		case token.MUL:
			return a.Mul(b), true
		}
		if leaf != nil {
			return leaf(x)
		}
		return nil, false
	case *ssa.UnOp:
		if x.Op == token.SUB {
			a, ok := IntPoly(x.X, leaf)
			if !ok {
				return nil, false
			}
			return a.Neg(), true
		}
	case *ssa.Phi:
		// the absolute value written out:  v := x; if v < 0 { v = -v }
		if inner, ok := inlineAbs(x); ok {
			in, ok := IntPoly(inner, leaf)
			if ok {
				return PSym("abs(" + canonAbs(in) + ")"), true
			}
		}
	case *ssa.Call:
		if b, ok := x.Call.Value.(*ssa.Builtin); ok && b.Name() == "len" && len(x.Call.Args) == 1 {
			if leaf != nil {
				if p, ok := leaf(x); ok {
					return p, true
				}
			}
			if n := valueName(x.Call.Args[0]); n != "" {
				return PSym("len(" + n + ")"), true
			}
		}
		if f := x.Call.StaticCallee(); f != nil && InModule(f) && f.Name() == "abs" && len(x.Call.Args) == 1 {
			in, ok := IntPoly(x.Call.Args[0], leaf)
			if !ok {
				return nil, false
			}
			return PSym("abs(" + canonAbs(in) + ")"), true
		}
	}
	if leaf != nil {
		return leaf(v)
	}
	return nil, false
}

// canonAbs renders |p| canonically: p and -p give the same string.
func canonAbs(p *Poly) string {
	a, b := p.String(), p.Neg().String()
	if strings.HasPrefix(a, "-") && !strings.HasPrefix(b, "-") {
		return b
	}
	if strings.HasPrefix(b, "-") && !strings.HasPrefix(a, "-") {
		return a
	}
	if a < b {
		return a
	}
	return b
}

func valueName(v ssa.Value) string {
	switch x := v.(type) {
	case *ssa.Parameter:
		return x.Name()
	case *ssa.Phi:
		if x.Comment != "" {
			return x.Comment
		}
	case *ssa.Alloc:
		return x.Comment
	case *ssa.UnOp:
		if x.Op == token.MUL {
			if fr, ok := AsField(x.X); ok {
				return fr.Field
			}
			return valueName(x.X)
		}
	case *ssa.Slice:
		return valueName(x.X)
	case *ssa.Call:
		return x.Name()
	case *ssa.MakeSlice:
		return x.Name()
	}
	return ""
}

// SliceBase follows re-slicing (x[lo:hi]) back to the underlying value and
// accumulates the low offsets as a polynomial.
func SliceBase(v ssa.Value, leaf func(ssa.Value) (*Poly, bool)) (base ssa.Value, off *Poly, ok bool) {
	off = PConst(0)
	for i := 0; i < 8; i++ {
		s, isSlice := v.(*ssa.Slice)
		if !isSlice {
			return v, off, true
		}
		if s.Low != nil {
			lo, ok := IntPoly(s.Low, leaf)
			if !ok {
				return nil, nil, false
			}
			off = off.Add(lo)
		}
		v = s.X
	}
	return v, off, true
}

// inlineAbs recognises phi(x, -x) where the negated edge is taken exactly when x < 0 (or x <= 0): |x|.
func inlineAbs(ph *ssa.Phi) (ssa.Value, bool) {
	if len(ph.Edges) != 2 {
		return nil, false
	}
	for i := 0; i < 2; i++ {
		neg, isNeg := ph.Edges[i].(*ssa.UnOp)
		if !isNeg || neg.Op != token.SUB || neg.X != ph.Edges[1-i] {
			continue
		}
		x := neg.X
		negBlk := ph.Block().Preds[i]
		// negBlk is entered only from a test  x < 0  (true edge)
		if len(negBlk.Preds) != 1 {
			continue
		}
		tb := negBlk.Preds[0]
		iff, ok := tb.Instrs[len(tb.Instrs)-1].(*ssa.If)
		if !ok || len(tb.Succs) != 2 {
			continue
		}
		cmp, ok := iff.Cond.(*ssa.BinOp)
		if !ok {
			continue
		}
		zero := func(v ssa.Value) bool { k, ok := ConstInt(v); return ok && k == 0 }
		onTrue := tb.Succs[0] == negBlk
		switch {
		case (cmp.Op == token.LSS || cmp.Op == token.LEQ) && cmp.X == x && zero(cmp.Y) && onTrue,
			(cmp.Op == token.GTR || cmp.Op == token.GEQ) && cmp.Y == x && zero(cmp.X) && onTrue,
			(cmp.Op == token.GEQ || cmp.Op == token.GTR) && cmp.X == x && zero(cmp.Y) && !onTrue,
			(cmp.Op == token.LEQ || cmp.Op == token.LSS) && cmp.Y == x && zero(cmp.X) && !onTrue:
			return x, true
		}
	}
	return nil, false
}
