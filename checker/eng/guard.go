package eng

import (
	"go/constant"
	"go/token"
	"go/types"

	"golang.org/x/tools/go/ssa"
)

// Edge is one CFG edge out of a conditional block.
type Edge struct {
	From *ssa.BasicBlock
	Succ int // index into From.Succs
	// implied, when set, replaces the branch condition: MustCross presents every
	// fact implied by a real edge (operands of a short-circuit value) as such a
	// pseudo edge, so predicates written against EdgeFact see them too.
	implied *Fact
}

// Fact is what is known to hold when an edge is taken: the condition value Cond
// evaluates to Pos. Negations (!x) are peeled so Cond is never a NOT.
type Fact struct {
	Cond ssa.Value
	Pos  bool
}

// EdgeFact returns the fact established by taking edge e, if From ends in an If.
func EdgeFact(e Edge) (Fact, bool) {
	if e.implied != nil {
		return *e.implied, true
	}
	b := e.From
	if len(b.Instrs) == 0 {
		return Fact{}, false
	}
	ifi, ok := b.Instrs[len(b.Instrs)-1].(*ssa.If)
	if !ok {
		return Fact{}, false
	}
	if len(b.Succs) == 2 && b.Succs[0] == b.Succs[1] {
		return Fact{}, false
	}
	pos := e.Succ == 0
	cond := ifi.Cond
	for {
		if u, ok := cond.(*ssa.UnOp); ok && u.Op == token.NOT {
			cond = u.X
			pos = !pos
			continue
		}
		break
	}
	return Fact{Cond: cond, Pos: pos}, true
}

// Cmp returns the comparison that holds given the fact, normalised so that a
// negative fact flips the operator ( !(a<b) => a>=b ).
func (f Fact) Cmp() (op token.Token, x, y ssa.Value, ok bool) {
	b, isBin := f.Cond.(*ssa.BinOp)
	if !isBin {
		return token.ILLEGAL, nil, nil, false
	}
	op = b.Op
	switch op {
	case token.EQL, token.NEQ, token.LSS, token.LEQ, token.GTR, token.GEQ:
	default:
		return token.ILLEGAL, nil, nil, false
	}
	if !f.Pos {
		op = negate(op)
	}
	return op, b.X, b.Y, true
}

func negate(op token.Token) token.Token {
	switch op {
	case token.EQL:
		return token.NEQ
	case token.NEQ:
		return token.EQL
	case token.LSS:
		return token.GEQ
	case token.LEQ:
		return token.GTR
	case token.GTR:
		return token.LEQ
	case token.GEQ:
		return token.LSS
	}
	return op
}

// Swap returns the operator with operands exchanged (a<b == b>a).
func Swap(op token.Token) token.Token {
	switch op {
	case token.LSS:
		return token.GTR
	case token.LEQ:
		return token.GEQ
	case token.GTR:
		return token.LSS
	case token.GEQ:
		return token.LEQ
	}
	return op
}

// MustCross computes, for every block of fn, whether every path from the entry
// to the *start* of the block crosses at least one edge satisfying sat after the
// last block for which kill returns true (kill may be nil). It is a forward
// must-analysis solved to its greatest fixpoint.
func MustCross(fn *ssa.Function, sat func(Edge) bool, kill func(*ssa.BasicBlock) bool) map[*ssa.BasicBlock]bool {
	in := map[*ssa.BasicBlock]bool{}
	for _, b := range fn.Blocks {
		in[b] = true
	}
	if len(fn.Blocks) == 0 {
		return in
	}
	in[fn.Blocks[0]] = false
	if fn.Recover != nil {
		in[fn.Recover] = false
	}
	satCache := map[Edge]bool{}
	esat := func(e Edge) bool {
		if v, ok := satCache[e]; ok {
			return v
		}
		v := sat(e)
		if !v {
			if fs := EdgeFacts(e); len(fs) > 1 {
				for i := range fs[1:] {
					if sat(Edge{From: e.From, Succ: e.Succ, implied: &fs[1+i]}) {
						v = true
						break
					}
				}
			}
		}
		satCache[e] = v
		return v
	}
	changed := true
	for changed {
		changed = false
		for _, b := range fn.Blocks {
			if b == fn.Blocks[0] || b == fn.Recover {
				continue
			}
			if len(b.Preds) == 0 {
				continue
			}
			v := true
			for _, p := range b.Preds {
				out := in[p]
				if kill != nil && kill(p) {
					out = false
				}
				for i, s := range p.Succs {
					if s != b {
						continue
					}
					if out || esat(Edge{From: p, Succ: i}) {
						continue
					}
					// the branch condition is a merge of conditions computed on the way in
					// (m := a && b; if !m {…}): which operand decided depends on the edge p was entered
					// by, so the test is made per incoming edge
					if (kill == nil || !kill(p)) && phiBranch(p, i, in, esat, sat, kill) {
						continue
					}
					v = false
				}
			}
			if v != in[b] {
				in[b] = v
				changed = true
			}
		}
	}
	return in
}

// phiBranch: block p ends in `if φ` with φ a boolean phi of p. Taking successor i, every way into p either already
// crossed a satisfying edge, or is infeasible for this branch (the operand on that way is the opposite constant), or
// its operand, as the fact it establishes on this branch, satisfies sat.
func phiBranch(p *ssa.BasicBlock, i int, in map[*ssa.BasicBlock]bool, esat func(Edge) bool, sat func(Edge) bool, kill func(*ssa.BasicBlock) bool) bool {
	if len(p.Instrs) == 0 || len(p.Succs) != 2 {
		return false
	}
	ifi, ok := p.Instrs[len(p.Instrs)-1].(*ssa.If)
	if !ok {
		return false
	}
	cond := ifi.Cond
	pos := i == 0
	for {
		u, ok := cond.(*ssa.UnOp)
		if !ok || u.Op != token.NOT {
			break
		}
		cond = u.X
		pos = !pos
	}
	ph, ok := cond.(*ssa.Phi)
	if !ok || ph.Block() != p || len(ph.Edges) != len(p.Preds) {
		return false
	}
	for j, q := range p.Preds {
		if q == p {
			return false
		}
		outq := in[q]
		if kill != nil && kill(q) {
			outq = false
		}
		crossed := outq
		for k, s := range q.Succs {
			if s == p && esat(Edge{From: q, Succ: k}) {
				crossed = true
			}
		}
		if crossed {
			continue
		}
		op := ph.Edges[j]
		if c, isC := op.(*ssa.Const); isC && c.Value != nil && c.Value.Kind() == constant.Bool {
			if constant.BoolVal(c.Value) != pos {
				continue // this way in cannot take this branch
			}
			return false
		}
		f := Fact{Cond: op, Pos: pos}
		// normalise a negated operand
		for {
			u, ok := f.Cond.(*ssa.UnOp)
			if !ok || u.Op != token.NOT {
				break
			}
			f.Cond = u.X
			f.Pos = !f.Pos
		}
		if !sat(Edge{From: p, Succ: i, implied: &f}) {
			return false
		}
	}
	return true
}

// GuardedBy reports whether every path to instruction at (the start of) block b
// crosses an edge whose fact satisfies pred.
func GuardedBy(fn *ssa.Function, b *ssa.BasicBlock, pred func(Fact) bool) bool {
	m := MustCross(fn, func(e Edge) bool { return AnyEdgeFact(e, pred) }, nil)
	return m[b]
}

// AnyEdgeFact reports whether one of the facts implied by taking edge e satisfies pred.
func AnyEdgeFact(e Edge, pred func(Fact) bool) bool {
	for _, f := range EdgeFacts(e) {
		if pred(f) {
			return true
		}
	}
	return false
}

// EdgeFacts returns every fact implied by taking edge e: the branch condition
// itself and, when the condition is the value of a short-circuit expression
// (go/ssa evaluates `a && b` in a tagless switch case, in an assignment or in a
// hoisted boolean as a phi of constants and the last operand), the operands
// that must have held for the phi to have that value.
func EdgeFacts(e Edge) []Fact {
	f, ok := EdgeFact(e)
	if !ok {
		return nil
	}
	return ExpandFact(f)
}

// ExpandFact returns f and the facts it implies (the operands of a short-circuit value).
func ExpandFact(f Fact) []Fact {
	var out []Fact
	seen := map[ssa.Value]bool{}
	var expand func(f Fact, depth int)
	expand = func(f Fact, depth int) {
		out = append(out, f)
		ph, ok := f.Cond.(*ssa.Phi)
		if !ok || seen[ph] || depth > 8 {
			return
		}
		seen[ph] = true
		// phi true with all other inputs constant false (&&), or phi false with all others constant true (||)
		live := -1
		for i, v := range ph.Edges {
			if cst, isC := v.(*ssa.Const); isC && cst.Value != nil && cst.Value.Kind() == constant.Bool && constant.BoolVal(cst.Value) != f.Pos {
				continue
			}
			if live >= 0 {
				return
			}
			live = i
		}
		if live < 0 {
			return
		}
		v := ph.Edges[live]
		pos := f.Pos
		for {
			if u, ok := v.(*ssa.UnOp); ok && u.Op == token.NOT {
				v, pos = u.X, !pos
				continue
			}
			break
		}
		if _, isC := v.(*ssa.Const); !isC {
			expand(Fact{Cond: v, Pos: pos}, depth+1)
		}
		// control reached the phi through that predecessor: the branch edges on the
		// single-predecessor chain leading to it were taken too
		b := ph.Block().Preds[live]
		for steps := 0; steps < 8 && len(b.Preds) == 1; steps++ {
			p := b.Preds[0]
			for si, sc := range p.Succs {
				if sc == b {
					if pf, ok := EdgeFact(Edge{From: p, Succ: si}); ok {
						expand(pf, depth+1)
					}
				}
			}
			b = p
		}
	}
	expand(f, 0)
	return out
}

// Dominates reports whether block a dominates block b.
func Dominates(a, b *ssa.BasicBlock) bool { return a.Dominates(b) }

// InstrDominates reports whether instruction a is executed before b on every path
// reaching b (same function).
func InstrDominates(a, b ssa.Instruction) bool {
	ba, bb := a.Block(), b.Block()
	if ba == nil || bb == nil {
		return false
	}
	if ba != bb {
		return ba.Dominates(bb)
	}
	for _, in := range ba.Instrs {
		if in == a {
			return true
		}
		if in == b {
			return false
		}
	}
	return false
}

// ReachableBlocks returns the blocks reachable from start without entering a
// block for which avoid returns true (start blocks are included even if avoided
// = false only).
func ReachableBlocks(start []*ssa.BasicBlock, avoid func(*ssa.BasicBlock) bool) map[*ssa.BasicBlock]bool {
	seen := map[*ssa.BasicBlock]bool{}
	var stack []*ssa.BasicBlock
	for _, s := range start {
		if avoid != nil && avoid(s) {
			continue
		}
		if !seen[s] {
			seen[s] = true
			stack = append(stack, s)
		}
	}
	for len(stack) > 0 {
		b := stack[len(stack)-1]
		stack = stack[:len(stack)-1]
		for _, s := range b.Succs {
			if seen[s] || (avoid != nil && avoid(s)) {
				continue
			}
			seen[s] = true
			stack = append(stack, s)
		}
	}
	return seen
}

// InLoop reports whether block b lies on a CFG cycle.
func InLoop(b *ssa.BasicBlock) bool {
	r := ReachableBlocks(b.Succs, nil)
	return r[b]
}

// SameValue compares two SSA values for "the same runtime value" modulo the lack
// of CSE in go/ssa: identical values, equal constants, loads of the same field
// path from the same base, len() of the same value.
func SameValue(a, b ssa.Value) bool {
	return sameValue(a, b, 0)
}

func sameValue(a, b ssa.Value, d int) bool {
	if a == b {
		return true
	}
	if a == nil || b == nil || d > 6 {
		return false
	}
	switch x := a.(type) {
	case *ssa.Const:
		y, ok := b.(*ssa.Const)
		if !ok {
			return false
		}
		if x.Value == nil || y.Value == nil {
			return x.Value == nil && y.Value == nil
		}
		return x.Value.ExactString() == y.Value.ExactString()
	case *ssa.UnOp:
		y, ok := b.(*ssa.UnOp)
		return ok && x.Op == y.Op && sameValue(x.X, y.X, d+1)
	case *ssa.FieldAddr:
		y, ok := b.(*ssa.FieldAddr)
		return ok && x.Field == y.Field && sameValue(x.X, y.X, d+1)
	case *ssa.Field:
		y, ok := b.(*ssa.Field)
		return ok && x.Field == y.Field && sameValue(x.X, y.X, d+1)
	case *ssa.Convert:
		y, ok := b.(*ssa.Convert)
		return ok && sameValue(x.X, y.X, d+1)
	case *ssa.ChangeType:
		y, ok := b.(*ssa.ChangeType)
		return ok && sameValue(x.X, y.X, d+1)
	case *ssa.BinOp:
		y, ok := b.(*ssa.BinOp)
		return ok && x.Op == y.Op && sameValue(x.X, y.X, d+1) && sameValue(x.Y, y.Y, d+1)
	case *ssa.Call:
		y, ok := b.(*ssa.Call)
		if !ok {
			return false
		}
		bx, okx := x.Call.Value.(*ssa.Builtin)
		by, oky := y.Call.Value.(*ssa.Builtin)
		if okx && oky && bx.Name() == by.Name() && (bx.Name() == "len" || bx.Name() == "cap") {
			return sameValue(x.Call.Args[0], y.Call.Args[0], d+1)
		}
	case *ssa.IndexAddr:
		y, ok := b.(*ssa.IndexAddr)
		return ok && sameValue(x.X, y.X, d+1) && sameValue(x.Index, y.Index, d+1)
	}
	return false
}

// Induction recognises a +1 induction variable in either loop shape go/ssa emits:
// the header phi itself (for i := 0; …; i++) or the rotated range form
// t = phi(-1, t') ; t' = t + 1 where t' is the value used as index. It returns
// the header phi.
func Induction(v ssa.Value) (*ssa.Phi, bool) {
	isStep := func(ph *ssa.Phi, w ssa.Value) bool {
		b, ok := w.(*ssa.BinOp)
		if !ok || b.Op != token.ADD || b.X != ssa.Value(ph) {
			return false
		}
		k, isC := ConstInt(b.Y)
		return isC && k == 1
	}
	if ph, ok := v.(*ssa.Phi); ok {
		for _, e := range ph.Edges {
			if isStep(ph, e) {
				return ph, true
			}
		}
		return nil, false
	}
	if b, ok := v.(*ssa.BinOp); ok {
		if ph, ok := b.X.(*ssa.Phi); ok && isStep(ph, b) {
			for _, e := range ph.Edges {
				if e == ssa.Value(b) {
					return ph, true
				}
			}
		}
	}
	return nil, false
}

// BoundsPredicate reports whether g is a predicate "index i is valid for slice s": a loop-free boolean function of
// the module whose true result implies params[ii] >= 0 and params[ii] < len(params[si]). It returns the two
// parameter positions.
func BoundsPredicate(g *ssa.Function) (si, ii int, ok bool) {
	if g == nil || g.Blocks == nil || !InModule(g) || g.Signature.Results().Len() != 1 {
		return 0, 0, false
	}
	if bt, isB := g.Signature.Results().At(0).Type().Underlying().(*types.Basic); !isB || bt.Kind() != types.Bool {
		return 0, 0, false
	}
	rets := Returns(g)
	if len(rets) != 1 {
		return 0, 0, false
	}
	facts := ExpandFact(Fact{Cond: rets[0].Results[0], Pos: true})
	pidx := func(v ssa.Value) int {
		for i, p := range g.Params {
			if ssa.Value(p) == v {
				return i
			}
		}
		return -1
	}
	lo := map[int]bool{}
	hi := map[int]int{}
	for _, f := range facts {
		op, x, y, isCmp := f.Cmp()
		if !isCmp {
			continue
		}
		if k, isC := ConstInt(y); isC && pidx(x) >= 0 && ((op == token.GEQ && k >= 0) || (op == token.GTR && k >= -1)) {
			lo[pidx(x)] = true
		}
		if call, isCall := y.(*ssa.Call); isCall && op == token.LSS && pidx(x) >= 0 {
			if b, isBi := call.Call.Value.(*ssa.Builtin); isBi && b.Name() == "len" && pidx(call.Call.Args[0]) >= 0 {
				hi[pidx(x)] = pidx(call.Call.Args[0])
			}
		}
	}
	for i := range lo {
		if s, has := hi[i]; has {
			return s, i, true
		}
	}
	return 0, 0, false
}

// ShrinkingCursor recognises the element access of a loop of the form `for rest := s; len(rest) > 0; rest = rest[1:]`:
// ia is rest[0] where rest is a loop-carried slice whose other edge is rest[1:]. It returns s.
func ShrinkingCursor(ia *ssa.IndexAddr) (ssa.Value, bool) {
	if k, ok := ConstInt(ia.Index); !ok || k != 0 {
		return nil, false
	}
	ph, ok := ia.X.(*ssa.Phi)
	if !ok || len(ph.Edges) != 2 {
		return nil, false
	}
	var base ssa.Value
	step := false
	for _, e := range ph.Edges {
		if sl, ok := e.(*ssa.Slice); ok && sl.X == ssa.Value(ph) && sl.High == nil {
			if k, isC := ConstInt(sl.Low); isC && k == 1 {
				step = true
				continue
			}
		}
		base = e
	}
	if !step || base == nil {
		return nil, false
	}
	return base, true
}
