package eng

import (
	"go/token"
	"go/types"
	"sync"

	"golang.org/x/tools/go/ssa"
)

var mmCache sync.Map

// MinMaxKind is the cached form of the classification below.
func MinMaxKind(fn *ssa.Function) int {
	if v, ok := mmCache.Load(fn); ok {
		return v.(int)
	}
	k := minMaxKindUncached(fn)
	mmCache.Store(fn, k)
	return k
}

// MinMaxKind decides by evaluation over the three orderings of its two
// arguments (a<b, a==b, a>b) whether fn is a two-argument minimum (-1) or
// maximum (+1) helper: a loop-free function that only compares its two
// parameters and returns one of them. 0 when it is neither.
func minMaxKindUncached(fn *ssa.Function) int {
	if fn == nil || len(fn.Blocks) == 0 || len(fn.Blocks) > 8 || len(fn.Params) != 2 || fn.Signature.Results().Len() != 1 {
		return 0
	}
	a, b := ssa.Value(fn.Params[0]), ssa.Value(fn.Params[1])
	if !types.Identical(a.Type(), b.Type()) {
		return 0
	}
	if bt, ok := a.Type().Underlying().(*types.Basic); !ok || bt.Info()&(types.IsInteger|types.IsFloat) == 0 {
		return 0
	}
	// run returns 0 for a, 1 for b, -1 when the function does anything else
	run := func(ord int) int { // ord: -1 a<b, 0 a==b, +1 a>b
		blk, prev := fn.Blocks[0], (*ssa.BasicBlock)(nil)
		for steps := 0; steps < 16; steps++ {
			phis := map[ssa.Value]ssa.Value{}
			for _, in := range blk.Instrs {
				switch x := in.(type) {
				case *ssa.DebugRef:
				case *ssa.Phi:
					for i, p := range blk.Preds {
						if p == prev {
							phis[x] = x.Edges[i]
						}
					}
				case *ssa.BinOp:
				case *ssa.Jump:
					prev, blk = blk, blk.Succs[0]
				case *ssa.If:
					c, ok := x.Cond.(*ssa.BinOp)
					if !ok {
						return -1
					}
					l, r := c.X, c.Y
					o := ord
					switch {
					case l == a && r == b:
					case l == b && r == a:
						o = -ord
					default:
						return -1
					}
					var t bool
					switch c.Op {
					case token.LSS:
						t = o < 0
					case token.LEQ:
						t = o <= 0
					case token.GTR:
						t = o > 0
					case token.GEQ:
						t = o >= 0
					case token.EQL:
						t = o == 0
					case token.NEQ:
						t = o != 0
					default:
						return -1
					}
					prev = blk
					if t {
						blk = blk.Succs[0]
					} else {
						blk = blk.Succs[1]
					}
				case *ssa.Return:
					v := x.Results[0]
					if p, ok := phis[v]; ok {
						v = p
					}
					switch v {
					case a:
						return 0
					case b:
						return 1
					}
					return -1
				default:
					return -1
				}
				if _, isJ := in.(*ssa.Jump); isJ {
					break
				}
				if _, isI := in.(*ssa.If); isI {
					break
				}
			}
		}
		return -1
	}
	lt, eq, gt := run(-1), run(0), run(1)
	if lt < 0 || eq < 0 || gt < 0 {
		return 0
	}
	switch {
	case lt == 0 && gt == 1:
		return -1 // a<b -> a, a>b -> b
	case lt == 1 && gt == 0:
		return 1
	}
	return 0
}

// MinMaxCall recognises v as min(x, y) / max(x, y): the builtins or a module
// helper that minMaxKind classifies.
func MinMaxCall(v ssa.Value) (kind int, args []ssa.Value, ok bool) {
	call, isC := v.(*ssa.Call)
	if !isC || len(call.Call.Args) != 2 {
		return 0, nil, false
	}
	if bi, isB := call.Call.Value.(*ssa.Builtin); isB {
		switch bi.Name() {
		case "min":
			return -1, call.Call.Args, true
		case "max":
			return 1, call.Call.Args, true
		}
		return 0, nil, false
	}
	g := call.Call.StaticCallee()
	if g == nil || !InModule(g) {
		return 0, nil, false
	}
	if k := MinMaxKind(g); k != 0 {
		return k, call.Call.Args, true
	}
	return 0, nil, false
}
