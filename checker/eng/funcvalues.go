package eng

import (
	"go/token"
	"go/types"
	"strings"
	"sync"

	"golang.org/x/tools/go/ssa"
	"golang.org/x/tools/go/ssa/ssautil"
)

// FuncValues resolves a function-typed value to the functions it can be: a function or closure literal, the
// results of a factory of the module (a strategy chosen once and returned as a function value), a local variable
// or a struct field of function type (all stores to that field in its package), a method value. complete is
// false when some source cannot be resolved (a parameter, a value from outside the module).
func FuncValues(v ssa.Value) (fns []*ssa.Function, complete bool) {
	seen := map[ssa.Value]bool{}
	complete = true
	add := func(f *ssa.Function) {
		// a method value (x.m) is a closure over a synthetic wrapper: what is called is the method
		if f != nil && strings.HasPrefix(f.Synthetic, "bound method wrapper") {
			Instrs(f, false, func(in ssa.Instruction) {
				if ci, ok := in.(ssa.CallInstruction); ok {
					if g := ci.Common().StaticCallee(); g != nil {
						f = g
					}
				}
			})
		}
		for _, g := range fns {
			if g == f {
				return
			}
		}
		fns = append(fns, f)
	}
	var walk func(v ssa.Value, depth int)
	walk = func(v ssa.Value, depth int) {
		if v == nil || seen[v] {
			return
		}
		seen[v] = true
		if depth > 6 {
			complete = false
			return
		}
		switch x := v.(type) {
		case *ssa.Function:
			add(x)
		case *ssa.MakeClosure:
			if f, ok := x.Fn.(*ssa.Function); ok {
				add(f)
			}
		case *ssa.ChangeType:
			walk(x.X, depth)
		case *ssa.Phi:
			for _, e := range x.Edges {
				walk(e, depth)
			}
		case *ssa.Const:
			// nil function value: nothing to call
		case *ssa.Extract:
			if call, ok := x.Tuple.(*ssa.Call); ok {
				walkResults(call, x.Index, depth, walk, &complete)
			} else if lk, ok := x.Tuple.(*ssa.Lookup); ok && x.Index == 0 {
				walk(lk, depth)
			} else {
				complete = false
			}
		case *ssa.Lookup:
			// an entry of a table of functions: a map made in this function (every value put into it), or a
			// read-only package-level map literal
			switch m := x.X.(type) {
			case *ssa.MakeMap:
				n := 0
				for _, r := range *m.Referrers() {
					if mu, ok := r.(*ssa.MapUpdate); ok && mu.Map == ssa.Value(m) {
						n++
						walk(mu.Value, depth+1)
					}
				}
				if n == 0 {
					complete = false
				}
			case *ssa.UnOp:
				if g, ok := m.X.(*ssa.Global); ok {
					if strs, ints, ok := GlobalMapEntries(g); ok {
						for _, v := range strs {
							walk(v, depth+1)
						}
						for _, v := range ints {
							walk(v, depth+1)
						}
						return
					}
				}
				complete = false
			default:
				complete = false
			}
		case *ssa.Call:
			walkResults(x, 0, depth, walk, &complete)
		case *ssa.UnOp:
			if x.Op != token.MUL {
				complete = false
				return
			}
			switch a := x.X.(type) {
			case *ssa.Alloc:
				n := 0
				for _, r := range *a.Referrers() {
					if st, ok := r.(*ssa.Store); ok && st.Addr == ssa.Value(a) {
						n++
						walk(st.Val, depth+1)
					}
				}
				if n == 0 {
					complete = false
				}
			case *ssa.FreeVar:
				// the captured cell of the enclosing function
				anon := a.Parent()
				if anon == nil || anon.Parent() == nil {
					complete = false
					return
				}
				idx := -1
				for i, fv := range anon.FreeVars {
					if fv == a {
						idx = i
					}
				}
				found := false
				Instrs(anon.Parent(), true, func(in ssa.Instruction) {
					mc, ok := in.(*ssa.MakeClosure)
					if !ok || mc.Fn != ssa.Value(anon) || idx < 0 || idx >= len(mc.Bindings) {
						return
					}
					if cell, ok := mc.Bindings[idx].(*ssa.Alloc); ok {
						for _, r := range *cell.Referrers() {
							if st, ok := r.(*ssa.Store); ok && st.Addr == ssa.Value(cell) {
								found = true
								walk(st.Val, depth+1)
							}
						}
					}
				})
				if !found {
					complete = false
				}
			case *ssa.FieldAddr:
				stores := fieldStoresInPkg(a)
				if len(stores) == 0 {
					complete = false
				}
				for _, st := range stores {
					walk(st.Val, depth+1)
				}
			default:
				complete = false
			}
		case *ssa.Field:
			// a field of a struct value (a strategy struct passed by value): every store to that field in the package
			if st, ok := x.X.Type().Underlying().(*types.Struct); ok && x.Parent() != nil {
				stores := fieldStoresOfStruct(st, x.Field, x.Parent())
				if len(stores) == 0 {
					complete = false
				}
				for _, s := range stores {
					walk(s.Val, depth+1)
				}
			} else {
				complete = false
			}
		case *ssa.FreeVar:
			complete = false
		default:
			complete = false
		}
	}
	walk(v, 0)
	return fns, complete
}

func walkResults(call *ssa.Call, idx int, depth int, walk func(ssa.Value, int), complete *bool) {
	g := StaticCallee(call)
	if g == nil || g.Blocks == nil || !InModule(g) {
		*complete = false
		return
	}
	n := 0
	for _, r := range Returns(g) {
		rv := ReturnValues(r)
		if idx < len(rv) {
			n++
			walk(rv[idx], depth+1)
		}
	}
	if n == 0 {
		*complete = false
	}
}

var fieldStoreCache sync.Map

type fieldStoreKey struct {
	st  *types.Struct
	idx int
	pkg *ssa.Package
}

// fieldStoresInPkg lists the stores to the struct field addressed by fa anywhere in the package of fa.
func fieldStoresInPkg(fa *ssa.FieldAddr) []*ssa.Store {
	fn := fa.Parent()
	if fn == nil || fn.Pkg == nil {
		return nil
	}
	pt, ok := fa.X.Type().Underlying().(*types.Pointer)
	if !ok {
		return nil
	}
	st, ok := pt.Elem().Underlying().(*types.Struct)
	if !ok {
		return nil
	}
	return fieldStoresOfStruct(st, fa.Field, fn)
}

func fieldStoresOfStruct(st *types.Struct, field int, fn *ssa.Function) []*ssa.Store {
	if fn == nil || fn.Pkg == nil {
		return nil
	}
	fa := struct{ Field int }{field}
	key := fieldStoreKey{st, fa.Field, fn.Pkg}
	if v, ok := fieldStoreCache.Load(key); ok {
		return v.([]*ssa.Store)
	}
	var out []*ssa.Store
	for f := range ssautil.AllFunctions(fn.Prog) {
		if f.Pkg != fn.Pkg {
			continue
		}
		Instrs(f, false, func(in ssa.Instruction) {
			s, ok := in.(*ssa.Store)
			if !ok {
				return
			}
			a, ok := s.Addr.(*ssa.FieldAddr)
			if !ok || a.Field != fa.Field {
				return
			}
			if p2, ok := a.X.Type().Underlying().(*types.Pointer); ok && p2.Elem().Underlying() == types.Type(st) {
				out = append(out, s)
			}
		})
	}
	fieldStoreCache.Store(key, out)
	return out
}

// DynCallees resolves a call that is not static (a function value) to the module functions it can reach.
// ok is false when the value cannot be resolved completely.
func DynCallees(c ssa.CallInstruction) ([]*ssa.Function, bool) {
	if f := StaticCallee(c); f != nil {
		return []*ssa.Function{f}, true
	}
	cc := c.Common()
	if cc.IsInvoke() {
		return nil, false
	}
	fns, complete := FuncValues(cc.Value)
	return fns, complete && len(fns) > 0
}

// FieldStoresInPkg is the exported form of fieldStoresInPkg.
func FieldStoresInPkg(fa *ssa.FieldAddr) []*ssa.Store { return fieldStoresInPkg(fa) }
