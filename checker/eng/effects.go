package eng

import (
	"fmt"
	"go/token"
	"go/types"
	"strings"
	"sync"

	"golang.org/x/tools/go/ssa"
)

// Root describes where a reference value comes from.
type Root struct {
	Global *ssa.Global
	Param  int // -1 if none
	Alloc  ssa.Value
}

// Effects holds whole-module write summaries (E6), solved to a fixpoint:
//
//	WritesParam[f][i] : f (or a callee) stores through memory reachable from parameter i
//	ReturnsGlobal[f]  : some result of f is rooted at a package-level variable
type Effects struct {
	p             *Prog
	WritesParam   map[*ssa.Function]map[int]bool
	ReturnsGlobal map[*ssa.Function]*ssa.Global
	Writes        []GlobalWrite
}

// GlobalWrite is one write to memory rooted at a package-level variable.
type GlobalWrite struct {
	Fn   *ssa.Function
	Pos  token.Pos
	Glob *ssa.Global
	How  string
}

var effOnce sync.Map // *Prog -> *Effects

// EffectsOf computes (once per program) the write summaries.
func EffectsOf(p *Prog) *Effects {
	if e, ok := effOnce.Load(p); ok {
		return e.(*Effects)
	}
	e := &Effects{p: p, WritesParam: map[*ssa.Function]map[int]bool{}, ReturnsGlobal: map[*ssa.Function]*ssa.Global{}}
	for i := 0; i < 30 && e.scan(false); i++ {
	}
	e.scan(true)
	effOnce.Store(p, e)
	return e
}

func isRefT(t types.Type) bool {
	switch t.Underlying().(type) {
	case *types.Pointer, *types.Slice, *types.Map, *types.Interface, *types.Chan, *types.Signature:
		return true
	}
	return false
}

// RootOf walks an address/reference value back to the package-level variable,
// parameter or local allocation it is derived from.
func (e *Effects) RootOf(v ssa.Value) Root {
	return e.rootOf(v, 0, map[ssa.Value]bool{})
}

func (e *Effects) rootOf(v ssa.Value, depth int, seen map[ssa.Value]bool) Root {
	none := Root{Param: -1}
	if v == nil || depth > 40 || seen[v] {
		return none
	}
	seen[v] = true
	switch x := v.(type) {
	case *ssa.Global:
		if x.Pkg != nil && strings.HasPrefix(x.Pkg.Pkg.Path(), ModPath) {
			return Root{Global: x, Param: -1}
		}
		return none
	case *ssa.Parameter:
		for i, q := range x.Parent().Params {
			if q == x && isRefT(x.Type()) {
				return Root{Param: i}
			}
		}
		return none
	case *ssa.Alloc:
		return Root{Param: -1, Alloc: x}
	case *ssa.MakeSlice:
		return Root{Param: -1, Alloc: x}
	case *ssa.MakeMap:
		return Root{Param: -1, Alloc: x}
	case *ssa.FieldAddr:
		return e.rootOf(x.X, depth+1, seen)
	case *ssa.IndexAddr:
		return e.rootOf(x.X, depth+1, seen)
	case *ssa.Slice:
		return e.rootOf(x.X, depth+1, seen)
	case *ssa.UnOp:
		if x.Op == token.MUL && isRefT(x.Type()) {
			return e.rootOf(x.X, depth+1, seen)
		}
		return none
	case *ssa.Field:
		if isRefT(x.Type()) {
			return e.rootOf(x.X, depth+1, seen)
		}
		return none
	case *ssa.Lookup:
		if isRefT(x.Type()) {
			return e.rootOf(x.X, depth+1, seen)
		}
		return none
	case *ssa.Extract:
		if isRefT(x.Type()) {
			return e.rootOf(x.Tuple, depth+1, seen)
		}
		return none
	case *ssa.ChangeType:
		return e.rootOf(x.X, depth+1, seen)
	case *ssa.Convert:
		return e.rootOf(x.X, depth+1, seen)
	case *ssa.MakeInterface:
		return e.rootOf(x.X, depth+1, seen)
	case *ssa.TypeAssert:
		return e.rootOf(x.X, depth+1, seen)
	case *ssa.Phi:
		for _, ed := range x.Edges {
			if r := e.rootOf(ed, depth+1, seen); r.Global != nil || r.Param >= 0 {
				return r
			}
		}
		return none
	case *ssa.Call:
		for _, cal := range e.p.Callees(x) {
			if g := e.ReturnsGlobal[cal]; g != nil {
				return Root{Global: g, Param: -1}
			}
		}
		// append(x, …) may write into x's backing array and returns memory rooted at x
		if b, ok := x.Call.Value.(*ssa.Builtin); ok && b.Name() == "append" && len(x.Call.Args) > 0 {
			return e.rootOf(x.Call.Args[0], depth+1, seen)
		}
		return none
	}
	return none
}

func (e *Effects) scan(record bool) bool {
	changed := false
	if record {
		e.Writes = nil
	}
	for _, fn := range e.p.ModuleFuncs() {
		note := func(r Root, pos token.Pos, how string) {
			if r.Param >= 0 {
				if e.WritesParam[fn] == nil {
					e.WritesParam[fn] = map[int]bool{}
				}
				if !e.WritesParam[fn][r.Param] {
					e.WritesParam[fn][r.Param] = true
					changed = true
				}
			}
			if r.Global != nil && record {
				e.Writes = append(e.Writes, GlobalWrite{fn, pos, r.Global, how})
			}
		}
		for _, b := range fn.Blocks {
			for _, in := range b.Instrs {
				switch x := in.(type) {
				case *ssa.Store:
					note(e.RootOf(x.Addr), x.Pos(), "store")
				case *ssa.MapUpdate:
					note(e.RootOf(x.Map), x.Pos(), "map update")
				case ssa.CallInstruction:
					cc := x.Common()
					if bi, ok := cc.Value.(*ssa.Builtin); ok {
						switch bi.Name() {
						case "copy", "delete", "clear":
							if len(cc.Args) > 0 {
								note(e.RootOf(cc.Args[0]), x.Pos(), bi.Name())
							}
						case "append":
							// appending onto a shortened re-slice (x[:0], x[:k]) writes into x's backing array
							if len(cc.Args) > 0 {
								if sl := ShortenedSlice(cc.Args[0]); sl != nil {
									note(e.RootOf(sl.X), x.Pos(), "append onto a shortened re-slice (overwrites the backing array)")
								}
							}
						}
						continue
					}
					// the address of package-level storage handed to code outside the module
					// (sync.Pool.Get/Put, sync.Map.Store, bytes.Buffer.Write, atomic.Add…): the
					// callee may mutate it. Values merely loaded from a global (a *regexp.Regexp)
					// are not addresses of package storage and are not flagged here.
					if f := cc.StaticCallee(); f != nil && !InModule(f) && record {
						args := cc.Args
						for _, a := range args {
							if g := addrOfGlobal(a); g != nil && !readOnlyExternal[FuncName(f)] {
								e.Writes = append(e.Writes, GlobalWrite{fn, x.Pos(), g, "address passed to " + FuncName(f) + ", which may mutate it"})
							}
						}
					}
					for _, cal := range e.p.Callees(x) {
						wp := e.WritesParam[cal]
						if len(wp) == 0 {
							continue
						}
						args := cc.Args
						if cc.IsInvoke() {
							args = append([]ssa.Value{cc.Value}, cc.Args...)
						}
						for i, a := range args {
							if wp[i] {
								note(e.RootOf(a), x.Pos(), "call "+FuncName(cal)+" which writes through parameter "+fmt.Sprint(i))
							}
						}
					}
				}
			}
		}
		for _, r := range Returns(fn) {
			for _, res := range r.Results {
				if ri := e.RootOf(res); ri.Global != nil && e.ReturnsGlobal[fn] == nil {
					e.ReturnsGlobal[fn] = ri.Global
					changed = true
				}
			}
		}
	}
	return changed
}

// ShortenedSlice: v is (through phis and earlier appends) a re-slice x[:k] of some x, so that an append onto it
// overwrites elements of x's backing array.
func ShortenedSlice(v ssa.Value) *ssa.Slice {
	seen := map[ssa.Value]bool{}
	var walk func(v ssa.Value, depth int) *ssa.Slice
	walk = func(v ssa.Value, depth int) *ssa.Slice {
		if v == nil || seen[v] || depth > 8 {
			return nil
		}
		seen[v] = true
		switch x := v.(type) {
		case *ssa.Slice:
			if x.High != nil {
				if _, isArr := x.X.Type().Underlying().(*types.Pointer); !isArr {
					return x
				}
			}
			return nil
		case *ssa.Phi:
			for _, ed := range x.Edges {
				if s := walk(ed, depth+1); s != nil {
					return s
				}
			}
		case *ssa.Call:
			if b, ok := x.Call.Value.(*ssa.Builtin); ok && b.Name() == "append" && len(x.Call.Args) > 0 {
				return walk(x.Call.Args[0], depth+1)
			}
		}
		return nil
	}
	return walk(v, 0)
}

// WritesThrough lists the places where fn itself (or a callee summary) writes
// through memory rooted at its parameter idx.
func (e *Effects) WritesThrough(fn *ssa.Function, idx int) []string {
	var out []string
	for _, b := range fn.Blocks {
		for _, in := range b.Instrs {
			switch x := in.(type) {
			case *ssa.Store:
				if r := e.RootOf(x.Addr); r.Param == idx {
					out = append(out, e.p.Pos(x.Pos())+" store")
				}
			case *ssa.MapUpdate:
				if r := e.RootOf(x.Map); r.Param == idx {
					out = append(out, e.p.Pos(x.Pos())+" map update")
				}
			case ssa.CallInstruction:
				cc := x.Common()
				if bi, ok := cc.Value.(*ssa.Builtin); ok {
					switch bi.Name() {
					case "copy", "delete", "clear":
						if len(cc.Args) > 0 && e.RootOf(cc.Args[0]).Param == idx {
							out = append(out, e.p.Pos(x.Pos())+" "+bi.Name())
						}
					case "append":
						if len(cc.Args) > 0 && e.RootOf(cc.Args[0]).Param == idx {
							out = append(out, e.p.Pos(x.Pos())+" append onto a slice owned by the receiver (may write into its backing array)")
						}
					}
					continue
				}
				for _, cal := range e.p.Callees(x) {
					wp := e.WritesParam[cal]
					args := cc.Args
					if cc.IsInvoke() {
						args = append([]ssa.Value{cc.Value}, cc.Args...)
					}
					for i, a := range args {
						if wp[i] && e.RootOf(a).Param == idx {
							out = append(out, e.p.Pos(x.Pos())+" call "+FuncName(cal)+" writes through it")
						}
					}
				}
			}
		}
	}
	return out
}

// readOnlyExternal lists external functions known not to mutate a receiver/argument
// whose address is taken from package-level storage.
var readOnlyExternal = map[string]bool{
	"sync.(*Once).Do": false,
	// a pool hands out and takes back scratch objects; it is safe for concurrent use and carries no result from one
	// call to the next as long as nothing taken from it escapes (rule R3.13 checks that)
	"sync.(*Pool).Get": true,
	"sync.(*Pool).Put": true,
}

// addrOfGlobal: v is the address of a module package-level variable or of a
// field/element inside it (no load in between).
func addrOfGlobal(v ssa.Value) *ssa.Global {
	for i := 0; i < 6; i++ {
		switch x := v.(type) {
		case *ssa.Global:
			if x.Pkg != nil && strings.HasPrefix(x.Pkg.Pkg.Path(), ModPath) {
				return x
			}
			return nil
		case *ssa.FieldAddr:
			v = x.X
		case *ssa.IndexAddr:
			v = x.X
		default:
			return nil
		}
	}
	return nil
}
