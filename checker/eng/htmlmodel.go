package eng

import (
	"bytes"
	"go/types"

	"golang.org/x/net/html"
)

// htmlTree parses the bytes with golang.org/x/net/html (the library's behaviour, not the repository's) and builds the
// node tree as evaluator values of the library's Node type, so that the repository's walk over it can be evaluated.
func htmlTree(nodePtrT types.Type, data []byte) (any, *EvalError) {
	pt, ok := nodePtrT.Underlying().(*types.Pointer)
	if !ok {
		return nil, notEval("html.Parse does not return a pointer")
	}
	nodeT := pt.Elem()
	st, ok := nodeT.Underlying().(*types.Struct)
	if !ok {
		return nil, notEval("html.Node is not a struct")
	}
	root, err := html.Parse(bytes.NewReader(data))
	if err != nil {
		return ETuple{nil, &EErr{Msg: err.Error()}}, nil
	}
	idx := map[string]int{}
	for i := 0; i < st.NumFields(); i++ {
		idx[st.Field(i).Name()] = i
	}
	for _, f := range []string{"Parent", "FirstChild", "LastChild", "PrevSibling", "NextSibling", "Type", "DataAtom", "Data", "Namespace", "Attr"} {
		if _, ok := idx[f]; !ok {
			return nil, notEval("html.Node has no field %s", f)
		}
	}
	attrT := st.Field(idx["Attr"]).Type().Underlying().(*types.Slice).Elem()
	ptrs := map[*html.Node]*EPtr{}
	vals := map[*html.Node]*EStruct{}
	var build func(n *html.Node)
	build = func(n *html.Node) {
		v := ZeroOf(nodeT).(*EStruct)
		loc := &ELoc{V: v}
		ptrs[n] = &EPtr{Get: func() any { return loc.V }, Set: func(x any) { loc.V = x }, Loc: loc}
		vals[n] = v
		for ch := n.FirstChild; ch != nil; ch = ch.NextSibling {
			build(ch)
		}
	}
	build(root)
	ref := func(n *html.Node) any {
		if n == nil {
			return nil
		}
		return ptrs[n]
	}
	for n, v := range vals {
		v.F[idx["Parent"]] = ref(n.Parent)
		v.F[idx["FirstChild"]] = ref(n.FirstChild)
		v.F[idx["LastChild"]] = ref(n.LastChild)
		v.F[idx["PrevSibling"]] = ref(n.PrevSibling)
		v.F[idx["NextSibling"]] = ref(n.NextSibling)
		v.F[idx["Type"]] = int64(n.Type)
		v.F[idx["DataAtom"]] = int64(n.DataAtom)
		v.F[idx["Data"]] = n.Data
		v.F[idx["Namespace"]] = n.Namespace
		var attrs []any
		for _, a := range n.Attr {
			av := ZeroOf(attrT).(*EStruct)
			SetField(av, attrT, "Namespace", a.Namespace)
			SetField(av, attrT, "Key", a.Key)
			SetField(av, attrT, "Val", a.Val)
			attrs = append(attrs, av)
		}
		v.F[idx["Attr"]] = SliceOf(attrs...)
	}
	return ETuple{ptrs[root], nil}, nil
}
