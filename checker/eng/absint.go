package eng

import (
	"fmt"
	"go/constant"
	"go/token"
	"go/types"
	"math/big"
	"strings"

	"golang.org/x/tools/go/ssa"
)

// E3: polynomial value numbering of straight-line SSA. Values are trees whose
// numeric leaves are polynomials (Poly) in symbols naming pre-state cells and
// parameters; non-numeric leaves are atoms compared by name. No path conditions,
// no solver: single-block functions only (callees are inlined up to a depth).

// Node is an abstract value (struct / array / scalar leaf).
type Node struct {
	Typ    types.Type
	Leaf   *Poly   // numeric leaf
	Atom   string  // non-numeric leaf (string, slice, pointer, interface…) identified by name
	Kids   []*Node // struct fields or array elements
	Opaque string  // non-empty: value could not be interpreted (reason)
}

// Ptr is an abstract pointer to (a sub-tree of) an abstract object.
type Ptr struct{ Target *Node }

func isNumeric(t types.Type) bool {
	b, ok := t.Underlying().(*types.Basic)
	return ok && b.Info()&(types.IsInteger|types.IsFloat) != 0
}

// NewSym builds the symbolic pre-state value of type t named name.
func NewSym(t types.Type, name string) *Node {
	n := &Node{Typ: t}
	switch u := t.Underlying().(type) {
	case *types.Struct:
		for i := 0; i < u.NumFields(); i++ {
			n.Kids = append(n.Kids, NewSym(u.Field(i).Type(), name+"."+u.Field(i).Name()))
		}
	case *types.Array:
		for i := int64(0); i < u.Len(); i++ {
			n.Kids = append(n.Kids, NewSym(u.Elem(), fmt.Sprintf("%s[%d]", name, i)))
		}
	default:
		if isNumeric(t) {
			n.Leaf = PSym(name)
		} else {
			n.Atom = name
		}
	}
	return n
}

// NewZero builds the zero value of type t.
func NewZero(t types.Type) *Node {
	n := &Node{Typ: t}
	switch u := t.Underlying().(type) {
	case *types.Struct:
		for i := 0; i < u.NumFields(); i++ {
			n.Kids = append(n.Kids, NewZero(u.Field(i).Type()))
		}
	case *types.Array:
		for i := int64(0); i < u.Len(); i++ {
			n.Kids = append(n.Kids, NewZero(u.Elem()))
		}
	default:
		if isNumeric(t) {
			n.Leaf = PConst(0)
		} else {
			n.Atom = "zero"
		}
	}
	return n
}

// Copy returns a deep copy.
func (n *Node) Copy() *Node {
	if n == nil {
		return nil
	}
	c := &Node{Typ: n.Typ, Leaf: n.Leaf, Atom: n.Atom, Opaque: n.Opaque}
	for _, k := range n.Kids {
		c.Kids = append(c.Kids, k.Copy())
	}
	return c
}

// assign overwrites dst in place (keeping the identity of dst and its children so
// that pointers into dst observe the new value).
func assign(dst, src *Node) {
	if len(dst.Kids) > 0 && len(dst.Kids) == len(src.Kids) {
		dst.Leaf, dst.Atom, dst.Opaque = nil, "", src.Opaque
		for i := range dst.Kids {
			assign(dst.Kids[i], src.Kids[i])
		}
		return
	}
	dst.Leaf, dst.Atom, dst.Opaque = src.Leaf, src.Atom, src.Opaque
	dst.Kids = nil
	for _, k := range src.Kids {
		dst.Kids = append(dst.Kids, k.Copy())
	}
}

func opaqueNode(t types.Type, why string) *Node { return &Node{Typ: t, Opaque: why} }

// Diff compares two value trees and reports the first differences as
// "path: got X, want Y".
func Diff(got, want *Node, path string, out *[]string) {
	if got == nil || want == nil {
		*out = append(*out, path+": missing value")
		return
	}
	if got.Opaque != "" {
		*out = append(*out, fmt.Sprintf("%s: not interpretable (%s)", path, got.Opaque))
		return
	}
	if len(want.Kids) > 0 || len(got.Kids) > 0 {
		if len(want.Kids) != len(got.Kids) {
			*out = append(*out, path+": shape differs")
			return
		}
		for i := range want.Kids {
			Diff(got.Kids[i], want.Kids[i], fmt.Sprintf("%s%s", path, kidName(want.Typ, i)), out)
		}
		return
	}
	if want.Leaf != nil {
		if got.Leaf == nil || !got.Leaf.Equal(want.Leaf) {
			g := "<non-numeric>"
			if got.Leaf != nil {
				g = got.Leaf.String()
			}
			*out = append(*out, fmt.Sprintf("%s: got %s, specified %s", path, g, want.Leaf.String()))
		}
		return
	}
	if got.Atom != want.Atom {
		*out = append(*out, fmt.Sprintf("%s: got %q, specified %q", path, got.Atom, want.Atom))
	}
}

func kidName(t types.Type, i int) string {
	if t == nil {
		return fmt.Sprintf("[%d]", i)
	}
	switch u := t.Underlying().(type) {
	case *types.Struct:
		return "." + u.Field(i).Name()
	}
	return fmt.Sprintf("[%d]", i)
}

// At navigates a value tree by field names / indices ("Text.TextMatrix", "CTM").
func (n *Node) At(path string) *Node {
	cur := n
	for _, part := range strings.Split(path, ".") {
		if cur == nil {
			return nil
		}
		st, ok := cur.Typ.Underlying().(*types.Struct)
		if !ok {
			return nil
		}
		found := false
		for i := 0; i < st.NumFields(); i++ {
			if st.Field(i).Name() == part {
				cur = cur.Kids[i]
				found = true
				break
			}
		}
		if !found {
			return nil
		}
	}
	return cur
}

// Interp evaluates single-block functions.
type Interp struct {
	MaxDepth int
	Trace    []string // callees inlined
	// Path, when set, is one entry-to-return path through the blocks of the top-level
	// function (which must be loop-free): the blocks are interpreted in that order, phis
	// take the value of the edge they were entered by, and an equality test `sym == const`
	// that the path takes on its true side is recorded in Subst (the identity then only
	// has to hold with that value substituted). No solver is involved: a path is a
	// straight-line program and the guards are used as constant substitutions only.
	Path  []*ssa.BasicBlock
	Subst map[string]*big.Rat
}

// SubstAll applies constant substitutions to every numeric leaf of the tree.
func (n *Node) SubstAll(m map[string]*big.Rat) {
	if n == nil {
		return
	}
	if n.Leaf != nil {
		for name, r := range m {
			n.Leaf = n.Leaf.Subst(name, PRat(r))
		}
	}
	for _, k := range n.Kids {
		k.SubstAll(m)
	}
}

// AcyclicPaths enumerates the entry-to-return block paths of a loop-free function
// (nil if the CFG has a cycle or more than limit paths).
func AcyclicPaths(fn *ssa.Function, limit int) [][]*ssa.BasicBlock {
	if len(fn.Blocks) == 0 {
		return nil
	}
	var out [][]*ssa.BasicBlock
	onPath := map[*ssa.BasicBlock]bool{}
	cyclic := false
	var walk func(b *ssa.BasicBlock, path []*ssa.BasicBlock)
	walk = func(b *ssa.BasicBlock, path []*ssa.BasicBlock) {
		if cyclic || len(out) > limit {
			return
		}
		if onPath[b] {
			cyclic = true
			return
		}
		onPath[b] = true
		path = append(path, b)
		if len(b.Succs) == 0 {
			if len(b.Instrs) > 0 {
				if _, isRet := b.Instrs[len(b.Instrs)-1].(*ssa.Return); isRet {
					out = append(out, append([]*ssa.BasicBlock(nil), path...))
				}
			}
		}
		for _, s := range b.Succs {
			walk(s, path)
		}
		onPath[b] = false
	}
	walk(fn.Blocks[0], nil)
	if cyclic || len(out) > limit {
		return nil
	}
	return out
}

// Eval runs fn on the given argument values (each *Node or *Ptr) and returns the
// result values. ok=false means the function is outside the interpreted fragment.
func (it *Interp) Eval(fn *ssa.Function, args []any, depth int) (rets []any, ok bool, why string) {
	if fn == nil || len(fn.Blocks) == 0 {
		return nil, false, "no body"
	}
	if depth > it.MaxDepth {
		return nil, false, "inlining depth exceeded at " + FuncName(fn)
	}
	blocks := fn.Blocks[:1]
	if depth == 0 && it.Path != nil && len(it.Path) > 0 && it.Path[0].Parent() == fn {
		blocks = it.Path
		if it.Subst == nil {
			it.Subst = map[string]*big.Rat{}
		}
	} else if len(fn.Blocks) != 1 {
		return nil, false, fmt.Sprintf("%s has %d basic blocks (branches/loops are outside the straight-line fragment)", FuncName(fn), len(fn.Blocks))
	}
	if len(args) != len(fn.Params) {
		return nil, false, "arity mismatch"
	}
	env := map[ssa.Value]any{}
	for i, p := range fn.Params {
		env[p] = args[i]
	}
	val := func(v ssa.Value) any {
		if c, ok := v.(*ssa.Const); ok {
			return constNode(c)
		}
		if x, ok := env[v]; ok {
			return x
		}
		return opaqueNode(v.Type(), "unknown value "+v.Name())
	}
	num := func(v ssa.Value) (*Poly, bool) {
		n, ok := val(v).(*Node)
		if !ok || n.Leaf == nil || n.Opaque != "" {
			return nil, false
		}
		return n.Leaf, true
	}
	var instrs []ssa.Instruction
	prevOf := map[ssa.Instruction]*ssa.BasicBlock{}
	nextOf := map[ssa.Instruction]*ssa.BasicBlock{}
	for bi, b := range blocks {
		for _, in := range b.Instrs {
			instrs = append(instrs, in)
			if bi > 0 {
				prevOf[in] = blocks[bi-1]
			}
			if bi+1 < len(blocks) {
				nextOf[in] = blocks[bi+1]
			}
		}
	}
	for _, in := range instrs {
		switch x := in.(type) {
		case *ssa.DebugRef:
		case *ssa.Jump:
		case *ssa.Phi:
			prev := prevOf[in]
			env[x] = opaqueNode(x.Type(), "phi")
			for i, p := range x.Block().Preds {
				if p == prev && i < len(x.Edges) {
					env[x] = val(x.Edges[i])
				}
			}
		case *ssa.If:
			next := nextOf[in]
			if b, ok := x.Cond.(*ssa.BinOp); ok && (b.Op == token.EQL || b.Op == token.NEQ) && next != nil {
				taken := (b.Op == token.EQL && next == x.Block().Succs[0]) || (b.Op == token.NEQ && next == x.Block().Succs[1])
				if taken && x.Block().Succs[0] != x.Block().Succs[1] {
					pa, oka := num(b.X)
					pb, okb := num(b.Y)
					if oka && okb {
						if cst, isC := pb.IsConst(); isC {
							if syms := pa.Symbols(); len(syms) == 1 && pa.Equal(PSym(syms[0])) {
								it.Subst[syms[0]] = cst
							}
						} else if cst, isC := pa.IsConst(); isC {
							if syms := pb.Symbols(); len(syms) == 1 && pb.Equal(PSym(syms[0])) {
								it.Subst[syms[0]] = cst
							}
						}
					}
				}
			}
		case *ssa.Alloc:
			pt := x.Type().Underlying().(*types.Pointer)
			env[x] = &Ptr{Target: NewZero(pt.Elem())}
		case *ssa.FieldAddr:
			p, ok := val(x.X).(*Ptr)
			if !ok || x.Field >= len(p.Target.Kids) {
				env[x] = opaqueNode(x.Type(), "field address of non-pointer")
				continue
			}
			env[x] = &Ptr{Target: p.Target.Kids[x.Field]}
		case *ssa.IndexAddr:
			p, ok := val(x.X).(*Ptr)
			idx, isC := ConstInt(x.Index)
			if !ok || !isC || int(idx) >= len(p.Target.Kids) || idx < 0 {
				env[x] = opaqueNode(x.Type(), "index address with non-constant index or non-array base")
				continue
			}
			env[x] = &Ptr{Target: p.Target.Kids[idx]}
		case *ssa.Store:
			p, ok := val(x.Addr).(*Ptr)
			if !ok {
				return nil, false, "store through uninterpreted address in " + FuncName(fn)
			}
			switch s := val(x.Val).(type) {
			case *Node:
				assign(p.Target, s)
			case *Ptr:
				p.Target.Leaf, p.Target.Kids, p.Target.Atom = nil, nil, fmt.Sprintf("ptr:%p", s.Target)
			}
		case *ssa.UnOp:
			switch x.Op {
			case token.MUL:
				if p, ok := val(x.X).(*Ptr); ok {
					env[x] = p.Target.Copy()
				} else {
					env[x] = opaqueNode(x.Type(), "load through uninterpreted pointer")
				}
			case token.SUB:
				if p, ok := num(x.X); ok {
					env[x] = &Node{Typ: x.Type(), Leaf: p.Neg()}
				} else {
					env[x] = opaqueNode(x.Type(), "negation of non-numeric")
				}
			default:
				env[x] = opaqueNode(x.Type(), "unary "+x.Op.String())
			}
		case *ssa.BinOp:
			a, oka := num(x.X)
			b, okb := num(x.Y)
			if !oka || !okb {
				env[x] = opaqueNode(x.Type(), "operand of "+x.Op.String()+" not numeric")
				continue
			}
			switch x.Op {
			case token.ADD:
				env[x] = &Node{Typ: x.Type(), Leaf: a.Add(b)}
			case token.SUB:
				env[x] = &Node{Typ: x.Type(), Leaf: a.Sub(b)}
			case token.MUL:
				env[x] = &Node{Typ: x.Type(), Leaf: a.Mul(b)}
			case token.QUO:
				if c, isC := b.IsConst(); isC && c.Sign() != 0 && isFloat(x.Type()) {
					env[x] = &Node{Typ: x.Type(), Leaf: a.Mul(PRat(new(big.Rat).Inv(c)))}
				} else {
					env[x] = opaqueNode(x.Type(), "division by a non-constant")
				}
			default:
				env[x] = opaqueNode(x.Type(), "binary "+x.Op.String())
			}
		case *ssa.Convert:
			if p, ok := num(x.X); ok && (isFloat(x.Type()) || !isFloat(x.X.Type())) {
				env[x] = &Node{Typ: x.Type(), Leaf: p}
			} else {
				env[x] = opaqueNode(x.Type(), "conversion")
			}
		case *ssa.ChangeType:
			if n, ok := val(x.X).(*Node); ok {
				c := n.Copy()
				c.Typ = x.Type()
				env[x] = c
			} else {
				env[x] = val(x.X)
			}
		case *ssa.Field:
			if n, ok := val(x.X).(*Node); ok && x.Field < len(n.Kids) {
				env[x] = n.Kids[x.Field].Copy()
			} else {
				env[x] = opaqueNode(x.Type(), "field of uninterpreted value")
			}
		case *ssa.Index:
			n, ok := val(x.X).(*Node)
			idx, isC := ConstInt(x.Index)
			if ok && isC && idx >= 0 && int(idx) < len(n.Kids) {
				env[x] = n.Kids[idx].Copy()
			} else {
				env[x] = opaqueNode(x.Type(), "index of uninterpreted value")
			}
		case *ssa.Extract:
			if t, ok := env[x.Tuple].([]any); ok && x.Index < len(t) {
				env[x] = t[x.Index]
			} else {
				env[x] = opaqueNode(x.Type(), "extract from uninterpreted call")
			}
		case *ssa.Call:
			callee := x.Call.StaticCallee()
			// absolute value (math.Abs or a module helper named abs): an uninterpreted function symbol of its
			// argument polynomial. |p| is not a polynomial, so a cell specified as a polynomial (e.g. -ty) that
			// holds abs(...) differs from the specification (they disagree wherever the argument changes sign).
			if callee != nil && len(x.Call.Args) == 1 && (callee.Name() == "abs" && InModule(callee) || CalleeName(x) == "math.Abs") {
				if p, ok := num(x.Call.Args[0]); ok {
					env[x] = &Node{Typ: x.Type(), Leaf: PSym("abs(" + canonAbs(p) + ")")}
					continue
				}
			}
			if callee == nil || !InModule(callee) || callee.Blocks == nil {
				name := CalleeName(x)
				env[x] = opaqueNode(x.Type(), "call to "+name)
				continue
			}
			var cargs []any
			for _, a := range x.Call.Args {
				cargs = append(cargs, val(a))
			}
			it.Trace = append(it.Trace, FuncName(callee))
			rs, ok, why := it.Eval(callee, cargs, depth+1)
			if !ok {
				return nil, false, why
			}
			switch len(rs) {
			case 0:
			case 1:
				env[x] = rs[0]
			default:
				env[x] = rs
			}
		case *ssa.Return:
			for _, r := range x.Results {
				rets = append(rets, val(r))
			}
			return rets, true, ""
		case *ssa.MakeInterface, *ssa.Slice, *ssa.MakeSlice, *ssa.Lookup, *ssa.TypeAssert, *ssa.MakeMap, *ssa.MakeClosure:
			v := in.(ssa.Value)
			env[v] = opaqueNode(v.Type(), fmt.Sprintf("%T", in))
		default:
			return nil, false, fmt.Sprintf("instruction %T outside the interpreted fragment in %s", in, FuncName(fn))
		}
	}
	return rets, true, ""
}

func isFloat(t types.Type) bool {
	b, ok := t.Underlying().(*types.Basic)
	return ok && b.Info()&types.IsFloat != 0
}

func constNode(c *ssa.Const) *Node {
	if c.Value != nil && isNumeric(c.Type()) {
		switch c.Value.Kind() {
		case constant.Int, constant.Float:
			if r, ok := new(big.Rat).SetString(c.Value.ExactString()); ok {
				return &Node{Typ: c.Type(), Leaf: PRat(r)}
			}
		}
	}
	if c.Value == nil {
		// zero value of aggregates (e.g. Matrix{} literal folded to a constant)
		switch c.Type().Underlying().(type) {
		case *types.Struct, *types.Array:
			return NewZero(c.Type())
		}
		return &Node{Typ: c.Type(), Atom: "zero"}
	}
	return &Node{Typ: c.Type(), Atom: "const:" + c.Value.ExactString()}
}
